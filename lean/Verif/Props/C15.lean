/-
  C15 — failures are contained.  Fault logic of a fix pass, temporary files, and what a killed
  write-back leaves in the target.
-/
import Verif.Model.FixSched
import Verif.Model.CrashFS
import Verif.Model.ExitCode
import Verif.Gen.ExitTable
namespace Verif.Props.C15
open Verif.Model.FixSched Verif.Model.CrashFS

/-- A pass cut short by an exception never writes the target (whatever it recorded before). -/
theorem fault_never_writes_target (tokFix lineFix : Bool) (f : Fault) :
    targetWritten (passOps tokFix lineFix (some f)) = false := by
  cases tokFix <;> cases lineFix <;> cases f <;> simp [passOps, targetWritten]

/-- Any failing file makes the whole run a SYSTEM_ERROR — never SUCCESS, never FIXED. -/
theorem fault_is_system_error (o : Verif.Model.ExitCode.Obs) (hl : o.listOnly = false)
    (hd : o.discoverError = false) (hf : o.anyFail = true) :
    Verif.Gen.ExitTable.flow.finalResult o = .systemError := by
  rcases o with ⟨a, b, c, d, e, f⟩
  simp only at hl hd hf; subst hl hd hf
  cases b <;> cases e <;> cases f <;> decide

/-- Fault-free passes leave no temporary file (`no_temp_left` — partial: fault-free only). -/
theorem no_temp_left_partial (tokFix lineFix : Bool) : tempsLeft (passOps tokFix lineFix none) = (0, 0) := by
  cases tokFix <;> cases lineFix <;> simp [passOps, tempsLeft]

/-- …but a fault in the line phase leaves the line-phase temp file (and the token-phase one if
token fixes were made); a parser fault during the rescan leaves the token-phase one: the code has
no `finally` around these phases. -/
theorem temp_leak_witness :
    tempsLeft (passOps false false (some .linePhase)) = (0, 1) ∧
    tempsLeft (passOps true false (some .linePhase)) = (1, 1) ∧
    tempsLeft (passOps true false (some .rescan)) = (1, 0) := by decide

/-- Faults before any temp file exists leak nothing. -/
theorem early_fault_no_leak (lineFix : Bool) :
    tempsLeft (passOps false lineFix (some .tokenPhase)) = (0, 0) ∧
    tempsLeft (passOps true lineFix (some .apply)) = (0, 0) := by
  cases lineFix <;> decide

/-! ### Killed during write-back -/

theorem apply_intact_of_not_trunc (total : Nat) (t : Target) (s : Step) (hs : s ≠ .openTrunc) (ht : Intact t) :
    Intact (apply total t s) := by
  cases s <;> cases t <;> simp_all [apply, Intact]

/-- write-to-sibling + rename: at every kill point the target is the old or the new content. -/
theorem rename_protocol_atomic (total k : Nat) : Intact (crashAt total k (renameProtocol total)) := by
  unfold crashAt
  have hmem : ∀ s ∈ (renameProtocol total).take k, s ≠ Step.openTrunc := by
    intro s hs
    have := List.mem_of_mem_take hs
    simp only [renameProtocol, List.mem_append, List.mem_replicate, List.mem_singleton] at this
    rcases this with ⟨_, rfl⟩ | rfl <;> simp
  generalize (renameProtocol total).take k = l at hmem
  have : ∀ (l : List Step) (t : Target), (∀ s ∈ l, s ≠ Step.openTrunc) → Intact t → Intact (l.foldl (apply total) t) := by
    intro l
    induction l with
    | nil => intro t _ h; exact h
    | cons s l ih =>
      intro t hm ht
      exact ih _ (fun s' hs' => hm s' (List.mem_cons_of_mem _ hs'))
        (apply_intact_of_not_trunc total t s (hm s List.mem_cons_self) ht)
  exact this l .old hmem trivial

/-- `shutil.copyfile` (open-truncate, copy, close): for any non-empty new content there is a kill
point — right after the open — at which the target is neither the old nor the new content. -/
theorem copy_protocol_not_atomic (total : Nat) (h : 0 < total) :
    ∃ k, ¬ Intact (crashAt total k (copyProtocol total)) := by
  refine ⟨1, ?_⟩
  simp only [crashAt, copyProtocol, List.cons_append, List.nil_append, List.take_succ_cons, List.take_zero,
    List.foldl_cons, List.foldl_nil, apply]
  have : total ≠ 0 := by omega
  simp [this, Intact]

theorem chunks_complete (total : Nat) : ∀ (m n : Nat), 0 < m → n + m = total →
    (List.replicate m Step.writeChunk).foldl (apply total) (.partialNew n) = .new
  | 1, n, _, h => by
    simp only [List.replicate, List.foldl_cons, List.foldl_nil, apply]
    have : n + 1 ≥ total := by omega
    simp [this]
  | m + 2, n, _, h => by
    simp only [List.replicate, List.foldl_cons, apply]
    have : ¬ (n + 1 ≥ total) := by omega
    simp only [this, if_false]
    exact chunks_complete total (m + 1) (n + 1) (by omega) (by omega)

theorem new_stays (total : Nat) : ∀ (l : List Step), (∀ s ∈ l, s = .writeChunk ∨ s = .close) →
    l.foldl (apply total) .new = .new
  | [], _ => rfl
  | s :: l, h => by
    simp only [List.foldl_cons]
    rcases h s List.mem_cons_self with rfl | rfl <;> simp only [apply] <;>
      exact new_stays total l (fun s' hs' => h s' (List.mem_cons_of_mem _ hs'))

/-- …and once the copy has completed the target is the new content. -/
theorem copy_protocol_completes (total : Nat) :
    crashAt total (total + 2) (copyProtocol total) = .new := by
  have hlen : (copyProtocol total).length = total + 2 := by simp [copyProtocol]
  unfold crashAt
  rw [← hlen, List.take_length]
  simp only [copyProtocol, List.cons_append, List.nil_append, List.foldl_cons, List.foldl_append, List.foldl_nil, apply]
  by_cases h0 : total = 0
  · subst h0; simp
  · simp only [h0, if_false]
    rw [chunks_complete total total 0 (by omega) (by omega)]

end Verif.Props.C15
