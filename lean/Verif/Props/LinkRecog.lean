/-
  LinkRecog — the LINK-part recognisers of pymarkdown (inline link destination / title / label / body, link reference
  definition pieces): index safety and progress (C01), conformance with the CommonMark 0.31 definitions (C03), and
  losslessness of the raw pieces the Markdown regenerator re-assembles (C02).

  Models: Verif/Model/LinkRecog.lean (faithful, function by function; driver `verifdrv linkrecog`, tied to the real code by
  tools/linkrecoglib.py on every run).  Specification: Verif/Model/LeanMark/Text.lean (`scanAngleGo`, `scanRawDestGo`,
  `scanTitleGo`, `scanLabelGo`, `normLabel`), written from the spec text, not from the code.

  What is NOT proved here: the glue around these functions (`look_for_link_formats`' reference forms, the tabified-text
  index translation `__translate_between_strings`, `LinkSearchHelper`); `urllib.parse.quote`, `str.casefold`, `int(x, 16)`
  are modelled and checked against CPython by the correspondence, not derived.
-/
import Verif.Lemmas.LinkRecogValue
import Verif.Model.LeanMark.Inline
namespace Verif.Props.LinkRecog
open Verif.Model.Recognisers Verif.Model.LinkRecog
open Verif.Model.LeanMark (scanAngleGo scanRawDestGo scanTitleGo scanLabelGo scanLabel)

deriving instance DecidableEq for Except

/-! ## (1) totality, index range, progress -/

/-- **Index safety and progress.**  For every string `s` and every start index the callers can pass (stated per
function: `i ≤ len` where the function is entered at an arbitrary position, `i < len` where the caller has just seen a
character at `i` — the backslash, the `&`, the `<`, the `(`), no modelled function raises `IndexError` /
`AssertionError` or loops: it returns (or fails with the *real* `ValueError` of `chr()`, see `value_error_is_real`), the
new index is inside `[start, len]`, and where the function consumed something it is strictly larger than the start —
which is what makes the callers' loops terminate. -/
theorem link_recognisers_total (s : Str) (i : Nat) (cs : Str) (sig colon blank : Bool) (l0 : LHP) :
    (i ≤ s.length → ∃ j part, collectUntilOneOfVerified s i cs = .ok (j, part) ∧ i ≤ j ∧ j ≤ s.length ∧ part = slice s i j) ∧
    (i < s.length → ∃ j t, handleInlineBackslash s i sig = .ok (j, t) ∧ i < j ∧ j ≤ s.length) ∧
    (i < s.length → RefOk s i (handleCharacterReference s i)) ∧
    Safe (handleBackslashes s) ∧
    ReturnsL (encodeLinkDestination s) ∧
    (i < s.length → ∃ r, parseAngleDest s i = .ok r ∧ (r.1 = -1 ∨ ((i : Int) + 2 ≤ r.1 ∧ r.1 ≤ s.length))) ∧
    (i ≤ s.length → ∃ r, parseNonAngleDest s i = .ok r ∧ (r.1 = -1 ∨ ((i : Int) ≤ r.1 ∧ r.1 ≤ s.length))) ∧
    (i ≤ s.length → Safe (parseLinkDestination s i) ∧
      ∀ d, parseLinkDestination s i = .ok d → d.newIndex = -1 ∨ ((i : Int) < d.newIndex ∧ d.newIndex ≤ s.length)) ∧
    (Safe (parseLinkTitle s i) ∧
      ∀ r, parseLinkTitle s i = .ok r → r.2.2.1 = -1 ∨ ((i : Int) < r.2.2.1 ∧ r.2.2.1 ≤ s.length)) ∧
    (i ≤ s.length → ∃ r, extractLinkLabel s i colon = .ok r ∧
      (r.2.1 = -1 ∨ ((i : Int) ≤ r.2.1 ∧ r.2.1 ≤ s.length)) ∧ (r.1 = true → (i : Int) < r.2.1)) ∧
    (i ≤ s.length → Safe (parseInlineLinkProperties s i l0) ∧
      ∀ r, parseInlineLinkProperties s i l0 = .ok r → r.1 = -1 ∨ ((i : Int) ≤ r.1 ∧ r.1 ≤ s.length)) ∧
    (isCharAt s i '(' = true → Safe (processInlineLinkBody s i) ∧
      ∀ r, processInlineLinkBody s i = .ok r → r.1 = -1 ∨ ((i : Int) + 2 ≤ r.1 ∧ r.1 ≤ s.length)) ∧
    (i ≤ s.length → Safe (extractLinkDestination s i blank) ∧ Safe (extractLinkTitle s i blank) ∧
      ReturnsL (verifyLinkDefinitionEnd s i)) := by
  refine ⟨?_, ?_, ?_, handleBackslashes_safe s, encodeLinkDestination_returns s, ?_, ?_, ?_, ?_, ?_, ?_, ?_, ?_⟩
  · intro h
    have hk := brk_le cs (s.drop i)
    simp only [List.length_drop] at hk
    exact ⟨_, _, collectUntilOneOfVerified_eq s i cs h, by omega, by omega, (slice_drop_take s i _).symm⟩
  · intro h
    obtain ⟨ni, ns, e, h1, h2⟩ := handleInlineBackslash_ok s i sig h
    exact ⟨ni, ns, e, h1, h2⟩
  · exact handleCharacterReference_ok s i
  · intro h
    rw [parseAngleDest_eq s i h]
    have hk := angleSpan_le (s.drop (i + 1))
    simp only [List.length_drop] at hk
    refine ⟨_, rfl, ?_⟩
    split
    · next hc => have := isCharAt_true_lt hc; right; simp only; omega
    · left; rfl
  · intro h
    rw [parseNonAngleDest_eq s i h]
    have hk := nonAngleSpan_le (s.drop i)
    simp only [List.length_drop] at hk
    refine ⟨_, rfl, ?_⟩
    split
    · left; rfl
    · right; simp only; omega
  · intro h
    obtain ⟨hs, hd⟩ := parseLinkDestination_spec s i h
    refine ⟨hs, fun d hdd => ?_⟩
    rcases hd d hdd with h1 | ⟨h1, _⟩ | ⟨ni, pre, enc, h1, h2, h3, _⟩
    · left; rw [h1]; rfl
    · left; exact h1
    · right; rw [h1]; simp only; omega
  · obtain ⟨hs, ht⟩ := parseLinkTitle_spec s i
    refine ⟨hs, fun r hr => ?_⟩
    have := ht r hr
    cases this with
    | noTitle => left; rfl
    | unterminated b hlt => right; simp only; omega
    | title n tv raw o c h1 h2 _ _ _ => right; simp only; omega
  · intro h
    obtain ⟨r, hr, ho⟩ := extractLinkLabel_spec s i colon h
    refine ⟨r, hr, ?_⟩
    cases ho with
    | fail => exact ⟨Or.inl rfl, fun hb => by cases hb⟩
    | noEnd n h1 h2 => exact ⟨Or.inr (by simp only; omega), fun hb => by cases hb⟩
    | ok n lab h1 h2 _ _ => exact ⟨Or.inr (by simp only; omega), fun _ => by simp only; omega⟩
  · intro h
    obtain ⟨hs, hp⟩ := parseInlineLinkProperties_spec s i l0 h
    refine ⟨hs, fun r hr => ?_⟩
    have := hp r hr
    cases this with
    | fail l => left; rfl
    | untermTitle l _ => right; simp only; omega
    | ok n l h1 h2 _ _ _ _ => right; simp only; omega
  · intro h
    obtain ⟨hs, hb⟩ := processInlineLinkBody_spec s i h
    refine ⟨hs, fun r hr => ?_⟩
    have := hb r hr
    cases this with
    | fail l => left; rfl
    | ok n l h1 h2 _ _ => right; simp only; omega
  · intro h
    exact ⟨(extractLinkDestination_spec s i blank h).1, (extractLinkTitle_spec s i blank h).1,
      let ⟨r, hr, _⟩ := verifyLinkDefinitionEnd_spec s i h; ⟨r, hr⟩⟩

/-- the link-reference-definition line parser (pure part): never an index / assertion / fuel error, for every line, every
start index and every flag; an accepted definition ends exactly at the end of the text and has a non-empty normalised
label. -/
theorem lrd_total (line : Str) (start : Nat) (ws : Str) (blank inPara : Bool) :
    Safe (parseLinkReferenceDefinition line start ws blank inPara) ∧
    ReturnsL (isLinkReferenceDefinition line start ws inPara) ∧
    ∀ n t, parseLinkReferenceDefinition line start ws blank inPara = .ok (true, n, some t) →
      n = (line.length : Int) ∧ t.newIndex = n ∧ t.normLabel ≠ [] :=
  ⟨(parseLinkReferenceDefinition_spec line start ws blank inPara).1,
   (let ⟨b, hb, _⟩ := isLinkReferenceDefinition_returns line start ws inPara; ⟨b, hb⟩),
   (parseLinkReferenceDefinition_spec line start ws blank inPara).2⟩

/-- the index hypotheses are needed: one past the end every `…_verified` collector asserts (the real functions do the same:
`collect_until_one_of_characters_verified("", 1, ">")` raises `AssertionError`) -/
theorem start_index_hypothesis_needed (s : Str) (cs : Str) :
    collectUntilOneOfVerified s (s.length + 1) cs = .error .assertion :=
  collectUntilOneOfVerified_gt s _ cs (by omega)

/-- without the caller's guard (`s[i] == "<"`) `__parse_angle_link_destination` asserts at the end of the string — the
real function does too -/
example : parseAngleDest [] 0 = .error .assertion := by
  unfold parseAngleDest angleLoop
  rw [collectUntilOneOfVerified_gt [] 1 _ (by decide)]

/-- `handle_backslashes` returns whenever the text has no numeric character reference `&#` … -/
theorem handle_backslashes_returns_partial (s : Str)
    (hno : ∀ i, i + 1 < s.length → ¬ (s[i]? = some '&' ∧ s[i + 1]? = some '#')) : ReturnsL (handleBackslashes s) :=
  hbLoop_returns s hno _ 0 [] (Nat.zero_le _) (by omega)

/-- non-vacuity: `a&b` has a `&` but no `&#` -/
example : ∀ i, i + 1 < ['a', '&', 'b'].length → ¬ (['a', '&', 'b'][i]? = some '&' ∧ ['a', '&', 'b'][i + 1]? = some '#') := by
  intro i hi
  match i, hi with
  | 0, _ => decide
  | 1, _ => decide

/-- … and the hypothesis is needed: `chr()` of a code point above U+10FFFF is a real `ValueError`
(`pymarkdown scan` on a file containing `&#x110000;` ends with "BadTokenizationError"). -/
theorem value_error_is_real : pyChr 0x110000 = .error .value ∧ pyChr 0xD800 = .error .surrogate ∧
    pyInt 16 "110000".toList = 0x110000 := by decide

/-! ## (2) conformance with CommonMark 0.31 (§6.3 link destination, link title, link label)

The specification side is LeanMark's scanners.  Each theorem says: on the stated inputs the real function's model
accepts exactly when the specification does, with the same raw text and the same end index; each is followed by the
witness of a difference outside the stated inputs (a genuine deviation of pymarkdown; the real code is run on these inputs
by tools/linkrecoglib.py). -/

/-- **`<…>` destinations** agree with the specification whenever the bracketed text has no unescaped `<`. -/
theorem dest_angle_spec (s : Str) (i : Nat) (ha : isCharAt s i '<' = true)
    (hno : unescLt (angleTake (s.drop (i + 1))) = false) :
    match scanAngleGo (s.drop (i + 1)) [] false with
    | some (raw, n) =>
        ValueErr (parseLinkDestination s i) ∨
        ∃ enc, parseLinkDestination s i = .ok ⟨some enc, some raw, ((i + 1 + n : Nat) : Int), some (slice s i (i + 1 + n)), some true⟩
    | none => ∃ d, parseLinkDestination s i = .ok d ∧ d.newIndex = -1 :=
  dest_angle_conforms s i ha hno

/-- non-vacuity: `<b\>c>` has no unescaped `<`, and is accepted by both -/
example : unescLt (angleTake "b\\>c>".toList) = false ∧ scanAngleGo "b\\>c>".toList [] false = some ("b\\>c".toList, 5) := by decide

/-- … and not otherwise: `<b<c>` is no destination for the specification ("no … unescaped `<`"), pymarkdown takes
`b<c` (`[a](<b<c>)` becomes a link to `b%3Cc`). -/
theorem dest_angle_differs :
    scanAngleGo "b<c>".toList [] false = none ∧ parseAngleDest "<b<c>".toList 0 = .ok (5, "b<c".toList) := by
  refine ⟨by decide, ?_⟩
  rw [parseAngleDest_eq _ _ (by decide)]
  decide

/-- **Bare destinations** agree with the specification whenever no backslash is followed by a space or control character
(other than a newline) inside the text pymarkdown walks over. -/
theorem dest_raw_spec (s : Str) (i : Nat) (h : i ≤ s.length) (ha : isCharAt s i '<' = false)
    (hno : bsCtl ((s.drop i).take (rawSpan 0 (s.drop i)).1) = false) :
    match scanRawDestGo (s.drop i) 0 0 false with
    | some n =>
        if n = 0 then ∃ d, parseLinkDestination s i = .ok d ∧ d.newIndex = -1
        else ValueErr (parseLinkDestination s i) ∨
          ∃ enc, parseLinkDestination s i = .ok ⟨some enc, some ((s.drop i).take n), ((i + n : Nat) : Int), some (slice s i (i + n)), some false⟩
    | none => ∃ d, parseLinkDestination s i = .ok d ∧ d.newIndex = -1 :=
  dest_raw_conforms s i h ha hno

/-- non-vacuity: in `a\) b` the backslash escapes punctuation: accepted by both with the same length -/
example : bsCtl ("a\\) b".toList.take (rawSpan 0 "a\\) b".toList).1) = false ∧
    scanRawDestGo "a\\) b".toList 0 0 false = some 3 ∧ (rawSpan 0 "a\\) b".toList) = (3, 0) := by decide

/-- … and not otherwise: `handle_inline_backslash` consumes the character after a backslash whatever it is, so in
`/u\ x` the space becomes part of the destination (5 characters); the specification ends the destination after the
backslash (3 characters): `[a](/u\ "t")` is a link to `/u%5C%20%22t%22` without title instead of `/u%5C` with title `t`. -/
theorem dest_raw_differs :
    scanRawDestGo "/u\\ x".toList 0 0 false = some 3 ∧
    parseNonAngleDest "/u\\ x".toList 0 = .ok (5, some "/u\\ x".toList) := by
  refine ⟨by decide, ?_⟩
  rw [parseNonAngleDest_eq _ _ (by decide)]
  decide

/-- **Quoted titles** agree with the specification on every input. -/
theorem title_quote_spec (s : Str) (i : Nat) (o : Char) (ho : o = '\'' ∨ o = '"') (h : isCharAt s i o = true) :
    extractBoundedString s (i + 1) o none =
      .ok (match scanTitleGo o false (s.drop (i + 1)) [] false with
           | some (raw, n) => (i + 1 + n, some raw)
           | none => (s.length, none)) :=
  title_quote_conforms s i o ho h

/-- **Parenthesised titles** agree with the specification whenever the text pymarkdown walks over has no unescaped `(`. -/
theorem title_paren_spec (s : Str) (i : Nat) (h : isCharAt s i '(' = true)
    (hno : unescOpen (titleTake (some '(') ')' (s.drop (i + 1))) = false) :
    extractBoundedString s (i + 1) ')' (some '(') =
      .ok (match scanTitleGo ')' true (s.drop (i + 1)) [] false with
           | some (raw, n) => (i + 1 + n, some raw)
           | none => (s.length, none)) :=
  title_paren_conforms s i h hno

/-- non-vacuity: `(\(b)` -/
example : unescOpen (titleTake (some '(') ')' "\\(b) x".toList) = false ∧
    scanTitleGo ')' true "\\(b) x".toList [] false = some ("\\(b".toList, 4) := by decide +kernel

/-- … and not otherwise: the specification admits "a `(` or `)` character only if it is backslash-escaped", pymarkdown
counts nesting: `(a(b)c)` is the title `a(b)c` (known finding F-C03-INLINE; the repo's tests enshrine it). -/
theorem title_paren_differs :
    scanTitleGo ')' true "a(b)c)".toList [] false = none ∧
    extractBoundedString "(a(b)c)".toList 1 ')' (some '(') = .ok (7, some "a(b)c".toList) := by
  refine ⟨by decide, ?_⟩
  rw [extractBoundedString_eq _ _ _ _ (by decide) (by decide) (by decide)]
  decide +kernel

/-- **Labels** agree with the specification whenever the label is at most 999 characters long. -/
theorem label_spec (s : Str) (i : Nat) (h : i ≤ s.length) (hlen : labelSpan (s.drop i) ≤ 999) :
    match scanLabelGo (s.drop i) [] false with
    | some (raw, n) => extractLinkLabel s i false = .ok (true, ((i + n : Nat) : Int), some raw)
    | none => ∃ j, extractLinkLabel s i false = .ok (false, j, none) :=
  label_conforms s i h hlen

/-- non-vacuity -/
example : labelSpan "a\\]b]".toList ≤ 999 ∧ scanLabelGo "a\\]b]".toList [] false = some ("a\\]b".toList, 5) := by
  decide +kernel

/-- … and not otherwise: the specification's limit ("at most 999 characters inside the square brackets") is not
implemented — every longer label is accepted. -/
theorem label_limit_differs (n : Nat) (h : 999 < n) :
    scanLabel (List.replicate n 'a' ++ [']']) = none ∧
    extractLinkLabel (List.replicate n 'a' ++ [']']) 0 false = .ok (true, ((n + 1 : Nat) : Int), some (List.replicate n 'a')) := by
  have hk : labelSpan (List.replicate n 'a' ++ [']']) = n := labelSpan_replicate n []
  have hget : (List.replicate n 'a' ++ [']'])[n]? = some ']' := by
    rw [List.getElem?_append_right (by simp)]; simp
  constructor
  · unfold scanLabel
    rw [label_spec_aux, hk]
    simp
    intro _; exact h
  · unfold extractLinkLabel
    rw [labelLoop_eq _ 0 (Nat.zero_le _)]
    simp only [List.drop_zero, hk, Nat.zero_add, isCharAt, hget]
    simp

example : (999 : Nat) < 1000 := by decide

-- tests (compiled evaluation): a title directly after an angle destination, without the white space the specification
-- requires between destination and title, is accepted by `__parse_inline_link_properties`: `[a](<u>"t")` is a link with title
#guard Verif.Model.LeanMark.scanInlineTail "(<a>\"t\")".toList == none
#guard (processInlineLinkBody "(<a>\"t\")".toList 0).toOption.map (·.1) == some 8

/-! ## (2b) the parsed values: backslash escapes, entity and numeric character references -/

/-- **`handle_backslashes` is the specification's unescaping** (backslash escapes of ASCII punctuation §2.4, entity and
numeric character references §6.2 — the entity table is the repo's `entities.json`, regenerated on every run): whenever the
function returns, its result is `unescape` of its argument, for every string.  (It fails to return exactly on a numeric
reference above U+10FFFF / to a surrogate, where the specification says U+FFFD — `value_error_is_real`.) -/
theorem unescape_value (s v : Str) (h : handleBackslashes s = .ok v) : v = Verif.Model.LeanMark.unescape s :=
  handleBackslashes_value s v h

/-- the string constants of the helpers are the specification's character classes -/
theorem char_classes (c : Char) :
    bsPunct.contains c = Verif.Model.LeanMark.isAsciiPunct c ∧ hexDigits.contains c = Verif.Model.LeanMark.isHexDigit c ∧
    digits.contains c = Verif.Model.LeanMark.isDigit c ∧ lettersDigits.contains c = Verif.Model.LeanMark.isAlnum c :=
  ⟨bsPunct_eq c, hexDigits_eq c, digits_eq c, lettersDigits_eq c⟩

/-- **Destination value**: the processed destination of an accepted destination is `__encode_link_destination` of the
specification's unescaped raw text. -/
theorem dest_value (s : Str) (i : Nat) (h : i ≤ s.length) (d : DestResult) (hr : parseLinkDestination s i = .ok d)
    (hn : d.newIndex ≠ -1) :
    ∃ pre enc, d.preLink = some pre ∧ d.exLink = some enc ∧
      encodeLinkDestination (Verif.Model.LeanMark.unescape pre) = .ok enc := by
  rcases (parseLinkDestination_spec s i h).2 d hr with h1 | ⟨h1, _⟩ | ⟨ni, pre, enc, h1, _⟩
  · rw [h1] at hn; exact absurd rfl hn
  · exact absurd h1 hn
  · subst h1
    refine ⟨pre, enc, rfl, rfl, ?_⟩
    rw [parseLinkDestination_eq s i h] at hr
    split at hr
    · split at hr
      · have : (((i + 1 + angleSpan (s.drop (i + 1)) : Nat) : Int) + 1) = ((i + 1 + angleSpan (s.drop (i + 1)) + 1 : Nat) : Int) := by omega
        rw [this] at hr
        have hpre : (s.drop (i + 1)).take (angleSpan (s.drop (i + 1))) = pre := by
          have hh := (destFinish_spec s i _ _ _).2 _ hr
          rcases hh with hh | ⟨_, hh, _⟩
          · cases hh
          · injection hh with _ h2; injection h2 with h2; exact h2.symm
        rw [hpre] at hr
        exact destFinish_value s i _ pre true enc _ _ _ hr
      · rw [destFinish_neg] at hr
        injection hr with hr; injection hr with _ _ h3; omega
    · split at hr
      · cases hr
      · split at hr
        · cases hr
        · have hpre : (s.drop i).take (nonAngleSpan (s.drop i)).1 = pre := by
            have hh := (destFinish_spec s i _ _ _).2 _ hr
            rcases hh with hh | ⟨_, hh, _⟩
            · cases hh
            · injection hh with _ h2; injection h2 with h2; exact h2.symm
          rw [hpre] at hr
          exact destFinish_value s i _ pre false enc _ _ _ hr

/-- **Title value**: the processed title is the HTML-escaped (`< > & "`) unescaped raw text — what the specification's
renderer writes into `title="…"`. -/
theorem title_value (s : Str) (i : Nat) (t pt : Str) (n : Int) (b : Str)
    (h : parseLinkTitle s i = .ok (some t, some pt, n, b)) :
    t = Verif.Model.LeanMark.escHtml (Verif.Model.LeanMark.unescape pt) :=
  parseLinkTitle_value s i t pt n b h

/-! ## (3) reassembly: the stored raw pieces concatenate to the consumed source span -/

/-- **Inline link body.**  When `__process_inline_link_body` accepts `( ws dest ws title ws )` starting at the `(` at
index `i` and returns `n`, the fields it stored — `before_link_whitespace`, the pre-escape destination with the angle flag,
`before_title_whitespace`, the bounding character with the pre-escape title, `after_title_whitespace` — concatenate to
exactly `s[i:n]`, every field is defined, and an empty pre-escape text has an empty processed text. -/
theorem inline_body_reassembly (s : Str) (i : Nat) (h : isCharAt s i '(' = true) (n : Int) (l : LHP)
    (hr : processInlineLinkBody s i = .ok (n, l)) (hn : n ≠ -1) :
    ∃ n' : Nat, n = n' ∧ i + 2 ≤ n' ∧ n' ≤ s.length ∧ slice s i n' = bodyPieces l ∧ LhpWf l := by
  have := (processInlineLinkBody_spec s i h).2 _ hr
  cases this with
  | fail l => exact absurd rfl hn
  | ok n' l h1 h2 h3 h4 => exact ⟨n', rfl, h1, h2, h3, h4⟩

/-- **What the regenerator writes** (`__rehydrate_inline_link_text_from_token_type_inline`) is the consumed span —
provided the title, if there is one, is not empty. -/
theorem rehydrate_lossless_partial (s : Str) (i : Nat) (h : isCharAt s i '(' = true) (n : Int) (l : LHP)
    (hr : processInlineLinkBody s i = .ok (n, l)) (hn : n ≠ -1)
    (ht : l.bounding ≠ [] → l.preInlineTitle ≠ some []) :
    ∃ n' : Nat, n = n' ∧ rehydrateInlineBody l = slice s i n' := by
  obtain ⟨n', h1, _, _, h2, h3⟩ := inline_body_reassembly s i h n l hr hn
  exact ⟨n', h1, by rw [h2, rehydrate_eq_pieces l h3 ht]⟩

/-- the fields `__process_inline_link_body` stores for `(/u "")` (see the `#guard` below) -/
def emptyTitleLhp : LHP :=
  { inlineLink := some "/u".toList, preInlineLink := some "/u".toList, inlineTitle := some [], preInlineTitle := some [],
    didUseAngle := some false, bounding := ['"'], beforeLinkWs := [], beforeTitleWs := [' '], afterTitleWs := [] }

/-- … and the hypothesis is needed: an empty title `""` is consumed and stored (bounding character `"`, empty text), but
`if link_token.active_link_title:` drops it: `[a](/u "")` is regenerated as `[a](/u )` (the real round trip does exactly
that). -/
theorem rehydrate_excluded :
    LhpWf emptyTitleLhp ∧ bodyPieces emptyTitleLhp = "(/u \"\")".toList ∧ rehydrateInlineBody emptyTitleLhp = "(/u )".toList := by
  refine ⟨⟨⟨_, _, rfl, rfl, fun h => by cases h⟩, ⟨_, _, rfl, rfl, fun _ => rfl⟩, ⟨_, rfl⟩, Or.inr (Or.inr (Or.inl rfl))⟩, ?_, ?_⟩ <;> decide

/-- the fields stored for `(/u "t" )` (second `#guard` below) -/
def titledLhp : LHP := { emptyTitleLhp with inlineTitle := some ['t'], preInlineTitle := some ['t'], afterTitleWs := [' '] }

/-- non-vacuity of `rehydrate_lossless_partial`: the title is not empty, and the regenerator writes back the source -/
example : (titledLhp.bounding ≠ [] → titledLhp.preInlineTitle ≠ some []) ∧
    rehydrateInlineBody titledLhp = "(/u \"t\" )".toList := by decide

-- test (compiled evaluation of the model; the same request is part of the correspondence with the real code)
#guard processInlineLinkBody "(/u \"\")".toList 0 == .ok (7, emptyTitleLhp)
#guard processInlineLinkBody "(/u \"t\" )".toList 0 == .ok (9, titledLhp)

/-- **Destination.**  The raw text `__parse_link_destination` hands to the token is the source slice, and it is the
pre-escape text in angle brackets or bare, as the angle flag says; a bare destination is never empty, no destination
contains a newline. -/
theorem dest_reassembly (s : Str) (i : Nat) (h : i ≤ s.length) (d : DestResult)
    (hr : parseLinkDestination s i = .ok d) (hn : d.newIndex ≠ -1) :
    ∃ (ni : Nat) (pre : Str), d.newIndex = ni ∧ d.raw = some (slice s i ni) ∧ d.preLink = some pre ∧
      d.angle = some (isCharAt s i '<') ∧
      slice s i ni = (if isCharAt s i '<' then '<' :: pre ++ ['>'] else pre) ∧ pre.contains '\n' = false := by
  rcases (parseLinkDestination_spec s i h).2 d hr with h1 | ⟨h1, _⟩ | ⟨ni, pre, enc, h1, _, _, h4, h5, _⟩
  · rw [h1] at hn; exact absurd rfl hn
  · exact absurd h1 hn
  · subst h1; exact ⟨ni, pre, rfl, rfl, rfl, rfl, h4, h5⟩

/-- **Title.**  An accepted title is `bounding character ++ pre-escape text ++ closing character` = the consumed slice. -/
theorem title_reassembly (s : Str) (i : Nat) (t pt : Str) (n : Int) (b : Str)
    (hr : parseLinkTitle s i = .ok (some t, some pt, n, b)) (hn : n ≠ -1) :
    ∃ (n' : Nat) (o : Char), n = n' ∧ b = [o] ∧ slice s i n' = o :: pt ++ [closeOf o] := by
  have := (parseLinkTitle_spec s i).2 _ hr
  cases this with
  | noTitle => exact absurd rfl hn
  | title n' tv raw o c h1 h2 h3 h4 h5 =>
    refine ⟨n', o, rfl, rfl, ?_⟩
    have : closeOf o = c := by
      rcases h4 with ⟨h1, h2⟩ | ⟨h1, h2⟩ | ⟨h1, h2⟩ <;> subst h1 <;> subst h2 <;> rfl
    rw [this]; exact h3

/-- **Label.**  An accepted label is the source slice without its closing `]` (and `:`), verbatim. -/
theorem label_reassembly (s : Str) (i : Nat) (colon : Bool) (h : i ≤ s.length) (n : Int) (lab : Str)
    (hr : extractLinkLabel s i colon = .ok (true, n, some lab)) :
    ∃ n' : Nat, n = n' ∧ slice s i n' = lab ++ (if colon then [']', ':'] else [']']) := by
  obtain ⟨r, hr', ho⟩ := extractLinkLabel_spec s i colon h
  rw [hr] at hr'; injection hr' with hr'; subst hr'
  cases ho with
  | ok n' lab h1 h2 h3 _ => exact ⟨n', rfl, h3⟩

/-- **Link reference definition pieces.**  `extract_link_destination` / `extract_link_title`: leading white space ++ raw
piece = the consumed slice. -/
theorem lrd_pieces_reassembly (s : Str) (i : Nat) (blank : Bool) (h : i ≤ s.length) :
    (∀ n link pre ws raw, extractLinkDestination s i blank = .ok (true, n, some (link, pre, ws, raw)) →
      ∃ (n' : Nat) (r : Str), n = n' ∧ raw = some r ∧ slice s i n' = ws ++ r) ∧
    (∀ n t pt ws raw, extractLinkTitle s i blank = .ok (true, n, some (t, pt, ws, raw)) →
      ∃ n' : Nat, n = n' ∧ slice s i n' = ws ++ raw) := by
  constructor
  · intro n link pre ws raw hr
    rcases (extractLinkDestination_spec s i blank h).2 _ _ _ hr with ⟨h1, _⟩ | ⟨_, n', link', pre', ws', raw', h2, _, _, h5, h6⟩
    · cases h1
    · injection h5 with h5; injection h5 with _ h5; injection h5 with _ h5; injection h5 with h5 h7
      subst h5; subst h7
      exact ⟨n', raw', h2, rfl, h6⟩
  · intro n t pt ws raw hr
    obtain ⟨n', t', pt', ws', raw', h2, _, _, h5, h6⟩ := (extractLinkTitle_spec s i blank h).2 _ _ _ hr rfl
    injection h5 with h5; injection h5 with _ h5; injection h5 with _ h5; injection h5 with h5 h7
    subst h5; subst h7
    exact ⟨n', h2, h6⟩

/-! ## (4) label normalisation -/

/-- **`normalize_link_label` is the specification's normalisation** ("strip leading and trailing spaces, tabs, and line
endings … collapse consecutive internal spaces, tabs, and line endings to a single space", "Unicode case fold", §6.3
*matches*), for every label.  (`str.casefold` is modelled by `casefoldChar`, exact on Latin-1, Greek and Cyrillic capitals
and U+1E9E; the correspondence measures the 1 398 other code points with a fold.) -/
theorem normalize_spec (l : Str) : normalizeLinkLabel l = Verif.Model.LeanMark.normLabel l :=
  normalizeLinkLabel_eq_normLabel l

/-- normalisation is idempotent: a normalised label is its own key -/
theorem normalize_idempotent (l : Str) : normalizeLinkLabel (normalizeLinkLabel l) = normalizeLinkLabel l := by
  rw [normalize_spec, normalize_spec, normLabel_idem]

/-- a normalised label has no white space except single spaces between words: its words are the folded words of the label -/
theorem normalize_words (l : Str) :
    normalizeLinkLabel l = joinSp ((wordsGo l []).map fw) ∧ ∀ w ∈ (wordsGo l []).map fw, Clean w := by
  refine ⟨by rw [normalize_spec, normLabel_words, fold_join], ?_⟩
  intro w hw
  rw [List.mem_map] at hw
  obtain ⟨v, hv, rfl⟩ := hw
  exact fw_clean v (wordsGo_clean l [] (by simp) v hv)

example : normalizeLinkLabel "  Foo\tBAR \n baz ".toList = "foo bar baz".toList := by
  rw [normalize_spec]; decide
example : normalizeLinkLabel "ẞ".toList = "ss".toList ∧ normalizeLinkLabel "ΑΓΩ".toList = "αγω".toList := by
  rw [normalize_spec, normalize_spec]; decide

end Verif.Props.LinkRecog
