import Verif.Lemmas.TokenRules.MD001
import Verif.Lemmas.TokenRules.MD004Spec
import Verif.Lemmas.TokenRules.MD029
import Verif.Lemmas.TokenRules.MD048
import Verif.Lemmas.TokenRules.MD048Spec
import Verif.Lemmas.TokenRules.MD038
import Verif.Lemmas.TokenRules.MD019
import Verif.Lemmas.TokenRules.Bundle
import Verif.Lemmas.TokenRules.MD021
import Verif.Model.TokenRules.MD030
import Verif.Model.RuleSpec.Headings
/-!
  Property theorems about the faithful models of the token-driven fix-capable rules
  (H1 / H2 of C09, the token-level statement of C08, C06's "verdict = documented condition").

  For every rule `mdXXX : Rule Cfg St`
    `scan mdXXX c toks : Except Err (List Report)`   the reports of a scan-mode pass over the stream,
    `fix  mdXXX c toks : Except Err (List Tok)`      the stream after a fix-mode pass and the application
                                                     of the registered requests (`.error` = the Python raises).
  Unless a hypothesis is written, a theorem holds for EVERY token list (also lists no parser produces).
-/
namespace Verif.Props.TokenRules
open Verif.Model.TokenRules

/-! ## MD001 heading-increment -/

/-- H1: after a fix that succeeded, a scan reports nothing. -/
theorem md001_fix_removes_trigger (c : C001) (toks toks' : List Tok) (h : fix md001 c toks = .ok toks') :
    scan md001 c toks' = .ok [] :=
  scan_fix_nil_of_sim md001 md001_local c Eq rfl
    (fun s₁ s₂ i t s₁' rp fx t' hR hn ha => md001_step_scan c s₁ s₂ i t s₁' rp fx t' hR hn ha) toks toks' h

/-- a second fix changes nothing. -/
theorem md001_fix_idempotent (c : C001) (toks toks' : List Tok) (h : fix md001 c toks = .ok toks') :
    fix md001 c toks' = .ok toks' :=
  fix_idem_of_sim md001 md001_local c Eq rfl
    (fun s₁ s₂ i t s₁' rp fx t' hR hn ha => md001_step_fix c s₁ s₂ i t s₁' rp fx t' hR hn ha) toks toks' h

/-- token-level C08: same number of tokens, in the same order; a token that changed is an ATX heading, only its
    `hash_count` changed, and it went DOWN to a level within 1…6. -/
theorem md001_fix_only_style (c : C001) (toks toks' : List Tok) (h : fix md001 c toks = .ok toks') :
    All₂ (fun t t' => t' = { t with hashCount := t'.hashCount } ∧
      (t' ≠ t → t.kind = .atx ∧ t'.hashCount < t.hashCount ∧ 1 ≤ t'.hashCount ∧ t'.hashCount ≤ 6)) toks toks' :=
  fix_forall₂ md001 md001_local c (fun _ => True) Style001 trivial
    (fun s i t s' rp fx t' _ hn ha => ⟨md001_step_style c s i t s' rp fx t' hn ha, trivial⟩) toks toks' h

/-- … and the new level is exactly (the fixed level of the previous heading) + 1: the fix is `clamp001`. -/
theorem md001_fix_eq_clamp (c : C001) (toks toks' : List Tok) (h : fix md001 c toks = .ok toks') :
    toks' = clamp001 c 0 toks :=
  md001_fixFrom_clamp c toks 0 0 toks' ((fix_ok_iff md001 md001_local c toks toks').mp h)

/-- the fix never fails on a stream whose ATX levels are 1…6 and SetExt levels 1…2 (`wf001`, checked on every
    real stream by the tie). -/
theorem md001_fix_ok (c : C001) (toks : List Tok) (hW : ∀ t ∈ toks, wf001 t = true) :
    ∃ toks', fix md001 c toks = .ok toks' :=
  fix_ok_of_wf md001 md001_local c (fun s => 0 ≤ s ∧ s ≤ 6) (fun t => wf001 t = true) (by simp [md001])
    (fun s i t hI hW => md001_step_ok c s i t hI hW) toks hW

/-- excluded point of `md001_fix_ok`: a SetExt token with an unknown underline has level −1; the next heading is
    "fixed" to level 0, which `_modify_token` refuses (`BadPluginFixError`).  Only synthetic streams reach it. -/
example : fix md001 {} [{ kind := .setext, hashCount := -1 }, { kind := .atx, hashCount := 1 }] = .error .badFix := by
  decide

/-- the scan never fails, and its reports are those of the explicit recursion `scanGo001`. -/
theorem md001_scan_eq (c : C001) (toks : List Tok) : scan md001 c toks = .ok (scanGo001 c 0 toks) := by
  obtain ⟨s', h⟩ := md001_runFrom_scan c toks 0 0
  unfold scan; rw [show md001.init c = 0 from rfl, h]

/-- C06, page sentence "This rule is triggered when a heading level is incremented by more than one":
    on a well-formed stream the reported positions are those of the headings whose level exceeds the level of
    the heading before them by more than one (`jumps001` over the headings in document order). -/
theorem md001_scan_iff (c : C001) (toks : List Tok) (hW : ∀ t ∈ toks, wf001 t = true) :
    (scan md001 c toks).map (·.map (fun r => (r.line, r.col))) =
      .ok ((jumps001 none (headings001 c toks)).map (fun t => (t.line, t.col))) := by
  rw [md001_scan_eq]
  have := scanGo001_eq_jumps c toks 0 hW (Int.le_refl 0)
  simp only [↓reduceIte] at this
  simp only [Except.map, this]

/-- excluded point of `md001_scan_iff`: after a level-(−1) SetExt token an `h1` is reported although no heading
    precedes it with a smaller level ("Expected: h0"). -/
example : (scan md001 {} [{ kind := .setext, hashCount := -1 }, { kind := .atx, hashCount := 1, line := 3, col := 1 }]).map
    (·.map (fun r => (r.line, r.col))) = .ok [(3, 1)] := by decide

/-- non-vacuity: `# a / ### b / ##### c` is well-formed, is reported twice, and is fixed to levels 1, 2, 3. -/
example : let d : List Tok := [{ kind := .atx, hashCount := 1, line := 1, col := 1 }, { kind := .atx, hashCount := 3, line := 3, col := 1 },
                               { kind := .atx, hashCount := 5, line := 5, col := 1 }]
    (∀ t ∈ d, wf001 t = true) ∧ (scan md001 {} d).map (·.map (fun r => (r.line, r.col))) = .ok [(3, 1), (5, 1)] ∧
    (fix md001 {} d).map (·.map (·.hashCount)) = .ok [1, 2, 3] := by decide

/-- faithful = reference: when the headings the rule sees are the headings of the reference parser (same levels
    and lines, in order), the reported lines are those of the reference condition `RuleSpec.md001`. -/
theorem md001_faithful_eq_spec (a : List (Int × Tok)) : ∀ (hs : List Verif.Model.RuleSpec.Heading) (p : Option Nat),
    a.map (fun x => (x.1, x.2.line)) = hs.map (fun h => ((h.level : Int), (h.line : Int))) →
    (jumps001 (p.map (fun n => (n : Int))) a).map (·.line) = (Verif.Model.RuleSpec.md001Go p hs).map (fun x => (x.1 : Int)) := by
  induction a with
  | nil =>
    intro hs p h
    cases hs with
    | nil => cases p <;> simp [jumps001, Verif.Model.RuleSpec.md001Go]
    | cons _ _ => simp at h
  | cons x a ih =>
    intro hs p h
    cases hs with
    | nil => simp at h
    | cons g hs =>
      simp only [List.map_cons, List.cons.injEq, Prod.mk.injEq] at h
      obtain ⟨⟨h1, h2⟩, h3⟩ := h
      have ih' := ih hs (some g.level) h3
      obtain ⟨lv, tk⟩ := x
      simp only at h1 h2
      subst h1
      cases p with
      | none => simpa [jumps001, Verif.Model.RuleSpec.md001Go] using ih'
      | some q =>
        show List.map (·.line) (jumps001 (some (q : Int)) ((g.level, tk) :: a)) = _
        simp only [jumps001, Verif.Model.RuleSpec.md001Go, List.map_append]
        have ih'' : List.map (·.line) (jumps001 (some (g.level : Int)) a) =
            (Verif.Model.RuleSpec.md001Go (some g.level) hs).map (fun x => (x.1 : Int)) := ih'
        rw [ih'']
        congr 1
        by_cases hj : g.level > q + 1
        · have : (g.level : Int) > (q : Int) + 1 := by omega
          simp [hj, this, h2]
        · have : ¬ (g.level : Int) > (q : Int) + 1 := by omega
          rw [if_neg hj, if_neg this]; rfl

/-! ## MD004 ul-style -/

/-- H1 -/
theorem md004_fix_removes_trigger (c : C004) (toks toks' : List Tok) (h : fix md004 c toks = .ok toks') :
    scan md004 c toks' = .ok [] :=
  scan_fix_nil_of_sim md004 md004_local c Eq rfl
    (fun s₁ _ i t s₁' rp fx t' hR hn ha => ⟨s₁', [], hR ▸ md004_step c s₁ i t s₁' rp fx t' hn ha false, rfl⟩) toks toks' h

theorem md004_fix_idempotent (c : C004) (toks toks' : List Tok) (h : fix md004 c toks = .ok toks') :
    fix md004 c toks' = .ok toks' :=
  fix_idem_of_sim md004 md004_local c Eq rfl
    (fun s₁ _ i t s₁' rp fx t' hR hn ha =>
      ⟨s₁', [], [], hR ▸ md004_step c s₁ i t s₁' rp fx t' hn ha true, applyGroup_nil t', rfl⟩) toks toks' h

/-- token-level C08: a token that changed is an unordered-list start, only its `list_start_sequence` changed, and the new
    value is one of the three bullets. -/
theorem md004_fix_only_style (c : C004) (toks toks' : List Tok) (h : fix md004 c toks = .ok toks') :
    All₂ (fun t t' => t' = { t with seq := t'.seq } ∧ (t' ≠ t → t.kind = .ulist ∧ ∃ b : Bul, t'.seq = [b.char])) toks toks' :=
  fix_forall₂ md004 md004_local c (fun _ => True) Style004 trivial
    (fun s i t s' rp fx t' _ hn ha => ⟨md004_step_style c s i t s' rp fx t' hn ha, trivial⟩) toks toks' h

theorem md004_fix_ok (c : C004) (toks : List Tok) (hW : WF004 toks) : ∃ toks', fix md004 c toks = .ok toks' :=
  fix_ok_of_stream md004 md004_local c (fun s ts => (∀ u ∈ ts, wf004 u = true) ∧ Inv004 c s ts)
    (fun s i t ts hP => md004_step_ok c s i t ts hP) toks
    ⟨hW.1, by
      show Inv004 c (init004 c) toks
      unfold Inv004 init004
      cases hs : c.style with
      | consistent => exact .inl ⟨rfl, rfl, hW.2⟩
      | fixed b => simp [List.lookup]
      | sublist => trivial⟩

/-- excluded points of `md004_fix_ok` (synthetic streams only): an end before the first start makes the second list look up
    level 0, which was never recorded (`KeyError`); a bullet other than `* + -` fails the `assert`. -/
example : fix md004 {} [{ kind := .ulistEnd }, { kind := .ulist, seq := ['*'] }, { kind := .ulist, seq := ['*'] }] = .error .keyError := by
  decide
example : scan md004 {} [{ kind := .ulist, seq := ['x'] }] = .error .assertion := by decide

/-- C06: on a well-formed stream the reported positions are those of the documented condition `spec004`:
    a fixed style — every list start with another bullet; `consistent` — every list start whose bullet differs from the
    first list's; `sublist` — per nesting level, every list start whose bullet differs from the first one seen at that level. -/
theorem md004_scan_iff (c : C004) (toks : List Tok) (hW : WF004 toks) :
    (scan md004 c toks).map (·.map rpos) = .ok ((spec004 c toks).map tpos) := by
  unfold scan spec004
  cases hs : c.style with
  | fixed b =>
    obtain ⟨s', rps, hr, hrps⟩ := runFrom004_fixed c (by rw [hs]; simp) b toks (md004.init c) 0 0
      (by show ∀ p ∈ (init004 c).actual, p.2 = b
          unfold init004; rw [hs]; intro p hp; simp at hp; rw [hp])
      (by show (init004 c).actual.lookup 0 = some b
          unfold init004; rw [hs]; simp [List.lookup]) hW.1
    rw [hr]; show Except.ok (rps.map rpos) = _; rw [hrps]; try rfl
  | consistent =>
    obtain ⟨s', rps, hr, hrps⟩ := runFrom004_pre c hs toks (md004.init c) 0
      (by show (init004 c).actual = []; unfold init004; rw [hs])
      (by show (init004 c).level = 0; unfold init004; rw [hs]) hW.2 hW.1
    rw [hr]; show Except.ok (rps.map rpos) = _; rw [hrps]; try rfl
  | sublist =>
    obtain ⟨s', rps, hr, hrps⟩ := runFrom004_sub c hs toks (md004.init c) 0 hW.1
    have h0 : (md004.init c).actual = [] ∧ (md004.init c).level = 0 := by
      show (init004 c).actual = [] ∧ (init004 c).level = 0
      unfold init004; rw [hs]; exact ⟨rfl, rfl⟩
    rw [h0.1, h0.2] at hrps
    rw [hr]; show Except.ok (rps.map rpos) = _; rw [hrps]; try rfl

/-- non-vacuity: `* a / + b / - c` (three lists), consistent: the second and third are reported and fixed to `*`. -/
example : let d : List Tok := [{ kind := .ulist, seq := ['*'], line := 1, col := 1 }, { kind := .ulistEnd }, { kind := .ulist, seq := ['+'], line := 3, col := 1 },
                               { kind := .ulistEnd }, { kind := .ulist, seq := ['-'], line := 5, col := 1 }, { kind := .ulistEnd }]
    WF004 d ∧ (scan md004 {} d).map (·.map rpos) = .ok [(3, 1), (5, 1)] ∧
    (fix md004 {} d).map (·.map (·.seq)) = .ok [['*'], [], ['*'], [], ['*'], []] := by
  refine ⟨⟨by decide, by decide⟩, by decide, by decide⟩

/-- faithful = reference: when the unordered lists the rule sees are those of the reference parser (bullet, line, nesting
    level, in order), the lines of `spec004` are the lines of the reference condition `RuleSpec.md004`. -/
theorem md004_faithful_eq_spec (c : C004) (toks : List Tok) (ls : List Verif.Model.LeanMark.Line)
    (evs : List Verif.Model.LeanMark.Ev) (hlv : ∀ u ∈ ulOf 0 toks, 0 ≤ u.2.2)
    (hsame : Verif.Model.RuleSpec.ulLists evs = (ulOf 0 toks).map refUl) :
    (spec004 c toks).map (fun t => t.line.toNat) = (Verif.Model.RuleSpec.md004 { style := s004Ref c.style } ls evs).map (·.1) := by
  unfold spec004 Verif.Model.RuleSpec.md004
  rw [hsame]
  cases hs : c.style with
  | fixed b =>
    cases b <;> simp only [s004Ref] <;> exact wrongBullet_ref _ _
  | consistent =>
    simp only [s004Ref]
    cases hu : ulOf 0 toks with
    | nil => rfl
    | cons u rest => simpa [refUl] using wrongBullet_ref u.1 rest
  | sublist =>
    simp only [s004Ref]
    simpa using wrongSub_ref (ulOf 0 toks) [] (by simp) hlv

/-! ## MD029 ol-prefix -/

/-- H1.  The scan of the fixed stream follows the fix-mode run of the original one, state by state, except that under
    `one_or_ordered` a first item renumbered to 1 leaves the list's style open on re-scan (`relE`); the next item closes it. -/
theorem md029_fix_removes_trigger (c : C029) (toks toks' : List Tok) (h : fix md029 c toks = .ok toks') :
    scan md029 c toks' = .ok [] :=
  scan_fix_nil_of_sim md029 md029_local c (R029 c) ⟨rfl, .nil⟩
    (fun s₁ s₂ i t s₁' rp fx t' hR hn ha => by
      obtain ⟨s₂', h1, h2⟩ := md029_step c s₁ s₂ i t s₁' rp fx t' hR hn ha false
      exact ⟨s₂', [], h1, h2⟩) toks toks' h

theorem md029_fix_idempotent (c : C029) (toks toks' : List Tok) (h : fix md029 c toks = .ok toks') :
    fix md029 c toks' = .ok toks' :=
  fix_idem_of_sim md029 md029_local c (R029 c) ⟨rfl, .nil⟩
    (fun s₁ s₂ i t s₁' rp fx t' hR hn ha => by
      obtain ⟨s₂', h1, h2⟩ := md029_step c s₁ s₂ i t s₁' rp fx t' hR hn ha true
      exact ⟨s₂', [], [], h1, applyGroup_nil t', h2⟩) toks toks' h

/-- token-level C08: a token that changed is a list start or list item; only `list_start_content` and `indent_level`
    changed; the new content is the decimal form of an integer. -/
theorem md029_fix_only_style (c : C029) (toks toks' : List Tok) (h : fix md029 c toks = .ok toks') :
    All₂ (fun t t' => t' = { t with content := t'.content, indent := t'.indent } ∧
      (t' ≠ t → (t.kind = .olist ∨ t.kind = .ulist ∨ t.kind = .li) ∧ ∃ n : Int, t'.content = pyStr n)) toks toks' :=
  fix_forall₂ md029 md029_local c (fun _ => True) Style029 trivial
    (fun s i t s' rp fx t' _ hn ha => ⟨md029_step_style c s i t s' rp fx t' hn ha, trivial⟩) toks toks' h

/-- the fix never fails on a stream whose list ends match the innermost open list, whose list items lie inside a list and whose
    ordered numbers are ASCII digit strings (`wfS029 []`, checked on every real stream by the tie). -/
theorem md029_fix_ok (c : C029) (toks : List Tok) (hW : wfS029 [] toks = true) : ∃ toks', fix md029 c toks = .ok toks' :=
  fix_ok_of_stream md029 md029_local c P029 (fun s i t ts hP => md029_step_ok c s i t ts hP) toks
    ⟨hW, rfl, fun _ h => by cases h⟩

/-- excluded points of `md029_fix_ok` (synthetic streams only): a list item outside every list (`IndexError`), a number that is
    not a digit string (`ValueError`). -/
example : fix md029 {} [{ kind := .li, content := ['1'] }] = .error .indexError := by decide
example : fix md029 {} [{ kind := .olist, content := ['a'] }] = .error .valueError := by decide

/-- non-vacuity (`5. a / 7. b / 9. c`, default style): reported once (the scan stops checking a list after its first
    report), fixed to 1, 2, 3; `indent_level` untouched because every number keeps its width. -/
example : let d : List Tok := [{ kind := .olist, content := ['5'], indent := 3, line := 1, col := 1 }, { kind := .li, content := ['7'], indent := 3, line := 2, col := 1 },
                               { kind := .li, content := ['9'], indent := 3, line := 3, col := 1 }, { kind := .olistEnd }]
    (scan md029 {} d).map (·.map (fun r => (r.line, r.col))) = .ok [(1, 1)] ∧
    (fix md029 {} d).map (·.map (fun t => (t.content, t.indent))) = .ok [(['1'], 3), (['2'], 3), (['3'], 3), ([], 0)] := by
  refine ⟨by decide, by decide⟩

/-- the width quirk: a later item's `indent_level` follows the new number's width (`1. / 10.` → `1. / 2.`, indent 4 → 3),
    the FIRST item's does not (`10.` → `1.` keeps indent 4): the material of the MD029 → MD030 interference. -/
example : (fix md029 {} [{ kind := .olist, content := ['1'], indent := 3 }, { kind := .li, content := ['1', '0'], indent := 4 }]).map
      (·.map (fun t => (t.content, t.indent))) = .ok [(['1'], 3), (['2'], 3)] ∧
    (fix md029 {} [{ kind := .olist, content := ['1', '0'], indent := 4 }]).map (·.map (fun t => (t.content, t.indent))) = .ok [(['1'], 4)] := by
  refine ⟨by decide, by decide⟩

/-! ## MD035 hr-style -/

theorem md035_fix_removes_trigger (c : C035) (toks toks' : List Tok) (h : fix md035 c toks = .ok toks') :
    scan md035 c toks' = .ok [] :=
  scan_fix_nil_of_sim md035 md035_local c Eq rfl
    (fun s₁ _ i t s₁' rp fx t' hR hn ha => ⟨s₁', [], hR ▸ md035_step c s₁ i t s₁' rp fx t' hn ha false, rfl⟩) toks toks' h

theorem md035_fix_idempotent (c : C035) (toks toks' : List Tok) (h : fix md035 c toks = .ok toks') :
    fix md035 c toks' = .ok toks' :=
  fix_idem_of_sim md035 md035_local c Eq rfl
    (fun s₁ _ i t s₁' rp fx t' hR hn ha =>
      ⟨s₁', [], [], hR ▸ md035_step c s₁ i t s₁' rp fx t' hn ha true, applyGroup_nil t', rfl⟩) toks toks' h

/-- token-level C08: only `start_character` and `rest_of_line` of thematic breaks change. -/
theorem md035_fix_only_style (c : C035) (toks toks' : List Tok) (h : fix md035 c toks = .ok toks') :
    All₂ (fun t t' => t' = { t with startChar := t'.startChar, rest := t'.rest } ∧ (t' ≠ t → t.kind = .tbreak)) toks toks' :=
  fix_forall₂ md035 md035_local c (fun _ => True) Style035 trivial
    (fun s i t s' rp fx t' _ hn ha => ⟨md035_step_style c s i t s' rp fx t' hn ha, trivial⟩) toks toks' h

/-- the fix never fails — on ANY stream. -/
theorem md035_fix_ok (c : C035) (toks : List Tok) : ∃ toks', fix md035 c toks = .ok toks' :=
  fix_ok_of_wf md035 md035_local c (fun _ => True) (fun _ => True) trivial
    (fun s i t _ _ => by
      obtain ⟨s', rp, fx, t', h1, h2⟩ := md035_step_ok c s i t
      exact ⟨s', rp, fx, t', h1, h2, trivial⟩) toks (fun _ _ => trivial)

/-- C06, for every stream: the reported positions are those of `spec035` — with a configured style every thematic break whose
    text is not that style; with `consistent` every break whose text differs from the first break's. -/
theorem md035_scan_iff (c : C035) (toks : List Tok) :
    (scan md035 c toks).map (·.map rpos') = .ok ((spec035 c toks).map tpos') := by
  obtain ⟨s', rps, hr, hrps⟩ := md035_runFrom_scan c toks (md035.init c) 0
  unfold scan; rw [hr]; show Except.ok (rps.map rpos') = _; rw [hrps]; rfl

example : let d : List Tok := [{ kind := .tbreak, startChar := ['-'], rest := ['-', '-', '-'], line := 1, col := 1 },
                               { kind := .tbreak, startChar := ['*'], rest := ['*', '*', '*'], line := 3, col := 1 }]
    (scan md035 {} d).map (·.map rpos') = .ok [(3, 1)] ∧
    (fix md035 {} d).map (·.map (fun t => (t.startChar, t.rest))) = .ok [(['-'], ['-', '-', '-']), (['-'], ['-', '-', '-'])] := by
  refine ⟨by decide, by decide⟩

/-! ## MD048 code-fence-style -/

theorem md048_fix_removes_trigger (c : C048) (toks toks' : List Tok) (h : fix md048 c toks = .ok toks') :
    scan md048 c toks' = .ok [] :=
  scan_fix_nil_of_sim md048 md048_local c Eq rfl
    (fun s₁ _ i t s₁' rp fx t' hR hn ha => ⟨s₁', [], hR ▸ md048_step c s₁ i t s₁' rp fx t' hn ha false, rfl⟩) toks toks' h

theorem md048_fix_idempotent (c : C048) (toks toks' : List Tok) (h : fix md048 c toks = .ok toks') :
    fix md048 c toks' = .ok toks' :=
  fix_idem_of_sim md048 md048_local c Eq rfl
    (fun s₁ _ i t s₁' rp fx t' hR hn ha =>
      ⟨s₁', [], [], hR ▸ md048_step c s₁ i t s₁' rp fx t' hn ha true, applyGroup_nil t', rfl⟩) toks toks' h

/-- token-level C08: only `fence_character` of fenced code blocks changes, to a backtick or a tilde. -/
theorem md048_fix_only_style (c : C048) (toks toks' : List Tok) (h : fix md048 c toks = .ok toks') :
    All₂ (fun t t' => t' = { t with fenceChar := t'.fenceChar } ∧
      (t' ≠ t → t.kind = .fence ∧ ∃ f : Fence, t'.fenceChar = [f.char])) toks toks' :=
  fix_forall₂ md048 md048_local c (fun _ => True) Style048 trivial
    (fun s i t s' rp fx t' _ hn ha => ⟨md048_step_style c s i t s' rp fx t' hn ha, trivial⟩) toks toks' h

theorem md048_fix_ok (c : C048) (toks : List Tok) : ∃ toks', fix md048 c toks = .ok toks' :=
  fix_ok_of_wf md048 md048_local c (fun _ => True) (fun _ => True) trivial
    (fun s i t _ _ => by
      obtain ⟨s', rp, fx, t', h1, h2⟩ := md048_step_ok c s i t
      exact ⟨s', rp, fx, t', h1, h2, trivial⟩) toks (fun _ _ => trivial)

/-- C06, for every stream: with a configured style every fenced block with the other fence character is reported; with
    `consistent` every block whose fence character differs from the first block's. -/
theorem md048_scan_iff (c : C048) (toks : List Tok) :
    (scan md048 c toks).map (·.map rpos') = .ok ((spec048 c toks).map tpos') := by
  obtain ⟨s', rps, hr, hrps⟩ := md048_runFrom_scan c toks (md048.init c) 0
  unfold scan; rw [hr]; show Except.ok (rps.map rpos') = _; rw [hrps]; rfl

example : let d : List Tok := [{ kind := .fence, fenceChar := ['~'], line := 1, col := 1 }, { kind := .fenceEnd },
                               { kind := .fence, fenceChar := ['`'], line := 5, col := 1 }, { kind := .fenceEnd }]
    (scan md048 {} d).map (·.map rpos') = .ok [(5, 1)] ∧
    (fix md048 {} d).map (·.map (·.fenceChar)) = .ok [['~'], [], ['~'], []] := by
  refine ⟨by decide, by decide⟩

/-- faithful = reference for MD048: when the fenced blocks the rule sees are those of the reference parser (fence character and
    line, in order), the lines of `spec048` are the lines of the reference condition `RuleSpec.md048`. -/
theorem md048_faithful_eq_spec (c : C048) (toks : List Tok) (ls : List Verif.Model.LeanMark.Line)
    (evs : List Verif.Model.LeanMark.Ev)
    (hsame : (Verif.Model.RuleSpec.fences ls (Verif.Model.RuleSpec.blocks evs)).map (fun f => (f.ch, f.b.line)) =
      (fencesOf toks).map (fun t => ((fenceOf t).char, t.line.toNat))) :
    (spec048 c toks).map (fun t => t.line.toNat) =
      (Verif.Model.RuleSpec.md048 { style := match c.style with
        | none => .consistent | some .backtick => .backtick | some .tilde => .tilde } ls evs).map (·.1) := by
  have hall : ∀ t ∈ fencesOf toks, t.kind = .fence := by
    intro t ht; simpa [fencesOf] using (List.mem_filter.mp ht).2
  unfold spec048 Verif.Model.RuleSpec.md048
  rw [spec048Go_filter]
  cases hs : c.style with
  | some w =>
    rw [spec048Go_fixed w _ hall]
    cases w <;> exact fixed048_ref _ _ _ hsame
  | none =>
    simp only
    cases hf : fencesOf toks with
    | nil =>
      rw [hf] at hsame
      cases hr : Verif.Model.RuleSpec.fences ls (Verif.Model.RuleSpec.blocks evs) with
      | nil => rfl
      | cons _ _ => rw [hr] at hsame; simp at hsame
    | cons t ts =>
      rw [hf] at hsame hall
      cases hr : Verif.Model.RuleSpec.fences ls (Verif.Model.RuleSpec.blocks evs) with
      | nil => rw [hr] at hsame; simp at hsame
      | cons r rs =>
        rw [hr] at hsame
        simp only [List.map_cons, List.cons.injEq, Prod.mk.injEq] at hsame
        obtain ⟨⟨h1, _⟩, h3⟩ := hsame
        have hk := hall t List.mem_cons_self
        simp only [spec048Go, hk]
        rw [spec048Go_fixed (fenceOf t) ts (fun u hu => hall u (List.mem_cons_of_mem _ hu)), h1]
        exact fixed048_ref (fenceOf t) ts rs h3

/-- faithful = reference for MD035, when the thematic breaks the rule sees are those of the reference parser (text and line, in
    order) and none of them is empty. -/
theorem md035_faithful_eq_spec (c : C035) (toks : List Tok) (ls : List Verif.Model.LeanMark.Line)
    (evs : List Verif.Model.LeanMark.Ev) (hne : ∀ t ∈ breaksOf toks, t.rest ≠ []) (hcfg : c.style ≠ some [])
    (hsame : ((Verif.Model.RuleSpec.blocks evs).filter (fun b => Verif.Model.RuleSpec.isHrK b.k)).map
        (fun b => (Verif.Model.RuleSpec.hrText ls b, b.line)) = (breaksOf toks).map (fun t => (t.rest, t.line.toNat))) :
    (spec035 c toks).map (fun t => t.line.toNat) = (Verif.Model.RuleSpec.md035 { style := c.style } ls evs).map (·.1) := by
  have hall : ∀ t ∈ breaksOf toks, t.kind = .tbreak := by
    intro t ht; simpa [breaksOf] using (List.mem_filter.mp ht).2
  unfold spec035 Verif.Model.RuleSpec.md035
  rw [spec035Go_filter]
  cases hs : c.style with
  | some w =>
    cases w with
    | nil => exact absurd hs hcfg
    | cons a as =>
      simp only [Option.getD_some]
      rw [spec035Go_fixed a as _ hall]
      exact fixed035_ref ls (a :: as) _ _ hsame
  | none =>
    simp only [Option.getD_none]
    cases hf : breaksOf toks with
    | nil =>
      rw [hf] at hsame
      cases hr : (Verif.Model.RuleSpec.blocks evs).filter (fun b => Verif.Model.RuleSpec.isHrK b.k) with
      | nil => rfl
      | cons _ _ => rw [hr] at hsame; simp at hsame
    | cons t ts =>
      rw [hf] at hsame hall hne
      cases hr : (Verif.Model.RuleSpec.blocks evs).filter (fun b => Verif.Model.RuleSpec.isHrK b.k) with
      | nil => rw [hr] at hsame; simp at hsame
      | cons r rs =>
        rw [hr] at hsame
        simp only [List.map_cons, List.cons.injEq, Prod.mk.injEq] at hsame
        obtain ⟨⟨h1, _⟩, h3⟩ := hsame
        have hk := hall t List.mem_cons_self
        simp only [spec035Go, hk]
        cases hrest : t.rest with
        | nil => exact absurd hrest (hne t List.mem_cons_self)
        | cons a as =>
          rw [spec035Go_fixed a as ts (fun u hu => hall u (List.mem_cons_of_mem _ hu)), h1, hrest]
          exact fixed035_ref ls (a :: as) ts rs h3

/-! ## MD039 no-space-in-links -/

theorem md039_fix_removes_trigger (toks toks' : List Tok) (h : fix md039 () toks = .ok toks') :
    scan md039 () toks' = .ok [] :=
  scan_fix_nil_of_sim md039 md039_local () Eq rfl
    (fun _ _ i t _ rp fx t' _ hn ha => ⟨(), [], md039_step i t rp fx t' hn ha false, rfl⟩) toks toks' h

theorem md039_fix_idempotent (toks toks' : List Tok) (h : fix md039 () toks = .ok toks') :
    fix md039 () toks' = .ok toks' :=
  fix_idem_of_sim md039 md039_local () Eq rfl
    (fun _ _ i t _ rp fx t' _ hn ha => ⟨(), [], [], md039_step i t rp fx t' hn ha true, applyGroup_nil t', rfl⟩) toks toks' h

/-- token-level C08: only the label text of links / images / link reference definitions changes, to its `strip`. -/
theorem md039_fix_only_style (toks toks' : List Tok) (h : fix md039 () toks = .ok toks') :
    All₂ (fun t t' => t' = { t with text := t'.text } ∧
      (t' = t ∨ ((t.kind = .link ∨ t.kind = .image ∨ t.kind = .lrd) ∧ t'.text = stripAw t.text))) toks toks' :=
  fix_forall₂ md039 md039_local () (fun _ => True) _ trivial
    (fun _ i t _ rp fx t' _ hn ha => ⟨md039_apply i t rp fx t' hn ha, trivial⟩) toks toks' h

theorem md039_fix_ok (toks : List Tok) : ∃ toks', fix md039 () toks = .ok toks' :=
  fix_ok_of_wf md039 md039_local () (fun _ => True) (fun _ => True) trivial
    (fun _ i t _ _ => by
      obtain ⟨rp, fx, t', h1, h2⟩ := md039_step_ok i t
      exact ⟨(), rp, fx, t', h1, h2, trivial⟩) toks (fun _ _ => trivial)

/-- C06, for every stream: exactly the links, images and link reference definitions whose label text starts or ends with ASCII white
    space (`trig039`: the text differs from its `strip`) are reported, in stream order. -/
theorem md039_scan_iff (toks : List Tok) :
    scan md039 () toks = .ok ((toks.filter trig039).map (fun t => ⟨t.line, t.col, none⟩)) := by
  unfold scan; rw [show md039.init () = () from rfl, md039_runFrom_scan toks 0]

example : (fix md039 () [{ kind := .link, text := [' ', 'a', ' ', 'b', '\t'] }]).map (·.map (·.text)) = .ok [['a', ' ', 'b']] := by decide

/-! ## MD038 no-space-in-code -/

/-- H1 on the domain `wf038` (the fixed text is neither empty nor still padded). -/
theorem md038_fix_removes_trigger_partial (toks toks' : List Tok) (hW : ∀ t ∈ toks, wf038 t = true)
    (h : fix md038 () toks = .ok toks') : scan md038 () toks' = .ok [] :=
  scan_fix_nil_of_sim_wf md038 md038_local () Eq (fun t => wf038 t = true) rfl
    (fun _ _ i t _ rp fx t' hW _ hn ha => ⟨(), [], md038_step i t rp fx t' hW hn ha false, rfl⟩) toks toks' hW h

/-- H1 is FALSE for MD038: `` `  a` `` (span text `"  a"`) is fixed to `" a"`, which is reported again —
    the rule removes ONE padding space per side and pass. -/
theorem md038_fix_keeps_trigger :
    ∃ toks toks', fix md038 () toks = .ok toks' ∧ scan md038 () toks' = .ok [⟨1, 3, none⟩] :=
  ⟨[{ kind := .codeSpan, text := [' ', ' ', 'a'], line := 1, col := 3 }],
   [{ kind := .codeSpan, text := [' ', 'a'], line := 1, col := 3 }], by decide, by decide⟩

/-- … and for the span `` ` ` `` (text `" "`) the fix leaves an EMPTY span text, on which the rule itself raises
    `IndexError` (`span_text[0]`). -/
theorem md038_fix_empties_span :
    ∃ toks toks', fix md038 () toks = .ok toks' ∧ scan md038 () toks' = .error .indexError :=
  ⟨[{ kind := .codeSpan, text := [' '] }], [{ kind := .codeSpan, text := [] }], by decide, by decide⟩

/-- idempotence fails at the same point: a second fix changes the stream again. -/
theorem md038_fix_not_idempotent :
    ∃ toks toks' toks'', fix md038 () toks = .ok toks' ∧ fix md038 () toks' = .ok toks'' ∧ toks'' ≠ toks' :=
  ⟨[{ kind := .codeSpan, text := [' ', ' ', 'a'] }], [{ kind := .codeSpan, text := [' ', 'a'] }],
   [{ kind := .codeSpan, text := ['a'] }], by decide, by decide, by decide⟩

/-- token-level C08: only `span_text` of code spans changes — at most one space is cut at each end. -/
theorem md038_fix_only_style (toks toks' : List Tok) (h : fix md038 () toks = .ok toks') :
    All₂ (fun t t' => t' = { t with text := t'.text } ∧
      (t' ≠ t → t.kind = .codeSpan ∧ ∃ lead trail, pad038 t.text = some (lead, trail) ∧ t'.text = adjust038 t.text lead trail)) toks toks' :=
  fix_forall₂ md038 md038_local () (fun _ => True) Style038 trivial
    (fun _ i t _ rp fx t' _ hn ha => ⟨md038_step_style i t rp fx t' hn ha, trivial⟩) toks toks' h

/-- C06: on streams without empty code-span texts, exactly the code spans whose text starts with a space that is not followed by a
    backtick, or ends with a space that is not preceded by one, are reported (`trig038`). -/
theorem md038_scan_iff (toks : List Tok) (hne : ∀ t ∈ toks, t.kind = .codeSpan → t.text ≠ []) :
    scan md038 () toks = .ok ((toks.filter trig038).map (fun t => ⟨t.line, t.col, none⟩)) := by
  unfold scan; rw [show md038.init () = () from rfl, md038_runFrom_scan toks 0 hne]

/-- excluded point of `md038_scan_iff`: an empty span text raises `IndexError` (`span_text[0]`). -/
example : scan md038 () [{ kind := .codeSpan, text := [] }] = .error .indexError := by decide

/-- non-vacuity of the partial theorem: `` ` a ` `` style padding (text `" a"`). -/
example : let d : List Tok := [{ kind := .codeSpan, text := [' ', 'a'] }]
    (∀ t ∈ d, wf038 t = true) ∧ (fix md038 () d).map (·.map (·.text)) = .ok [['a']] := by
  refine ⟨by decide, by decide⟩

/-! ## MD019 no-multiple-space-atx -/

theorem md019_fix_removes_trigger (toks toks' : List Tok) (h : fix md019 () toks = .ok toks') :
    scan md019 () toks' = .ok [] :=
  scan_fix_nil_of_sim md019 md019_local () Eq rfl
    (fun s₁ _ i t s₁' rp fx t' hR hn ha => ⟨s₁', [], hR ▸ md019_step s₁ i t s₁' rp fx t' hn ha false, rfl⟩) toks toks' h

theorem md019_fix_idempotent (toks toks' : List Tok) (h : fix md019 () toks = .ok toks') :
    fix md019 () toks' = .ok toks' :=
  fix_idem_of_sim md019 md019_local () Eq rfl
    (fun s₁ _ i t s₁' rp fx t' hR hn ha =>
      ⟨s₁', [], [], hR ▸ md019_step s₁ i t s₁' rp fx t' hn ha true, applyGroup_nil t', rfl⟩) toks toks' h

/-- token-level C08: only `extracted_whitespace` of a text token changes, to a single space. -/
theorem md019_fix_only_style (toks toks' : List Tok) (h : fix md019 () toks = .ok toks') :
    All₂ (fun t t' => t' = { t with ws := t'.ws } ∧ (t' ≠ t → t.kind = .text ∧ t'.ws = [' '])) toks toks' :=
  fix_forall₂ md019 md019_local () (fun _ => True) Style019 trivial
    (fun s i t s' rp fx t' _ hn ha => ⟨md019_step_style s i t s' rp fx t' hn ha, trivial⟩) toks toks' h

/-- the fix never fails when the marker codec accepts the whitespace of every text token (`wf019`). -/
theorem md019_fix_ok (toks : List Tok) (hW : ∀ t ∈ toks, wf019 t = true) : ∃ toks', fix md019 () toks = .ok toks' :=
  fix_ok_of_wf md019 md019_local () (fun _ => True) (fun t => wf019 t = true) trivial
    (fun s i t _ hW => by
      obtain ⟨s', rp, fx, t', h1, h2⟩ := md019_step_ok s i t hW
      exact ⟨s', rp, fx, t', h1, h2, trivial⟩) toks hW

/-- non-vacuity: `#  a` (two spaces) is reported at the heading and the text token's whitespace becomes one space. -/
example : let d : List Tok := [{ kind := .atx, hashCount := 1, line := 1, col := 1 }, { kind := .text, ws := [' ', ' '], line := 1, col := 4 }, { kind := .atxEnd }]
    (∀ t ∈ d, wf019 t = true) ∧ (scan md019 () d).map (·.map rpos') = .ok [(1, 1)] ∧
    (fix md019 () d).map (·.map (·.ws)) = .ok [[], [' '], []] := by
  refine ⟨by decide, by decide, by decide⟩

/-! ## MD021 no-multiple-space-closed-atx — the rule with a non-local request -/

/-- H1.  (The request for the first text token of a heading is registered when the heading's end token arrives; the proof fixes the
    global request list and walks the stream once, `md021_suffix`.) -/
theorem md021_fix_removes_trigger (toks toks' : List Tok) (h : fix md021 () toks = .ok toks') :
    scan md021 () toks' = .ok [] := by
  obtain ⟨s_end, hr⟩ := md021_fix_quiet toks toks' h false
  unfold scan; rw [hr]

theorem md021_fix_idempotent (toks toks' : List Tok) (h : fix md021 () toks = .ok toks') :
    fix md021 () toks' = .ok toks' := by
  obtain ⟨s_end, hr⟩ := md021_fix_quiet toks toks' h true
  unfold fix fixReqs; rw [hr]
  simp only [applyFixes, List.any_nil, Bool.false_eq_true, ↓reduceIte]
  exact applyFrom_nil toks' 0

/-- token-level C08: only `extracted_whitespace` and `extra_end_data` change, each to a single space. -/
theorem md021_fix_only_style (toks toks' : List Tok) (h : fix md021 () toks = .ok toks') :
    All₂ (fun t t' => t' = { t with ws := t'.ws, endData := t'.endData } ∧ (t'.ws = t.ws ∨ t'.ws = [' ']) ∧
      (t'.endData = t.endData ∨ t'.endData = some [' '])) toks toks' := by
  unfold fix fixReqs at h
  split at h
  · cases h
  · rename_i fxs hf
    split at hf
    · cases hf
    · rename_i s_end rps fxs' hr
      cases hf
      unfold applyFixes at h
      split at h
      · cases h
      · exact applyFrom_style021 fxs (runFrom021_reqs toks _ 0 s_end rps fxs hr (fun j hj => by cases hj)) toks 0 toks' h

/-- non-vacuity: `#  a  #` — both sides too wide: one report at the heading; the fix rewrites the whitespace of the text token
    (registered two tokens later, at the end token) and the end data. -/
example : let d : List Tok := [{ kind := .atx, hashCount := 1, trailing := 1, line := 1, col := 1 }, { kind := .text, text := ['a'], ws := [' ', ' '], line := 1, col := 4 },
                               { kind := .atxEnd, endData := some [' ', ' '] }]
    (scan md021 () d).map (·.map rpos') = .ok [(1, 1)] ∧
    fixReqs md021 () d = .ok [⟨1, .extractedWhitespace, .str [' ']⟩, ⟨2, .extraEndData, .str [' ']⟩] ∧
    (fix md021 () d).map (·.map (fun t => (t.ws, t.endData))) = .ok [([], none), ([' '], none), ([], some [' '])] := by
  refine ⟨by decide, by decide, by decide⟩

/-! ## interference (H2 of C09) between the modelled rules

  Fields written: MD001 `hash_count` (atx) · MD004 `list_start_sequence` (ulist) · MD029 `list_start_content`, `indent_level`
  (olist, li) · MD035 `start_character`, `rest_of_line` (tbreak) · MD048 `fence_character` (fence) · MD019
  `extracted_whitespace` (text) · MD038 `span_text` (codeSpan) · MD039 `text_from_blocks` / `link_name_debug`.
  The only field one of them writes and another READS is `hash_count`: MD019 expands a tab after the hashes from the column
  `column_number − 1 + hash_count`. -/

/-- MD001 → MD019 interference (machine-checked counter-example to H2): in `# a` / `###<TAB>b` the tab is one column wide, MD019 is
    silent; MD001 lowers the heading to level 2, the tab becomes two columns wide, and MD019 reports the heading.
    Realised as the document `"# a\n\n###\tb\n"` (see REPORT.md: with MD010 disabled, `pymarkdown fix` leaves `##<TAB>b`, which a
    re-scan reports as MD019). -/
theorem md001_md019_interference :
    ∃ toks toks', scan md019 () toks = .ok [] ∧ fix md001 {} toks = .ok toks' ∧ scan md019 () toks' = .ok [⟨3, 1, none⟩] :=
  ⟨[{ kind := .atx, hashCount := 1, line := 1, col := 1 }, { kind := .text, ws := [' '], line := 1, col := 3 }, { kind := .atxEnd },
    { kind := .atx, hashCount := 3, line := 3, col := 1 }, { kind := .text, ws := ['\t'], line := 3, col := 5 }, { kind := .atxEnd }],
   [{ kind := .atx, hashCount := 1, line := 1, col := 1 }, { kind := .text, ws := [' '], line := 1, col := 3 }, { kind := .atxEnd },
    { kind := .atx, hashCount := 2, line := 3, col := 1 }, { kind := .text, ws := ['\t'], line := 3, col := 5 }, { kind := .atxEnd }],
   by decide, by decide, by decide⟩

/-- non-interference, generic form: a fix that leaves every field a rule's `next` reads unchanged cannot change that rule's scan.
    `Same` is the per-rule "reads nothing else" relation; instances below. -/
theorem scan_congr {Cfg St : Type} (r : Rule Cfg St) (c : Cfg) (Same : Tok → Tok → Prop)
    (hnext : ∀ fm s i t t', Same t t' → r.next c fm s i t' = r.next c fm s i t)
    (toks toks' : List Tok) (h : All₂ Same toks toks') : scan r c toks' = scan r c toks := by
  have key : ∀ (ts ts' : List Tok), All₂ Same ts ts' → ∀ s i, runFrom r c false s i ts' = runFrom r c false s i ts := by
    intro ts ts' hs
    induction hs with
    | nil => intro s i; rfl
    | cons hp _ ih =>
      intro s i
      unfold runFrom
      rw [hnext false s i _ _ hp]
      split
      · rfl
      · rw [ih]
  unfold scan; rw [key toks toks' h]

/-- MD004's fix (it changes `list_start_sequence` only) cannot change any report of MD029, MD001, MD035, MD048, MD019, MD038 or
    MD039 — none of them reads that field.  Stated for MD029 (the rule that shares the list tokens). -/
theorem md004_fix_inert_for_md029 (c4 : C004) (c29 : C029) (toks toks' : List Tok) (h : fix md004 c4 toks = .ok toks') :
    scan md029 c29 toks' = scan md029 c29 toks :=
  scan_congr md029 c29 (fun t t' => t' = { t with seq := t'.seq })
    (fun fm s i t t' hs => by
      rw [hs]
      show next029 c29 fm s i _ = next029 c29 fm s i t
      unfold next029 matchFirst matchNext reportInvalid
      rfl) toks toks' (All₂.imp (fun _ _ hp => hp.1) (md004_fix_only_style c4 toks toks' h))

/-- MD029's fix (`list_start_content`, `indent_level`) cannot change any report of MD004. -/
theorem md029_fix_inert_for_md004 (c4 : C004) (c29 : C029) (toks toks' : List Tok) (h : fix md029 c29 toks = .ok toks') :
    scan md004 c4 toks' = scan md004 c4 toks :=
  scan_congr md004 c4 (fun t t' => t' = { t with content := t'.content, indent := t'.indent })
    (fun fm s i t t' hs => by
      rw [hs]
      show next004 c4 fm s i _ = next004 c4 fm s i t
      unfold next004 ensure004 seqType
      rfl) toks toks' (All₂.imp (fun _ _ hp => hp.1) (md029_fix_only_style c29 toks toks' h))

/-! ### what each rule reads — the scan depends on nothing else (so a fix that writes none of these fields is inert for the rule) -/

theorem md001_scan_reads (c : C001) (toks toks' : List Tok)
    (h : All₂ (fun t t' => t'.kind = t.kind ∧ t'.line = t.line ∧ t'.col = t.col ∧ t'.hashCount = t.hashCount ∧ t'.keys = t.keys) toks toks') :
    scan md001 c toks' = scan md001 c toks :=
  scan_congr md001 c _ (fun fm s i t t' ⟨h1, h2, h3, h4, h5⟩ => by
    show next001 c fm s i t' = next001 c fm s i t
    unfold next001 hash001; simp only [h1, h2, h3, h4, h5]) toks toks' h

theorem md004_scan_reads (c : C004) (toks toks' : List Tok)
    (h : All₂ (fun t t' => t'.kind = t.kind ∧ t'.line = t.line ∧ t'.col = t.col ∧ t'.seq = t.seq) toks toks') :
    scan md004 c toks' = scan md004 c toks :=
  scan_congr md004 c _ (fun fm s i t t' ⟨h1, h2, h3, h4⟩ => by
    show next004 c fm s i t' = next004 c fm s i t
    unfold next004 ensure004 seqType; simp only [h1, h2, h3, h4]) toks toks' h

theorem md029_scan_reads (c : C029) (toks toks' : List Tok)
    (h : All₂ (fun t t' => t'.kind = t.kind ∧ t'.line = t.line ∧ t'.col = t.col ∧ t'.content = t.content ∧ t'.indent = t.indent) toks toks') :
    scan md029 c toks' = scan md029 c toks :=
  scan_congr md029 c _ (fun fm s i t t' ⟨h1, h2, h3, h4, h5⟩ => by
    show next029 c fm s i t' = next029 c fm s i t
    unfold next029 matchFirst matchNext reportInvalid; simp only [h1, h2, h3, h4, h5]) toks toks' h

theorem md035_scan_reads (c : C035) (toks toks' : List Tok)
    (h : All₂ (fun t t' => t'.kind = t.kind ∧ t'.line = t.line ∧ t'.col = t.col ∧ t'.rest = t.rest) toks toks') :
    scan md035 c toks' = scan md035 c toks :=
  scan_congr md035 c _ (fun fm s i t t' ⟨h1, h2, h3, h4⟩ => by
    show next035 c fm s i t' = next035 c fm s i t
    unfold next035; simp only [h1, h2, h3, h4]) toks toks' h

theorem md048_scan_reads (c : C048) (toks toks' : List Tok)
    (h : All₂ (fun t t' => t'.kind = t.kind ∧ t'.line = t.line ∧ t'.col = t.col ∧ t'.fenceChar = t.fenceChar) toks toks') :
    scan md048 c toks' = scan md048 c toks :=
  scan_congr md048 c _ (fun fm s i t t' ⟨h1, h2, h3, h4⟩ => by
    show next048 c fm s i t' = next048 c fm s i t
    unfold next048 fenceOf; simp only [h1, h2, h3, h4]) toks toks' h

theorem md019_scan_reads (toks toks' : List Tok)
    (h : All₂ (fun t t' => t'.kind = t.kind ∧ t'.line = t.line ∧ t'.col = t.col ∧ t'.hashCount = t.hashCount ∧
      t'.trailing = t.trailing ∧ t'.ws = t.ws) toks toks') :
    scan md019 () toks' = scan md019 () toks :=
  scan_congr md019 () _ (fun fm s i t t' ⟨h1, h2, h3, h4, h5, h6⟩ => by
    show next019 () fm s i t' = next019 () fm s i t
    unfold next019; simp only [h1, h2, h3, h4, h5, h6]) toks toks' h

theorem md038_scan_reads (toks toks' : List Tok)
    (h : All₂ (fun t t' => t'.kind = t.kind ∧ t'.line = t.line ∧ t'.col = t.col ∧ t'.text = t.text) toks toks') :
    scan md038 () toks' = scan md038 () toks :=
  scan_congr md038 () _ (fun fm s i t t' ⟨h1, h2, h3, h4⟩ => by
    show next038 () fm s i t' = next038 () fm s i t
    unfold next038; simp only [h1, h2, h3, h4]) toks toks' h

theorem md039_scan_reads (toks toks' : List Tok)
    (h : All₂ (fun t t' => t'.kind = t.kind ∧ t'.line = t.line ∧ t'.col = t.col ∧ t'.text = t.text) toks toks') :
    scan md039 () toks' = scan md039 () toks :=
  scan_congr md039 () _ (fun fm s i t t' ⟨h1, h2, h3, h4⟩ => by
    show next039 () fm s i t' = next039 () fm s i t
    unfold next039; simp only [h1, h2, h3, h4]) toks toks' h

/-- MD019's fix is inert for MD001 (the converse is `md001_md019_interference`). -/
theorem md019_fix_inert_for_md001 (c : C001) (toks toks' : List Tok) (h : fix md019 () toks = .ok toks') :
    scan md001 c toks' = scan md001 c toks :=
  md001_scan_reads c toks toks' (All₂.imp (fun t t' hp => by rw [hp.1]; exact ⟨rfl, rfl, rfl, rfl, rfl⟩) (md019_fix_only_style toks toks' h))

/-- MD038 and MD039 write the same abstract field (`text`) but of different token kinds: each is inert for the other. -/
theorem md039_fix_inert_for_md038 (toks toks' : List Tok) (h : fix md039 () toks = .ok toks') :
    scan md038 () toks' = scan md038 () toks :=
  scan_congr md038 () (fun t t' => t' = { t with text := t'.text } ∧ (t' = t ∨ t.kind ≠ .codeSpan))
    (fun fm s i t t' ⟨h1, h2⟩ => by
      rcases h2 with rfl | hk
      · rfl
      · show next038 () fm s i t' = next038 () fm s i t
        have hk' : t'.kind ≠ .codeSpan := by rw [h1]; exact hk
        have key : ∀ u : Tok, u.kind ≠ .codeSpan → next038 () fm s i u = .ok ((), [], []) := by
          intro u hu; unfold next038; split
          · rename_i h; exact absurd h hu
          · rfl
        rw [key t hk, key t' hk'])
    toks toks' (All₂.imp (fun t t' hp => ⟨hp.1, by
      rcases hp.2 with h | ⟨hk, _⟩
      · exact .inl h
      · right; rcases hk with hk | hk | hk <;> rw [hk] <;> decide⟩) (md039_fix_only_style toks toks' h))

/-! ## H1 of C09 for the level-1 token pass with several modelled rules enabled at once

  `r1 ⊗ r2` is the pass of `PluginManager.next_token` over two rules with the shared `fix_token_map`.  MD001, MD004, MD019, MD029,
  MD035, MD038, MD039 all have fix level 1 (MD048: level 2), so one `pymarkdown fix` pass runs them together on the ORIGINAL stream
  and applies all requests at once. -/

/-- bundle A = MD001 ⊗ MD004 ⊗ MD029 ⊗ MD035 ⊗ MD039: after the joint fix, no rule of the bundle reports anything. -/
theorem bundleA_fix_removes_triggers (c : C001 × CfgK) (toks toks' : List Tok) (h : fix bundleA c toks = .ok toks') :
    scan md001 c.1 toks' = .ok [] ∧ scan md004 c.2.1 toks' = .ok [] ∧ scan md029 c.2.2.1 toks' = .ok [] ∧
    scan md035 c.2.2.2.1 toks' = .ok [] ∧ scan md039 () toks' = .ok [] := by
  have h0 := (goodA c).h1 toks toks' h
  obtain ⟨h1, hK⟩ := scan_prod_nil md001 bundleK c toks' h0
  obtain ⟨h4, hK2⟩ := scan_prod_nil md004 (md029 ⊗ md035 ⊗ md039) c.2 toks' hK
  obtain ⟨h29, hK3⟩ := scan_prod_nil md029 (md035 ⊗ md039) c.2.2 toks' hK2
  obtain ⟨h35, h39⟩ := scan_prod_nil md035 md039 c.2.2.2 toks' hK3
  exact ⟨h1, h4, h29, h35, h39⟩

theorem bundleA_fix_idempotent (c : C001 × CfgK) (toks toks' : List Tok) (h : fix bundleA c toks = .ok toks') :
    fix bundleA c toks' = .ok toks' := (goodA c).idem toks toks' h

/-- bundle B = MD004 ⊗ MD019 ⊗ MD029 ⊗ MD035 ⊗ MD039. -/
theorem bundleB_fix_removes_triggers (c : CfgB) (toks toks' : List Tok) (h : fix bundleB c toks = .ok toks') :
    scan md004 c.1 toks' = .ok [] ∧ scan md019 () toks' = .ok [] ∧ scan md029 c.2.2.1 toks' = .ok [] ∧
    scan md035 c.2.2.2.1 toks' = .ok [] ∧ scan md039 () toks' = .ok [] := by
  have h0 := (goodB c).h1 toks toks' h
  obtain ⟨h4, hK⟩ := scan_prod_nil md004 (md019 ⊗ md029 ⊗ md035 ⊗ md039) c toks' h0
  obtain ⟨h19, hK2⟩ := scan_prod_nil md019 (md029 ⊗ md035 ⊗ md039) c.2 toks' hK
  obtain ⟨h29, hK3⟩ := scan_prod_nil md029 (md035 ⊗ md039) c.2.2 toks' hK2
  obtain ⟨h35, h39⟩ := scan_prod_nil md035 md039 c.2.2.2 toks' hK3
  exact ⟨h4, h19, h29, h35, h39⟩

theorem bundleB_fix_idempotent (c : CfgB) (toks toks' : List Tok) (h : fix bundleB c toks = .ok toks') :
    fix bundleB c toks' = .ok toks' := (goodB c).idem toks toks' h

/-- MD001 and MD019 in ONE pass: the joint fix leaves an MD019 trigger behind (the same witness as `md001_md019_interference`;
    MD019 saw the tab one column wide and requested nothing). -/
theorem md001_md019_same_pass :
    ∃ toks toks', fix (md001 ⊗ md019) ({}, ()) toks = .ok toks' ∧ scan md019 () toks' = .ok [⟨3, 1, none⟩] :=
  ⟨[{ kind := .atx, hashCount := 1, line := 1, col := 1 }, { kind := .text, ws := [' '], line := 1, col := 3 }, { kind := .atxEnd },
    { kind := .atx, hashCount := 3, line := 3, col := 1 }, { kind := .text, ws := ['\t'], line := 3, col := 5 }, { kind := .atxEnd }],
   [{ kind := .atx, hashCount := 1, line := 1, col := 1 }, { kind := .text, ws := [' '], line := 1, col := 3 }, { kind := .atxEnd },
    { kind := .atx, hashCount := 2, line := 3, col := 1 }, { kind := .text, ws := ['\t'], line := 3, col := 5 }, { kind := .atxEnd }],
   by decide, by decide⟩

/-- non-vacuity of the bundle theorem: a stream on which MD001, MD004 and MD029 all act in the same pass. -/
example : (fix bundleA ({}, {}, {}, {}, ()) [{ kind := .atx, hashCount := 1 }, { kind := .atx, hashCount := 3 },
      { kind := .ulist, seq := ['*'] }, { kind := .ulistEnd }, { kind := .ulist, seq := ['+'] }, { kind := .ulistEnd },
      { kind := .olist, content := ['3'], indent := 3 }, { kind := .li, content := ['3'], indent := 3 }, { kind := .olistEnd }]).map
    (·.map (fun t => (t.hashCount, t.seq, t.content))) =
    .ok [(1, [], []), (2, [], []), (0, ['*'], []), (0, [], []), (0, ['*'], []), (0, [], []), (0, [], ['1']), (0, [], ['2']), (0, [], [])] := by
  decide

/-! ## MD029 / MD004 versus MD030 (MD030: scan mode only) -/

/-- MD029 → MD030 interference (machine-checked counter-example to H2, both rules have fix level 1): `10. x` satisfies MD030
    (marker `10.` + one space = indent 4); MD029 renumbers the FIRST item to `1` without touching `indent_level`
    (`__report_invalid` adjusts it only for later items), so two spaces follow the marker and MD030 reports the list.
    Realised by the document `"10. x\n"`: `pymarkdown fix` writes `1.  x`, a re-scan reports MD030. -/
theorem md029_md030_interference :
    ∃ toks toks', scan md030 {} toks = .ok [] ∧ fix md029 {} toks = .ok toks' ∧
      (scan md030 {} toks').map (·.map rpos') = .ok [(1, 1)] :=
  ⟨[{ kind := .olist, content := ['1', '0'], indent := 4, line := 1, col := 1 }, { kind := .para, line := 1, col := 5 },
    { kind := .paraEnd }, { kind := .olistEnd }],
   [{ kind := .olist, content := ['1'], indent := 4, line := 1, col := 1 }, { kind := .para, line := 1, col := 5 },
    { kind := .paraEnd }, { kind := .olistEnd }], by decide, by decide, by decide⟩

/-- MD004's fix is inert for MD030 (MD030 reads kind, position, `indent_level` and the LENGTH of `list_start_content`, never the bullet). -/
theorem md004_fix_inert_for_md030 (c4 : C004) (c30 : C030) (toks toks' : List Tok) (h : fix md004 c4 toks = .ok toks') :
    scan md030 c30 toks' = scan md030 c30 toks :=
  scan_congr md030 c30 (fun t t' => t' = { t with seq := t'.seq })
    (fun fm s i t t' hs => by
      rw [hs]
      show next030 c30 fm s i _ = next030 c30 fm s i t
      unfold next030 ent030
      rfl) toks toks' (All₂.imp (fun _ _ hp => hp.1) (md004_fix_only_style c4 toks toks' h))

end Verif.Props.TokenRules
