import Verif.Lemmas.ListRules.MD006
import Verif.Model.TokenRules.Product
/-!
  Property theorems about the faithful models of the list-indentation rules MD007 and MD006 and of
  `ContainerTokenManager` (C06 / C07 / C08 / C09 / C13 / C15).  MD005 is not modelled yet (see NOTES-ListRules.md).

  `scan r c toks`, `fix r c toks`, `fixReqs r c toks` are the runs of `Verif.Model.TokenRules`; `.error` = the Python raises.
  Unless a hypothesis is written, a theorem holds for EVERY token list (also lists no parser produces).
-/
namespace Verif.Props.ListRules
open Verif.Model.TokenRules Verif.Model.ListRules

/-- (line, column) of the reports -/
def pos (x : Except Err (List Report)) : Except Err (List (Int × Int)) := x.map (fun l => l.map (fun r => (r.line, r.col)))

/-- scan the result of a fix -/
def thenScan {Cfg St : Type} (r : Rule Cfg St) (c : Cfg) (x : Except Err (List Tok)) : Except Err (List (Int × Int)) :=
  match x with
  | .ok d => pos (scan r c d)
  | .error e => .error e

/-! ## ContainerTokenManager.clear -/

/-- `clear()` resets three of the four fields … -/
theorem ctm_clear_resets (s : Ctm) : s.clear.stack = [] ∧ s.clear.bq = [] ∧ s.clear.lastLeaf = none := ⟨rfl, rfl, rfl⟩

/-- … and leaves `list_adjust_map` as it was: after `clear()` the object equals a fresh one iff the map was empty. -/
theorem ctm_clear_eq_fresh_iff (s : Ctm) : s.clear = {} ↔ s.adj = [] := by
  constructor
  · intro h; have := congrArg Ctm.adj h; exact this
  · intro h; cases s; simp only [Ctm.clear] at *; subst h; rfl

/-- non-vacuity: one list start is enough to leave an entry behind. -/
example : (runPrefix md007.toRule {} false {} 0 [{ kind := .ulist, col := 1, indent := 2 }]).clear ≠ {} := by decide

/-! ## MD007 ul-indent -/

/-- C13 / C15, the part that holds: whatever state the plug-in object is in when `starting_new_file` runs (any first
    file, abandoned anywhere), if a FRESH object scans the next file without an exception and reports `r`, the reused
    object reports exactly `r` (same for the fix requests).
    Full statement `scanAfter md007 c first second = scan md007 c second` is FALSE: `md007_state_reset_excluded`. -/
theorem md007_state_reset_partial (c : C007) (s : Ctm) (fm : Bool) (toks : List Tok) (s' : Ctm) (rps : List Report)
    (fxs : List FixReq) (h : runFrom md007.toRule c fm (md007.init c) 0 toks = .ok (s', rps, fxs)) :
    ∃ s'', runFrom md007.toRule c fm (md007.reset s) 0 toks = .ok (s'', rps, fxs) := by
  obtain ⟨d', hd⟩ := runFrom007_adj c fm toks {} s.adj 0 s' rps fxs h (fun k v hk => by simp at hk)
  exact ⟨_, hd⟩

theorem md007_scanAfter_partial (c : C007) (first second : List Tok) (r : List Report)
    (h : scan md007.toRule c second = .ok r) : scanAfter md007 c first second = .ok r := by
  unfold scan at h
  split at h
  · cases h
  · rename_i s' rps fxs hr
    cases h
    obtain ⟨s'', h2⟩ := md007_state_reset_partial c (runPrefix md007.toRule c false (md007.init c) 0 first) false second s' r fxs hr
    unfold scanAfter; rw [h2]

/-- the excluded point: `list_adjust_map` survives `clear()`.  First file `- a` abandoned after its list start, second
    stream a block quote start followed by a stray `li`: a fresh object raises KeyError, the reused one reports nothing.
    (Synthetic second stream; on the pinned tree no parsed stream was found on which a fresh MD007 raises KeyError.) -/
theorem md007_state_reset_excluded :
    let first : List Tok := [{ kind := .ulist, col := 1, indent := 2 }]
    let second : List Tok := [{ kind := .bquote, leading := some ['>', ' '] }, { kind := .li, col := 1, indent := 2 }]
    scan md007.toRule {} second = .error .keyError ∧ scanAfter md007 {} first second = .ok [] := by decide

/-- C07 totality (scan mode): MD007 raises nothing on a stream that satisfies `guard007` — containers are closed only
    when one is open, list ends and `li` come directly inside a list, LRD tokens carry their debug strings, and whenever
    an unordered list (item) is checked, every enclosing block quote below the innermost bullets has a
    `bleading_spaces` line for the line the manager has counted to (the LINE BUDGET).
    Partial: fix mode additionally needs `len(extracted_whitespace) >= column_delta` at every trigger (`md007_fix_assert_excluded`). -/
theorem md007_total_partial (c : C007) (toks : List Tok) (hg : guard007 [] none toks = true) :
    ∃ r, scan md007.toRule c toks = .ok r := by
  obtain ⟨s', rps, h⟩ := runFrom007_scan_ok c toks [] none {} 0 ⟨rfl, trivial, trivial, rfl⟩ hg
  unfold scan
  rw [show md007.toRule.init c = ({} : Ctm) from rfl, h]
  exact ⟨_, rfl⟩

/-- … and then a reused object gives the same reports as a fresh one. -/
theorem md007_state_reset (c : C007) (first second : List Tok) (hg : guard007 [] none second = true) :
    scanAfter md007 c first second = scan md007.toRule c second := by
  obtain ⟨r, h⟩ := md007_total_partial c second hg
  rw [h]; exact md007_scanAfter_partial c first second r h

/-- the stream of `> > + list` below `>` / `> >` (known_findings F-CRASH-MD007-calculate_base_column_block_quote,
    document `">\n> >\n> > + list\n> >   item"`) -/
def crashStream : List Tok :=
  [{ kind := .bquote, line := 1, col := 1, leading := some ['>'] }, { kind := .blank, line := 1, col := 2 },
   { kind := .bquote, line := 2, col := 1, leading := some "> >\n> > \n> > ".toList }, { kind := .blank, line := 2, col := 4 },
   { kind := .ulist, line := 3, col := 5, indent := 6, leading := some [' ', ' '] }]

/-- excluded point (LINE BUDGET): the outer quote has ONE line of `bleading_spaces` (the parser continues to record
    the prefix in the inner quote only) but the manager has counted one line in it: IndexError, as the real rule. -/
theorem md007_total_excluded_known_crash :
    guard007 [] none crashStream = false ∧ scan md007.toRule {} crashStream = .error .indexError := by decide

/-- further excluded points (synthetic): `li` with no open container; `li` / a list end directly inside a block quote;
    an end with nothing open; a block quote without `bleading_spaces` below a bullet. -/
theorem md007_total_excluded :
    scan md007.toRule {} [{ kind := .li }] = .error .indexError ∧
    scan md007.toRule {} [{ kind := .bquote, leading := some [] }, { kind := .li }] = .error .keyError ∧
    scan md007.toRule {} [{ kind := .bquote, leading := some [] }, { kind := .ulistEnd }] = .error .keyError ∧
    scan md007.toRule {} [{ kind := .bquoteEnd }] = .error .keyError ∧
    scan md007.toRule {} [{ kind := .bquote }, { kind := .ulist }] = .error .assertion := by decide

/-- non-vacuity of the guard: `- a` / `  - b` / `- c` inside a block quote with three lines of prefix. -/
example :
    let d : List Tok := [{ kind := .bquote, col := 1, leading := some "> \n> \n> ".toList },
      { kind := .ulist, line := 1, col := 3, indent := 4 }, { kind := .para }, { kind := .text }, { kind := .paraEnd },
      { kind := .ulist, line := 2, col := 6, indent := 7 }, { kind := .para }, { kind := .text }, { kind := .paraEnd }, { kind := .ulistEnd },
      { kind := .li, line := 3, col := 3, indent := 4 }, { kind := .para }, { kind := .text }, { kind := .paraEnd }, { kind := .ulistEnd }, { kind := .bquoteEnd }]
    guard007 [] none d = true ∧ (scan md007.toRule {} d).map (·.map (fun r => (r.line, r.col))) = .ok [(2, 6)] := by decide

/-- C07 positions: every report carries the line and column of an unordered-list start or list-item token of the stream. -/
theorem md007_reports_in_range (c : C007) (toks : List Tok) (r : List Report) (h : scan md007.toRule c toks = .ok r) :
    ∀ x ∈ r, ∃ t ∈ toks, (t.kind = .ulist ∨ t.kind = .li) ∧ x.line = t.line ∧ x.col = t.col := by
  unfold scan at h
  split at h
  · cases h
  · rename_i s' rps fxs hr
    cases h
    exact runFrom_reports md007.toRule c false _
      (fun s i t s' rp fx hn => (next007_shape c false s i t s' rp fx hn).2.1) toks _ 0 s' r fxs hr

/-- the fix requests of MD007 always name the token being processed. -/
theorem md007_fix_local : IsLocal md007.toRule := md007_local

/-- C06, for streams of bullets only (no block quote, no ordered list): "This rule is triggered when the indentation of
    an unordered list item is more than `indent` × (nesting depth)".  `bullets007 c n toks` is the list of the
    unordered-list starts / items whose `column − 1 > indent × depth`, with `depth` = the number of unordered lists open
    around the token (+1 with `start_indented`), counted by a plain integer `n`. -/
def bullets007 (c : C007) : Int → List Tok → List (Int × Int)
  | _, [] => []
  | n, t :: ts =>
    let sh : Int := if c.startIndented then 1 else 0
    match t.kind with
    | .ulist => (if (n + sh) * c.indent < t.col - 1 then [(t.line, t.col)] else []) ++ bullets007 c (n + 1) ts
    | .li => (if (n - 1 + sh) * c.indent < t.col - 1 then [(t.line, t.col)] else []) ++ bullets007 c n ts
    | .ulistEnd => bullets007 c (n - 1) ts
    | _ => bullets007 c n ts

/-- a test of `bullets007` against the model on a nested stream (a `decide` over literals — a test, not the general theorem;
    the general `md007_scan_iff` for bullet-only streams is NOT proved, see NOTES). -/
example :
    let d : List Tok := [{ kind := .ulist, line := 1, col := 2, indent := 3 }, { kind := .para }, { kind := .paraEnd },
      { kind := .ulist, line := 2, col := 4, indent := 5 }, { kind := .li, line := 3, col := 3, indent := 5 }, { kind := .ulistEnd },
      { kind := .li, line := 4, col := 1, indent := 2 }, { kind := .ulistEnd }]
    (scan md007.toRule {} d).map (·.map (fun r => (r.line, r.col))) = .ok (bullets007 {} 0 d) ∧ bullets007 {} 0 d = [(1, 2), (2, 4)] := by
  decide

/-! ### the fix of MD007 at token level: H1 and idempotence FAIL for list items (`li`) -/

/-- H1 counter-example (token level): `__check_apply_fix` never requests `column_number` for an `li` token
    (`if not token.is_new_list_item`), so the fixed `li` keeps the column that triggered and a scan of the fixed
    stream reports it again.  (At document level the column is recomputed by the re-parse.) -/
theorem md007_fix_keeps_li_trigger :
    let d : List Tok := [{ kind := .ulist, line := 1, col := 1, indent := 2 }, { kind := .li, line := 2, col := 3, indent := 4, ws := [' ', ' '] }]
    (fix md007.toRule {} d).map (·.map (fun t => (t.col, t.indent, t.ws))) = .ok [(1, 2, []), (3, 2, [])] ∧
    thenScan md007.toRule {} (fix md007.toRule {} d) = .ok [(2, 3)] := by decide

/-- idempotence counter-example (token level): on the same stream a second fix raises the
    `assert len(list_token.extracted_whitespace) >= column_delta`. -/
theorem md007_fix_not_idempotent :
    let d : List Tok := [{ kind := .ulist, line := 1, col := 1, indent := 2 }, { kind := .li, line := 2, col := 3, indent := 4, ws := [' ', ' '] }]
    (match fix md007.toRule {} d with
     | .ok d' => (fix md007.toRule {} d').map (fun _ => ())
     | .error e => .error e) = .error .assertion := by decide

/-- excluded point of fix-mode totality, reachable by a PARSED stream: the column of a list token counts a TAB in
    `extracted_whitespace` as up to four columns, `len()` counts it as one: `assert len(ws) >= column_delta` fails
    (document `"-\ta\n\n \t- b\n"`-like streams; here the abstract stream). -/
theorem md007_fix_assert_excluded :
    fixReqs md007.toRule {} [{ kind := .ulist, line := 1, col := 5, indent := 6, ws := ['\t'] }] = .error .assertion ∧
    (scan md007.toRule {} [{ kind := .ulist, line := 1, col := 5, indent := 6, ws := ['\t'] }]).map (·.map (fun r => (r.line, r.col))) = .ok [(1, 5)] := by
  decide

/-! ## MD006 ul-start-left -/

/-- C13 / C15: `starting_new_file` reassigns the only field; a reused object is a fresh object. -/
theorem md006_state_reset (first second : List Tok) : scanAfter md006 () first second = scan md006.toRule () second := rfl

/-- C07 totality (scan and fix requests): nothing is raised on a stream in which no prefix closes more containers than it
    opened, `li` tokens come inside a container (`bal006`) and every block quote token has `bleading_spaces`. -/
theorem md006_total (fm : Bool) (toks : List Tok) (hb : bal006 0 toks = true) (hq : ∀ t ∈ toks, bqOk t = true) :
    ∃ r, runFrom md006.toRule () fm (md006.init ()) 0 toks = .ok r :=
  runFrom006_ok fm toks [] 0 (by simp) hq hb

theorem md006_scan_total (toks : List Tok) (hb : bal006 0 toks = true) (hq : ∀ t ∈ toks, bqOk t = true) :
    ∃ r, scan md006.toRule () toks = .ok r := by
  obtain ⟨⟨s, rps, fxs⟩, h⟩ := md006_total false toks hb hq
  unfold scan; rw [h]; exact ⟨_, rfl⟩

/-- excluded points: an end / an `li` with nothing open (IndexError), a block quote without `bleading_spaces` as the
    parent of a bullet list (AssertionError). -/
theorem md006_total_excluded :
    scan md006.toRule () [{ kind := .ulistEnd }] = .error .indexError ∧
    scan md006.toRule () [{ kind := .li }] = .error .indexError ∧
    scan md006.toRule () [{ kind := .bquote }, { kind := .ulist }] = .error .assertion := by decide

example : bal006 0 [{ kind := .bquote, leading := some ['>', ' '] }, { kind := .ulist, col := 3 }, { kind := .li, col := 3 },
    { kind := .ulistEnd }, { kind := .bquoteEnd }] = true := by decide

/-- C07 positions: every report carries the line and column of an unordered-list start or list-item token of the stream. -/
theorem md006_reports_in_range (toks : List Tok) (r : List Report) (h : scan md006.toRule () toks = .ok r) :
    ∀ x ∈ r, ∃ t ∈ toks, (t.kind = .ulist ∨ t.kind = .li) ∧ x.line = t.line ∧ x.col = t.col := by
  unfold scan at h
  split at h
  · cases h
  · rename_i s' rps fxs hr
    cases h
    exact runFrom_reports md006.toRule () false _
      (fun s i t s' rp fx hn => (next006_shape false s i t s' rp fx hn).2) toks _ 0 s' r fxs hr

theorem md006_fix_local : IsLocal md006.toRule := md006_local

/-- H1 counter-example (C09): the expected column of a nested bullet list is its parent's `indent_level` AS THE PARSER
    SET IT; the fix moves the parent but the requests are applied after the pass, so the child (which did not trigger)
    triggers in the fixed stream — `  - a` / `    - b`: one fix run does not reach a fixed point. -/
theorem md006_fix_not_converged :
    let d : List Tok := [{ kind := .ulist, line := 1, col := 3, indent := 4, ws := [' ', ' '] },
                         { kind := .ulist, line := 2, col := 5, indent := 6, ws := [' ', ' ', ' ', ' '] }, { kind := .ulistEnd }, { kind := .ulistEnd }]
    (scan md006.toRule () d).map (·.map (fun r => (r.line, r.col))) = .ok [(1, 3)] ∧
    thenScan md006.toRule () (fix md006.toRule () d) = .ok [(2, 5)] := by decide

/-! ## interference -/

/-- MD006 × MD007 in ONE pass: both request `indent_level` / `extracted_whitespace` / `column_number` of the same list
    token — `BadPluginFixError` ("multiple plugins … same field").  On the pinned tree MD006 is disabled by default and
    has fix level 0 while MD007 has fix level 3, so the two run in different fix passes (FixSched); this row is what
    happens if they are ever given the same level. -/
theorem md006_md007_same_pass_conflict :
    fix (md006.toRule ⊗ md007.toRule) ((), {}) [{ kind := .ulist, line := 1, col := 3, indent := 4, ws := [' ', ' '] }] = .error .badFix := by
  decide

end Verif.Props.ListRules
