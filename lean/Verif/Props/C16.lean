/-
  C16 — All entry points agree: file scan, stdin scan and the Python API.

  The entry points differ in exactly three mechanisms, each modelled faithfully in
  `Verif.Model.Lines` and tied to the real code by `tools/props/c16.py`:
    1. how a document becomes a sequence of lines (`FileSourceProvider` after a text-mode read,
       `InMemorySourceProvider` on a Python string),
    2. the temp-file round trip of `scan-stdin` / `scan_string` (`__scan_from_stdin`),
    3. how API settings become an argv for the same `main()`.
  The theorems say these mechanisms cannot make the entry points disagree; where they can
  (CR in a string on a CR-LF platform) the hypothesis is stated and a counterexample is given.
-/
import Verif.Model.Lines
import Verif.Lemmas.Lines
import Verif.Lemmas.ApiArgs
namespace Verif.Props.C16
open Verif.Model.Lines Verif.Lemmas.Lines Verif.Lemmas.ApiArgs

/-! ## Base: splitting, joining, universal newlines -/

/-- Joining the lines of a text with `\n` gives the text back (line splitting loses nothing). -/
theorem joinNL_splitNL (s : Str) : joinNL (splitNL s) = s := joinOn_splitOn NL s

example : joinNL (splitNL "a\n\nb\n".toList) = "a\n\nb\n".toList := by decide

/-- A text has one more line than it has `\n` characters. -/
theorem splitNL_length (s : Str) : (splitNL s).length = s.count NL + 1 := splitOn_length NL s

example : (splitNL "a\n\nb\n".toList).length = 4 := by decide

/-- No line contains a `\n`. -/
theorem splitNL_noNL (s : Str) : ∀ l ∈ splitNL s, NL ∉ l := splitOn_noSep NL s

/-- Splitting is the inverse of joining on `\n`-free lines. -/
theorem splitNL_joinNL (ls : List Str) (hne : ls ≠ []) (h : ∀ l ∈ ls, NL ∉ l) :
    splitNL (joinNL ls) = ls := splitOn_joinOn NL ls hne h

example : splitNL (joinNL ["a".toList, [], "b ".toList]) = ["a".toList, [], "b ".toList] := by decide

/-- Universal-newline translation is idempotent. -/
theorem univNL_idem (s : Str) : univNL (univNL s) = univNL s := Verif.Lemmas.Lines.univNL_idem s

example : univNL "a\r\nb\rc\n\r".toList = "a\nb\nc\n\n".toList := by decide

/-- After translation no `\r` is left … -/
theorem univNL_noCR (s : Str) : noCR (univNL s) := Verif.Lemmas.Lines.univNL_noCR s

/-- … and a text without `\r` is unchanged. -/
theorem univNL_id_of_noCR (s : Str) (h : noCR s) : univNL s = s := univNL_of_noCR s h

/-! ## The two providers -/

/-- `FileSourceProvider` yields exactly the lines of the universal-newline text, split at `\n`;
`did_final_line_end_with_newline` is true exactly when the translated text is empty or ends in `\n`. -/
theorem fsp_eq_split (raw : Str) :
    fspLines raw = splitNL (univNL raw) ∧
    (fspFinalNL raw = true ↔ (univNL raw = [] ∨ (univNL raw).getLast? = some NL)) := by
  unfold fspLines fspFinalNL fspRead
  rw [fspOfReadlines_readlines]
  refine ⟨rfl, ?_⟩
  by_cases h : univNL raw = []
  · simp [h]
  · simp [h, endsNL]

example : fspLines "a\r\nb \rc".toList = ["a".toList, "b ".toList, "c".toList] ∧
    fspFinalNL "a\r\nb \rc".toList = false := by decide
example : fspLines "a\n".toList = ["a".toList, []] ∧ fspFinalNL "a\n".toList = true := by decide
/-- the empty file: one empty line, and the flag says "ended with newline" (initial value of the loop variable) -/
example : fspLines [] = [[]] ∧ fspFinalNL [] = true := by decide

/-- The flag is true exactly when the last delivered line is the empty line the provider appended
(so MD047 can decide from either). -/
theorem fsp_finalNL_iff_last_empty (raw : Str) :
    fspFinalNL raw = true ↔ (fspLines raw).getLast? = some [] := by
  unfold fspLines fspFinalNL fspRead
  rw [fspOfReadlines_readlines]
  exact (splitNL_getLast_nil_iff (univNL raw)).symm

/-- The line stream handed to `next_line`: the lines in order, numbered from 1, and
`is_at_end_of_file` is true for the last line only. -/
theorem fsp_stream (raw : Str) :
    (fspStream raw).map (·.text) = fspLines raw ∧
    (fspStream raw).map (·.number) = List.range' 1 (fspLines raw).length ∧
    ∀ d ∈ fspStream raw, d.atEnd = decide (d.number = (fspLines raw).length) := by
  refine ⟨deliverFrom_text _ _ _, deliverFrom_numbers _ _ _, ?_⟩
  intro d hd
  have h1 := deliverFrom_atEnd _ _ _ d hd
  have h2 : d.number ∈ List.range' 1 (fspLines raw).length := by
    have := deliverFrom_numbers (fspLines raw).length 0 (fspLines raw)
    rw [← this]; exact List.mem_map_of_mem hd
  rw [h1]
  simp [List.mem_range'] at h2
  simp only [decide_eq_decide]
  omega

example : fspStream "a\nb".toList = [⟨1, "a".toList, false⟩, ⟨2, "b".toList, true⟩] := by decide

/-- `InMemorySourceProvider` yields exactly the lines of its string, split at `\n` (no translation). -/
theorem mem_eq_split (s : Str) : memLines s = splitNL s := memDrain_eq_split s

example : memLines "a\n\nb\n".toList = ["a".toList, [], "b".toList, []] := by rw [mem_eq_split]; decide
example : memLines [] = [[]] := by rw [mem_eq_split]; decide

/-- The in-memory provider's stream has the same shape (numbering, end-of-input flag on the last line only). -/
theorem mem_stream (s : Str) :
    (memStream s).map (·.text) = memLines s ∧
    (memStream s).map (·.number) = List.range' 1 (memLines s).length ∧
    ∀ d ∈ memStream s, d.atEnd = decide (d.number = (memLines s).length) := by
  refine ⟨deliverFrom_text _ _ _, deliverFrom_numbers _ _ _, ?_⟩
  intro d hd
  have h1 := deliverFrom_atEnd _ _ _ d hd
  have h2 : d.number ∈ List.range' 1 (memLines s).length := by
    have := deliverFrom_numbers (memLines s).length 0 (memLines s)
    rw [← this]; exact List.mem_map_of_mem hd
  rw [h1]
  simp [List.mem_range'] at h2
  simp only [decide_eq_decide]
  omega

/-- Both providers deliver the same line sequence for the same text: the file provider on a file
whose content is `raw` and the in-memory provider on the universal-newline translation of `raw` —
for every text: with or without final newline (both end with an extra empty line exactly when the
text ends in a newline), CR-LF, lone CR, and the empty document (both `[""]`). -/
theorem fsp_eq_mem (raw : Str) : fspLines raw = memLines (univNL raw) := by
  rw [(fsp_eq_split raw).1, mem_eq_split]

/-- On a text without `\r` the two providers agree literally. -/
theorem fsp_eq_mem_of_noCR (s : Str) (h : noCR s) : fspLines s = memLines s := by
  rw [fsp_eq_mem, univNL_id_of_noCR s h]

/-- The hypothesis is needed: the in-memory provider does not translate `\r`. -/
example : fspLines "a\r\nb".toList ≠ memLines "a\r\nb".toList := by rw [mem_eq_split]; decide
example : fspLines "a\nb\n".toList = memLines "a\nb\n".toList := by rw [mem_eq_split]; decide
example : fspLines "a\nb".toList = memLines "a\nb".toList := by rw [mem_eq_split]; decide
example : fspLines [] = memLines [] := by rw [mem_eq_split]; decide

/-- What a file scan sees depends on the file content only up to universal-newline translation. -/
theorem fsp_univ_invariant (r₁ r₂ : Str) (h : univNL r₁ = univNL r₂) : fspRead r₁ = fspRead r₂ := by
  unfold fspRead; rw [h]

example : fspRead "a\r\nb\r".toList = fspRead "a\nb\n".toList := by decide

/-! ## stdin / API string → temp file → reader -/

/-- `for line in sys.stdin: outfile.write(line)` copies the (translated) text unchanged. -/
theorem readlines_flatten (t : Str) : (readlines t).flatten = t := Verif.Lemmas.Lines.readlines_flatten t

/-- stdin → temp file → `FileSourceProvider` sees what a direct read of a file with the same
content sees, on either platform (`os.linesep` LF or CR-LF). -/
theorem spool_idem (sep : LineSep) (raw : Str) : fspRead (spoolStdin sep raw) = fspRead raw := by
  apply fsp_univ_invariant
  unfold spoolStdin
  rw [readlines_flatten]
  cases sep with
  | lf => rw [writeText_lf, univNL_idem]
  | crlf => rw [univNL_writeText_crlf _ (univNL_noCR raw)]

example : fspRead (spoolStdin .crlf "a\r\nb\rc".toList) = fspRead "a\r\nb\rc".toList := by decide

/-- API string → temp file → reader, where `os.linesep` is LF: same as a file with that content. -/
theorem spool_string_lf (s : Str) : fspRead (spoolString .lf s) = fspRead s := by
  unfold spoolString; rw [writeText_lf]

example : fspRead (spoolString .lf "a\r\nb\n".toList) = fspRead "a\r\nb\n".toList := by decide

/-- On a CR-LF platform the same holds for strings without `\r` … -/
theorem spool_string_crlf_partial (s : Str) (h : noCR s) : fspRead (spoolString .crlf s) = fspRead s := by
  apply fsp_univ_invariant
  unfold spoolString
  rw [univNL_writeText_crlf s h, univNL_id_of_noCR s h]

/-- … and fails for a string that already contains CR-LF (every line end is doubled). -/
example : fspLines (spoolString .crlf "a\r\nb".toList) = ["a".toList, [], "b".toList] ∧
    fspLines "a\r\nb".toList = ["a".toList, "b".toList] := by decide

/-! ## API argument assembly -/

/-- The argv built by the API and the argv a user types for the same settings parse successfully
and select the same configuration file, `--set` list, plug-in paths, strictness, action, log
options — and the same enabled/disabled state for every plug-in (identifiers are non-empty). -/
theorem api_args_equiv (c : ApiCfg) (act : Str) (h : ValuesOK c act) (hc : CliOK c) :
    ∃ pa pc, parseArgs (apiArgs c act) = .ok pa ∧ parseArgs (cliArgs c act) = .ok pc ∧
      pa.config = pc.config ∧ pa.sets = pc.sets ∧ pa.addPlugin = pc.addPlugin ∧ pa.strict = pc.strict ∧
      pa.continueOnError = pc.continueOnError ∧ pa.sub = pc.sub ∧ pa.rest = pc.rest ∧
      pa.logLevel = pc.logLevel ∧ pa.logFile = pc.logFile ∧ pa.stackTrace = pc.stackTrace ∧
      ∀ ids : List Str, [] ∉ ids →
        cmdLineState ids (idSet pa.enable) (idSet pa.disable) =
        cmdLineState ids (idSet pc.enable) (idSet pc.disable) := by
  refine ⟨apiParsed c act, cliParsed c act, parse_apiArgs c act h, parse_cliArgs c act h hc,
    rfl, rfl, rfl, rfl, rfl, rfl, rfl, rfl, rfl, rfl, ?_⟩
  intro ids hids
  apply cmdLineState_congr ids _ _ _ _ hids
  · intro i hi; exact idSet_api_cli c.enable i hi
  · intro i hi; exact idSet_api_cli c.disable i hi

def exampleCfg : ApiCfg :=
  { inheritLogging := false, logLevel := lit "DEBUG", logFile := some (lit "x.log"), stackTrace := true,
    strict := true, pluginPaths := [lit "p.py"], config := some (lit "c.json"),
    enable := [lit "md002", lit "First-Heading-H1"], disable := [lit " MD013", lit "*"],
    sets := [lit "plugins.md009.strict=$!True"] }

example : (parseArgs (apiArgs exampleCfg (lit "scan-stdin"))).toOption.map (·.enable) = some (lit ",md002,First-Heading-H1") := by decide
example : (parseArgs (cliArgs exampleCfg (lit "scan-stdin"))).toOption.map (·.enable) = some (lit "md002,First-Heading-H1") := by decide
example : idSet (lit ", MD013,*") = [[], lit "md013", lit "*"] := by decide
example : cmdLineState [lit "md002", lit "first-heading-h1"] (idSet (lit ",md002")) (idSet (lit ",md041")) = some true := by decide
/-- the API's extra empty identifier would matter only for a plug-in with an empty identifier -/
example : cmdLineState [[]] (idSet (lit ",md002")) [] ≠ cmdLineState [[]] (idSet (lit "md002")) [] := by decide
/-- a value that looks like an option is rejected (the hypothesis of `api_args_equiv`) -/
example : (parseArgs [lit "-e", lit "-x", lit "scan"]).toOption = none := by decide

/-- Log options (level, file, stack trace, log inheritance) land only in fields the scan does not
read: two API configurations that differ only in them produce the same `ScanInputs`. -/
theorem log_args_inert (c c' : ApiCfg) (act : Str) (h : ValuesOK c act) (h' : ValuesOK c' act)
    (hsame : c.strict = c'.strict ∧ c.pluginPaths = c'.pluginPaths ∧ c.config = c'.config ∧
      c.enable = c'.enable ∧ c.disable = c'.disable ∧ c.sets = c'.sets) :
    ∃ p p', parseArgs (apiArgs c act) = .ok p ∧ parseArgs (apiArgs c' act) = .ok p' ∧
      p.scanInputs = p'.scanInputs := by
  refine ⟨_, _, parse_apiArgs c act h, parse_apiArgs c' act h', ?_⟩
  obtain ⟨h1, h2, h3, h4, h5, h6⟩ := hsame
  simp [Parsed.scanInputs, apiParsed, h1, h2, h3, h4, h5, h6]

def exampleCfgQuiet : ApiCfg :=
  { exampleCfg with logLevel := lit "CRITICAL", logFile := none, stackTrace := false, inheritLogging := true }

example : (parseArgs (apiArgs exampleCfg (lit "scan"))).toOption.map (·.scanInputs) =
    (parseArgs (apiArgs exampleCfgQuiet (lit "scan"))).toOption.map (·.scanInputs) := by decide
/-- … while the log fields themselves do differ (the options are not simply dropped). -/
example : (parseArgs (apiArgs exampleCfg (lit "scan"))).toOption.map (·.logLevel) = some (some (lit "DEBUG")) ∧
    (parseArgs (apiArgs exampleCfg (lit "scan"))).toOption.map (·.stackTrace) = some true := by decide

end Verif.Props.C16
