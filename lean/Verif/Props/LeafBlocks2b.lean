/-
  LeafBlocks2b — statements the LeafBlocks2 block left open (C03 / C01):
  * every difference class of `html_start_spec` (FALSE as an equality) and the TAB witnesses of `fence_content_spec_partial` /
    `icode_content_spec` as THEOREMS about the concrete line (kernel evaluation);
  * `html_start_spec_partial` (kinds 2–5: `<!--`, `<?`, `<!LETTER`, `<![CDATA[`; every line indented ≤ 3, no further hypothesis;
    `…_cm031` for 2, 3, 5), `html_start_spec1_partial` (kind 1, tab-free text), `html_start_spec6_partial` (kind 6, text without
    TAB and U+212A; `</name`, `<name/>` included), `html_start_spec_1to6_partial` (all six together): the faithful recogniser
    answers kind k iff the specification's start condition is k; the hypotheses are shown necessary by `…_excluded` theorems;
    `html_start_spec_indented` / `html_start_spec_other`: lines indented four or more / not beginning with `<` start no HTML
    block, both sides, every kind.  What is left of `html_start_spec` is kind 7, where the equality is false.
  Models: `Verif.Model.LeafBlocks2` (faithful), `Verif.Model.HtmlBlockSpec` (CommonMark §4.6).
  Lemmas: `Verif.Lemmas.LeafBlocks2bSpecial`, `LeafBlocks2bNormal` (kind 1), `LeafBlocks2bSix`, `LeafBlocks2bSlash` (kind 6).
-/
import Verif.Props.LeafBlocks2
import Verif.Lemmas.LeafBlocks2bSpecial
import Verif.Lemmas.LeafBlocks2bNormal
import Verif.Lemmas.LeafBlocks2bSix
import Verif.Lemmas.LeafBlocks2bSlash
namespace Verif.Props.LeafBlocks2b
open Verif.Model.Recognisers Verif.Model.InlineRecog Verif.Model.LeafBlocks2 Verif.Model
open Verif.Model.HtmlBlockSpec (gfm029 cm031 startOfLine startOfText EndsOn Contains cond1 cond2 cond3 cond4 cond5 cond6)

/-! ## `html_start_spec` is false: one theorem per difference class

Full statement (false): `∀ l inPara, TAB ∉ l → lineHtmlStart l inPara = .ok (startOfLine gfm029 l inPara)`.
The loops of the faithful model that recurse on `size - index` are unsealed so that the kernel evaluates them. -/

unseal scanOneOf pLoop cwcLoop cwoLoop in
/-- `<->`: a tag name may begin with `-` for `is_valid_tag_name`; pymarkdown: HTML block kind 7, CommonMark: no tag. -/
theorem html_start_differs_dash :
    lineHtmlStart "<->".toList false = .ok (some 7) ∧ startOfLine gfm029 "<->".toList false = none ∧
    startOfLine cm031 "<->".toList false = none := by decide

unseal scanOneOf pLoop cwcLoop cwoLoop in
/-- `<1 a>`: a tag name may begin with a digit. -/
theorem html_start_differs_digit :
    lineHtmlStart "<1 a>".toList false = .ok (some 7) ∧ startOfLine gfm029 "<1 a>".toList false = none ∧
    startOfLine cm031 "<1 a>".toList false = none := by decide

unseal scanOneOf pLoop cwcLoop cwoLoop in
/-- `<a B>`: upper-case attribute names are refused (`extract_html_attribute_name`); CommonMark: kind 7. -/
theorem html_start_differs_upper_attr :
    lineHtmlStart "<a B>".toList false = .ok none ∧ startOfLine gfm029 "<a B>".toList false = some 7 ∧
    startOfLine cm031 "<a B>".toList false = some 7 := by decide

unseal scanOneOf pLoop cwcLoop cwoLoop in
/-- `<a 1>`: an attribute name may begin with a digit (`__attribute_start_characters`). -/
theorem html_start_differs_digit_attr :
    lineHtmlStart "<a 1>".toList false = .ok (some 7) ∧ startOfLine gfm029 "<a 1>".toList false = none ∧
    startOfLine cm031 "<a 1>".toList false = none := by decide

unseal scanOneOf pLoop cwcLoop cwoLoop in
/-- `<lin` U+212A `>`: `str.lower` maps KELVIN SIGN to `k`, the name is found in the type-6 table; CommonMark: ASCII
case-insensitive, no block. -/
theorem html_start_differs_kelvin :
    lineHtmlStart ("<lin".toList ++ [KELVIN, '>']) false = .ok (some 6) ∧
    startOfLine gfm029 ("<lin".toList ++ [KELVIN, '>']) false = none ∧
    startOfLine cm031 ("<lin".toList ++ [KELVIN, '>']) false = none := by decide

unseal scanOneOf pLoop cwcLoop cwoLoop in
/-- version differences (0.29 behaviour against CommonMark 0.31.2): `<textarea>` -/
theorem html_start_differs_textarea :
    lineHtmlStart "<textarea>".toList false = .ok (some 7) ∧ startOfLine gfm029 "<textarea>".toList false = some 7 ∧
    startOfLine cm031 "<textarea>".toList false = some 1 := by decide

unseal scanOneOf pLoop cwcLoop cwoLoop in
/-- … `<search` / `<source` (the 0.31.2 table) -/
theorem html_start_differs_search :
    lineHtmlStart "<search x".toList false = .ok none ∧ startOfLine cm031 "<search x".toList false = some 6 ∧
    lineHtmlStart "<source x".toList false = .ok (some 6) ∧ startOfLine cm031 "<source x".toList false = none := by decide

unseal scanOneOf pLoop cwcLoop cwoLoop in
/-- … `<!a` (0.31.2: any ASCII letter) -/
theorem html_start_differs_decl_lower :
    lineHtmlStart "<!a".toList false = .ok none ∧ startOfLine gfm029 "<!a".toList false = none ∧
    startOfLine cm031 "<!a".toList false = some 4 := by decide

unseal scanOneOf pLoop cwcLoop cwoLoop in
/-- … `</pre>` alone: kind 7 in 0.29 and for pymarkdown, nothing in 0.31.2 -/
theorem html_start_differs_close_pre :
    lineHtmlStart "</pre>".toList false = .ok (some 7) ∧ startOfLine gfm029 "</pre>".toList false = some 7 ∧
    startOfLine cm031 "</pre>".toList false = none := by decide

unseal scanOneOf pLoop cwcLoop cwoLoop in
/-- agreement on one line of every kind (the `#guard` of the block as a theorem) -/
theorem html_start_agrees_each_kind :
    ["<script>", "<!-- x", "<?php", "<!DOCTYPE", "<![CDATA[", "</div", "<a b='c'/>  "].map (fun s => lineHtmlStart s.toList false)
        = [.ok (some 1), .ok (some 2), .ok (some 3), .ok (some 4), .ok (some 5), .ok (some 6), .ok (some 7)] ∧
    ["<script>", "<!-- x", "<?php", "<!DOCTYPE", "<![CDATA[", "</div", "<a b='c'/>  "].map (fun s => startOfLine gfm029 s.toList false)
        = [some 1, some 2, some 3, some 4, some 5, some 6, some 7] := by decide

/-- `</PRE>` alone on a line of an open kind-1 block: the specification's end condition holds (both versions, case-insensitive),
`check_normal_html_block_end` goes on (case-sensitive comparison). -/
theorem html_end_differs_case :
    normalEnd 1 "</PRE>".toList = false ∧ EndsOn gfm029 1 "</PRE>".toList ∧ EndsOn cm031 1 "</PRE>".toList :=
  ⟨by decide, ⟨"pre".toList, by decide, [], "</PRE>".toList, [], by decide, by decide⟩,
    ⟨"pre".toList, by decide, [], "</PRE>".toList, [], by decide, by decide⟩⟩

/-! ## start conditions 2–5: the faithful classifier is the specification -/

/-- **closed form** of `__check_for_special_html_blocks` on the text after `<`: the first of the specification's conditions
2, 3, 4 (0.29: upper-case letter), 5 that holds — for EVERY text. -/
theorem html_special_closed (r : Str) :
    checkSpecial r 0 =
      if cond2 r then some 2 else if cond3 r then some 3 else if cond4 gfm029 r then some 4
      else if cond5 r then some 5 else none := checkSpecial_closed r

/-- … hence, kind by kind (the four conditions exclude each other) -/
theorem html_special_iff (r : Str) :
    (checkSpecial r 0 = some 2 ↔ cond2 r = true) ∧ (checkSpecial r 0 = some 3 ↔ cond3 r = true) ∧
    (checkSpecial r 0 = some 4 ↔ cond4 gfm029 r = true) ∧ (checkSpecial r 0 = some 5 ↔ cond5 r = true) :=
  checkSpecial_iff r

/-- the specification side: "the start condition met is k" for k = 2 … 5 is the classifier's answer on the text after `<`
(condition 1 wants a letter after `<`, conditions 2–5 `!` or `?`) -/
theorem html_special_startOfText (r : Str) (inPara : Bool) (t : Nat) (ht : 2 ≤ t ∧ t ≤ 5) :
    startOfText gfm029 ('<' :: r) inPara = some t ↔ checkSpecial r 0 = some t := startOfText_special r inPara t ht

/-- **html_start_spec_partial** (start conditions 2–5, GFM 0.29): for every line indented by `k ≤ 3` spaces whose first
non-blank character is `<`, every text `r` after it, with or without a paragraph to interrupt, and k = 2 … 5:
`is_html_block` answers kind k iff `k` is the start condition the specification finds.
Full statement (all seven kinds): `lineHtmlStart l inPara = .ok (startOfLine gfm029 l inPara)` — false, see the `…_differs_…`
theorems above (all in kinds 6 / 7 and `str.lower`).  Lines that do not begin with `<` after the indentation / are indented by
four or more: `html_start_spec_indented`, `html_start_spec_other` below (all kinds). -/
theorem html_start_spec_partial (k : Nat) (hk : k ≤ 3) (r : Str) (inPara : Bool) (t : Nat) (ht : 2 ≤ t ∧ t ≤ 5) :
    lineHtmlStart (List.replicate k SP ++ '<' :: r) inPara = .ok (some t) ↔
      startOfLine gfm029 (List.replicate k SP ++ '<' :: r) inPara = some t := by
  rw [lineHtmlStart_lt k hk]
  unfold startOfLine
  rw [indentOf_spaces k 0 '<' r (by decide)]
  simp only [Nat.zero_add, if_pos hk]
  rw [startOfText_special r inPara t ht]
  cases hcs : checkSpecial r 0 with
  | some t' =>
    rw [determineType_special _ _ _ t' (by rw [checkSpecial_line]; exact hcs)]
    simp [Except.map]
  | none =>
    constructor
    · intro h
      exfalso
      cases hd : determineType (List.replicate k SP ++ '<' :: r) k inPara with
      | error e => rw [hd] at h; cases h
      | ok o =>
        rw [hd] at h
        cases o with
        | none => simp [Except.map] at h
        | some p =>
          obtain ⟨t', tag⟩ := p
          simp [Except.map] at h
          subst h
          have := determineType_normal_range _ _ _ _ _ (by rw [checkSpecial_line]; exact hcs) hd
          omega
    · intro h; cases h

example : (2 : Nat) ≤ 3 ∧ (2 ≤ 5 ∧ 5 ≤ 5) ∧
    startOfLine gfm029 (List.replicate 2 SP ++ '<' :: "![CDATA[ x".toList) true = some 5 := by decide

/-- **html_start_spec_partial_cm031**: the same against CommonMark 0.31.2 for the kinds 2, 3 and 5; kind 4 is wider there
(`html_start_differs_decl_lower`: `<!a`), so for k = 4 only "code ⇒ specification" holds. -/
theorem html_start_spec_partial_cm031 (k : Nat) (hk : k ≤ 3) (r : Str) (inPara : Bool) (t : Nat) (ht : t = 2 ∨ t = 3 ∨ t = 5) :
    lineHtmlStart (List.replicate k SP ++ '<' :: r) inPara = .ok (some t) ↔
      startOfLine cm031 (List.replicate k SP ++ '<' :: r) inPara = some t := by
  have hr : 2 ≤ t ∧ t ≤ 5 := by omega
  rw [html_start_spec_partial k hk r inPara t hr]
  unfold startOfLine
  rw [indentOf_spaces k 0 '<' r (by decide)]
  simp only [Nat.zero_add, if_pos hk]
  rw [startOfText_special r inPara t hr, startOfText_special_cm r inPara t ht]

example : (3 : Nat) ≤ 3 ∧ startOfLine cm031 (List.replicate 3 SP ++ '<' :: "?php".toList) true = some 3 := by decide

/-- … and a line indented by four or more spaces starts no HTML block, for the code and for the specification (every kind,
both versions) -/
theorem html_start_spec_indented (k : Nat) (hk : 4 ≤ k) (d : Char) (rest : Str) (hd : isWsChar d = false) (inPara : Bool) :
    lineHtmlStart (List.replicate k SP ++ d :: rest) inPara = .ok none ∧
    startOfLine gfm029 (List.replicate k SP ++ d :: rest) inPara = none ∧
    startOfLine cm031 (List.replicate k SP ++ d :: rest) inPara = none := by
  refine ⟨lineHtmlStart_ge k hk d rest hd inPara, ?_, ?_⟩ <;>
  · unfold startOfLine
    rw [indentOf_spaces k 0 d rest hd]
    simp only [Nat.zero_add]
    rw [if_neg (by omega)]

example : (4 : Nat) ≤ 5 ∧ isWsChar '<' = false := by decide

/-- … nor does a line whose first non-blank character is not `<` (every kind, both versions) -/
theorem html_start_spec_other (k : Nat) (d : Char) (rest : Str) (hd : isWsChar d = false) (hlt : d ≠ '<') (inPara : Bool) :
    lineHtmlStart (List.replicate k SP ++ d :: rest) inPara = .ok none ∧
    startOfLine gfm029 (List.replicate k SP ++ d :: rest) inPara = none ∧
    startOfLine cm031 (List.replicate k SP ++ d :: rest) inPara = none := by
  refine ⟨lineHtmlStart_other k d rest hd hlt inPara, ?_, ?_⟩ <;>
  · unfold startOfLine
    rw [indentOf_spaces k 0 d rest hd]
    simp only [Nat.zero_add]
    split
    · unfold startOfText
      split
      · next h => injection h with h _; exact absurd h hlt
      · rfl
    · rfl

example : isWsChar 'a' = false ∧ 'a' ≠ '<' := by decide

/-! ## start condition 1 -/

/-- **closed form** of the kind-1 test: the name `collect_until_one_of_characters(line, i, " >")` cuts out, lower-cased by
`str.lower`, is in `__html_block_1_start_tag_names` iff the text after `<` meets the specification's start condition 1
(0.29) — every tab-free text (lines reach the function tab-expanded). -/
theorem html_block1_closed (r : Str) (hnt : TAB ∉ r) :
    block1Names.contains (pyLower (r.takeWhile p1)) = cond1 gfm029 r := cond1_closed r hnt

/-- **html_start_spec1_partial** (start condition 1, GFM 0.29): for every line indented by `k ≤ 3` spaces whose first non-blank
character is `<` and whose text has no TAB, `is_html_block` answers kind 1 iff the specification's start condition is 1.
Full statement: without `hnt`; it is false — `html_start_spec1_excluded` (`<pre` TAB: the specification allows a tab after the
name, the code collects up to space / `>` only; lines are tab-expanded before they reach the function, so the case needs a call
from outside the block pass).  Against CommonMark 0.31.2: `html_start_differs_textarea`. -/
theorem html_start_spec1_partial (k : Nat) (hk : k ≤ 3) (r : Str) (hnt : TAB ∉ r) (inPara : Bool) :
    lineHtmlStart (List.replicate k SP ++ '<' :: r) inPara = .ok (some 1) ↔
      startOfLine gfm029 (List.replicate k SP ++ '<' :: r) inPara = some 1 := by
  rw [lineHtmlStart_lt k hk, determineType_one]
  unfold startOfLine
  rw [indentOf_spaces k 0 '<' r (by decide)]
  simp only [Nat.zero_add, if_pos hk]
  rw [startOfText_one, cond1_closed r hnt]
  constructor
  · exact fun h => h.2
  · exact fun h => ⟨checkSpecial_none_of_cond1 r h, h⟩

example : (3 : Nat) ≤ 3 ∧ TAB ∉ "ScRiPt>x".toList ∧
    startOfLine gfm029 (List.replicate 3 SP ++ '<' :: "ScRiPt>x".toList) true = some 1 := by decide

unseal scanOneOf pLoop cwcLoop cwoLoop in
/-- the hypothesis `TAB ∉ r` is needed: `<pre` TAB `x` — specification kind 1, the function (called on the raw line) none -/
theorem html_start_spec1_excluded :
    lineHtmlStart "<pre\tx".toList false = .ok none ∧ startOfLine gfm029 "<pre\tx".toList false = some 1 := by decide

/-! ## start condition 6 -/

/-- **closed form** of the kind-6 test: the adjusted name of `__check_for_normal_html_blocks_adjust_tag` (the `/` of an end tag
dropped in front, a `/` before `>` dropped at the end) is in `__html_block_6_start` iff the text after `<` meets the
specification's start condition 6 (0.29: "`<` or `</`, a name of the list case-insensitively, then space, end of line, `>` or
`/>`") — every text without TAB and U+212A; `line[ci]` is the character after the collected name. -/
theorem html_block6_closed (r line : Str) (ci : Nat) (hline : line[ci]? = (r.dropWhile p1).head?)
    (hnt : TAB ∉ afterSlash r) (hK : KELVIN ∉ afterSlash r) :
    block6Names.contains (adjName (pyLower (r.takeWhile p1)) line ci) = cond6 gfm029 r :=
  cond6_closed_full r line ci hline hnt hK

/-- **html_start_spec6_partial** (start condition 6, GFM 0.29, the type-6 tag table of the model): for every line indented by
`k ≤ 3` spaces whose first non-blank character is `<` and whose text has no TAB and no U+212A KELVIN SIGN (in particular: every
tab-expanded line with an ASCII tag name), `is_html_block` answers kind 6 iff the specification's start condition is 6 —
end tags `</name`, self-closing `<name/>` and every other use of `/` included.
Full statement: without `hnt`, `hK`; it is false: `hK` is needed (`html_start_differs_kelvin`: `str.lower` maps U+212A to `k`),
`hnt` is needed for a raw line (`html_start_spec6_excluded`: `<div` TAB), though lines arrive tab-expanded. -/
theorem html_start_spec6_partial (k : Nat) (hk : k ≤ 3) (r : Str) (hnt : TAB ∉ r) (hK : KELVIN ∉ r) (inPara : Bool) :
    lineHtmlStart (List.replicate k SP ++ '<' :: r) inPara = .ok (some 6) ↔
      startOfLine gfm029 (List.replicate k SP ++ '<' :: r) inPara = some 6 := by
  rw [lineHtmlStart_lt k hk, determineType_six]
  unfold startOfLine
  rw [indentOf_spaces k 0 '<' r (by decide)]
  simp only [Nat.zero_add, if_pos hk]
  rw [startOfText_six,
    cond6_closed_full r _ _ (line_at k r) (fun h => hnt (mem_afterSlash h)) (fun h => hK (mem_afterSlash h)),
    cond1_closed r hnt, checkSpecial_none_iff]
  constructor
  · rintro ⟨⟨a, b, c, d⟩, e, f⟩; exact ⟨e, a, b, c, d, f⟩
  · rintro ⟨e, a, b, c, d, f⟩; exact ⟨⟨a, b, c, d⟩, e, f⟩

example : (1 : Nat) ≤ 3 ∧ TAB ∉ "/BlockQuote/>x".toList ∧ KELVIN ∉ "/BlockQuote/>x".toList ∧
    startOfLine gfm029 (List.replicate 1 SP ++ '<' :: "/BlockQuote/>x".toList) true = some 6 := by decide

unseal scanOneOf pLoop cwcLoop cwoLoop in
/-- `<div` TAB on a raw line: specification kind 6, the function none (it collects the name up to space / `>`) -/
theorem html_start_spec6_excluded :
    lineHtmlStart "<div\tx".toList false = .ok none ∧ startOfLine gfm029 "<div\tx".toList false = some 6 := by decide

unseal scanOneOf pLoop cwcLoop cwoLoop in
/-- instances of `html_start_spec6_partial` with a `/` after the name (evaluated) -/
theorem html_start_agrees_selfclose :
    ["<div/>", "</div/>", "<div/ >", "<div/x>", "<div//>", "<div/", "<h1/>x"].map (fun s => lineHtmlStart s.toList false)
      = [.ok (some 6), .ok (some 6), .ok none, .ok none, .ok none, .ok none, .ok (some 6)] ∧
    ["<div/>", "</div/>", "<div/ >", "<div/x>", "<div//>", "<div/", "<h1/>x"].map (fun s => startOfLine gfm029 s.toList false)
      = [some 6, some 6, none, none, none, none, some 6] := by decide

/-! ## start conditions 1–6 together -/

/-- **html_start_spec_1to6_partial**: on every line indented by at most three spaces that begins with `<`, without TAB and
U+212A in its text, the faithful recogniser and the specification (GFM 0.29) agree on each of the kinds 1 … 6, with or without a
paragraph to interrupt.  What remains of `html_start_spec` is kind 7 (and "none" against 7), where the equality is false
(`html_start_differs_dash`, `…_digit`, `…_upper_attr`, `…_digit_attr`). -/
theorem html_start_spec_1to6_partial (k : Nat) (hk : k ≤ 3) (r : Str) (hnt : TAB ∉ r) (hK : KELVIN ∉ r) (inPara : Bool)
    (t : Nat) (ht : 1 ≤ t ∧ t ≤ 6) :
    lineHtmlStart (List.replicate k SP ++ '<' :: r) inPara = .ok (some t) ↔
      startOfLine gfm029 (List.replicate k SP ++ '<' :: r) inPara = some t := by
  obtain ⟨h1, h6⟩ := ht
  by_cases e1 : t = 1
  · subst e1; exact html_start_spec1_partial k hk r hnt inPara
  · by_cases e6 : t = 6
    · subst e6; exact html_start_spec6_partial k hk r hnt hK inPara
    · exact html_start_spec_partial k hk r inPara t ⟨by omega, by omega⟩

example : (0 : Nat) ≤ 3 ∧ TAB ∉ "!DOCTYPE html>".toList ∧ KELVIN ∉ "!DOCTYPE html>".toList ∧ (1 ≤ 4 ∧ 4 ≤ 6) ∧
    startOfLine gfm029 (List.replicate 0 SP ++ '<' :: "!DOCTYPE html>".toList) false = some 4 := by decide

/-! ## content lines of code blocks: the TAB witnesses as theorems

Full statements (every line, tabs included):
`fenceLine c n N L = .ok (.text E X) → resolveAll E ++ X = fenceContent N L ∧ removeAll E ++ X = L`, and
`icodeLine L b false = .ok (some o) → icodeContent o = HtmlBlockSpec.icodeContent L ∧ icodeSource o = L`.
The first is FALSE (`fence_content_excluded`: a fence-like content line keeps its indentation) and the function FAILS on three tab
shapes (`fence_content_tab_excluded`, C01); the closing-fence test differs on a trailing TAB (`fence_close_tab_excluded`).
For the second no differing line is known (the tie compares every line of the closed space); what is proved in general is the
tab-free part (`icode_content_spec`, `icode_roundtrip`), the tab witnesses are `icode_content_tab_agrees`. -/

unseal scanOneOf pLoop cwcLoop cwoLoop tbLoop bqLoop in
/-- a content line that LOOKS like a fence keeps all its indentation (`parse_fenced_code_block` never calls
`__parse_fenced_code_block_already_in` for it); CommonMark §4.5: two columns removed.  Real parser: `  ```\n  ``` x\n  ```. -/
theorem fence_content_excluded :
    fenceLine '`' 3 2 "  ``` x".toList = .ok (.text "  ".toList "``` x".toList) ∧
    HtmlBlockSpec.fenceContent 2 "  ``` x".toList = "``` x".toList ∧
    "  ".toList ++ "``` x".toList ≠ HtmlBlockSpec.fenceContent 2 "  ``` x".toList := by decide

unseal scanOneOf pLoop cwcLoop cwoLoop tbLoop bqLoop in
/-- three shapes of tabbed content lines on which the real function raises AssertionError (`find_tabified_string`,
`__parse_fenced_code_block_already_in_with_tab`, `__handle_fenced_code_block_with_tab_starts_tab`) while the specification
defines their content; documents `  ```\n \tb`, `  ```\n\t\tx`, `  ```\n\tx\ty`. -/
theorem fence_content_tab_excluded :
    fenceLine '`' 3 2 " \tb".toList = .error .assertion ∧ HtmlBlockSpec.fenceContent 2 " \tb".toList = "  b".toList ∧
    fenceLine '`' 3 2 "\t\tx".toList = .error .assertion ∧ HtmlBlockSpec.fenceContent 2 "\t\tx".toList = "  \tx".toList ∧
    fenceLine '`' 3 2 "\tx\ty".toList = .error .assertion ∧ HtmlBlockSpec.fenceContent 2 "\tx\ty".toList = "  x\ty".toList := by
  decide

unseal scanOneOf pLoop cwcLoop cwoLoop tbLoop bqLoop in
/-- tab witnesses where code = specification: the tab is split, the remaining columns are stored as spaces -/
theorem fence_content_tab_agrees :
    fenceLine '`' 3 2 "\ta".toList = .ok (.text (Codec.replacementMarkers ['\t'] "  ".toList) ['a']) ∧
    HtmlBlockSpec.fenceContent 2 "\ta".toList = "  a".toList ∧
    fenceLine '`' 3 1 "  \tb".toList = .ok (.text (Codec.replacementMarkers "  \t".toList " \t".toList) ['b']) ∧
    HtmlBlockSpec.fenceContent 1 "  \tb".toList = " \tb".toList := by decide

unseal scanOneOf pLoop cwcLoop cwoLoop tbLoop bqLoop in
/-- closing fence followed by a TAB: CommonMark closes the block ("may be followed only by spaces or tabs"), pymarkdown stores
the line as content (`only_spaces_after_fence`); with spaces both close. -/
theorem fence_close_tab_excluded :
    fenceLine '`' 3 0 "```\t".toList = .ok (.text [] "```\t".toList) ∧
    HtmlBlockSpec.isClosingFence '`' 3 "```\t".toList = true ∧
    fenceLine '`' 3 0 "  ````  ".toList = .ok (.close "  ".toList "  ".toList 4) ∧
    HtmlBlockSpec.isClosingFence '`' 3 "  ````  ".toList = true := by decide

unseal scanOneOf pLoop cwcLoop cwoLoop tbLoop bqLoop in
/-- indented code, lines with tabs: the four-column prefix is taken from the ORIGINAL line, the rest is kept verbatim; content and
source agree with §4.4 on the witnesses of the block -/
theorem icode_content_tab_agrees :
    icodeLine "  \t a\tb".toList false false = .ok (some ⟨some "  \t".toList, [], " a\tb".toList⟩) ∧
    HtmlBlockSpec.icodeContent "  \t a\tb".toList = " a\tb".toList ∧
    (icodeLine " \t\tc".toList true false).map (Option.map icodeContent) = .ok (some "\tc".toList) ∧
    HtmlBlockSpec.icodeContent " \t\tc".toList = "\tc".toList ∧
    (icodeLine " \t\tc".toList true false).map (Option.map icodeSource) = .ok (some " \t\tc".toList) := by decide

end Verif.Props.LeafBlocks2b
