/-
  Properties of the faithful model of pymarkdown's HTML generator (`Verif.Model.GfmRender`): theorems only; the proofs
  are in `Verif/Lemmas/Gfm*.lean`.  They serve C03 (rendering conforms) and C04 (what a well-formed token stream buys).

  "well-formed" = accepted by the verified C04 monitor (`WellFormed ts`: `wfCheck (ts.map Tok.toWf) = ok`, which is
  `WellNested ∧ ClassOK` by `Verif.Props.C04.wfCheck_sound_complete`).
-/
import Verif.Lemmas.GfmRun
import Verif.Lemmas.GfmEscape
import Verif.Lemmas.GfmLooseNested
import Verif.Lemmas.GfmMisc
import Verif.Lemmas.GfmTight
namespace Verif.Props.GfmRender
open Verif.Model.GfmRender Verif.Model.GfmSpec Verif.Model.Codec
open Verif.Lemmas.GfmBasic Verif.Lemmas.GfmRun Verif.Lemmas.GfmOut

/-! ## 1. Totality -/

/-- the loop of `transform` on a well-formed stream whose payload-level calls succeed: it returns, the transform stack
is empty again, every token was processed. -/
theorem render_run (ts : List Tok) (hw : WellFormed ts) (hs : StepsOK ts ts {} []) :
    ∃ st o, transformRun ts = .ok (st, o) ∧ st.stack = [] ∧ st.idx = ts.length ∧ Balanced o := by
  have hG := gforest_of_wellFormed hw
  obtain ⟨st, o, hrun, haft⟩ := forest_render ts hG hG [] [] (by simp) rfl {} [] rfl
    ⟨fun h => by simp [listCtx] at h, fun h => by rcases h with h | h <;> cases h⟩ hs
  have hstack : st.stack = [] := List.length_eq_zero_iff.mp (by simpa using haft.stackLen)
  refine ⟨st, o, hrun, hstack, by simpa using haft.idx, ?_⟩
  have := haft.tags [] [] (fun h => by simp [listCtx] at h) (by simp [virt, tagsOf, tagRun])
  simpa [Balanced, virt, hstack] using this

/-- **render_total**: for every token list accepted by the C04 monitor whose text payloads are accepted by the codec
(`PayloadOK`: `resolve_all_from_text` and the whitespace recombination of the text handler succeed on every token's own
fields), the faithful generator returns HTML — no IndexError, no AssertionError, no `pop` from the empty transform
stack, no endless loop. -/
theorem render_total (ts : List Tok) (hw : WellFormed ts) (hp : PayloadOK ts) : ∃ html, transform ts = .ok html := by
  obtain ⟨st, o, hrun, _⟩ := render_run ts hw (Or.inl hp)
  exact ⟨cutFinalNL (flat o), by simp [transform, hrun]⟩

example : WellFormed [⟨1, .ulist⟩, ⟨1, .para⟩, ⟨1, .text ['a'] [] none⟩, ⟨0, .end_ .para 1 true⟩, ⟨0, .end_ .ulist 0 true⟩, ⟨2, .eos⟩] ∧
    PayloadOK [⟨1, .ulist⟩, ⟨1, .para⟩, ⟨1, .text ['a'] [] none⟩, ⟨0, .end_ .para 1 true⟩, ⟨0, .end_ .ulist 0 true⟩, ⟨2, .eos⟩] ∧
    transform [⟨1, .ulist⟩, ⟨1, .para⟩, ⟨1, .text ['a'] [] none⟩, ⟨0, .end_ .para 1 true⟩, ⟨0, .end_ .ulist 0 true⟩, ⟨2, .eos⟩] =
      .ok "<ul>\n<li>a</li>\n</ul>".toList := by decide

/-- `PayloadOK` cannot be dropped: the text `a\x05<b` (U+0005 before a replacement marker — the codec's known collision,
`Verif.Props.C02.codec_collision_x05`) makes `resolve_all_from_text` raise inside a perfectly well-formed stream. -/
theorem render_total_needs_payload :
    WellFormed [⟨1, .para⟩, ⟨1, .text ['a', '\x05', '\x07', '<', '\x07', '&', 'l', 't', ';', '\x07', 'b'] [] none⟩, ⟨0, .end_ .para 0 true⟩] ∧
    transform [⟨1, .para⟩, ⟨1, .text ['a', '\x05', '\x07', '<', '\x07', '&', 'l', 't', ';', '\x07', 'b'] [] none⟩, ⟨0, .end_ .para 0 true⟩]
      = .error (.codec .valueError) := by decide

/-- on a well-formed stream the ONLY way to fail is a payload-level call (codec error or the text handler's own asserts) -/
theorem render_fails_only_on_payload (ts : List Tok) (hw : WellFormed ts) :
    (∃ html, transform ts = .ok html) ∨ ¬ PayloadOK ts := by
  by_cases hp : PayloadOK ts
  · exact Or.inl (render_total ts hw hp)
  · exact Or.inr hp

/-- `calculate_list_looseness` never raises on a list of a well-formed stream (the forward walk stops at the list's own
end token at the latest; every backward scan stops at the list's start token at the latest; `__is_really_loose` always
finds its answer). -/
theorem looseness_total (ts : List Tok) (hw : WellFormed ts) (i : Nat) (s : Tok) (hs : ts[i]? = some s)
    (hl : s.isListStart = true) : ∃ b, calculateListLooseness ts i = .ok b := by
  have hG := gforest_of_wellFormed hw
  -- the list node around index i
  obtain ⟨pre, post, hts, hpre⟩ := Verif.Lemmas.GfmLooseSpec.split_at hs
  subst hpre
  have hk : ∃ k, s.kind? = some k ∧ (k = .ulist ∨ k = .olist) := by
    obtain ⟨l, b⟩ := s
    cases b <;> simp_all [Tok.isListStart, Tok.isKind, Tok.kind?, Body.kind?]
  obtain ⟨k, hk, hkl⟩ := hk
  obtain ⟨body, e, f, rest, hpost, hb, he⟩ := Verif.Lemmas.GfmMisc.start_node hG pre.length s k hs hk (by
    rcases hkl with rfl | rfl <;> rfl)
  rw [hts]
  have : post = body ++ e :: rest := by
    have := hpost
    rw [hts] at this
    simpa using this
  rw [this]
  exact Verif.Lemmas.GfmCalcTotal.calc_total pre s k body e f rest hk hl (gforest_idx hb (by omega))
    (by rw [he]; congr 1; omega)

/-- `reset_list_looseness` never raises on a well-formed stream. -/
theorem reset_total (ts : List Tok) (hw : WellFormed ts) (st : St) (k : Nat) : ∃ b, resetListLooseness ts st k = .ok b :=
  Verif.Lemmas.GfmReset.reset_total (gforest_of_wellFormed hw) st k

/-! ### what happens on ill-formed streams: explicit error results (each checked against the real code by the
correspondence's ill-formed family) -/

/-- a new-list-item token outside a list: `transform_stack.pop()` on the empty stack -/
example : ¬ WellFormed [⟨1, .li⟩] ∧ transform [⟨1, .li⟩] = .error .indexError := by decide
/-- a list that is never closed: `calculate_list_looseness` runs off the end of the token list -/
example : ¬ WellFormed [⟨1, .ulist⟩, ⟨1, .blank⟩] ∧ transform [⟨1, .ulist⟩, ⟨1, .blank⟩] = .error .indexError := by decide
/-- a block-quote end with nothing written yet: `output_html[-1]` on the empty string -/
example : transform [⟨0, .end_ .bquote 0 true⟩] = .error .indexError := by decide
/-- a heading end without its start: the backward search wraps around the list (Python negative indices) and falls off -/
example : transform [⟨1, .blank⟩, ⟨0, .end_ .atx 0 true⟩] = .error .indexError := by decide
/-- an end token of a class that has no end handler: `raise AssertionError` in `apply_transformation` -/
example : transform [⟨0, .end_ .text 0 true⟩] = .error .assertion := by decide
/-- an emphasis end whose `start_markdown_token` is no emphasis token: attribute access after the `cast` -/
example : transform [⟨1, .para⟩, ⟨0, .end_ .emphasis 0 true⟩] = .error .attributeError := by decide

/-! ## 2. Balance -/

/-- **render_balanced**: whenever the generator returns on a well-formed stream, its output is tag-balanced with respect
to the tags it emits itself (`p h1… pre code blockquote ul ol li em strong del a`; `hr br img input` are void; text and
raw-HTML payloads are opaque atoms): `tagRun [] (tagsOf o) = some []` — every closing tag matches the innermost open
one, nothing stays open. -/
theorem render_balanced (ts : List Tok) (hw : WellFormed ts) (st : St) (o : Out) (h : transformRun ts = .ok (st, o)) :
    Balanced o := by
  obtain ⟨st', o', hrun, _, _, hbal⟩ := render_run ts hw (Or.inr ⟨(st, o), h⟩)
  rw [h] at hrun
  cases hrun
  exact hbal

/-- … and for the streams of `render_total` the balanced output exists. -/
theorem render_total_balanced (ts : List Tok) (hw : WellFormed ts) (hp : PayloadOK ts) :
    ∃ st o, transformRun ts = .ok (st, o) ∧ Balanced o := by
  obtain ⟨st, o, hrun, _, _, hbal⟩ := render_run ts hw (Or.inl hp)
  exact ⟨st, o, hrun, hbal⟩

/-- well-formedness is needed: a paragraph end without a start closes a `<p>` that was never opened -/
example : ¬ WellFormed [⟨0, .end_ .para 0 true⟩] ∧
    ∃ st o, transformRun [⟨0, .end_ .para 0 true⟩] = .ok (st, o) ∧ ¬ Balanced o :=
  ⟨by decide, _, _, rfl, by decide⟩

/-! ## 3. Escaping -/

/-- **render_escapes**: the generator escapes nothing itself (except in the URI autolink handler, see below): if the
fields it copies are `Safe` — text / code-span fields after `resolve_all_from_text`, `link_uri`, `link_title`,
`image_alt_text`, the fence info string, the e-mail autolink text (`PayloadsEscaped`: what the PARSER has to have done) —
then every attribute value (`href src title alt class`) and every text payload of the output is `Safe`: no `<`, `>`,
`"`, and `&` only as the start of `&amp; &lt; &gt; &quot;`.  Raw HTML (inline tag, HTML block text) is opaque. -/
theorem render_escapes (ts : List Tok) (hp : PayloadsEscaped ts) (st : St) (o : Out) (h : transformRun ts = .ok (st, o)) :
    Escaped o = true := Verif.Lemmas.GfmEscape.render_escapes ts hp st o h

/-- the one handler that escapes does it for every input: `href` and link text of a URI autolink are `Safe` -/
theorem uri_autolink_escapes (text : Str) (http : Bool) :
    Safe ((if http then lit "http://" else []) ++ percentEncode (uriPreEscape text)) = true ∧
      Safe (htmlEscape text) = true := Verif.Lemmas.GfmEscape.uri_autolink_escapes text http

/-- the escaping function composed with the codec: text written by `InlineHelper.append_text` (replacement markers)
comes out of `resolve_all_from_text` as its HTML-escaped form, which is `Safe` -/
theorem text_escape_safe (r : Str) (h : plain r = true) :
    resolve (encode (Verif.Lemmas.GfmEscape.escapePieces r)) = .ok (htmlEscape r) ∧ Safe (htmlEscape r) = true :=
  Verif.Lemmas.GfmEscape.text_escape_safe r h

/-- provenance: every chunk of the output is a constant of the renderer or comes from ONE field of ONE token of the
stream through exactly the function `ChunkFrom` names. -/
theorem render_provenance (ts : List Tok) (st : St) (o : Out) (h : transformRun ts = .ok (st, o)) :
    ∀ c ∈ o, Verif.Lemmas.GfmEscape.ChunkFrom ts c := Verif.Lemmas.GfmEscape.render_provenance ts st o h

/-- the hypothesis is needed, and the real parser violates it: fence info string `a"b`, e-mail autolink `a&b@c.de`,
image alt text containing raw inline HTML. -/
theorem render_escapes_excluded :
    (¬ PayloadsEscaped Verif.Lemmas.GfmEscape.wFence ∧ ∃ st o, transformRun Verif.Lemmas.GfmEscape.wFence = .ok (st, o) ∧ Escaped o = false) ∧
    (¬ PayloadsEscaped Verif.Lemmas.GfmEscape.wEmail ∧ ∃ st o, transformRun Verif.Lemmas.GfmEscape.wEmail = .ok (st, o) ∧ Escaped o = false) ∧
    (¬ PayloadsEscaped Verif.Lemmas.GfmEscape.wImage ∧ ∃ st o, transformRun Verif.Lemmas.GfmEscape.wImage = .ok (st, o) ∧ Escaped o = false) :=
  ⟨Verif.Lemmas.GfmEscape.fence_info_unescaped, Verif.Lemmas.GfmEscape.email_autolink_unescaped,
   Verif.Lemmas.GfmEscape.image_alt_unescaped⟩

example : PayloadsEscaped Verif.Lemmas.GfmEscape.wGood := Verif.Lemmas.GfmEscape.wGood_payloadsEscaped

/-! ## 4. List looseness = the CommonMark definition -/

open Verif.Lemmas.GfmLooseSpec Verif.Lemmas.GfmLooseNested in
/-- **looseness_spec_partial**: for a list of a well-formed stream that contains no block quote and no link reference
definition (at any depth), whose items do not begin with two blank lines, and whose direct child lists end with a blank
line only as their own last token and are then followed by something that is not a blank line (`ListKidsOK`), the
faithful `calculate_list_looseness` returns the CommonMark definition evaluated on the token tree (`specLoose`). -/
theorem looseness_spec_partial (ts : List Tok) (hwf : WellFormed ts) (i : Nat) (s e : Tok) (kids : List Node)
    (hfind : (treeOf ts).bind (findIn i) = some (Node.node i s kids e)) (hs : s.isListStart = true)
    (hnq : NoQuoteDeep (Node.node i s kids e)) (hnl : NoLrdDeep (Node.node i s kids e))
    (hnd : NoItemDoubleBlank kids) (hlk : ListKidsOK kids) :
    calculateListLooseness ts i = .ok (specLoose (Node.node i s kids e)) :=
  looseness_lists ts hwf i s e kids hfind hs hnq hnl hnd hlk

open Verif.Lemmas.GfmLooseSpec in
/-- the special case of a list whose items hold only leaf blocks -/
theorem looseness_spec_flat (ts : List Tok) (hwf : WellFormed ts) (i : Nat) (s e : Tok) (kids : List Node)
    (hfind : (treeOf ts).bind (findIn i) = some (Node.node i s kids e)) (hs : s.isListStart = true)
    (hflat : Flat kids) (hnl : NoLrd kids) (hnd : NoDoubleLeadingBlank kids) :
    calculateListLooseness ts i = .ok (specLoose (Node.node i s kids e)) :=
  looseness_flat ts hwf i s e kids hfind hs hflat hnl hnd

open Verif.Lemmas.GfmLooseSpec in
/-- the unrestricted statement is FALSE for the code's algorithm … -/
theorem looseness_spec_false : ¬ LoosenessSpec := Verif.Lemmas.GfmLooseSpec.looseness_spec_false

open Verif.Lemmas.GfmLooseSpec Verif.Lemmas.GfmLooseNested in
/-- … and every hypothesis of `looseness_spec_partial` excludes a real point: for each stream, the algorithm's answer `b`
and the specification's `!b`.  The first four are the token streams of real documents (see REPORT.md §5). -/
theorem looseness_spec_excluded :
    (WellFormed wNestEnds ∧ calculateListLooseness wNestEnds 0 = .ok false ∧ specLooseAt wNestEnds 0 = some true) ∧
    (WellFormed wNestBq ∧ calculateListLooseness wNestBq 0 = .ok true ∧ specLooseAt wNestBq 0 = some false) ∧
    (WellFormed wLrdFirst ∧ calculateListLooseness wLrdFirst 0 = .ok true ∧ specLooseAt wLrdFirst 0 = some false) ∧
    (WellFormed wLrdBetween ∧ calculateListLooseness wLrdBetween 0 = .ok false ∧ specLooseAt wLrdBetween 0 = some true) ∧
    (WellFormed wTwoBlanks ∧ calculateListLooseness wTwoBlanks 0 = .ok true ∧ specLooseAt wTwoBlanks 0 = some false) ∧
    (WellFormed wItemTwoBlanks ∧ calculateListLooseness wItemTwoBlanks 0 = .ok true ∧ specLooseAt wItemTwoBlanks 0 = some false) ∧
    (WellFormed wInnerBlankThenBlank ∧ calculateListLooseness wInnerBlankThenBlank 0 = .ok true ∧
      specLooseAt wInnerBlankThenBlank 0 = some false) :=
  ⟨witness_nesting_listEnds, witness_nesting_blockQuote, witness_lrd_first, witness_lrd_between,
   witness_two_leading_blanks, witness_item_two_blanks, witness_inner_blank_then_blank⟩

/-! ## 5. Paragraph tightness -/

/-- **paragraph_tightness_partial**: on a well-formed stream in which no list or block quote starts directly inside a
block quote that itself lies inside a list (`QuoteInListFlat`), the generator's `is_in_loose_list` just before ANY token
`k` — in particular before every paragraph start — is what the CommonMark rule prescribes: the loose flag the generator
computed for the list whose item directly contains the token, `True` if the innermost open container is a block quote
or there is none.  The paragraph handlers write `<p>` / `</p>` iff that flag is set (`paragraph_writes_p`), so `<p>` is
suppressed exactly for the direct children of items of lists whose computed flag is false. -/
theorem paragraph_tightness_partial (ts : List Tok) (hw : WellFormed ts) (hq : QuoteInListFlat ts)
    (k : Nat) (t : Tok) (hk : ts[k]? = some t) (hb : t.isKind .para = true)
    (st : St) (o : Out) (hrun : stateBefore ts k = .ok (st, o)) :
    st.inLoose = expectedLoose ts st.isLooseAt k :=
  Verif.Lemmas.GfmTight.paragraph_tightness_partial ts hw hq k t hk hb st o hrun

/-- the flag stored for an open list is the value `calculate_list_looseness` returned for it (no hypothesis on quotes) -/
theorem flag_is_calculated (ts : List Tok) (hw : WellFormed ts) (k : Nat) (st : St) (o : Out)
    (hrun : stateBefore ts k = .ok (st, o)) (j : Nat) (c : Tok) (hmem : (j, c) ∈ containersAt ts k)
    (hc : c.isListStart = true) : calculateListLooseness ts j = .ok (st.isLooseAt j) :=
  Verif.Lemmas.GfmTight.flag_is_calculated ts hw k st o hrun j c hmem hc

/-- what the paragraph start handler writes, in terms of the rule -/
theorem paragraph_writes_p (ts : List Tok) (hw : WellFormed ts) (hq : QuoteInListFlat ts)
    (k : Nat) (t : Tok) (hk : ts[k]? = some t) (hb : t.isKind .para = true)
    (st : St) (o : Out) (hrun : stateBefore ts k = .ok (st, o)) :
    hParaStart st o = .ok (st, o ++ optNL (needsNL o) ++
      (if expectedLoose ts st.isLooseAt k then [Chunk.opn .p []] else [])) :=
  Verif.Lemmas.GfmTight.paragraph_p_expected ts hw hq k t hk hb st o hrun

/-- `QuoteInListFlat` cannot be dropped: the real token stream of `- > - a\n  >\n  > x\n` — the paragraph `x` stands
directly in a block quote, the rule says `<p>`, the generator has `is_in_loose_list = False` (it inherited the OUTER
list's tightness when the inner list closed) and writes `x` bare.  Real pymarkdown renders exactly this HTML. -/
theorem paragraph_tightness_excluded :
    WellFormed Verif.Lemmas.GfmTight.wQuoteInList ∧ ¬ QuoteInListFlat Verif.Lemmas.GfmTight.wQuoteInList ∧
    (∃ t st o, Verif.Lemmas.GfmTight.wQuoteInList[8]? = some t ∧ t.isKind .para = true ∧
      stateBefore Verif.Lemmas.GfmTight.wQuoteInList 8 = .ok (st, o) ∧
      st.inLoose = false ∧ expectedLoose Verif.Lemmas.GfmTight.wQuoteInList st.isLooseAt 8 = true) ∧
    transform Verif.Lemmas.GfmTight.wQuoteInList =
      .ok "<ul>\n<li>\n<blockquote>\n<ul>\n<li>a</li>\n</ul>\nx\n</blockquote>\n</li>\n</ul>".toList :=
  ⟨Verif.Lemmas.GfmTight.wQuoteInList_counterexample.1, Verif.Lemmas.GfmTight.wQuoteInList_counterexample.2.1,
   Verif.Lemmas.GfmTight.wQuoteInList_counterexample.2.2, Verif.Lemmas.GfmTight.wQuoteInList_html⟩

/-! ## 6. Fuel -/

/-- the fuel given to the backward `while` scan is sufficient: with any larger fuel the result is the same, and it is
never the fuel-exhaustion value. -/
theorem scanDown_fuel {α : Type} (l : List α) (p : α → Bool) (i : Int) (extra : Nat) :
    scanDownF l p ((i + l.length + 2).toNat + 1 + extra) i = scanDown l p i ∧ scanDown l p i ≠ .error .hang :=
  Verif.Lemmas.GfmMisc.scanDown_fuel l p i extra

/-- the fuel of the text handler's re-splitting loop (`__handle_text_token_normal_enhanced`): any result other than
fuel exhaustion is independent of the fuel. -/
theorem enhLoop_fuel (tt : Str) (f next : Nat) (pre cur : Str) (lines : List Str)
    (h : enhLoop tt f next pre cur lines ≠ .error .hang) (f' : Nat) (hf : f ≤ f') :
    enhLoop tt f' next pre cur lines = enhLoop tt f next pre cur lines :=
  Verif.Lemmas.GfmMisc.enhLoop_fuel tt f next pre cur lines h f' hf

end Verif.Props.GfmRender
