/-
  C04 — Token stream is well-formed: balanced, properly nested, class-respecting.

  The monitor `wfCheck` (Verif.Model.WellFormed) decides exactly `WellNested ∧ ClassOK`, for every token
  list; its stack is the list of still-open starts after every accepted prefix; removing point tokens
  cannot unbalance a stream; and every producer that writes only through push / pop / leaf primitives
  (resp. the monitor-guarded primitives) emits well-nested (resp. accepted) streams whatever it decides.
  tools/props/c04.py runs the compiled monitor on the real, un-abstracted pymarkdown streams.
-/
import Verif.Lemmas.WellFormed
import Verif.Lemmas.WellFormedOpen
import Verif.Lemmas.WellFormedDrop
import Verif.Lemmas.WellFormedProd
namespace Verif.Props.C04
open Verif.Model.WellFormed Verif.Lemmas.WellFormed

/-- Soundness and completeness of the monitor, for ALL token lists. -/
theorem wfCheck_sound_complete (ts : List Tok) :
    wfCheck ts = .ok () ↔ WellNested ts ∧ ClassOK ts := by
  rw [wfCheck_iff, wfSpec, gRun_and, gRun_iff_forest, gRun_iff_forest, ← specialOK_iff,
    ← nest_iff_forest none 0 ts, ← classForest_iff_forest none 0 ts]
  simp only [WellNested, ClassOK, and_assoc]

/-- a realistic stream: `- a *b*` / `- [c](/u)` / blank / `> q`, with front matter and a pragma line -/
def sample : List Tok :=
  [⟨"front-matter", .leaf, .atom⟩,
   ⟨"ulist", .container, .start⟩,
     ⟨"para", .leaf, .start⟩, ⟨"text", .inline, .atom⟩,
       ⟨"emphasis", .inline, .start⟩, ⟨"text", .inline, .atom⟩, ⟨"end-emphasis", .inline, .end_ 4⟩,
     ⟨"end-para", .inline, .end_ 2⟩,
     ⟨"li", .container, .atom⟩,
     ⟨"para", .leaf, .start⟩,
       ⟨"link", .inline, .start⟩, ⟨"text", .inline, .atom⟩, ⟨"end-link", .inline, .end_ 10⟩,
     ⟨"end-para", .inline, .end_ 9⟩,
     ⟨"BLANK", .leaf, .atom⟩,
   ⟨"end-ulist", .inline, .end_ 1⟩,
   ⟨"block-quote", .container, .start⟩,
     ⟨"para", .leaf, .start⟩, ⟨"text", .inline, .atom⟩, ⟨"end-para", .inline, .end_ 17⟩,
   ⟨"end-block-quote", .inline, .end_ 16⟩,
   ⟨"end-of-stream", .special, .atom⟩,
   ⟨"pragma", .special, .atom⟩]

example : wfCheck sample = .ok () := by decide
example : WellNested sample ∧ ClassOK sample := (wfCheck_sound_complete sample).mp (by decide)

/-- replace the token at index `i` (for the negative examples) -/
def setAt (ts : List Tok) (i : Nat) (t : Tok) : List Tok := ts.set i t

-- every reason is reachable, at the expected index
example : wfCheck (setAt sample 6 ⟨"end-emphasis", .inline, .end_ 2⟩) = .error ⟨6, .endWrongPointer⟩ := by decide
example : wfCheck (setAt sample 6 ⟨"end-link", .inline, .end_ 4⟩) = .error ⟨6, .endWrongName⟩ := by decide
example : wfCheck (sample.take 20) = .error ⟨16, .leftOpen⟩ := by decide   -- quote left open, no end-of-stream
example : wfCheck (sample.take 20 ++ sample.drop 21) = .error ⟨20, .specialNested⟩ := by decide   -- quote left open
example : wfCheck (dropAt sample 15) = .error ⟨20, .specialNested⟩ := by decide   -- `end-ulist` never emitted
example : wfCheck (setAt sample 14 ⟨"li", .container, .atom⟩ |>.take 15 |> (· ++ sample.drop 15)) = .ok () := by decide
example : wfCheck (setAt sample 18 ⟨"li", .container, .atom⟩) = .error ⟨18, .liOutsideList⟩ := by decide
example : wfCheck (⟨"li", .container, .atom⟩ :: sample.drop 1) = .error ⟨0, .liOutsideList⟩ := by decide
example : wfCheck (⟨"text", .inline, .atom⟩ :: sample.drop 1) = .error ⟨0, .inlineOutsideLeaf⟩ := by decide
example : wfCheck (setAt sample 3 ⟨"BLANK", .leaf, .atom⟩) = .error ⟨3, .blockInLeaf⟩ := by decide
example : wfCheck (setAt sample 14 ⟨"end-of-stream", .special, .atom⟩) = .error ⟨14, .specialNested⟩ := by decide
example : wfCheck (setAt sample 14 ⟨"front-matter", .leaf, .atom⟩) = .error ⟨14, .frontNotFirst⟩ := by decide
example : wfCheck (sample ++ [⟨"BLANK", .leaf, .atom⟩]) = .error ⟨23, .afterPragma⟩ := by decide
example : wfCheck (setAt sample 22 ⟨"BLANK", .leaf, .atom⟩) = .error ⟨22, .afterEndOfStream⟩ := by decide
example : wfCheck [⟨"end-para", .inline, .end_ 0⟩] = .error ⟨0, .endNoOpen⟩ := by decide
example : ¬ (WellNested (sample.take 20 ++ sample.drop 21) ∧ ClassOK (sample.take 20 ++ sample.drop 21)) := by
  rw [← wfCheck_sound_complete]; decide

/-- After any prefix accepted so far, the automaton's stack is exactly the list of still-open starts
(innermost first) — the invariant rules and generators rely on when they keep their own stacks. -/
theorem prefix_open_stack (pre : List Tok) (s : St) (h : run St.init pre = .ok s) :
    s.stack = (openStarts pre).reverse := by
  have h1 := ((run_iff pre St.init s).mp h).1
  have := openInv_run wfSpec_end pre [] [] s.stack openInv_nil (by simpa [St.init] using h1)
  simpa using this.1

example : (run St.init (sample.take 6)).toOption.map (·.stack.map (·.1)) = some [4, 2, 1] := by decide
example : (openStarts (sample.take 6)).map (·.1) = [1, 2, 4] := by decide

/-- …and an accepted prefix of an accepted stream: every prefix of an accepted stream is accepted so far. -/
theorem prefix_accepted (pre post : List Tok) (h : wfCheck (pre ++ post) = .ok ()) :
    ∃ s, run St.init pre = .ok s ∧ s.stack = (openStarts pre).reverse := by
  have hr : ∃ s, run St.init pre = .ok s := by
    unfold wfCheck at h
    cases h1 : run St.init (pre ++ post) with
    | error e => simp [h1] at h
    | ok s' =>
      have h2 := (run_iff (pre ++ post) St.init s').mp h1
      rw [gRun_append, posRun_append] at h2
      cases hg : gRun wfSpec St.init.stack St.init.idx pre with
      | none => simp [hg] at h2
      | some st =>
        cases hp : posRun St.init.phase St.init.idx pre with
        | none => simp [hp] at h2
        | some ph =>
          exact ⟨⟨st, St.init.idx + pre.length, ph⟩, (run_iff pre St.init _).mpr ⟨hg, hp, rfl⟩⟩
  obtain ⟨s, hs⟩ := hr
  exact ⟨s, hs, prefix_open_stack pre s hs⟩

/-- Removing a point token (BLANK, link-ref-def, text, …) at position `k`, later back-pointers renumbered,
cannot unbalance a stream nor break the class discipline. -/
theorem drop_atom_preserves (ts : List Tok) (k : Nat) (a : Tok) (hk : ts[k]? = some a) (ha : a.kind = .atom)
    (h : WellNested ts ∧ ClassOK ts) : WellNested (dropAt ts k) ∧ ClassOK (dropAt ts k) := by
  rw [← wfCheck_sound_complete] at h ⊢
  obtain ⟨pre, post, rfl, hlen, hd⟩ := dropAt_eq hk
  rw [hd, ← hlen]
  rw [wfCheck_iff] at h ⊢
  exact ⟨gRun_drop pre post a (fun j s e => wfSpec_shift pre.length j s e) ha h.1, posRun_drop pre post a h.2⟩

example : wfCheck (dropAt sample 14) = .ok () := by decide
example : (dropAt sample 3)[5]? = some ⟨"end-emphasis", .inline, .end_ 3⟩ := by decide

/-- Any stream produced through the push / pop / leaf primitives — whatever the decision function, whatever
extra state `σ` it keeps, whatever the input — is well nested (names and back-pointers included).
This is the transfer lemma for the reference producer's `L_balanced`. -/
theorem produce_wellNested {σ α : Type} (decide : σ → Producer → α → σ × List Cmd) (s0 : σ) (inputs : List α) :
    WellNested (produce decide s0 inputs).out := by
  unfold WellNested
  rw [nest_iff_forest none, ← gRun_iff_forest]
  exact produce_balanced decide s0 inputs

example : (produce (fun (n : Nat) _ (l : String) =>
      (n + 1, if l = "q" then [.push "block-quote" .container, .push "para" .leaf, .leaf "text" .inline]
              else [.pop, .leaf "BLANK" .leaf])) 0 ["q", "", "q"]).out.length = 11 := by decide

/-- Any stream produced through the monitor-guarded primitives and then closed is accepted by the monitor
(hence well nested and class-respecting), provided the producer is still in the body phase (it has not
emitted `end-of-stream` / `pragma` through `emit`). -/
theorem guarded_accepted (cs : List (Option Tok)) :
    let g := gexec GProd.empty cs
    g.mon.phase = .body → wfCheck (GProd.closeAll g.mon.stack.length g).out = .ok () := by
  intro g hb
  have hinv : GInv g := gexec_inv cs ginv_empty
  have h1 := closeAll_inv g.mon.stack.length hinv
  have h2 := closeAll_body g.mon.stack.length g hb (Nat.le_refl _)
  unfold GInv at h1
  unfold wfCheck
  rw [h1]
  simp only [h2]

/-- the guarded producer never leaves the body phase unless it emits `end-of-stream` or `pragma` itself -/
theorem guarded_stays_body (g : GProd) (t : Tok) (hb : g.mon.phase = .body)
    (he : isEOS t = false) (hp : isPragma t = false) : (g.emit t).mon.phase = .body :=
  emit_phase_body hb he hp

example : (gexec GProd.empty [some ⟨"para", .leaf, .start⟩, some ⟨"li", .container, .atom⟩,
    some ⟨"text", .inline, .atom⟩]).out.length = 2 := by decide   -- the misplaced `li` is refused

/-- The reported index is the FIRST offending one: the tokens before it are accepted so far, and no
continuation of the stream up to and including it can be accepted. -/
theorem first_offender (ts : List Tok) (i : Nat) (r : Reason) (h : wfCheck ts = .error ⟨i, r⟩)
    (hr : r ≠ .leftOpen) :
    (∃ s, run St.init (ts.take i) = .ok s) ∧ ∀ rest, wfCheck (ts.take (i + 1) ++ rest) = .error ⟨i, r⟩ := by
  have key : ∀ (ts : List Tok) (s : St), run s ts = .error ⟨i, r⟩ →
      s.idx ≤ i ∧ (∃ s', run s (ts.take (i - s.idx)) = .ok s') ∧
        ∀ rest, run s (ts.take (i - s.idx + 1) ++ rest) = .error ⟨i, r⟩ := by
    intro ts
    induction ts with
    | nil => intro s h; simp [run] at h
    | cons t ts ih =>
      intro s h
      simp only [run] at h
      cases hs : step s t with
      | error e =>
        simp only [hs, Except.error.injEq] at h
        have hi : e.idx = s.idx := by
          unfold step at hs
          split at hs
          · cases hs; rfl
          · split at hs
            · cases hs; rfl
            · cases hs
        rw [h] at hi hs
        simp only at hi
        refine ⟨by omega, ⟨s, by simp [hi, run]⟩, ?_⟩
        intro rest
        simp [hi, run, hs]
      | ok s' =>
        simp only [hs] at h
        have hidx : s'.idx = s.idx + 1 := by
          unfold step at hs
          split at hs
          · cases hs
          · split at hs
            · cases hs
            · cases hs; rfl
        obtain ⟨h1, ⟨s'', h2⟩, h3⟩ := ih s' h
        have e1 : i - s.idx = (i - s'.idx) + 1 := by omega
        refine ⟨by omega, ⟨s'', ?_⟩, ?_⟩
        · rw [e1]; simp [run, hs, h2]
        · intro rest
          rw [e1]; simp only [List.take_succ_cons, List.cons_append, run, hs]
          exact h3 rest
  unfold wfCheck at h
  cases hrun : run St.init ts with
  | ok s =>
    simp only [hrun] at h
    split at h
    · cases h
    · simp only [Except.error.injEq, WfErr.mk.injEq] at h
      exact absurd h.2.symm hr
  | error e =>
    simp only [hrun, Except.error.injEq] at h
    subst h
    obtain ⟨_, h2, h3⟩ := key ts St.init hrun
    simp only [St.init, Nat.sub_zero] at h2 h3
    refine ⟨h2, ?_⟩
    intro rest
    unfold wfCheck
    simp only [St.init, h3 rest]

example : wfCheck (setAt sample 6 ⟨"end-emphasis", .inline, .end_ 2⟩) = .error ⟨6, .endWrongPointer⟩ ∧
    (run St.init ((setAt sample 6 ⟨"end-emphasis", .inline, .end_ 2⟩).take 6)).toOption.isSome = true := by decide

end Verif.Props.C04
