/-
  Property theorems about pymarkdown's emphasis resolution
  (`EmphasisHelper.resolve_inline_emphasis`, faithful model `Verif.Model.Emphasis.resolve`).
  They serve C01 (totality), C02 (losslessness), C03 (spec conformance), C04 (well-formedness).
  Theorems only; proofs are in `Verif/Lemmas/Emphasis*.lean`.

  Reading guide.  `resolve strike wall items` is the Python function on the abstracted `inline_blocks`
  (`strike` = strike-through extension enabled, `wall` = index of `wall_token` or `none`).  The result is
  `.ok ⟨blocks, stk⟩` (the rewritten list; the final state of every special token, by delimiter-stack position) or
  `.error e` with `e` the Python exception (`index`, `assertion`, `value`) or `fuel` (= the Python loop does not
  terminate).  Theorems 2 and 3 hold for EVERY input list, including ill-formed ones, whenever a result is returned;
  theorem 1 says a result IS returned for every list the parser can produce.
-/
import Verif.Lemmas.EmphasisMain
import Verif.Lemmas.EmphasisSpec
import Verif.Lemmas.EmphasisRender
import Verif.Lemmas.EmphasisDiverge
namespace Verif.Props.Emphasis
open Verif.Model.Emphasis Verif.Model.Emphasis.Spec

/-! ## 1. totality / termination -/

/-- What the parser guarantees about the special tokens in `inline_blocks` (`__handle_inline_special`): the text is not
    empty, an emphasis character comes with both neighbour strings, an ACTIVE token has `repeat_count ≥ 1`. -/
def WellFormed (strike : Bool) (items : List Item) : Prop :=
  ∀ (i : Nat) (t : Special), (specials items)[i]? = some t → StaticOK strike t ∧ (t.active = true → 1 ≤ t.rep)

/-- `wall_token` is an element of the list -/
def WallOK (wall : Option Nat) (items : List Item) : Prop := ∀ w, wall = some w → w < items.length

/-- **Totality** (hypotheses: the parser's guarantees; excluded points below).  `resolve` returns a result — no
    IndexError, AssertionError, ValueError, no divergence — for every well-formed list of any length. -/
theorem resolve_total_partial (strike : Bool) (wall : Option Nat) (items : List Item)
    (hwf : WellFormed strike items) (hw : WallOK wall items) : ∃ out, resolve strike wall items = .ok out :=
  resolveWithFuel_total (pyPolicy_ok strike) _ (pyPolicy_total strike) wall items hwf hw _
    (by rw [createStack_snd]; exact Nat.le_refl _)

/-- **Fuel sufficiency**, concrete bound: number of special tokens + sum of their repeat counts + 1 iterations are
    enough; any larger fuel gives the same result. -/
theorem fuel_sufficient_partial (strike : Bool) (wall : Option Nat) (items : List Item)
    (hwf : WellFormed strike items) (hw : WallOK wall items) (fuel : Nat)
    (hf : (specials items).length + sumRepeat (specials items) + 1 ≤ fuel) :
    resolveWithFuel (pyPolicy strike) fuel wall items = resolve strike wall items := by
  obtain ⟨out, ho⟩ := resolve_total_partial strike wall items hwf hw
  obtain ⟨k, rfl⟩ := Nat.exists_eq_add_of_le hf
  have := resolveWithFuel_mono (pyPolicy strike) _ k wall items _ ho (by intro h; cases h)
  rw [ho, ← this]
  simp [createStack_snd, fuelOf]

/-- for EVERY input (no hypothesis): a result other than "out of fuel" never changes with more fuel -/
theorem fuel_monotone (strike : Bool) (fuel k : Nat) (wall : Option Nat) (items : List Item) (r : Except Err Result)
    (h : resolveWithFuel (pyPolicy strike) fuel wall items = r) (hr : r ≠ .error .fuel) :
    resolveWithFuel (pyPolicy strike) (fuel + k) wall items = r :=
  resolveWithFuel_mono _ fuel k wall items r h hr

/-- non-vacuity: `*a*` is well-formed and resolves to `<em>a</em>` -/
def demoItems : List Item :=
  [.special ⟨['*'], 1, some [], some ['a'], true⟩, .plain, .special ⟨['*'], 1, some ['a'], some [], true⟩]

set_option maxRecDepth 8000 in
example : (resolve false none demoItems).toOption.map (·.blocks) = some [.es 1 '*', .plain 1, .ee 1 '*'] := by decide

/-- non-vacuity of the hypotheses of `resolve_total_partial` / `fuel_sufficient_partial` -/
example : WellFormed false demoItems ∧ WallOK none demoItems := by
  refine ⟨?_, fun w h => by cases h⟩
  intro i t hget
  match i, hget with
  | 0, hg => cases hg; exact ⟨⟨by decide, fun c tl h _ => by cases h; exact ⟨rfl, rfl⟩⟩, fun _ => by decide⟩
  | 1, hg => cases hg; exact ⟨⟨by decide, fun c tl h _ => by cases h; exact ⟨rfl, rfl⟩⟩, fun _ => by decide⟩
  | n + 2, hg => simp [demoItems, specials] at hg

/-! ### the excluded points are real (each one is run on the real code by `tools/emphlib.py`) -/
/-- an ACTIVE emphasis token with `repeat_count = 0` (the parser never creates one): `zeroRepeat` = a left-flanking and a
    right-flanking `*`, both with count 0.  The loop pairs them for ever — every round inserts one more emphasis start / end
    pair and lowers both counts by one, so `== 0` is never met: out of fuel FOR EVERY FUEL (the real code is still
    running, and growing the list, after 2 s of CPU time). -/
theorem resolve_total_excluded_repeat0 (fuel : Nat) :
    resolveWithFuel (pyPolicy false) fuel none zeroRepeat = .error .fuel := zeroRepeat_diverges fuel

set_option maxRecDepth 8000 in
/-- an active special token with empty text behind the first stack entry: `token_text[0]` raises IndexError -/
theorem resolve_total_excluded_empty_text :
    resolve false none [.special ⟨['*'], 1, some [], some ['a'], true⟩, .special ⟨[], 1, some ['a'], some [], true⟩]
      = .error .index := by decide

set_option maxRecDepth 8000 in
/-- an emphasis character without neighbour strings: the `assert … is not None` of the flanking test fires -/
theorem resolve_total_excluded_no_neighbours :
    resolve false none [.special ⟨['*'], 1, some [], some ['a'], true⟩, .special ⟨['*'], 1, none, none, true⟩]
      = .error .assertion := by decide

set_option maxRecDepth 8000 in
/-- a wall token that is not in the list: `inline_blocks.index(wall_token)` raises ValueError -/
theorem resolve_total_excluded_wall : resolve false (some 3) demoItems = .error .value := by decide

/-! ## 2. well-nestedness (every input) -/

/-- **Well-nestedness.**  In every result the emphasis start / end tokens are balanced and properly nested: reading the
    output left to right with a stack, every end token meets the most recently opened start token and has its length and
    character, and nothing is left open. -/
theorem resolve_wellNested (strike : Bool) (wall : Option Nat) (items : List Item) (out : Result)
    (h : resolve strike wall items = .ok out) : WellNested out.blocks :=
  resolveWithFuel_wellNested (pyPolicy_ok strike) h

/-- the same for ANY pair of decision functions that only pair active tokens (in particular the original-length
    variant used for the comparison with LeanMark), and any fuel -/
theorem resolveWith_wellNested (pol : Policy) (hp : PolicyOK pol) (fuel : Nat) (wall : Option Nat) (items : List Item)
    (out : Result) (h : resolveWithFuel pol fuel wall items = .ok out) : WellNested out.blocks :=
  resolveWithFuel_wellNested hp h

/-- the special tokens that remain are in their original order, none twice -/
theorem resolve_specials_ordered (strike : Bool) (wall : Option Nat) (items : List Item) (out : Result)
    (h : resolve strike wall items = .ok out) : (spIds out.blocks).Pairwise (· < ·) :=
  resolveWithFuel_sorted (pyPolicy_ok strike) h

/-! ## 3. conservation (every input) -/

/-- **Conservation of delimiter characters.**  For every character `ch`: the lengths of the emitted emphasis start
    tokens of `ch` + the lengths of the emitted end tokens of `ch` + the remaining repeat counts of the special tokens of
    `ch` still in the list = the repeat counts of the special tokens of `ch` in the input. -/
theorem resolve_conservation (strike : Bool) (wall : Option Nat) (items : List Item) (out : Result)
    (h : resolve strike wall items = .ok out) (ch : Char) :
    weight (charOf (specials items)) out.stk ch out.blocks = inputCount ch items :=
  resolveWithFuel_weight (pyPolicy_ok strike) h ch

/-- a special token that was removed from the list has repeat count 0 (nothing is dropped with characters left) -/
theorem resolve_removed_zero (strike : Bool) (wall : Option Nat) (items : List Item) (out : Result)
    (h : resolve strike wall items = .ok out) :
    out.stk.length = (specials items).length ∧
      ∀ i, i < (specials items).length → Block.sp i ∉ out.blocks → repOf out.stk i = 0 :=
  resolveWithFuel_gone (pyPolicy_ok strike) h

/-- on well-formed input no repeat count ever goes negative (no special token "owes" characters) -/
theorem resolve_counts_nonneg_partial (strike : Bool) (wall : Option Nat) (items : List Item) (out : Result)
    (hwf : WellFormed strike items) (hn : ∀ (i : Nat) (t : Special), (specials items)[i]? = some t → 0 ≤ t.rep)
    (h : resolve strike wall items = .ok out) : ∀ i, 0 ≤ repOf out.stk i :=
  resolveWithFuel_nonneg (pyPolicy_ok strike) _ (fun _ _ _ h => h) hwf hn h

set_option maxRecDepth 8000 in
/-- excluded point: an active closer with count 0 against a well-formed opener ends at count −1 -/
theorem resolve_counts_nonneg_excluded :
    (resolve false none [.special ⟨['*'], 1, some [], some ['a'], true⟩, .special ⟨['*'], 0, some ['a'], some [], true⟩]).toOption.map
      (fun out => repOf out.stk 1) = some (-1) := by decide

/-- **Non-special tokens are preserved, in order**: the non-special tokens of the output are exactly those of the input
    (identified by their input position). -/
theorem resolve_plains_preserved (strike : Bool) (wall : Option Nat) (items : List Item) (out : Result)
    (h : resolve strike wall items = .ok out) : plains out.blocks = plainIdx 0 items := by
  rw [resolveWithFuel_plains (pyPolicy_ok strike) h]; exact plains_createFrom 0 0 items

/-- what the parser guarantees in addition (`__handle_inline_special_character_emphasis`): an active token whose first
    character is an emphasis character is a run of that character with `1 ≤ repeat_count ≤ len(token_text)`
    (the parser creates `repeat_count = len(token_text)`, and `__reset_token_text` re-establishes it between calls) -/
def UniformRuns (strike : Bool) (items : List Item) : Prop := RunsOK strike (specials items)

/-- **Losslessness, in order.**  Read the output back as source text — a non-special token as itself, a special token as
    its (reset) text, an emphasis start / end token of length n as n copies of its character: it is the input read the same
    way, atom by atom.  Nothing is invented, dropped or moved. -/
theorem resolve_lossless_partial (strike : Bool) (wall : Option Nat) (items : List Item) (out : Result)
    (hu : UniformRuns strike items) (h : resolve strike wall items = .ok out) :
    renderOut out.stk out.blocks = render (specials items) (createStack items).1 :=
  resolveWithFuel_render (pyPolicy_ok strike) strike (fun _ hc => by
    obtain ⟨c, tl, h1, h2⟩ := processThis_true_head hc; exact ⟨c, tl, h1, h2⟩) hu h

/-- non-vacuity: `*a*` is a list of uniform runs -/
example : UniformRuns false demoItems := by
  intro i t c tl hget _ htx _
  match i, hget with
  | 0, hg => cases hg; cases htx; exact ⟨rfl, by decide, by decide⟩
  | 1, hg => cases hg; cases htx; exact ⟨rfl, by decide, by decide⟩
  | n + 2, hg => simp [demoItems, specials] at hg

set_option maxRecDepth 8000 in
/-- excluded point: a token whose text is not a run of its first character (`*x`, count 2) loses the `x` when one
    delimiter is consumed — the read-back differs.  (Run on the real code by `tools/emphlib.py`, family ill-formed.) -/
theorem resolve_lossless_excluded :
    let items : List Item := [.special ⟨['*', 'x'], 2, some [], some ['a'], true⟩, .plain,
                              .special ⟨['*'], 1, some ['a'], some [], true⟩]
    (resolve false none items).toOption.map (fun out => renderOut out.stk out.blocks)
      = some [.chr '*', .chr '*', .tok 1, .chr '*'] ∧
    render (specials items) (createStack items).1 = [.chr '*', .chr 'x', .tok 1, .chr '*'] := by decide

/-! ## 4. flanking = CommonMark 0.31.2 §6.2, over the code's character classes -/

/-- `__is_left_flanking_delimiter_run` ⇔ the specification's definition (token with both neighbour strings) -/
theorem left_flanking_spec (t : Special) (ps fs : Str) (hp : t.prec = some ps) (hf : t.foll = some fs) :
    ∃ b, isLeft t = .ok b ∧ (b = true ↔ LeftFlanking CodeWs CodePunct ps fs) :=
  ⟨_, by simp [isLeft, flankArgs, hp, hf, bind, Except.bind, pure, Except.pure], leftFl_iff ps fs⟩

theorem right_flanking_spec (t : Special) (ps fs : Str) (hp : t.prec = some ps) (hf : t.foll = some fs) :
    ∃ b, isRight t = .ok b ∧ (b = true ↔ RightFlanking CodeWs CodePunct ps fs) :=
  ⟨_, by simp [isRight, flankArgs, hp, hf, bind, Except.bind, pure, Except.pure], rightFl_iff ps fs⟩

/-- `__is_potential_opener` ⇔ rules 1, 2 / 5, 6 (and the code's strike-through rule) -/
theorem can_open_spec (strike : Bool) (t : Special) (c : Char) (tl ps fs : Str) (ht : t.text = c :: tl)
    (hc : (emphChars strike).contains c = true) (hp : t.prec = some ps) (hf : t.foll = some fs) :
    ∃ b, potentialOpener strike t = .ok b ∧ (b = true ↔ CanOpen CodeWs CodePunct c t.text.length ps fs) :=
  ⟨_, potentialOpener_eq strike t c tl ps fs ht hc hp hf, openerCore_iff c _ ps fs⟩

/-- `__is_potential_closer` ⇔ rules 3, 4 / 7, 8 -/
theorem can_close_spec (strike : Bool) (t : Special) (c : Char) (tl ps fs : Str) (ht : t.text = c :: tl)
    (hc : (emphChars strike).contains c = true) (hp : t.prec = some ps) (hf : t.foll = some fs) :
    ∃ b, potentialCloser strike t = .ok b ∧ (b = true ↔ CanClose CodeWs CodePunct c t.text.length ps fs) :=
  ⟨_, potentialCloser_eq strike t c tl ps fs ht hc hp hf, closerCore_iff c _ ps fs⟩

set_option maxRecDepth 8000 in
/-- non-vacuity of the four: a `_` between a letter and a full stop is right- but not left-flanking, closes, does not open -/
example : RightFlanking CodeWs CodePunct ['a'] ['.'] ∧ ¬ LeftFlanking CodeWs CodePunct ['a'] ['.'] ∧
    CanClose CodeWs CodePunct '_' 1 ['a'] ['.'] ∧ ¬ CanOpen CodeWs CodePunct '_' 1 ['a'] ['.'] := by
  rw [← rightFl_iff, ← leftFl_iff, ← closerCore_iff, ← openerCore_iff]
  decide

set_option maxRecDepth 8000 in
/-- excluded point of the four: without neighbour strings the Python asserts -/
example : isLeft ⟨['*'], 1, none, some [], true⟩ = .error .assertion ∧
    potentialCloser false ⟨['_'], 1, some [], none, true⟩ = .error .assertion := by decide

/-- the code's whitespace class IS the specification's "Unicode whitespace character" -/
theorem whitespace_class_spec (c : Char) : CodeWs c ↔ UnicodeWhitespace c := isWs_iff c

/-- The code's punctuation class is a fixed table.  On ASCII it is the specification's "ASCII punctuation character". -/
theorem punctuation_class_ascii (c : Char) (h : c.toNat < 128) : CodePunct c ↔ AsciiPunctuation c := isPunct_ascii c h

set_option maxRecDepth 8000 in
/-- Beyond ASCII the table is the P* categories of an older Unicode with one typing slip — it is NOT the 0.31.2 class
    ("P or S general category"):  `£` U+00A3 (Sc) is missing (all ~7 700 non-ASCII symbols are); `𑃁` U+110C1 (Po) is
    missing and U+100C1 (Lo, a Linear B ideogram) is there in its place; U+FF5F (Ps) is missing while its partner U+FF60 is
    present.  Witnesses of the table's content: -/
theorem punctuation_class_witnesses :
    isPunct (Char.ofNat 0xA3) = false ∧ isPunct (Char.ofNat 0x110C1) = false ∧ isPunct (Char.ofNat 0x100C1) = true ∧
    isPunct (Char.ofNat 0xFF5F) = false ∧ isPunct (Char.ofNat 0xFF60) = true := by decide

set_option maxRecDepth 8000 in
/-- … and of its effect: in `a*£b*` the first run is left-flanking for the code (so the code emphasises `£b`), and is
    not left-flanking as soon as `£` counts as punctuation (0.31.2: no emphasis). -/
theorem punctuation_class_excluded :
    LeftFlanking CodeWs CodePunct ['a'] [Char.ofNat 0xA3, 'b'] ∧
    ¬ LeftFlanking CodeWs (fun c => CodePunct c ∨ c = Char.ofNat 0xA3) ['a'] [Char.ofNat 0xA3, 'b'] := by
  constructor
  · rw [← leftFl_iff]; decide
  · intro h
    have hf : FollPunct (fun c => CodePunct c ∨ c = Char.ofNat 0xA3) [Char.ofNat 0xA3, 'b'] := ⟨_, rfl, Or.inr rfl⟩
    rcases h.2 with h2 | ⟨_, h3 | h3⟩
    · exact h2 hf
    · rcases h3 with h3 | ⟨c, hc, hw⟩
      · cases h3
      · simp at hc; subst hc; revert hw; unfold CodeWs; decide
    · obtain ⟨c, hc, hp⟩ := h3
      simp at hc; subst hc
      rcases hp with hp | hp
      · revert hp; unfold CodePunct; decide
      · revert hp; decide

/-! ## 5. rule of 3 -/

/-- `__is_open_close_emphasis_valid` on two tokens of the same emphasis character, opener active: valid ⇔ the opener can
    open AND the specification's rule 9/10 holds FOR THE TWO LENGTHS `ro`, `rc` IT IS GIVEN. -/
theorem rule_of_3_spec (strike : Bool) (o c : Special) (ch : Char) (tlo tlc pso fso psc fsc : Str) (ro rc : Int)
    (hto : o.text = ch :: tlo) (htc : c.text = ch :: tlc) (hch : (emphChars strike).contains ch = true)
    (hpo : o.prec = some pso) (hfo : o.foll = some fso) (hpc : c.prec = some psc) (hfc : c.foll = some fsc)
    (ha : o.active = true) :
    ∃ b, validPair strike o c ro rc = .ok b ∧
      (b = true ↔ CanOpen CodeWs CodePunct ch o.text.length pso fso ∧
        RuleOf3 (CanClose CodeWs CodePunct ch o.text.length pso fso ∧ CanOpen CodeWs CodePunct ch o.text.length pso fso)
                (CanClose CodeWs CodePunct ch c.text.length psc fsc ∧ CanOpen CodeWs CodePunct ch c.text.length psc fsc)
                ro rc) := by
  have e1 := potentialOpener_eq strike o ch tlo pso fso hto hch hpo hfo
  have e2 := isBoth_ok strike c ch tlc psc fsc htc hch hpc hfc
  have e3 := isBoth_ok strike o ch tlo pso fso hto hch hpo hfo
  generalize o.text.length = no at e1 e3 ⊢
  generalize c.text.length = nc at e2 ⊢
  refine ⟨if openerCore ch no (precChar pso) (follChar fso) then
      (if (closerCore ch nc (precChar psc) (follChar fsc) && openerCore ch nc (precChar psc) (follChar fsc))
          || (closerCore ch no (precChar pso) (follChar fso) && openerCore ch no (precChar pso) (follChar fso))
        then rule3 ro rc else true) else false, ?_, ?_⟩
  · unfold validPair
    simp only [hto, head0, htc, bind, Except.bind, pure, Except.pure, bne_self_eq_false, Bool.false_eq_true, if_false, ha,
      Bool.not_true, e1, e2, e3]
    split <;> (try split) <;> simp_all
  · rw [← openerCore_iff, ← closerCore_iff, ← closerCore_iff, ← openerCore_iff]
    cases ho : openerCore ch no (precChar pso) (follChar fso) with
    | false => simp
    | true =>
      simp only [if_true, true_and, Bool.and_true]
      have := rule3_iff (closerCore ch no (precChar pso) (follChar fso))
        (closerCore ch nc (precChar psc) (follChar fsc) && openerCore ch nc (precChar psc) (follChar fsc))
        ro rc
      simp only [Bool.and_eq_true] at this
      rw [this]
      simp

/-- the lengths the Python passes are the CURRENT (remaining) repeat counts of the two tokens -/
theorem rule_of_3_uses_remaining_counts (strike : Bool) (o c : Nat) (ot ct : Special) :
    (pyPolicy strike).valid o ot c ct = validPair strike ot ct ot.rep ct.rep := rfl

/-- The specification speaks of "the lengths of the delimiter runs containing the opening and closing delimiters", i.e. the
    ORIGINAL run lengths (cmark and commonmark.js keep them for this test).  The two readings differ as soon as a partly
    consumed run meets the rule: `*a***a*` (abstracted).  With the remaining counts (the Python) the second `a` stays plain;
    with the run lengths it is emphasised.  The real parser gives `<em>a</em>**a*`, the reference `<em>a</em>*<em>a</em>`. -/
def rule3Doc : List Item :=
  [.special ⟨['*'], 1, some [], some ['a', '*'], true⟩, .plain,
   .special ⟨['*', '*', '*'], 3, some ['a'], some ['a', '*'], true⟩, .plain,
   .special ⟨['*'], 1, some ['*', 'a'], some [], true⟩]

set_option maxRecDepth 8000 in
theorem rule_of_3_deviation :
    (resolve false none rule3Doc).toOption.map (·.blocks)
      = some [.es 1 '*', .plain 1, .ee 1 '*', .sp 1, .plain 3, .sp 2] ∧
    (resolveWith (origPolicy false [1, 3, 1]) none rule3Doc).toOption.map (·.blocks)
      = some [.es 1 '*', .plain 1, .ee 1 '*', .sp 1, .es 1 '*', .plain 3, .ee 1 '*'] := by decide

end Verif.Props.Emphasis
