/-
  NOT part of the library (imported by nothing, never built by `lake build`).
  The check for C01 elaborates this file and requires that it is REJECTED with
  "fail to show termination": the list-closing loop as the Python code writes it
  (`while repeat_check:` with no fuel) has no decreasing measure.
-/
import Verif.Model.CloseLoop
namespace Verif.Reject
open Verif.Model.CloseLoop

def closeLoopNatural (ctx : Ctx) (st : Stack) (lli : Nat) : Except Err (Stack × Bool) :=
  match closeNextLevel ctx st lli with
  | .error e => .error e
  | .ok (rep, emitLi, lli', st') => if rep then closeLoopNatural ctx st' lli' else .ok (st', emitLi)

end Verif.Reject
