import Verif.Proto
import Verif.Drv.ScanRules
import Verif.Model.ScanRules2.Product
import Verif.Model.ScanRules2.Spec
/-!
  Driver entry `scanrules2` (faithful models of nine more scan-only rules, two with `next_line`).

  requests
    `scan|<jobs>|<tokens>|<lines>`                          one file
    `after|<jobs>|<tokens B>|<lines B>|<tokens A>|<lines A>`  file B scanned by the rule objects that scanned file A before
    `spec|<jobs>|<tokens>|<lines>`                          the right-hand sides of the `mdX_scan_iff` theorems
    `cfg|<job>`                                             the effective configuration
    `re|011|<hex>` `re|start|<hex>` `re|end|<hex>` `re|closed|<hex>` `re|hashes|<hex>`   the regular expressions in closed form
    `re|ser`                                                the AST of MD011's regular expression
    `split|<hex>`  `occ|<hex prefix>|<hex text>`  `adjust|<n>|<hex>`  `until|<n>|<hex>`   string helpers
  jobs, values: as for `scanrules`;  rule `all` = the nine rules together
  token  = `kind,line,col,text,label,aux` (text: hex; aux: `/`-separated `-` (None) or `=<hex>`)
  lines  = `=<hex>` joined by `;` (empty field = no line)
  answer = per job `ok <report>,…` | `err <Exception>` | `cfgerr` (the configuration is refused); jobs joined by `&`
-/
namespace Verif.Drv.ScanRules2
open Verif Verif.Model.ScanRules2
open Verif.Drv.ScanRules (KV parseKV KV.get KV.sub optEnc reportsEnc errName splitJob b01)

def kinds : List (String × K) :=
  [("para", .para), ("end-para", .paraEnd), ("text", .text), ("BLANK", .blank), ("atx", .atx), ("end-atx", .atxEnd),
   ("setext", .setext), ("end-setext", .setextEnd), ("fcode-block", .fence), ("end-fcode-block", .fenceEnd),
   ("icode-block", .icode), ("end-icode-block", .icodeEnd), ("html-block", .html), ("end-html-block", .htmlEnd),
   ("tbreak", .tbreak), ("link-ref-def", .lrd), ("leaf-other", .leafOther), ("block-quote", .bquote),
   ("end-block-quote", .bquoteEnd), ("list", .listStart), ("end-list", .listEnd), ("li", .newItem), ("end-of-stream", .eos),
   ("icode-span", .codeSpan), ("raw-html", .rawHtml), ("link", .link), ("end-link", .linkEnd), ("image", .image),
   ("hard-break", .hardBreak), ("emphasis", .emph), ("end-emphasis", .emphEnd), ("autolink", .autolink),
   ("task-list", .taskList), ("other-end", .otherEnd), ("other", .other)]

def auxDec (s : String) : List (Option Str) :=
  if s.trimAscii.toString.isEmpty then []
  else (s.splitOn "/").map (fun x =>
    let x := x.trimAscii.toString
    if x.startsWith "=" then some (Proto.decodeField (x.drop 1).toString) else none)

def tokDec (s : String) : Option Tk :=
  match s.splitOn "," with
  | [k, line, col, text, label, aux] =>
    match kinds.lookup k.trimAscii.toString with
    | some kind =>
      some { kind := kind, line := Proto.intField line, col := Proto.intField col, text := Proto.decodeField text,
             label := Proto.natField label, aux := auxDec aux }
    | none => none
  | _ => none

def toksDec (s : String) : Option (List Tk) :=
  if s.trimAscii.toString.isEmpty then some [] else (s.splitOn ";").mapM tokDec

def linesDec (s : String) : List Str :=
  if s.trimAscii.toString.isEmpty then []
  else (s.splitOn ";").map (fun x => Proto.decodeField ((x.trimAscii.toString.drop 1).toString))

def exc (withRule : Bool) : Except Err (List Report) → String
  | .ok a => "ok " ++ reportsEnc withRule a
  | .error e => "err " ++ errName e

def c013 (kv : KV) : C013 :=
  init013 (kv.get "line_length") (kv.get "code_block_line_length") (kv.get "heading_line_length") (kv.get "code_blocks")
    (kv.get "headings") (kv.get "strict") (kv.get "stern")
def c033 (kv : KV) : Option C033 := init033 (kv.get "allowed_elements") (kv.get "allow_first_image_element")

def run {C S : Type} (r : Rule2 C S) (c : C) (a : Option File) (b : File) : Except Err (List Report) :=
  match a with
  | none => scan r c b
  | some a => scanAfter r c a b

def dispatch (rule : String) (kv : KV) (a : Option File) (b : File) : String :=
  match rule with
  | "md011" => exc false (run md011 () a b)
  | "md013" => exc false (run md013 (c013 kv) a b)
  | "md014" => exc false (run md014 () a b)
  | "md018" => exc false (run md018 () a b)
  | "md020" => exc false (run md020 () a b)
  | "md028" => exc false (run md028 () a b)
  | "md032" => exc false (run md032 () a b)
  | "md033" => match c033 kv with
               | some c => exc false (run md033 c a b)
               | none => "cfgerr"
  | "md034" => exc false (run md034 () a b)
  | "all" =>
    match c033 (kv.sub "md033") with
    | some c33 => exc true (run allNine ((), c013 (kv.sub "md013"), (), (), (), (), (), c33, ()) a b)
    | none => "cfgerr"
  | _ => "?unknown rule"

/-- the `mdX_scan_iff` right-hand sides (`Model/ScanRules2/Spec.lean`) -/
def dispatchSpec (rule : String) (kv : KV) (b : File) : String :=
  let ok (rs : List Report) : String := "ok " ++ reportsEnc false rs
  match rule with
  | "md011" => ok (spec011 b)
  | "md013" => ok (spec013 (c013 kv) b)
  | "md014" => ok (byPrefix cond014 [] b.toks)
  | "md028" => ok (byPrefix cond028 [] b.toks)
  | "md033" => match c033 kv with
               | some c => ok (byPrefix (cond033 c) [] b.toks)
               | none => "cfgerr"
  | "md034" => ok (byPrefix cond034 [] b.toks)
  | _ => "-"

def cfgShow (rule : String) (kv : KV) : String :=
  match rule with
  | "md013" =>
    let c := c013 kv
    s!"{c.lineLength}|{c.codeLength}|{c.headingLength}|{b01 c.codeBlocks}|{b01 c.headings}|{b01 c.strict}|{b01 c.stern}"
  | "md033" =>
    match c033 kv with
    | some c => s!"{b01 c.allowFirstImage}|{Proto.encodeField (",".toList.intercalate c.allowed)}"
    | none => "cfgerr"
  | _ => ""

def jobs (js : String) (a : Option File) (b : File) : String :=
  "&".intercalate ((js.splitOn "&").map (fun j => let (r, kv) := splitJob j; dispatch r kv a b))

def spanEnc : Option (Nat × Nat) → String
  | some (a, b) => s!"{a}:{b}"
  | none => "-"

def step (line : String) : String :=
  match Proto.fields line with
  | ["scan", js, t, l] =>
    match toksDec t with
    | some t => jobs js none ⟨t, linesDec l⟩
    | none => "?bad tokens"
  | ["spec", js, t, l] =>
    match toksDec t with
    | some t => "&".intercalate ((js.splitOn "&").map (fun j => let (r, kv) := splitJob j; dispatchSpec r kv ⟨t, linesDec l⟩))
    | none => "?bad tokens"
  | ["after", js, t, l, ta, la] =>
    match toksDec t, toksDec ta with
    | some t, some ta => jobs js (some ⟨ta, linesDec la⟩) ⟨t, linesDec l⟩
    | _, _ => "?bad tokens"
  | ["cfg", j] => let (r, kv) := splitJob j; cfgShow r kv
  | ["re", "011", s] => spanEnc (search011 (Proto.decodeField s))
  | ["re", "start", s] => b01 (startHash (Proto.decodeField s))
  | ["re", "end", s] => b01 (endHash (Proto.decodeField s))
  | ["re", "closed", s] => b01 (closedHash (Proto.decodeField s))
  | ["re", "hashes", s] => let t := Proto.decodeField s; s!"{t.length - trailingHashes t}"
  | ["re", "ser"] => " ".intercalate (re011.map Re.ser)
  | ["split", s] => ";".intercalate ((splitNl (Proto.decodeField s)).map (fun x => "=" ++ Proto.encodeField x))
  | ["occ", p, s] => ",".intercalate ((occs (Proto.decodeField p) 0 0 (Proto.decodeField s)).map toString)
  | ["adjust", n, s] => let d := adjust034 (Proto.decodeField s) (Proto.natField n); s!"{d.1}:{d.2}"
  | ["until", n, s] => toString (untilSpace (Proto.decodeField s) (Proto.natField n))
  | _ => "?bad request"

end Verif.Drv.ScanRules2
