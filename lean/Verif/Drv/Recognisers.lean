import Verif.Proto
import Verif.Model.Recognisers
/-!
  Driver for the recogniser models.  One request per line: `op|field|…`; strings are hex fields
  (`Verif.Proto`), numbers decimal, booleans `0`/`1`.  Answers mirror the Python return values:
  `err index|assertion|fuel|diverges`, `none`, or `|`-separated values.
-/
namespace Verif.Drv.Recognisers
open Verif Verif.Model.Recognisers

def bit (b : Bool) : String := if b then "1" else "0"
def hx (s : Str) : String := "=" ++ Proto.encodeField s

def errS : Err → String
  | .index => "err index"
  | .assertion => "err assertion"
  | .fuel => "err fuel"
  | .diverges => "err diverges"

def ex {α : Type} (f : α → String) : Except Err α → String
  | .error e => errS e
  | .ok a => f a

def chr (s : String) : Char := (Proto.decodeField s).headD ' '

def step (line : String) : String :=
  let D := Proto.decodeField
  let N := Proto.natField
  let B := Proto.boolField
  match Proto.fields line with
  | ["xs", s, st] =>
    match extractSpaces (D s) (N st) with
    | none => "none"
    | some (j, w) => s!"{j}|{hx w}"
  | ["xaw", s, st] =>
    match extractAsciiWs (D s) (N st) with
    | none => "none"
    | some (j, w) => s!"{j}|{hx w}"
  | ["sfe", s] => let r := extractSpacesFromEnd (D s) none; s!"{r.1}|{hx r.2}"
  | ["sfei", s, k] => let r := extractSpacesFromEnd (D s) (some (N k)); s!"{r.1}|{hx r.2}"
  | ["cwc", s, st, c] =>
    ex (fun r => match r with | none => "none" | some (n, j) => s!"{n}|{j}") (collectWhileChar (D s) (N st) (chr c))
  | ["cwo", s, st, cs] =>
    ex (fun r => match r with | none => "none" | some (j, w) => s!"{j}|{hx w}") (collectWhileOneOf (D s) (N st) (D cs))
  | ["cbw", s, e, cs] =>
    ex (fun r => match r with | none => "none" | some (n, j) => s!"{n}|{j}") (collectBackwardsOneOf (D s) (Proto.intField e) (D cs))
  | ["callen", s, st] => toString (calcLength (D s) (N st))
  | ["detab", s, d] => ex hx (detabify (D s) (N d))
  | ["tb", s, st, ws, skip, allow] =>
    ex (fun r => match r with | none => "none" | some (c, j) => s!"{c.toNat}|{j}")
      (isThematicBreak (D s) (N st) (D ws) (B skip) (B allow))
  | ["atx", s, st, ws, skip] =>
    ex (fun r => match r with | none => "false" | some (nw, hc, w) => s!"true|{nw}|{hc}|{hx w}")
      (isAtxHeading (D s) (N st) (D ws) (B skip))
  | ["atxadj", s] =>
    ex (fun r => s!"{hx r.wsAtEnd}|{hx r.wsBeforeEnd}|{hx r.remaining}|{r.removeTrailing}") (atxAdjust (D s))
  | ["fence", s, st, ws, skip] =>
    ex (fun r => match r with | none => "false" | some (nw, af, c) => s!"true|{nw}|{af}|{c}")
      (isFencedCodeBlock (D s) (N st) (D ws) (B skip))
  | ["fopen", s, st, ws] => ex bit (isFenceOpen (D s) (N st) (D ws))
  | ["fclose", s, st, ws, fc, fn] => ex bit (isFenceClose (D s) (N st) (D ws) (chr fc) (N fn))
  | ["setext", s, st, ws] => ex bit (isSetextUnderline (D s) (N st) (D ws))
  | ["blank", s] => bit (isBlankLine (D s))
  | ["ulm", s, st, ws] => ex bit (isStartUlist (D s) (N st) (D ws))
  | ["olm", s, st] =>
    ex (fun r => match r with
      | (b, none) => s!"{bit b}|none"
      | (b, some (i, nd, n1)) => s!"{bit b}|{i}|{nd}|{bit n1}") (isStartOlist (D s) (N st))
  | ["ul", s, st, ws, skip, para] =>
    ex (fun r => s!"{bit r.1}|{r.2}") (isUlistStart (D s) (N st) (D ws) (B skip) (B para))
  | ["ol", s, st, ws, skip, para] =>
    ex (fun r => match r with
      | (b, a, none) => s!"{bit b}|{a}|none"
      | (b, a, some (i, nd)) => s!"{bit b}|{a}|{i}|{nd}") (isOlistStart (D s) (N st) (D ws) (B skip) (B para))
  | ["bqs", s, st, ws] => bit (isBlockQuoteStart (D s) (N st) (D ws))
  | ["bq", s, st] => ex (fun r => s!"{r.1}|{r.2.1}|{r.2.2}") (countBqStarts (D s) (N st))
  | _ => "bad-op"

end Verif.Drv.Recognisers
