import Verif.Proto
import Verif.Model.Config
namespace Verif.Drv.Config
open Verif Verif.Model.Config

def decVal (t : String) (payload : String) : Except Err Value :=
  match t with
  | "b" => .ok (.bool (payload.trimAscii.toString == "1"))
  | "i" => .ok (.int (Proto.intField payload))
  | "s" => .ok (.str (String.ofList (Proto.decodeField payload)))
  | "m" => manualValue (Proto.decodeField payload)
  | _ => .ok .other

/-- `key~T~payload;key~T~payload…` (key hex-encoded) -/
def decLayer (s : String) : Except Err Layer :=
  let entries := (s.splitOn ";").filter (fun e => !e.trimAscii.toString.isEmpty)
  entries.foldl (fun acc e =>
    match acc with
    | .error x => .error x
    | .ok l =>
      match e.splitOn "~" with
      | [k, t, p] =>
        match decVal t.trimAscii.toString p with
        | .error x => .error x
        | .ok v => .ok (l ++ [(normKey (Proto.decodeField k), v)])
      | _ => .ok l) (.ok [])

def decLayers (a b c d : String) : Except Err Layers :=
  match decLayer a, decLayer b, decLayer c, decLayer d with
  | .ok a, .ok b, .ok c, .ok d => .ok ⟨a, b, c, d⟩
  | .error e, _, _, _ => .error e
  | _, .error e, _, _ => .error e
  | _, _, .error e, _ => .error e
  | _, _, _, .error e => .error e

def keyStr (k : Key) : String := ".".intercalate k

def errStr : Err → String
  | .wrongType k => s!"err wrongType {keyStr k}"
  | .invalid k => s!"err invalid {keyStr k}"
  | .badManual => "err badManual"
  | .rejected _ => "err rejected"

def valStr : Option Value → String
  | none => "none"
  | some (.bool b) => if b then "b~1" else "b~0"
  | some (.int i) => s!"i~{i}"
  | some (.str s) => s!"s~{Proto.encodeField s.toList}"
  | some .other => "o~"

def decRule (id names dflt : String) : Rule :=
  { id := String.ofList (Proto.decodeField id),
    names := ((names.splitOn ",").filter (fun n => !n.trimAscii.toString.isEmpty)).map
      (fun n => String.ofList (Proto.decodeField n)),
    enabledByDefault := Proto.boolField dflt }

def decDflt (s : String) : Option Value :=
  match s.trimAscii.toString.splitOn "~" with
  | [t, p] => match decVal t p with
    | .ok v => some v
    | .error _ => none
  | _ => none

/--
 * `en|id|names|dflt|strictflag|e-raw|d-raw|L1|L2|L3|L4` → `ok 0/1` or `err …`
 * `get|id|names|strictflag|item|ty|valid|post|dflt|L1|L2|L3|L4` → `ok <value>` or `err …`
 * `endf|id|names|dflt|D1|D2|D3` → `ok 0/1` (three default files present at once)
 * `man|raw` → value;  `norm|raw` → identifiers;  `key|raw` → segments
-/
def step (line : String) : String :=
  match Proto.fields line with
  | ["en", id, names, dflt, sf, e, d, l1, l2, l3, l4] =>
    match decLayers l1 l2 l3 l4 with
    | .error x => errStr x
    | .ok L =>
      let c : CmdLine := ⟨normIds (Proto.decodeField e), normIds (Proto.decodeField d)⟩
      match enabled (decRule id names dflt) L (Proto.boolField sf) c with
      | .error x => errStr x
      | .ok b => if b then "ok 1" else "ok 0"
  | ["endf", id, names, dflt, d1, d2, d3] =>
    -- the three default files (JSON, .yaml, .yml) present at once
    match decLayer d1, decLayer d2, decLayer d3 with
    | .ok a, .ok b, .ok c =>
      match enabled (decRule id names dflt) ⟨[], pickDefault [a, b, c], [], []⟩ false ⟨[], []⟩ with
      | .error x => errStr x
      | .ok b => if b then "ok 1" else "ok 0"
    | _, _, _ => "bad-op"
  | ["get", id, names, sf, item, ty, valid, post, dflt, l1, l2, l3, l4] =>
    match decLayers l1 l2 l3 l4 with
    | .error x => errStr x
    | .ok L =>
      let m := L.merged
      match strictMode m (Proto.boolField sf) with
      | .error x => errStr x
      | .ok s =>
        let t := match ty.trimAscii.toString with | "b" => Ty.bool | "i" => Ty.int | _ => Ty.str
        let v := Proto.boolField valid
        -- `post` = 0: the rule itself rejects the configured value (but accepts its own default)
        let d := decDflt dflt
        let pst : Option Value → Bool := fun x => Proto.boolField post || x == d
        match settingChecked (decRule id names "0") m s (String.ofList (Proto.decodeField item)) t (fun _ => v) d pst with
        | .error x => errStr x
        | .ok r => "ok " ++ valStr r
  | ["man", raw] =>
    match manualValue (Proto.decodeField raw) with
    | .error x => errStr x
    | .ok v => "ok " ++ valStr (some v)
  | ["norm", raw] => ",".intercalate ((normIds (Proto.decodeField raw)).map fun s => Proto.encodeField s.toList)
  | ["key", raw] => ",".intercalate ((normKey (Proto.decodeField raw)).map fun s => Proto.encodeField s.toList)
  | _ => "bad-op"

end Verif.Drv.Config
