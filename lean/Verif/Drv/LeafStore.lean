import Verif.Proto
import Verif.Model.LeadingSpaces
import Verif.Model.LeafFields
/-!
  Drivers for `Verif.Model.LeadingSpaces` (entry `leading`) and `Verif.Model.LeafFields` (entry `fields`).

  `leading`: one request = one token life: `list|op;op;…` or `bq|op;op;…`.  Ops (`:`-separated, strings hex):
    `A:ws` add            `L:ws` add + `leading_text_index += 1` (bq)      `S:ws` add, skip_adding_newline (bq)
    `T:ws:tab` add with a tabbed original (bq)       `U:ws:tab` the same + index increment (bq)
    `R` remove last       `N` calculate_next_bleading_space_part()          `P:d` …(increment_index=False, delta=d)
    `O:d` …(False, d, allow_overflow=True)           `I` index += 1         `Z` index = 0
    `J` `TransformContainers.__adjust` at the harness index `k` (then `k` is what `__adjust` wrote back)
    `Q` `__apply_primary_transformation_adjust_container_line` at `k`, then `k += 1`
    `C:inc:d:ao` calculate_next_bleading_space_part(inc, d, ao)             `W:v` index = v
    `X:…` adopt a state observed on a real token (`X:N` / `X:S:store` for lists, `X:store:index:kludge5:k=v/k=v` for block quotes):
    used when the operations were recorded from the real parser / regenerator at work (tools/leadlib.py `Tracer`)
  Entry `leading-legal`: the same requests; per op `L<0|1|->I<0|1>`: was the operation legal (`BqTok.Legal`) in the state it
  met, does the index invariant `0 ≤ idx ≤ count` hold afterwards.
  Answer: for every op `result@state`, joined with `;`.  An op that raises leaves the state unchanged.
  `fields`: `atx|line`, `tb|line`, `fopen|line`, `fclose|line|char|count`, `setext|line`, `blank|line`.
-/
namespace Verif.Drv.LeafStore
open Verif Verif.Model.LeadingSpaces

def hx (s : List Char) : String := "=" ++ Proto.encodeField s

def errS : Err → String
  | .assertion => "err=assertion"
  | .index => "err=index"
  | .key => "err=key"

def optS : Option (List Char) → String
  | none => "none"
  | some p => "p" ++ hx p

/-! ### list token -/

def listState (t : ListTok) (k : Nat) : String :=
  (match t.leading with | none => "N" | some s => "S" ++ hx s) ++ s!",{k}"

def listOp (t : ListTok) (k : Nat) (op : String) : String × ListTok × Nat :=
  match op.splitOn ":" with
  | ["A", ws] => ("ok", t.add (Proto.decodeField ws), k)
  | ["X", "N"] => ("ok", ⟨none⟩, k)
  | ["X", "S", st] => ("ok", ⟨some (Proto.decodeField st)⟩, k)
  | ["R"] =>
    match t.removeLast with
    | .error e => (errS e, t, k)
    | .ok (p, t') => ("ok" ++ hx p, t', k)
  | ["J"] =>
    match adjustPart t.leading k with
    | .error e => (errS e, t, k)
    | .ok (p, k') => ("ok" ++ hx p, t, k')
  | ["Q"] =>
    match primaryList t k with
    | .error e => (errS e, t, k)
    | .ok r => (optS r, t, k + 1)
  | _ => ("bad-op", t, k)

def listRun (ops : List String) : String :=
  let step := fun (acc : List String × ListTok × Nat) (op : String) =>
    let (r, t', k') := listOp acc.2.1 acc.2.2 op
    (acc.1 ++ [r ++ "@" ++ listState t' k'], t', k')
  ";".intercalate (ops.foldl step ([], ListTok.new, 0)).1

/-! ### block-quote token -/

def bqState (t : BqTok) (k : Nat) : String :=
  let tb := "/".intercalate (t.tabbed.map fun e => s!"{e.1}{hx e.2}")
  s!"{hx t.leading},{t.idx},{k},{tb},{if t.kludge5 then 1 else 0}"

def bqNext (t : BqTok) (k : Nat) (inc : Bool) (d : Int) (ao : Bool) : String × BqTok × Nat :=
  match t.calcNext inc d ao with
  | .error e => (errS e, t, k)
  | .ok (p, t') => ("ok" ++ hx p, t', k)

def decTabbed (s : String) : List (Int × List Char) :=
  if s.isEmpty then [] else
  (s.splitOn "/").filterMap fun e =>
    match e.splitOn "=" with
    | [k, v] => some (Proto.intField k, Proto.decodeField v)
    | _ => none

def bqOp (t : BqTok) (k : Nat) (op : String) : String × BqTok × Nat :=
  let D := Proto.decodeField
  match op.splitOn ":" with
  | ["X", st, idx, k5, tb] => ("ok", ⟨D st, Proto.intField idx, decTabbed tb, Proto.boolField k5⟩, k)
  | ["W", v] => ("ok", { t with idx := Proto.intField v }, k)
  | ["C", inc, d, ao] => bqNext t k (Proto.boolField inc) (Proto.intField d) (Proto.boolField ao)
  | ["A", ws] => ("ok", t.add (D ws), k)
  | ["L", ws] => ("ok", t.addLine (D ws), k)
  | ["S", ws] => ("ok", t.add (D ws) true, k)
  | ["T", ws, tab] => ("ok", t.add (D ws) false (some (D tab)), k)
  | ["U", ws, tab] => ("ok", t.addLine (D ws) (some (D tab)), k)
  | ["R"] => let r := t.removeLast; ("ok" ++ hx r.1, r.2, k)
  | ["N"] => bqNext t k true 0 false
  | ["P", d] => bqNext t k false (Proto.intField d) false
  | ["O", d] => bqNext t k false (Proto.intField d) true
  | ["I"] => ("ok", t.incIdx 1, k)
  | ["Z"] => ("ok", t.resetIdx, k)
  | ["J"] =>
    match adjustPart (some t.leading) k with
    | .error e => (errS e, t, k)
    | .ok (p, k') => ("ok" ++ hx p, t, k')
  | ["Q"] => (optS (primaryBq t k), t, k + 1)
  | _ => ("bad-op", t, k)

def bqRun (ops : List String) : String :=
  let step := fun (acc : List String × BqTok × Nat) (op : String) =>
    let (r, t', k') := bqOp acc.2.1 acc.2.2 op
    (acc.1 ++ [r ++ "@" ++ bqState t' k'], t', k')
  ";".intercalate (ops.foldl step ([], BqTok.new, 0)).1

/-- the operation as a `BqOp`, where it is one -/
def asBqOp (op : String) : Option BqOp :=
  let D := Proto.decodeField
  match op.splitOn ":" with
  | ["A", ws] => some (.add (D ws) false none)
  | ["L", ws] => some (.addLine (D ws) none)
  | ["S", ws] => some (.add (D ws) true none)
  | ["T", ws, tab] => some (.add (D ws) false (some (D tab)))
  | ["U", ws, tab] => some (.addLine (D ws) (some (D tab)))
  | ["R"] => some .removeLast
  | ["N"] => some .next
  | ["P", d] => some (.peek (Proto.intField d))
  | ["O", d] => some (.peek (Proto.intField d))
  | ["C", inc, d, _] => if Proto.boolField inc then (if Proto.intField d == 0 then some .next else none) else some (.peek (Proto.intField d))
  | ["I"] => some .incIdx
  | ["Z"] => some .resetIdx
  | ["W", v] => some (.setIdx (Proto.intField v))
  | _ => none

def bqLegalRun (ops : List String) : String :=
  let step := fun (acc : List String × BqTok × Nat) (op : String) =>
    let t := acc.2.1
    let (_, t', k') := bqOp t acc.2.2 op
    let l := match asBqOp op with | some o => (if decide (t.Legal o) then "1" else "0") | none => "-"
    let i := if decide (0 ≤ t'.idx ∧ t'.idx ≤ t'.count) then "1" else "0"
    (acc.1 ++ [s!"L{l}I{i}"], t', k')
  ";".intercalate (ops.foldl step ([], BqTok.new, 0)).1

def stepLegal (line : String) : String :=
  match Proto.fields line with
  | ["bq", ops] => bqLegalRun (if ops.isEmpty then [] else ops.splitOn ";")
  | _ => "bad-op"

def opsOf (s : String) : List String := if s.isEmpty then [] else s.splitOn ";"

def stepLeading (line : String) : String :=
  match Proto.fields line with
  | ["list", ops] => listRun (opsOf ops)
  | ["bq", ops] => bqRun (opsOf ops)
  | ["storeall-list", ps] =>
    -- `storeAllList` / `consumeAllList` on `;`-separated prefixes, each written `p<hex>` (so that `[""]` ≠ `[]`)
    let l := (opsOf ps).map fun x => Proto.decodeField (x.drop 1).toString
    let t := storeAllList l
    listState t 0 ++ "|" ++ (match consumeAllList t with | .error e => errS e | .ok r => ";".intercalate (r.map hx))
  | ["storeall-bq", ps] =>
    let l := (opsOf ps).map fun x => Proto.decodeField (x.drop 1).toString
    let t := storeAllBq l
    bqState t 0 ++ "|" ++ (match consumeAllBq t with | .error e => errS e | .ok r => ";".intercalate (r.map hx))
  | _ => "bad-op"

/-! ### leaf fields -/
section Fields
open Verif.Model.Recognisers Verif.Model.LeafFields

def rerr : Verif.Model.Recognisers.Err → String
  | .index => "err index"
  | .assertion => "err assertion"
  | .fuel => "err fuel"
  | .diverges => "err diverges"

def res {α : Type} (f : α → String) : Except Verif.Model.Recognisers.Err (Option α) → String
  | .error e => rerr e
  | .ok none => "none"
  | .ok (some a) => f a

def stepFields (line : String) : String :=
  let D := Proto.decodeField
  match Proto.fields line with
  | ["atx", s] =>
    res (fun f => s!"atx|{hx f.lead}|{f.hashes}|{hx f.wsAfter}|{hx f.text}|{hx f.wsBeforeEnd}|{f.closing}|{hx f.wsAtEnd}|R{hx f.reassemble}")
      (fieldsAtx (D s))
  | ["tb", s] =>
    res (fun f => s!"tb|{hx f.lead}|{f.char.toNat}|{hx f.rest}|R{hx f.reassemble}") (fieldsThematic (D s))
  | ["fopen", s] =>
    res (fun f => s!"fopen|{hx f.lead}|{f.char.toNat}|{f.count}|{hx f.wsBeforeInfo}|{hx f.info}|{hx f.afterInfo}|R{hx f.reassemble}")
      (fieldsFenceOpen (D s))
  | ["fclose", s, c, n] =>
    let fc := (D c).headD '`'
    res (fun f => s!"fclose|{hx f.lead}|{f.count}|{hx f.trail}|R{hx (f.reassemble fc)}") (fieldsFenceClose (D s) fc (Proto.natField n))
  | ["setext", s] =>
    res (fun f => s!"setext|{hx f.lead}|{f.char.toNat}|{f.count}|{hx f.trail}|R{hx f.reassemble}") (fieldsSetext (D s))
  | ["blank", s] => res (fun w => s!"blank|{hx w}|R{hx w}") (fieldsBlank (D s))
  | _ => "bad-op"

end Fields

end Verif.Drv.LeafStore
