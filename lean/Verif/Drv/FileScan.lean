import Verif.Proto
import Verif.Model.FileScan
import Verif.Model.FileScanSpec
namespace Verif.Drv.FileScan
open Verif Verif.Model.FileScan

/-
  Line protocol (hex fields as in `Verif.Proto`; `|` `;` `,` `:` `!` are structural):

  D|<tree>|<exts>|<query>|<query>…      discovery; one answer per query, joined by `|`
      tree   = entries joined by `;`, an entry is `F<path>` or `D<path>` (path string, `/` separated)
      query  = <r><l>:<arg>,<arg>…       r = recurse, l = list-only (0/1)
      answer = <files>!<err>!<list>!<msgs>!<out>!<outcome>!<spec>!<specOutcome>
               files = strings joined by `,`; msgs = `G<p>`/`E<p>`/`V<p>`/`N` joined by `,`;
               out = `+` when handle_output was called, else `-`; outcome = L | Z | N | S;
               spec = `X` (documented error) or `=`files: the documentation-level `spec`
  G|<tree>|<pattern>,<pattern>…          glob.glob of each pattern; answers joined by `|`
  M|<alphabet>|<maxlen>|<pattern>        fnmatch of the pattern against every name over the
                                         alphabet up to the length, product order; a 0/1 string
  L|<string>                             argparse's lower-casing of the extension list
-/

def strList (s : String) : List Str :=
  if s.trimAscii.toString.isEmpty then [] else (s.splitOn ",").map Proto.decodeField

def encList (l : List Str) : String := ",".intercalate (l.map Proto.encodeField)

def parseEntry (s : String) : Option (Path × Kind) :=
  let s := s.trimAscii.toString
  match s.toList with
  | 'F' :: rest => some (splitOn '/' (Proto.decodeField (String.ofList rest)), .file)
  | 'D' :: rest => some (splitOn '/' (Proto.decodeField (String.ofList rest)), .dir)
  | _ => none

def parseTree (s : String) : Tree :=
  if s.trimAscii.toString.isEmpty then [] else (s.splitOn ";").filterMap parseEntry

def encMsg : Msg → String
  | .globNoMatch p => "G" ++ Proto.encodeField p
  | .notExist p => "E" ++ Proto.encodeField p
  | .notValid p => "V" ++ Proto.encodeField p
  | .noMatching => "N"

def encOutcome : Outcome → String
  | .listed _ => "L" | .listedNone => "Z" | .noFiles => "N" | .scan _ => "S"

def answer (t : Tree) (exts : Str) (q : String) : String :=
  match q.splitOn ":" with
  | [flags, args] =>
    match flags.trimAscii.toString.toList with
    | [r, l] =>
      let o : Opts := ⟨r == '1', exts, l == '1'⟩
      let res := discover t o (strList args)
      "!".intercalate [encList res.files, if res.didError then "1" else "0", if res.didList then "1" else "0",
        ",".intercalate (res.msgs.map encMsg), if res.output.isSome then "+" else "-", encOutcome (consume res),
        match spec t o (strList args) with | none => "X" | some fs => "=" ++ encList fs,
        encOutcome (specOutcome t o (strList args))]
    | _ => "bad-flags"
  | _ => "bad-query"

def names (alphabet : Str) : Nat → List Str
  | 0 => [[]]
  | n + 1 => alphabet.flatMap fun c => (names alphabet n).map (c :: ·)

def step (line : String) : String :=
  match Proto.fields line with
  | "D" :: tree :: exts :: queries =>
    let t := parseTree tree
    "|".intercalate (queries.map (answer t (Proto.decodeField exts)))
  | ["G", tree, pats] =>
    let t := parseTree tree
    "|".intercalate ((strList pats).map fun p => encList (glob t p))
  | ["M", alphabet, maxlen, pat] =>
    let a := Proto.decodeField alphabet
    let p := Proto.decodeField pat
    let ns := (List.range (Proto.natField maxlen + 1)).flatMap (names a)
    String.ofList (ns.map fun n => if globMatch p n then '1' else '0')
  | ["L", s] => Proto.encodeField (lowerAscii (Proto.decodeField s))
  | _ => "bad-op"

end Verif.Drv.FileScan
