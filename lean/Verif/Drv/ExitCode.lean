import Verif.Proto
import Verif.Model.ExitCode
import Verif.Gen.ExitTable
namespace Verif.Drv.ExitCode
open Verif Verif.Model.ExitCode

/-- `scheme|b1..b6` (listOnly filesFound discoverError anyFail anyFixed anyTriggered) → `result code`. -/
def step (line : String) : String :=
  match Proto.fields line with
  | [s, bits] =>
    match bits.trimAscii.toString.toList.map (· == '1') with
    | [a, b, c, d, e, f] =>
      let o : Obs := ⟨a, b, c, d, e, f⟩
      let r := Verif.Gen.ExitTable.flow.finalResult o
      let sch := if s.trimAscii.toString == "minimal" then Scheme.minimal else Scheme.dflt
      match lookup Verif.Gen.ExitTable.codeTable sch r with
      | some c => s!"{repr r} {c}"
      | none => "no-entry"
    | _ => "bad-op"
  | _ => "bad-op"

end Verif.Drv.ExitCode
