import Verif.Proto
import Verif.Model.RuleSpec.Lines
import Verif.Model.RuleSpec.Headings
import Verif.Model.RuleSpec.Blocks
import Verif.Model.LineRules
/-!
  Driver entry `rulespec` (reference conditions of the C06 rules) and `linerules` (faithful line rules).

  `rulespec`  request:  `<rule id>|<k=v;k=v;…>|<hex document>`
              answer:   `<line>:<col or ->` joined by `,`   (or `?unknown rule`)
     the event stream is computed here from the document by LeanMark.
     values: naturals, `0`/`1` for booleans, style names, hex fields for `punctuation` and MD035 `style`
     (`consistent` is written as the word).
  `linerules` request:  `<scan|fix>|<rule id>|<k=v;…>|<hex document>`   with the line context taken from LeanMark
              answer:   scan: as above; fix: hex of the fixed document
-/
namespace Verif.Drv.RuleSpec
open Verif Verif.Model.LeanMark Verif.Model.RuleSpec

abbrev KV := List (String × String)

def parseKV (s : String) : KV :=
  (s.splitOn ";").filterMap (fun kv =>
    match kv.splitOn "=" with
    | [k, v] => some (k.trimAscii.toString, v)
    | _ => none)

def KV.nat (kv : KV) (k : String) (d : Nat) : Nat :=
  match kv.lookup k with
  | some v => v.trimAscii.toString.toNat?.getD d
  | none => d

def KV.bool (kv : KV) (k : String) (d : Bool) : Bool :=
  match kv.lookup k with
  | some v => v.trimAscii.toString == "1"
  | none => d

def KV.str (kv : KV) (k : String) (d : String) : String :=
  match kv.lookup k with
  | some v => v.trimAscii.toString
  | none => d

def hitsStr (hs : List Hit) : String :=
  ",".intercalate (hs.map (fun h => s!"{h.1}:{match h.2 with | some c => toString c | none => "-"}"))

def c009 (kv : KV) : C009 := { brSpaces := kv.nat "br_spaces" 2, strict := kv.bool "strict" false,
                               listItemEmptyLines := kv.bool "list_item_empty_lines" false }
def c010 (kv : KV) : C010 := { codeBlocks := kv.bool "code_blocks" true }
def c012 (kv : KV) : C012 := { maximum := kv.nat "maximum" 1 }
def c013 (kv : KV) : C013 :=
  { lineLength := kv.nat "line_length" 80, headingLineLength := kv.nat "heading_line_length" 80,
    codeBlockLineLength := kv.nat "code_block_line_length" 80, headings := kv.bool "headings" true,
    codeBlocks := kv.bool "code_blocks" true, strict := kv.bool "strict" false }

def s003 (s : String) : S003 :=
  match s with
  | "atx" => .atx | "atx_closed" => .atxClosed | "setext" => .setext
  | "setext_with_atx" => .setextWithAtx | "setext_with_atx_closed" => .setextWithAtxClosed
  | _ => .consistent

def s004 (s : String) : S004 :=
  match s with
  | "asterisk" => .asterisk | "dash" => .dash | "plus" => .plus | "sublist" => .sublist
  | _ => .consistent

def cond (rule : String) (kv : KV) (ls : List Line) (evs : List Ev) : Option (List Hit) :=
  match rule with
  | "md001" => some (md001 ls evs)
  | "md003" => some (md003 { style := s003 (kv.str "style" "consistent"), allowSetextUpdate := kv.bool "allow-setext-update" false } ls evs)
  | "md004" => some (md004 { style := s004 (kv.str "style" "consistent") } ls evs)
  | "md009" => some (md009 (c009 kv) ls evs)
  | "md010" => some (md010 (c010 kv) ls evs)
  | "md012" => some (md012 (c012 kv) ls evs)
  | "md013" => some (md013 (c013 kv) ls evs)
  | "md018" => some (md018 ls evs)
  | "md019" => some (md019 ls evs)
  | "md022" => some (md022 { linesAbove := kv.nat "lines_above" 1, linesBelow := kv.nat "lines_below" 1 } ls evs)
  | "md023" => some (md023 ls evs)
  | "md024" => some (md024 { siblingsOnly := kv.bool "siblings_only" false || kv.bool "allow_different_nesting" false } ls evs)
  | "md025" => some (md025 { level := kv.nat "level" 1 } ls evs)
  | "md026" => some (md026 (match kv.lookup "punctuation" with
                            | some v => { punctuation := Proto.decodeField v }
                            | none => {}) ls evs)
  | "md031" => some (md031 { listItems := kv.bool "list_items" true } ls evs)
  | "md032" => some (md032 ls evs)
  | "md035" => some (md035 (match kv.lookup "style" with
                            | some v => if v.trimAscii.toString == "consistent" then {} else { style := some (Proto.decodeField v) }
                            | none => {}) ls evs)
  | "md040" => some (md040 ls evs)
  | "md041" => some (md041 { level := kv.nat "level" 1 } ls evs)
  | "md042" => some (md042 ls evs)
  | "md045" => some (md045 ls evs)
  | "md046" => some (md046 { style := match kv.str "style" "consistent" with
                                      | "fenced" => .fenced | "indented" => .indented | _ => .consistent } ls evs)
  | "md047" => some (md047 ls evs)
  | "md048" => some (md048 { style := match kv.str "style" "consistent" with
                                      | "backtick" => .backtick | "tilde" => .tilde | _ => .consistent } ls evs)
  | _ => none

def step (line : String) : String :=
  match Proto.fields line with
  | [rule, cfg, doc] =>
    let d := Proto.decodeField doc
    match cond rule.trimAscii.toString (parseKV cfg) (rawLines d) (evsOf d) with
    | some hs => hitsStr hs
    | none => "?unknown rule"
  | _ => "?bad request"


/-! ## `linerules`: the faithful line rules under the line context read off LeanMark's block structure -/
open Verif.Model in
def ctxOf (ls : List Line) (evs : List Ev) (i : Nat) : LineRules.LCtx :=
  let bs := blocks evs
  let cs := conts evs
  { inCodeBlock := inCode bs i,
    inFencedInterior := (match blockAt bs i with
      | some b => isFencedK b.k && b.payload.any (·.line == i)
      | none => false),
    listIndent := (match itemAt cs (if ((lineAt ls i).getD []).all isSpTab then lastTextAbove ls i i else i) with
      | some it => (match lineAt ls it.line with
        | some il => some (itemIndent il it.col)
        | none => none)
      | none => none),
    isAtx := (match blockAt bs i with
      | some b => (match b.k with | .heading _ false => true | _ => false)
      | none => false) }

def pairsStr (hs : List (Nat × Nat)) : String := ",".intercalate (hs.map (fun h => s!"{h.1}:{h.2}"))

open Verif.Model in
def stepLine (line : String) : String :=
  match Proto.fields line with
  | [mode, rule, cfg, doc] =>
    let d := Proto.decodeField doc
    let ls := rawLines d
    let ctx := ctxOf ls (evsOf d)
    let kv := parseKV cfg
    let c9 : LineRules.C009 := { brSpaces := kv.nat "br_spaces" 2, strict := kv.bool "strict" false,
                                 listItemEmptyLines := kv.bool "list_item_empty_lines" false }
    let c10 : LineRules.C010 := { codeBlocks := kv.bool "code_blocks" true }
    match mode.trimAscii.toString, rule.trimAscii.toString with
    | "scan", "md009" => pairsStr (LineRules.scan009 c9 ctx ls)
    | "scan", "md010" => pairsStr (LineRules.scan010 c10 ctx ls)
    | "scan", "md047" => pairsStr (LineRules.scan047 ls).toList
    | "fix", "md009" => Proto.encodeField (joinLines (LineRules.fix009 c9 ctx ls))
    | "fix", "md010" => Proto.encodeField (joinLines (LineRules.fix010 c10 ctx ls))
    | "fix", "md047" => Proto.encodeField (joinLines (LineRules.fix047 ls))
    | _, _ => "?unknown"
  | _ => "?bad request"

end Verif.Drv.RuleSpec
