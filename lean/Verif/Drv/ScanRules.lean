import Verif.Proto
import Verif.Model.ScanRules.Spec
/-!
  Driver entry `scanrules` (faithful models of ten scan-only token rules).

  requests
    `scan|<jobs>|<tokens>`             one file
    `after|<jobs>|<tokens B>|<tokens A>`   file B scanned by the rule objects that scanned file A before
    `spec|<jobs>|<tokens>`             the right-hand sides of the `mdX_scan_iff` theorems (not for rule `all`)
    `cfg|<job>`                        the effective configuration `initialize_from_config` computes
    `strip|a|<hex>` `strip|u|<hex>` `strip|s|<hex>` `lower|<hex>`    the string helpers (ASCII / Unicode white space, space)
  jobs   = `<rule>~<k>=<v>;<k>=<v>…` joined by `&`; rule `all` = the ten rules together, keys `<rule>.<key>`
  value  = `b0` `b1` | `i<int>` | `s<hex>`      (a key that is not listed is absent from the property map)
  token  = 12 comma-separated fields in the order of `Tok`: kind,line,col,oline,ocol,hashCount,trailing,keys,text,uri,alt,dbg
           (strings: hex code points separated by spaces; keys: hex strings separated by `/`)
  answer = per job `ok <report>,<report>…` with report = `line:col:-` or `line:col:=<hex extra>` (rule `all`: `rule:line:col:…`),
           or `err <Exception>`; jobs joined by `&`
-/
namespace Verif.Drv.ScanRules
open Verif Verif.Model.ScanRules

abbrev KV := List (String × CVal)

def valDec (v : String) : CVal :=
  let t := v.trimAscii.toString
  if t.startsWith "b" then .bool ((t.drop 1).toString == "1")
  else if t.startsWith "i" then .int (Proto.intField (t.drop 1).toString)
  else if t.startsWith "s" then .str (Proto.decodeField (t.drop 1).toString)
  else .absent

def parseKV (s : String) : KV :=
  (s.splitOn ";").filterMap (fun kv =>
    match kv.splitOn "=" with
    | [k, v] => some (k.trimAscii.toString, valDec v)
    | _ => none)

def KV.get (kv : KV) (k : String) : CVal := (kv.lookup k).getD .absent

def KV.sub (kv : KV) (rule : String) : KV :=
  kv.filterMap (fun p => if p.1.startsWith (rule ++ ".") then some ((p.1.drop (rule.length + 1)).toString, p.2) else none)

def kinds : List (String × Kind) :=
  [("atx", .atx), ("setext", .setext), ("end-atx", .atxEnd), ("end-setext", .setextEnd), ("front-matter", .frontMatter),
   ("para", .para), ("end-para", .paraEnd), ("text", .text), ("BLANK", .blank), ("tbreak", .tbreak), ("link-ref-def", .lrd),
   ("fcode-block", .fence), ("html-block", .html), ("leaf-end", .leafEnd), ("list-end", .listEnd),
   ("end-block-quote", .bquoteEnd), ("emphasis", .emphasis), ("end-emphasis", .emphasisEnd), ("link", .link),
   ("image", .image), ("other-end", .otherEnd), ("other", .other)]

def tokDec (s : String) : Option Tok :=
  match s.splitOn "," with
  | [k, line, col, oline, ocol, hc, tr, keys, text, uri, alt, dbg] =>
    match kinds.lookup k.trimAscii.toString with
    | some kind =>
      some { kind := kind, line := Proto.intField line, col := Proto.intField col, oline := Proto.intField oline,
             ocol := Proto.intField ocol, hashCount := Proto.intField hc, trailing := Proto.intField tr,
             keys := if keys.trimAscii.toString.isEmpty then [] else (keys.splitOn "/").map Proto.decodeField,
             text := Proto.decodeField text, uri := Proto.decodeField uri, alt := Proto.decodeField alt,
             dbg := Proto.decodeField dbg }
    | none => none
  | _ => none

def toksDec (s : String) : Option (List Tok) :=
  if s.trimAscii.toString.isEmpty then some [] else (s.splitOn ";").mapM tokDec

def errName : Err → String
  | .assertion => "AssertionError" | .indexError => "IndexError" | .attributeError => "AttributeError"

def optEnc : Option Str → String
  | none => "-"
  | some s => "=" ++ Proto.encodeField s

def reportsEnc (withRule : Bool) (rs : List Report) : String :=
  ",".intercalate (rs.map (fun r => (if withRule then s!"{r.rule}:" else "") ++ s!"{r.line}:{r.col}:{optEnc r.extra}"))

def exc (withRule : Bool) : Except Err (List Report) → String
  | .ok a => "ok " ++ reportsEnc withRule a
  | .error e => "err " ++ errName e

def c003 (kv : KV) : C003 := init003 (kv.get "style") (kv.get "allow-setext-update")
def c022 (kv : KV) : C022 := init022 (kv.get "lines_above") (kv.get "lines_below")
def c024 (kv : KV) : C024 := init024 (kv.get "siblings_only") (kv.get "allow_different_nesting")
def c025 (kv : KV) : C025 := init025 (kv.get "level") (kv.get "front_matter_title")
def c026 (kv : KV) : C026 := init026 (kv.get "punctuation")
def c036 (kv : KV) : C036 := init036 (kv.get "punctuation")
def c041 (kv : KV) : C041 := init041 (kv.get "level") (kv.get "front_matter_title")

def cAll (kv : KV) :=
  (c003 (kv.sub "md003"), c022 (kv.sub "md022"), c024 (kv.sub "md024"), c025 (kv.sub "md025"), c026 (kv.sub "md026"),
   c036 (kv.sub "md036"), (), c041 (kv.sub "md041"), (), ())

/-- one file (`a = none`) or file `b` after file `a` -/
def run {C S : Type} (r : Rule C S) (c : C) (a : Option (List Tok)) (b : List Tok) : Except Err (List Report) :=
  match a with
  | none => scan r c b
  | some a => scanAfter r c a b

def dispatch (rule : String) (kv : KV) (a : Option (List Tok)) (b : List Tok) : String :=
  match rule with
  | "md003" => exc false (run md003 (c003 kv) a b)
  | "md022" => exc false (run md022 (c022 kv) a b)
  | "md024" => exc false (run md024 (c024 kv) a b)
  | "md025" => exc false (run md025 (c025 kv) a b)
  | "md026" => exc false (run md026 (c026 kv) a b)
  | "md036" => exc false (run md036 (c036 kv) a b)
  | "md040" => exc false (run md040 () a b)
  | "md041" => exc false (run md041 (c041 kv) a b)
  | "md042" => exc false (run md042 () a b)
  | "md045" => exc false (run md045 () a b)
  | "all" => exc true (run allTen (cAll kv) a b)
  | _ => "?unknown rule"

/-- the `mdX_scan_iff` right-hand sides (`Model/ScanRules/Spec.lean`): the tie compares them with the scan on every parsed stream -/
def dispatchSpec (rule : String) (kv : KV) (b : List Tok) : String :=
  let ok (rs : List Report) : String := "ok " ++ reportsEnc false rs
  match rule with
  | "md003" => ok (byPrefix (cond003 (c003 kv)) [] b)
  | "md022" => ok (byPrefix (cond022 (c022 kv)) [] b)
  | "md024" => ok (byPrefix (cond024 (c024 kv)) [] b)
  | "md025" => ok (byPrefix (cond025 (c025 kv)) [] b)
  | "md026" => ok (byPrefix (cond026 (c026 kv)) [] b)
  | "md036" => ok (spec036 (c036 kv) b)
  | "md040" => ok ((b.filter trig040).map (reportAt ·))
  | "md041" => ok (verdict041 (c041 kv) (b.dropWhile (skip041 (c041 kv))))
  | "md042" => ok ((b.filter trig042).map (reportAt ·))
  | "md045" => ok ((b.filter trig045).map (reportAt ·))
  | _ => "?unknown rule"

def b01 (b : Bool) : String := if b then "1" else "0"

/-- the effective configuration, in the order of the rule's `query_config` -/
def cfgShow (rule : String) (kv : KV) : String :=
  match rule with
  | "md003" => let c := c003 kv; s!"{Proto.encodeField c.style.name}|{b01 c.allowUpdate}"
  | "md022" => let c := c022 kv; s!"{c.above}|{c.below}"
  | "md024" => let c := c024 kv; s!"{b01 c.siblingsOnly}|{b01 c.siblingsOnly}"
  | "md025" => let c := c025 kv; s!"{c.level}|{Proto.encodeField c.title}"
  | "md026" => Proto.encodeField (c026 kv).punctuation
  | "md036" => Proto.encodeField (c036 kv).punctuation
  | "md041" => let c := c041 kv; s!"{c.level}|{Proto.encodeField c.title}"
  | _ => ""

def splitJob (j : String) : String × KV :=
  match j.splitOn "~" with
  | [rule, cfg] => (rule.trimAscii.toString, parseKV cfg)
  | [rule] => (rule.trimAscii.toString, [])
  | _ => ("?", [])

def jobs (js : String) (a : Option (List Tok)) (b : List Tok) : String :=
  "&".intercalate ((js.splitOn "&").map (fun j => let (r, kv) := splitJob j; dispatch r kv a b))

def step (line : String) : String :=
  match Proto.fields line with
  | ["scan", js, b] =>
    match toksDec b with
    | some b => jobs js none b
    | none => "?bad tokens"
  | ["spec", js, b] =>
    match toksDec b with
    | some b => "&".intercalate ((js.splitOn "&").map (fun j => let (r, kv) := splitJob j; dispatchSpec r kv b))
    | none => "?bad tokens"
  | ["after", js, b, a] =>
    match toksDec b, toksDec a with
    | some b, some a => jobs js (some a) b
    | _, _ => "?bad tokens"
  | ["cfg", j] => let (r, kv) := splitJob j; cfgShow r kv
  | ["strip", "a", s] => Proto.encodeField (stripBy isAsciiWs (Proto.decodeField s))
  | ["strip", "u", s] => Proto.encodeField (stripBy isUnicodeWs (Proto.decodeField s))
  | ["strip", "s", s] => Proto.encodeField (stripBy (· == ' ') (Proto.decodeField s))
  | ["lower", s] => Proto.encodeField (lowerAscii (Proto.decodeField s))
  | _ => "?bad request"

end Verif.Drv.ScanRules
