import Verif.Proto
import Verif.Model.Emphasis
import Verif.Model.LeanMark.Inline
/-!
  Driver for `Verif.Model.Emphasis` (entry `emph`).  One request per line, fields separated by `|`.

  item   := `p`  |  `s,<text>,<repeat>,<prec>,<foll>,<active>`      text / prec / foll: hex code points (`Verif.Proto`),
            prec / foll `N` for Python `None`, otherwise `=` + hex; repeat a decimal integer; active `0`/`1`.
  `res|strike|wall|item|item|…`    `resolve` (wall `-` = None, else the wall token's index in the list)
  `orig|strike|wall|item|…`        the same with the rule of 3 on the ORIGINAL repeat counts (`origPolicy`)
  `resf|fuel|strike|wall|item|…`   `resolveWithFuel` with an explicit fuel (the divergence witness)
  `fl|strike|item`                 `left|right|opener|closer` of one token: `0`, `1` or `err …`
  `valid|strike|item|item`         `__is_open_close_emphasis_valid(open, close)`
  `this|strike|item`               `__process_this_delimiter_item`
  `classes`                        the two character tables: decimal code points, space separated, `|` between them
  `lm|item|…`                      faithful model, original-length variant and LeanMark's `resolveEmph` on the same
                                   abstract list, each rendered as text: `<py>|<orig>|<leanmark>`
  Answer of res / orig: `ok|b;b;…|t;t;…` with b = `p<tag>` | `s<id>` | `+<len>:<cp>` | `-<len>:<cp>` and
  t = `<text hex>,<repeat>,<active>` (the final delimiter stack), or `err index|assertion|value|fuel`.
-/
namespace Verif.Drv.Emphasis
open Verif Verif.Model.Emphasis

def errS : Err → String
  | .index => "err index"
  | .assertion => "err assertion"
  | .value => "err value"
  | .fuel => "err fuel"

def bit (b : Bool) : String := if b then "1" else "0"

def exB : Except Err Bool → String
  | .error e => errS e
  | .ok b => bit b

def optField (s : String) : Option Str :=
  if s == "N" then none else some (Proto.decodeField (s.drop 1).toString)

def parseItem (s : String) : Option Item :=
  match s.splitOn "," with
  | ["p"] => some .plain
  | ["s", tx, r, p, f, a] =>
    some (.special ⟨Proto.decodeField tx, Proto.intField r, optField p, optField f, Proto.boolField a⟩)
  | _ => none

def parseItems (l : List String) : Option (List Item) := l.mapM parseItem

def parseWall (s : String) : Option Nat := if s == "-" then none else some (Proto.natField s)

def blockS : Block → String
  | .plain t => s!"p{t}"
  | .sp i => s!"s{i}"
  | .es n c => s!"+{n}:{c.toNat}"
  | .ee n c => s!"-{n}:{c.toNat}"

def specS (t : Special) : String := s!"{Proto.encodeField t.text},{t.rep},{bit t.active}"

def resultS : Except Err Result → String
  | .error e => errS e
  | .ok r => "ok|" ++ ";".intercalate (r.blocks.map blockS) ++ "|" ++ ";".intercalate (r.stk.map specS)

def origOf (items : List Item) : List Int :=
  items.filterMap fun | .special t => some t.rep | .plain => none

/-! ### text rendering for the comparison with LeanMark -/
def tagS (close : Bool) (n : Nat) : String := (if close then "</e" else "<e") ++ toString n ++ ">"

def renderBlock (stk : List Special) : Block → String
  | .plain _ => "a"
  | .sp i => match stk[i]? with | some t => String.ofList t.text | none => "?"
  | .es n _ => tagS false n
  | .ee n _ => tagS true n

def renderResult : Except Err Result → String
  | .error e => errS e
  | .ok r => "".intercalate (r.blocks.map (renderBlock r.stk))

def lmItem : Model.Emphasis.Item → Model.LeanMark.Item
  | .plain => .text ['a'] ⟨1, 1⟩
  | .special t =>
    match t.text, t.prec, t.foll with
    | c :: _, some p, some f =>
      if (c == '*' || c == '_') && t.active then
        let n := t.rep.toNat
        let st : Model.LeanMark.ISt := ⟨[], 0, p.getLast?, 1, 0, [], 0⟩
        match (Model.LeanMark.handleDelim c (List.replicate (n - 1) c ++ f) st).acc with
        | it :: _ => it
        | [] => .text t.text.reverse ⟨1, 1⟩
      else .text t.text.reverse ⟨1, 1⟩
    | _, _, _ => .text t.text.reverse ⟨1, 1⟩

def renderIEv : Model.LeanMark.IEv → String
  | .text s _ => String.ofList s
  | .openEmph _ => tagS false 1
  | .closeEmph => tagS true 1
  | .openStrong _ => tagS false 2
  | .closeStrong => tagS true 2
  | _ => "?"

def lmRender (items : List Item) : String :=
  "".intercalate ((Model.LeanMark.resolveEmph (items.map lmItem)).map renderIEv)

def cps (l : List Nat) : String := " ".intercalate (l.map toString)

def step (line : String) : String :=
  match Proto.fields line with
  | "res" :: strike :: wall :: items =>
    match parseItems items with
    | some its => resultS (resolve (Proto.boolField strike) (parseWall wall) its)
    | none => "bad-item"
  | "orig" :: strike :: wall :: items =>
    match parseItems items with
    | some its => resultS (resolveWith (origPolicy (Proto.boolField strike) (origOf its)) (parseWall wall) its)
    | none => "bad-item"
  | "resf" :: fuel :: strike :: wall :: items =>
    match parseItems items with
    | some its => resultS (resolveWithFuel (pyPolicy (Proto.boolField strike)) (Proto.natField fuel) (parseWall wall) its)
    | none => "bad-item"
  | ["fl", strike, item] =>
    match parseItem item with
    | some (.special t) =>
      let s := Proto.boolField strike
      "|".intercalate [exB (isLeft t), exB (isRight t), exB (potentialOpener s t), exB (potentialCloser s t)]
    | _ => "bad-item"
  | ["valid", strike, o, c] =>
    match parseItem o, parseItem c with
    | some (.special ot), some (.special ct) => exB (validPair (Proto.boolField strike) ot ct ot.rep ct.rep)
    | _, _ => "bad-item"
  | ["this", strike, item] =>
    match parseItem item with
    | some (.special t) => exB (processThis (Proto.boolField strike) t)
    | _ => "bad-item"
  | ["classes"] => cps Gen.EmphChars.whitespace ++ "|" ++ cps Gen.EmphChars.punctuation
  | "lm" :: items =>
    match parseItems items with
    | some its =>
      renderResult (resolve false none its) ++ "|" ++
      renderResult (resolveWith (origPolicy false (origOf its)) none its) ++ "|" ++ lmRender its
    | none => "bad-item"
  | _ => "bad-op"

end Verif.Drv.Emphasis
