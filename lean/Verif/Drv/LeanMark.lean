import Verif.Proto
import Verif.Model.LeanMark.Html
/-!
  Driver entries for the reference model LeanMark (one request line → one answer line):
  * `leanmark-html`    : `<hex document>` → `<hex HTML>`
  * `leanmark-events`  : `<hex document>` → serialised event stream with positions
  * `leanmark-inscope` : `<hex document>` → `1` / `0`
  * `leanmark-amb`     : `<hex document>` → `0` if the four readings of the specification (Block.lean `Reading`)
                         give the same event stream, else the indices of the deviating readings, e.g. `13`
  * `leanmark-html-r<i>`, `leanmark-events-r<i>` (i = 1, 2, 3): the same under reading i

  Event stream: events separated by `;`, fields by `,`; strings are hex fields (space separated code points).
    `O,<kind>,<line>,<col>`                         kind = `quote` | `ul:<bullet cp>` | `ol:<delim cp>:<start>` | `li`
    `C,<kind>,<endLine>`
    `L,<leaf>,<line>,<col>,<endLine>,<hex>,<hex payload>[,<hex dest>,<opt title>]`
                                                    leaf = `para` | `h:<lvl>:<a|s>` | `hr` | `fence` | `icode` | `html` | `lrd`
                                                    hex  = info string (fence) / normalised label (lrd) / empty
                                                    payload = the leaf's source lines (container prefixes removed) joined by LF
                                                    dest, title (`-` = none, `=<hex>`) only for `lrd`
    `I,<name>,<line>,<col>,<hex>[,<hex>]`           inline events of the preceding para / heading leaf
    `i,<name>`                                      inline close events
-/
namespace Verif.Drv.LeanMark
open Verif Verif.Model.LeanMark

def kindStr : Kind → String
  | .quote => "quote"
  | .list false d _ => s!"ul:{d.toNat}"
  | .list true d s => s!"ol:{d.toNat}:{s}"
  | .item => "li"

def leafStr : LeafKind → String × List Char
  | .para => ("para", [])
  | .heading l s => (s!"h:{l}:{if s then "s" else "a"}", [])
  | .tbreak => ("hr", [])
  | .fenced info => ("fence", info)
  | .indented => ("icode", [])
  | .html => ("html", [])
  | .lrd lab _ _ => ("lrd", normLabel lab)

def optHex : Option (List Char) → String
  | none => "-"
  | some t => "=" ++ Proto.encodeField t

def ievStr : IEv → String
  | .text s p => s!"I,text,{p.line},{p.col},{Proto.encodeField s}"
  | .softbreak p => s!"I,soft,{p.line},{p.col},"
  | .hardbreak p => s!"I,hard,{p.line},{p.col},"
  | .code s p => s!"I,code,{p.line},{p.col},{Proto.encodeField s}"
  | .rawHtml s p => s!"I,rawhtml,{p.line},{p.col},{Proto.encodeField s}"
  | .autolink d t p => s!"I,autolink,{p.line},{p.col},{Proto.encodeField d},{Proto.encodeField t}"
  | .openEmph p => s!"I,emph,{p.line},{p.col},"
  | .closeEmph => "i,emph"
  | .openStrong p => s!"I,strong,{p.line},{p.col},"
  | .closeStrong => "i,strong"
  | .openLink d t p => s!"I,link,{p.line},{p.col},{Proto.encodeField d},{optHex t}"
  | .closeLink => "i,link"
  | .openImage d t p => s!"I,image,{p.line},{p.col},{Proto.encodeField d},{optHex t}"
  | .closeImage => "i,image"

def evStr (refs : RefMap) : Ev → List String
  | .open k p => [s!"O,{kindStr k},{p.line},{p.col}"]
  | .close k e => [s!"C,{kindStr k},{e}"]
  | .leaf k p e payload =>
    let (nm, x) := leafStr k
    let body := Proto.encodeField (joinLines (payload.map (·.text)))
    let tail := match k with
      | .lrd _ d t => s!",{Proto.encodeField d},{optHex t}"
      | _ => ""
    let head := s!"L,{nm},{p.line},{p.col},{e},{Proto.encodeField x},{body}{tail}"
    match k with
    | .para => head :: (parseInlines refs payload).map ievStr
    | .heading .. => head :: (parseInlines refs payload).map ievStr
    | _ => [head]

def eventsStrR (rd : Reading) (doc : List Char) : String :=
  let evs := eventsR rd (docLines doc)
  let refs := refMapOf evs
  ";".intercalate (evs.flatMap (evStr refs))

def eventsStr (doc : List Char) : String := eventsStrR {} doc

/-- the four readings of the specification (Block.lean `Reading`), index = lazyList + 2 * lrdNoPara. -/
def readings : List Reading :=
  [{}, { lazyList := true }, { lrdNoPara := true }, { lazyList := true, lrdNoPara := true }]

def stepHtml (line : String) : String := Proto.encodeField (html (Proto.decodeField line))
def stepEvents (line : String) : String := eventsStr (Proto.decodeField line)
def stepHtmlR (i : Nat) (line : String) : String :=
  Proto.encodeField (htmlR (readings.getD i {}) (Proto.decodeField line))
def stepEventsR (i : Nat) (line : String) : String := eventsStrR (readings.getD i {}) (Proto.decodeField line)
/-- `0` = all readings give the same event stream (the document is unambiguous); otherwise the indices (1..3)
    of the readings whose stream differs from the default one. -/
def stepAmb (line : String) : String :=
  let doc := Proto.decodeField line
  let base := eventsStrR {} doc
  let diff := [1, 2, 3].filter fun i => eventsStrR (readings.getD i {}) doc != base
  if diff.isEmpty then "0" else "".intercalate (diff.map toString)
def stepInScope (line : String) : String := if InScope (Proto.decodeField line) then "1" else "0"

end Verif.Drv.LeanMark
