import Verif.Proto
import Verif.Model.MainLoop
/-!
  Driver `mainloop`: replays a trace recorded from the real `__parse_blocks_pass` loop through the control model.

  request:  `<document lines>|<iterations>`
    document lines : hex fields separated by `;` (`-` = no line at all)
    iterations     : separated by `,`; each `kind:hold:fresh:force:lines:depth:lineNo:reqLen:ignore:closing:pending:cur`
        kind    `n` (no RequeueLineInfo) | `r` (RequeueLineInfo returned)
        hold    `1` iff after the iteration the top of the token stack is a pending link reference definition
        fresh   `1` iff a definition pending before the iteration was closed during it (the held definition starts anew)
        force   `force_ignore_first_as_lrd`
        depth   `len(token_stack)` after the iteration
        lines   `lines_to_requeue` in the code's order (`;`-separated hex fields, `-` = empty list); for a closing
                iteration as returned by `__close_open_blocks`, i.e. *with* the empty closing line in front
        then the state observed after the iteration: `line_number`, `len(requeue)`, `ignore_link_definition_start`,
        `did_start_close`, number of lines held by the pending definition, next line (`~` = None, else `=`hex)
  answer:   `ok <iterations> <running> <inexact>`  every transition is a `Legal` model transition and the states agree;
                                                   inexact = block-quote restarts that handed back another spelling of the line
            `illegal <i>` | `assert <i> <which>` | `afterend <i>` | `mismatch <i> <field> <model> <real>` | `bad-request`
-/
namespace Verif.Drv.MainLoop
open Verif Verif.Model.MainLoop

def decList (s : String) : List Line :=
  if s.trimAscii.toString == "-" then [] else (s.splitOn ";").map Proto.decodeField

structure Obs where
  lineNo : Int
  reqLen : Nat
  ignore : Bool
  closing : Bool
  pending : Nat
  cur : Option Line

def decStep (s : String) : Option (Answer × Obs) :=
  match s.splitOn ":" with
  | [kind, hold, fresh, force, lines, dp, ln, rl, ig, cl, pd, cur] =>
    let rq : Option Requeue :=
      if kind.trimAscii.toString == "r" then some ⟨decList lines, Proto.boolField force⟩ else none
    let c : Option Line :=
      if cur.trimAscii.toString == "~" then none else some (Proto.decodeField (cur.drop 1).toString)
    some ({ requeue := rq, hold := Proto.boolField hold, fresh := Proto.boolField fresh, depth := Proto.natField dp },
          ⟨Proto.intField ln, Proto.natField rl, Proto.boolField ig, Proto.boolField cl, Proto.natField pd, c⟩)
  | _ => none

def bit (b : Bool) : String := if b then "1" else "0"

def encOpt : Option Line → String
  | none => "~"
  | some l => "=" ++ (Proto.encodeField l).replace " " "."

def errName : Err → String
  | .lrdNotStarted => "lrd-not-started"
  | .requeueHead => "requeue-head"
  | .noLine => "no-line"

def compare (i : Nat) (s : State) (o : Obs) : Option String :=
  if s.lineNo ≠ o.lineNo then some s!"mismatch {i} line_number {s.lineNo} {o.lineNo}"
  else if s.requeue.length ≠ o.reqLen then some s!"mismatch {i} requeue_len {s.requeue.length} {o.reqLen}"
  else if s.ignore ≠ o.ignore then some s!"mismatch {i} ignore {bit s.ignore} {bit o.ignore}"
  else if s.startClose ≠ o.closing then some s!"mismatch {i} did_start_close {bit s.startClose} {bit o.closing}"
  else if s.pending.length ≠ o.pending then some s!"mismatch {i} pending {s.pending.length} {o.pending}"
  else if s.cur ≠ o.cur then some s!"mismatch {i} next_line {encOpt s.cur} {encOpt o.cur}"
  else none

def run : State → List (Answer × Obs) → Nat → Nat → String
  | s, [], i, x => s!"ok {i} {bit s.running} {x}"
  | s, (a, o) :: rest, i, x =>
    if !s.running then s!"afterend {i}"
    else if ¬ Legal s a then s!"illegal {i}"
    else match step s a with
      | .error e => s!"assert {i} {errName e}"
      | .ok s' =>
        let x' := if exactStep s a then x else x + 1
        if !s'.running then (if rest.isEmpty then s!"ok {i + 1} 0 {x'}" else s!"afterend {i + 1}")
        else match compare i s' o with
          | some m => m
          | none => run s' rest (i + 1) x'

def step (line : String) : String :=
  match Proto.fields line with
  | [doc, steps] =>
    let ss := if steps.trimAscii.toString == "" then [] else steps.splitOn ","
    match ss.mapM decStep with
    | some l => run (init (decList doc)) l 0 0
    | none => "bad-request"
  | _ => "bad-request"

end Verif.Drv.MainLoop
