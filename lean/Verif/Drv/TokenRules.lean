import Verif.Proto
import Verif.Model.TokenRules.MD001
import Verif.Model.TokenRules.MD004
import Verif.Model.TokenRules.MD029
import Verif.Model.TokenRules.MD035
import Verif.Model.TokenRules.MD038
import Verif.Model.TokenRules.MD019
import Verif.Model.TokenRules.Product
import Verif.Model.TokenRules.MD030
import Verif.Model.TokenRules.MD021
/-!
  Driver entry `tokenrules` (faithful models of the token-driven fix-capable rules).

  request:  `<rule id>~<k=v;k=v;…>&<rule id>~…|<token>;<token>;…`      (several jobs on one stream)
     token = 16 comma-separated fields in the order of `Tok`:
             kind,line,col,hashCount,trailing,keys,seq,content,indent,ws,leading,startChar,rest,fenceChar,text,endData
             strings: hex code points separated by spaces; optional strings: `-` = None, `=`hex = a string;
             keys: hex strings separated by `/`
  answer:   per job `<scan>|<requests>|<fixed tokens>|wf<0/1>`, jobs joined by `&`
     scan     = `ok` reports `line:col:-|=hex extra` joined by `,`   or  `err <Exception>`
     requests = `ok` `idx:field:i<int>|s<hex>` joined by `,`          or  `err <Exception>`
     fixed    = `ok` `<len>:<idx>=<token>;…` (changed tokens only)     or  `err <Exception>`
     wf       = the rule's well-formedness predicate holds for every token of the stream
-/
namespace Verif.Drv.TokenRules
open Verif Verif.Model.TokenRules

abbrev KV := List (String × String)

def parseKV (s : String) : KV :=
  (s.splitOn ";").filterMap (fun kv =>
    match kv.splitOn "=" with
    | [k, v] => some (k.trimAscii.toString, v)
    | _ => none)

def KV.str (kv : KV) (k : String) (d : String) : String :=
  match kv.lookup k with
  | some v => v.trimAscii.toString
  | none => d

def KV.hex (kv : KV) (k : String) (d : Str) : Str :=
  match kv.lookup k with
  | some v => Proto.decodeField v
  | none => d

def KV.bool (kv : KV) (k : String) (d : Bool) : Bool :=
  match kv.lookup k with
  | some v => v.trimAscii.toString == "1"
  | none => d

def KV.int (kv : KV) (k : String) (d : Int) : Int :=
  match kv.lookup k with
  | some v => Proto.intField v
  | none => d

def kinds : List (String × Kind) :=
  [("atx", .atx), ("end-atx", .atxEnd), ("setext", .setext), ("end-setext", .setextEnd), ("front-matter", .frontMatter),
   ("para", .para), ("end-para", .paraEnd), ("text", .text), ("BLANK", .blank), ("tbreak", .tbreak),
   ("fcode-block", .fence), ("end-fcode-block", .fenceEnd), ("icode-block", .icode), ("end-icode-block", .icodeEnd),
   ("html-block", .html), ("end-html-block", .htmlEnd), ("link-ref-def", .lrd),
   ("ulist", .ulist), ("end-ulist", .ulistEnd), ("olist", .olist), ("end-olist", .olistEnd), ("li", .li),
   ("block-quote", .bquote), ("end-block-quote", .bquoteEnd),
   ("icode-span", .codeSpan), ("raw-html", .rawHtml), ("link", .link), ("end-link", .linkEnd), ("image", .image),
   ("emphasis", .emphasis), ("end-emphasis", .emphasisEnd), ("hard-break", .hardBreak), ("autolink", .autolink),
   ("end-of-stream", .eos), ("pragma", .pragma)]

def kindName (k : Kind) : String :=
  match kinds.find? (fun p => p.2 == k) with
  | some p => p.1
  | none => "?"

def optDec (s : String) : Option Str :=
  let t := s.trimAscii.toString
  if t.startsWith "=" then some (Proto.decodeField (t.drop 1).toString) else none

def optEnc : Option Str → String
  | none => "-"
  | some s => "=" ++ Proto.encodeField s

def tokDec (s : String) : Option Tok :=
  match s.splitOn "," with
  | [k, line, col, hc, tr, keys, seq, content, indent, ws, leading, sc, rest, fc, text, ed] =>
    match kinds.lookup k.trimAscii.toString with
    | some kind =>
      some { kind := kind, line := Proto.intField line, col := Proto.intField col, hashCount := Proto.intField hc,
             trailing := Proto.intField tr,
             keys := if keys.trimAscii.toString.isEmpty then [] else (keys.splitOn "/").map Proto.decodeField,
             seq := Proto.decodeField seq, content := Proto.decodeField content, indent := Proto.intField indent,
             ws := Proto.decodeField ws, leading := optDec leading, startChar := Proto.decodeField sc,
             rest := Proto.decodeField rest, fenceChar := Proto.decodeField fc, text := Proto.decodeField text,
             endData := optDec ed }
    | none => none
  | _ => none

def tokEnc (t : Tok) : String :=
  ",".intercalate [kindName t.kind, toString t.line, toString t.col, toString t.hashCount, toString t.trailing,
    "/".intercalate (t.keys.map Proto.encodeField), Proto.encodeField t.seq, Proto.encodeField t.content,
    toString t.indent, Proto.encodeField t.ws, optEnc t.leading, Proto.encodeField t.startChar,
    Proto.encodeField t.rest, Proto.encodeField t.fenceChar, Proto.encodeField t.text, optEnc t.endData]

def toksDec (s : String) : Option (List Tok) :=
  if s.trimAscii.toString.isEmpty then some [] else (s.splitOn ";").mapM tokDec

def errName : Err → String
  | .keyError => "KeyError" | .assertion => "AssertionError" | .indexError => "IndexError"
  | .valueError => "ValueError" | .typeError => "TypeError" | .badFix => "BadPluginFixError" | .hang => "Hang" | .notModelled => "NotModelled"

def fieldName : Field → String
  | .columnNumber => "column_number" | .hashCount => "hash_count" | .listStartSequence => "list_start_sequence"
  | .listStartContent => "list_start_content" | .indentLevel => "indent_level"
  | .extractedWhitespace => "extracted_whitespace" | .leadingSpaces => "leading_spaces"
  | .bleadingSpaces => "bleading_spaces" | .startCharacter => "start_character" | .restOfLine => "rest_of_line"
  | .fenceCharacter => "fence_character" | .tokenText => "token_text" | .spanText => "span_text"
  | .textFromBlocks => "text_from_blocks" | .linkNameDebug => "link_name_debug" | .extraEndData => "extra_end_data"

def valEnc : Val → String
  | .int i => "i" ++ toString i
  | .str s => "s" ++ Proto.encodeField s

def exc {α : Type} (f : α → String) : Except Err α → String
  | .ok a => "ok " ++ f a
  | .error e => "err " ++ errName e

def reportsEnc (rs : List Report) : String :=
  ",".intercalate (rs.map (fun r => s!"{r.line}:{r.col}:{optEnc r.extra}"))

def reqsEnc (qs : List FixReq) : String :=
  ",".intercalate (qs.map (fun q => s!"{q.idx}:{fieldName q.field}:{valEnc q.val}"))

def toksEnc (ts : List Tok) : String := ";".intercalate (ts.map tokEnc)

def numbered : Nat → List Tok → List (Nat × Tok)
  | _, [] => []
  | i, t :: ts => (i, t) :: numbered (i + 1) ts

/-- `<len>:<idx>=<token>;…` — the tokens that differ from the request's (all of them when the length changed) -/
def diffEnc (before after : List Tok) : String :=
  let idx := numbered 0 after
  let ch := if before.length != after.length then idx
            else (idx.zip before).filterMap (fun p => if p.1.2 == p.2 then none else some p.1)
  toString after.length ++ ":" ++ ";".intercalate (ch.map (fun p => toString p.1 ++ "=" ++ tokEnc p.2))

def answer {Cfg St : Type} (r : Rule Cfg St) (c : Cfg) (wf : List Tok → Bool) (toks : List Tok) : String :=
  exc reportsEnc (scan r c toks) ++ "|" ++ exc reqsEnc (fixReqs r c toks) ++ "|" ++ exc (diffEnc toks) (fix r c toks)
    ++ "|wf" ++ (if wf toks then "1" else "0")

def c029 (kv : KV) : C029 :=
  let sty : Sty029 := match kv.str "style" "one_or_ordered" with
    | "one" => .one | "ordered" => .ordered | "zero" => .zero | _ => .oneOrOrdered
  { style := sty, allowExt := kv.bool "allow_extended_start_values" false }

def c001 (kv : KV) : C001 := { title := kv.hex "front_matter_title" ['t', 'i', 't', 'l', 'e'] }

def c004 (kv : KV) : C004 :=
  { style := match kv.str "style" "consistent" with
      | "asterisk" => .fixed .asterisk | "plus" => .fixed .plus | "dash" => .fixed .dash
      | "sublist" => .sublist | _ => .consistent }

def c035 (kv : KV) : C035 := { style := (kv.lookup "style").map Proto.decodeField }

def c048 (kv : KV) : C048 :=
  { style := match kv.str "style" "consistent" with
      | "backtick" => some .backtick | "tilde" => some .tilde | _ => none }

/-- the keys `<rule>.<key>` of a bundle configuration, without the prefix -/
def KV.sub (kv : KV) (rule : String) : KV :=
  kv.filterMap (fun p => if p.1.startsWith (rule ++ ".") then some ((p.1.drop (rule.length + 1)).toString, p.2) else none)

def wf004S (ts : List Tok) : Bool := ts.all wf004 && balanced004 0 ts

def dispatch (rule : String) (kv : KV) (toks : List Tok) : String :=
  match rule with
  | "md001" => answer md001 (c001 kv) (·.all wf001) toks
  | "md004" => answer md004 (c004 kv) wf004S toks
  | "md029" => answer md029 (c029 kv) (wfS029 []) toks
  | "md035" => answer md035 (c035 kv) (fun _ => true) toks
  | "md048" => answer md048 (c048 kv) (fun _ => true) toks
  | "md038" => answer md038 () (·.all wf038) toks
  | "md039" => answer md039 () (fun _ => true) toks
  | "md019" => answer md019 () (·.all wf019) toks
  | "md021" => answer md021 () (fun _ => true) toks
  | "md030" => answer md030 { ulSingle := kv.int "ul_single" 1, olSingle := kv.int "ol_single" 1,
                              ulMulti := kv.int "ul_multi" 1, olMulti := kv.int "ol_multi" 1 } (balanced030 0) toks
  | "md001+md004+md029+md035+md039" =>
    answer (md001 ⊗ md004 ⊗ md029 ⊗ md035 ⊗ md039)
      (c001 (kv.sub "md001"), c004 (kv.sub "md004"), c029 (kv.sub "md029"), c035 (kv.sub "md035"), ())
      (fun ts => ts.all wf001 && wf004S ts && wfS029 [] ts) toks
  | "md004+md019+md029+md035+md039" =>
    answer (md004 ⊗ md019 ⊗ md029 ⊗ md035 ⊗ md039)
      (c004 (kv.sub "md004"), (), c029 (kv.sub "md029"), c035 (kv.sub "md035"), ())
      (fun ts => wf004S ts && ts.all wf019 && wfS029 [] ts) toks
  | "md001+md019" => answer (md001 ⊗ md019) (c001 (kv.sub "md001"), ()) (fun ts => ts.all wf001 && ts.all wf019) toks
  | _ => "?unknown rule"

def job (toks : List Tok) (j : String) : String :=
  match j.splitOn "~" with
  | [rule, cfg] => dispatch rule.trimAscii.toString (parseKV cfg) toks
  | [rule] => dispatch rule.trimAscii.toString [] toks
  | _ => "?bad job"

/-- request `<rule>~<cfg>&<rule>~<cfg>&…|<tokens>`; answer: the jobs' answers joined by `&` -/
def step (line : String) : String :=
  match Proto.fields line with
  | [jobs, toks] =>
    match toksDec toks with
    | some ts => "&".intercalate ((jobs.splitOn "&").map (job ts))
    | none => "?bad tokens"
  | _ => "?bad request"

end Verif.Drv.TokenRules
