import Verif.Proto
import Verif.Model.WellFormed
namespace Verif.Drv.WellFormed
open Verif Verif.Model.WellFormed

/-
  request:  `<mode>|tok;tok;…`   mode `c` = check, `d` = check and report the stack top after every token
  tok:      `name,cls,isEnd,requiresEnd,ptr`
            name        = token_name as is (identifier characters)
            cls         = c | l | i | s        (CONTAINER_BLOCK, LEAF_BLOCK, INLINE_BLOCK, SPECIAL)
            isEnd       = 1 iff the token is an EndMarkdownToken
            requiresEnd = the token's own requires_end_token flag
            ptr         = index in the stream of `start_markdown_token` (identity), `x` if it is not in the stream
  answer:   `ok` | `ok t0 t1 …` (index of the innermost open start after each token, `-` if none)
            | `err <index> <reason>` | `bad-request`

  The only abstraction made here: a token opens a scope iff it requires an end token and is not the
  new-list-item token `li` (which inherits requires_end_token = True from ContainerMarkdownToken but is
  never closed).  A dangling back-pointer is mapped to the impossible index `length`.
-/

def clsOf (s : String) : Option Cls :=
  if s == "c" then some .container else if s == "l" then some .leaf
  else if s == "i" then some .inline else if s == "s" then some .special else none

def tokOf (n : Nat) (s : String) : Option Tok :=
  match s.splitOn "," with
  | [name, c, isEnd, req, ptr] =>
    match clsOf c with
    | none => none
    | some cls =>
      let kind : Kind :=
        if isEnd == "1" then .end_ (if ptr == "x" then n else Proto.natField ptr)
        else if req == "1" && name != "li" then .start
        else .atom
      some ⟨name, cls, kind⟩
  | _ => none

def parse (body : String) : Option (List Tok) :=
  if body.isEmpty then some []
  else
    let parts := body.splitOn ";"
    parts.mapM (tokOf parts.length)

def reasonStr : Reason → String
  | .endNoOpen => "endNoOpen" | .endWrongName => "endWrongName" | .endWrongPointer => "endWrongPointer"
  | .blockInLeaf => "blockInLeaf" | .inlineOutsideLeaf => "inlineOutsideLeaf" | .liOutsideList => "liOutsideList"
  | .specialNested => "specialNested" | .frontNotFirst => "frontNotFirst" | .afterEndOfStream => "afterEndOfStream"
  | .afterPragma => "afterPragma" | .leftOpen => "leftOpen"

/-- stack top after each token, using the monitor's own `step` -/
def tops (s : St) : List Tok → List String
  | [] => []
  | t :: ts =>
    match step s t with
    | .error _ => []
    | .ok s' => (match s'.stack with | [] => "-" | (i, _) :: _ => toString i) :: tops s' ts

def step (line : String) : String :=
  match Proto.fields line with
  | [mode, body] =>
    match parse body with
    | none => "bad-request"
    | some ts =>
      match wfCheck ts with
      | .error e => s!"err {e.idx} {reasonStr e.reason}"
      | .ok () =>
        if mode == "d" then " ".intercalate ("ok" :: tops St.init ts) else "ok"
  | _ => "bad-request"

end Verif.Drv.WellFormed
