import Verif.Proto
import Verif.Model.InlineLoopSpec
/-!
  Driver for the inline dispatcher model (`verifdrv inlineloop`).  One request per line, fields separated by `|`; strings are hex
  fields (`Verif.Proto`), optional strings `N` or `=` + hex, numbers decimal, booleans `0`/`1`.

    run|src|startWs|recomb?|isSetext|isPara|paraSpace?|line|col|paraOwner|bq|oracle
        paraOwner = `N` or `ws-hex,rehydrate`      bq = `N` or `lead,idx` with lead = `N` or `n1 n2 …`
        oracle    = entries separated by `;` :  next:newString?:unres?:newIndex:newTokens:consume:original?:dLine:dCol:reduceBy:blocks:lastReplaced:rehydrate
                    (token lists separated by `+`)
    dispatch|isText|leaf          leaf ∈ paragraph setext atx fenced indented other
    starts

  token     = t,txt,ews,endWs?,line,col | h,lead,line,col | s,txt,rep,prec?,foll?,active,line,col | o,kind,f1/f2/…,line,col
  answer    = ok|tokens(;)|trace(; start,next,ch,newIndex,line,col,lastLine,lastCol,changed)|bqIdx|rehydrate|src|audit(;)|spec(;)
              or   err kind
-/
namespace Verif.Drv.InlineLoop
open Verif Verif.Model.InlineLoop
open Verif.Model.Recognisers (Str slice)

def D := Proto.decodeField
def hx (s : Str) : String := Proto.encodeField s
def optD (s : String) : Option Str := if s.startsWith "=" then some (D (s.drop 1).toString) else none
def optE (o : Option Str) : String := match o with | none => "N" | some s => "=" ++ hx s
def bit (b : Bool) : String := if b then "1" else "0"

def errS : LErr → String
  | .index => "err index"
  | .assertion => "err assertion"
  | .value => "err value"
  | .fuel => "err fuel"
  | .hang => "err hang"
  | .unmodelled => "err unmodelled"

def tokE : Tok → String
  | .text t e w l c => s!"t,{hx t},{hx e},{optE w},{l},{c}"
  | .hardBreak t l c => s!"h,{hx t},{l},{c}"
  | .special t r p f a l c => s!"s,{hx t},{r},{optE p},{optE f},{bit a},{l},{c}"
  | .other k fs l c => s!"o,{hx k},{"/".intercalate (fs.map hx)},{l},{c}"

def tokD (s : String) : Option Tok :=
  match s.splitOn "," with
  | ["t", t, e, w, l, c] => some (.text (D t) (D e) (optD w) (Proto.intField l) (Proto.intField c))
  | ["h", t, l, c] => some (.hardBreak (D t) (Proto.intField l) (Proto.intField c))
  | ["s", t, r, p, f, a, l, c] =>
    some (.special (D t) (Proto.intField r) (optD p) (optD f) (Proto.boolField a) (Proto.intField l) (Proto.intField c))
  | ["o", k, fs, l, c] => some (.other (D k) ((fs.splitOn "/").map D) (Proto.intField l) (Proto.intField c))
  | _ => none

def toksD (sep : String) (s : String) : List Tok := if s.isEmpty then [] else (s.splitOn sep).filterMap tokD

def respD (s : String) : Option (Nat × Response) :=
  match s.splitOn ":" with
  | [nx, ns, un, ni, nt, cr, og, dl, dc, rb, bl, lr, rh] =>
    some (Proto.natField nx,
      ⟨optD ns, optD un, (if ni == "N" then none else some (Proto.natField ni)), toksD "+" nt, Proto.boolField cr, optD og,
        Proto.intField dl, Proto.intField dc, Proto.natField rb, toksD "+" bl, Proto.boolField lr, Proto.natField rh⟩)
  | _ => none

def oracleD (s : String) : Nat → Option Response :=
  let es := if s.isEmpty then [] else (s.splitOn ";").filterMap respD
  fun n => es.lookup n

def natsD (s : String) : List Nat := (s.splitOn " ").filterMap fun w => if w.isEmpty then none else w.toNat?

def bqD (s : String) : Option BQ :=
  match s.splitOn "," with
  | [l, i] => some ⟨(if l == "N" then none else some (natsD l)), Proto.natField i⟩
  | _ => none

def paraOwnerD (s : String) : Option (Str × Nat) :=
  match s.splitOn "," with
  | [w, r] => some (D w, Proto.natField r)
  | _ => none

def iterE (i : Iter) : String :=
  s!"{i.start},{i.next},{i.ch.toNat},{i.newIndex},{i.line},{i.col},{i.lastLine},{i.lastCol},{bit i.changed}"

def leafD : String → Leaf
  | "paragraph" => .paragraph | "setext" => .setext | "atx" => .atx | "fenced" => .fenced | "indented" => .indented
  | _ => .otherTok

def actionE : Action → String
  | .copy => "copy" | .para => "para" | .setext => "setext" | .atx => "atx" | .codeBlock => "code"

/-- replay the run turn by turn and audit every handler answer against the contract (`respOKb`) and for position truth (`posTrueb`):
`ch:respOK:posTrue:lineBreaksConsumed`, `ch:e` when the handler raised, `10:n` for a line-end turn -/
def audit (T : Table) (env : Env) (src : Str) (sp0 : Option (List Str)) : Nat → St → List String
  | 0, _ => []
  | fuel + 1, st =>
    match st.next with
    | none => []
    | some next =>
      let c := src.getD next ' '
      let q := mkRequest env src st next
      let a := match T.handler c with
        | some h =>
          (match h q with
           | .ok r => s!"{c.toNat}:{bit (respOKb q r)}:{bit (posTrueb env src sp0 q r)}:{countNl (slice src next (r.newIndex.getD next))}"
           | .error _ => s!"{c.toNat}:e")
        | none => "10:n"
      match Verif.Model.InlineLoop.step T env src st next with
      | .ok (st', _) => a :: audit T env src sp0 fuel st'
      | .error _ => [a]

/-- `audits|specs`: the audit of every turn and the specified position of every turn's start index -/
def auditE (T : Table) (env : Env) (r : Result) : String :=
  match prepare env with
  | .error _ => "|"
  | .ok (src, sp0) =>
    let spec := r.trace.map fun it => let p := specPos env src sp0 it.start; s!"{p.1},{p.2}"
    s!"{";".intercalate (audit T env src sp0 (src.length + 1) (initSt T env src sp0))}|{";".intercalate spec}"

def step (line : String) : String :=
  match Proto.fields line with
  | ["run", src, sw, rc, se, pa, ps, l, c, po, bq, orc] =>
    let env : Env := ⟨D src, D sw, optD rc, Proto.boolField se, Proto.boolField pa, optD ps, Proto.intField l, Proto.intField c,
      paraOwnerD po, bqD bq⟩
    let T := realTable (oracleD orc)
    match run T env with
    | .error e => errS e
    | .ok r =>
      s!"ok|{";".intercalate (r.blocks.map tokE)}|{";".intercalate (r.trace.map iterE)}|{r.bqIdx}|{r.rehydrate}|{hx r.src}|{auditE T env r}"
  | ["witness", name, src, bq] =>
    match runStub name (D src) (if bq == "N" then none else some (natsD bq)) with
    | .error e => errS e
    | .ok r =>
      s!"ok|{";".intercalate (r.blocks.map tokE)}|{";".intercalate (r.trace.map iterE)}|{r.bqIdx}|{r.rehydrate}|{hx r.src}"
  | ["guard", src, sw, rc, se, pa, ps, l, c, po, bq] =>
    bit (envOK ⟨D src, D sw, optD rc, Proto.boolField se, Proto.boolField pa, optD ps, Proto.intField l, Proto.intField c,
      paraOwnerD po, bqD bq⟩)
  | ["dispatch", t, leaf] => actionE (dispatch (Proto.boolField t) (leafD leaf))
  | ["starts"] => hx realStarts
  | _ => "bad-op"

end Verif.Drv.InlineLoop
