import Verif.Proto
import Verif.Model.LeafBlocks2
import Verif.Model.HtmlBlockSpec
/-!
  Driver for `Verif.Model.LeafBlocks2` (entry `leafblocks2`).  One request per line, `op|field|…`; strings are hex
  fields (`Verif.Proto`), numbers decimal, booleans `0`/`1`.  Answers: `err index|assertion|fuel|diverges`, `none`,
  or `|`-separated values (strings as `=hex`).
-/
namespace Verif.Drv.LeafBlocks2
open Verif Verif.Model.Recognisers Verif.Model.InlineRecog Verif.Model.LeafBlocks2

def bit (b : Bool) : String := if b then "1" else "0"
def hx (s : Str) : String := "=" ++ Proto.encodeField s

def errS : Err → String
  | .index => "err index"
  | .assertion => "err assertion"
  | .fuel => "err fuel"
  | .diverges => "err diverges"

def ex {α : Type} (f : α → String) : Except Err α → String
  | .error e => errS e
  | .ok a => f a

def optN : Option Nat → String
  | none => "none"
  | some n => toString n

def step (line : String) : String :=
  let D := Proto.decodeField
  let N := Proto.natField
  let B := Proto.boolField
  match Proto.fields line with
  | ["hs", l, ci] => optN (checkSpecial (D l) (N ci))
  | ["hn", tag, l, ci] => ex optN (checkNormal (D tag) (D l) (N ci))
  | ["hb", l, st, ws, para, skip] =>
    ex (fun r => match r with | none => "none" | some (t, tag) => s!"{t}|{hx tag}")
      (isHtmlBlock (D l) (N st) (D ws) (B para) (B skip))
  | ["he", ty, l] =>
    let tk := htmlLineToken (D l)
    s!"{bit (normalEnd (N ty) tk.2)}|{hx tk.1}|{hx tk.2}"
  | ["tables"] =>
    let j (l : List Str) : String := ",".intercalate (l.map hx)
    s!"{j block6Names}|{j block1Names}|{j block1EndTags}"
  | ["hbl", ty] => bit (blankEnd (N ty))
  | "hd" :: para :: ls =>
    ex (fun r => match r with | none => "none" | some (t, k) => s!"{t}|{k}") (htmlDoc (ls.map D) (B para))
  | ["fl", fc, fn, n, l] =>
    ex (fun r => match r with
      | .close e sp c => s!"close|{hx e}|{hx sp}|{c}"
      | .text e x => s!"text|{hx e}|{hx x}") (fenceLine ((D fc).headD '`') (N fn) (N n) (D l))
  | "fd" :: ls =>
    ex (fun r => match r with
      | none => "none"
      | some (none, closed) => s!"empty|{bit closed}"
      | some (some (e, x), closed) => s!"T|{hx e}|{hx x}|{bit closed}") (fenceDoc (ls.map D))
  | ["il", l, blk, para] =>
    ex (fun r => match r with
      | none => "none"
      | some o => s!"{match o.blockWs with | some w => "open" ++ hx w | none => "cont"}|{hx o.ews}|{hx o.text}|{hx (icodeContent o)}")
      (icodeLine (D l) (B blk) (B para))
  | ["sp", l, para] =>
    s!"{optN (Verif.Model.HtmlBlockSpec.startOfLine Verif.Model.HtmlBlockSpec.gfm029 (D l) (B para))}|{optN (Verif.Model.HtmlBlockSpec.startOfLine Verif.Model.HtmlBlockSpec.cm031 (D l) (B para))}"
  | ["sf", n, l] => hx (Verif.Model.HtmlBlockSpec.fenceContent (N n) (D l))
  | ["si", l] => hx (Verif.Model.HtmlBlockSpec.icodeContent (D l))
  | ["sc", fc, fn, l] => bit (Verif.Model.HtmlBlockSpec.isClosingFence ((D fc).headD '`') (N fn) (D l))
  | _ => "bad-op"

end Verif.Drv.LeafBlocks2
