import Verif.Proto
import Verif.Model.GfmRender
import Verif.Model.GfmSpec
namespace Verif.Drv.GfmRender
open Verif Verif.Model.GfmRender Verif.Model.GfmSpec

/-
  request:  `<op>|tok;tok;…`
    op `t`  = transform: answer `ok=<hex html>|<i>:<0/1>,…` (is_loose of every list token after the run) or `err=<kind>`
    op `l`  = `calculate_list_looseness` for every list-start token, each on the untouched stream:
              answer `<i>:<0/1/E…>,…`
    op `s`  = the SPECIFICATION's loose flag (`specLooseAt`) of every list-start token: `<i>:<0/1/none>,…`
    op `b`  = `bal=<0/1>|esc=<0/1>|pay=<0/1>|hyp=<0/1>` (hyp = `PayloadsEscaped`): output tag-balanced / every attribute and non-opaque payload `Safe` /
              `PayloadOK` of the stream
    op `p`  = `q=<QuoteInListFlat>|<k>:<inLoose before paragraph k><expectedLoose>,…`
    op `w`  = is the stream accepted by the C04 monitor (through `Tok.toWf`): `1` / `0`
  tok:      `<token_name>,<line_number>[,field…]`, string fields hex encoded (`-` = None)
      para BLANK tbreak link-ref-def html-block icode-block hard-break ulist li end-of-stream pragma front-matter
      atx,L,hash_count      setext,L,heading_character     fcode-block,L,extracted_text
      text,L,token_text,extracted_whitespace,end_whitespace|-
      icode-span,L,span_text   uri-autolink,L,autolink_text,add_http_prefix   email-autolink,L,autolink_text
      raw-html,L,raw_tag       emphasis,L,emphasis_character,emphasis_length   link,L,link_uri,link_title
      image,L,link_uri,image_alt_text,link_title       block-quote,L,bleading_spaces     olist,L,int(list_start_content)
      task-list,L,checked_character
      end,L,type_name,index of start_markdown_token,was_forced
-/

def D (s : String) : Verif.Model.Codec.Str := Proto.decodeField s
def N (s : String) : Nat := Proto.natField s

def bodyOf (name : String) (f : List String) : Option Body :=
  match name, f with
  | "para", [] => some .para
  | "BLANK", [] => some .blank
  | "tbreak", [] => some .tbreak
  | "link-ref-def", [] => some .lrd
  | "html-block", [] => some .htmlBlock
  | "icode-block", [] => some .icode
  | "hard-break", [] => some .hardBreak
  | "ulist", [] => some .ulist
  | "li", [] => some .li
  | "end-of-stream", [] => some .eos
  | "pragma", [] => some .pragma
  | "front-matter", [] => some .frontMatter
  | "atx", [n] => some (.atx (N n))
  | "setext", [c] => some (.setext (D c))
  | "fcode-block", [i] => some (.fcode (D i))
  | "text", [t, w, e] => some (.text (D t) (D w) (if e == "-" then none else some (D e)))
  | "icode-span", [s] => some (.codeSpan (D s))
  | "uri-autolink", [s, h] => some (.uriAutolink (D s) (Proto.boolField h))
  | "email-autolink", [s] => some (.emailAutolink (D s))
  | "raw-html", [s] => some (.rawHtml (D s))
  | "emphasis", [c, n] => some (.emphasis (D c) (N n))
  | "link", [u, t] => some (.link (D u) (D t))
  | "image", [u, a, t] => some (.image (D u) (D a) (D t))
  | "block-quote", [b] => some (.bquote (D b))
  | "olist", [n] => some (.olist (N n))
  | "task-list", [c] => some (.taskList (D c))
  | "end", [k, p, w] =>
    match Kind.ofName k with
    | some kind => some (.end_ kind (N p) (Proto.boolField w))
    | none => none
  | _, _ => none

def tokOf (s : String) : Option Tok :=
  match s.splitOn "," with
  | name :: line :: f => (bodyOf name f).map fun b => ⟨N line, b⟩
  | _ => none

def parse (body : String) : Option (List Tok) :=
  if body.isEmpty then some [] else (body.splitOn ";").mapM tokOf

def errStr : Err → String
  | .indexError => "IndexError"
  | .assertion => "AssertionError"
  | .attributeError => "AttributeError"
  | .codec .valueError => "ValueError"
  | .codec .assertion => "AssertionError"
  | .codec .hang => "Hang"
  | .hang => "Hang"
  | .dangling => "Dangling"

def bit (b : Bool) : String := if b then "1" else "0"

def flagsStr (l : List (Nat × Bool)) : String := ",".intercalate (l.map fun x => s!"{x.1}:{bit x.2}")

def step (line : String) : String :=
  match Proto.fields line with
  | [op, body] =>
    match parse body with
    | none => "bad-request"
    | some ts =>
      if op == "t" then
        match transformRun ts with
        | .error e => "err=" ++ errStr e
        | .ok (st, o) => "ok=" ++ Proto.encodeField (cutFinalNL (flat o)) ++ "|" ++ flagsStr (looseFlags ts st)
      else if op == "l" then
        ",".intercalate ((ts.zipIdx.filter fun x => x.1.isListStart).map fun x =>
          match calculateListLooseness ts x.2 with
          | .ok b => s!"{x.2}:{bit b}"
          | .error e => s!"{x.2}:{errStr e}")
      else if op == "s" then
        -- the specification's loose flag of every list, and the model's tag balance / payload predicates for the run
        ",".intercalate ((ts.zipIdx.filter fun x => x.1.isListStart).map fun x =>
          match specLooseAt ts x.2 with
          | some b => s!"{x.2}:{bit b}"
          | none => s!"{x.2}:none")
      else if op == "b" then
        match transformRun ts with
        | .error e => "err=" ++ errStr e
        | .ok (_, o) => s!"bal={bit (decide (Balanced o))}|esc={bit (Escaped o)}|pay={bit (decide (PayloadOK ts))}|hyp={bit (decide (PayloadsEscaped ts))}"
      else if op == "p" then
        -- paragraph tightness: for every paragraph start token, the generator's `is_in_loose_list` just before it and
        -- the flag the rule prescribes (`expectedLoose` with the flags the generator computed); `q` = QuoteInListFlat
        match transformRun ts with
        | .error e => "err=" ++ errStr e
        | .ok (fin, _) =>
          let rows := (ts.zipIdx.filter fun x => x.1.isKind .para).map fun x =>
            match stateBefore ts x.2 with
            | .ok (st, _) => s!"{x.2}:{bit st.inLoose}{bit (expectedLoose ts fin.isLooseAt x.2)}"
            | .error _ => s!"{x.2}:E"
          s!"q={bit (quoteInListFlat ts)}|" ++ ",".intercalate rows
      else if op == "w" then bit (decide (WellFormed ts))
      else "bad-op"
  | _ => "bad-request"

end Verif.Drv.GfmRender
