import Verif.Proto
import Verif.Model.Lines
namespace Verif.Drv.Lines
open Verif Verif.Model.Lines

/-- a list of strings: elements separated by `;`, each a hex field. `-` alone = the empty list. -/
def encList (ls : List Str) : String :=
  if ls.isEmpty then "-" else ";".intercalate (ls.map Proto.encodeField)

def decList (s : String) : List Str :=
  if s.trimAscii.toString == "-" then [] else (s.splitOn ";").map Proto.decodeField

/-- optional string: `-` = None, otherwise a hex field (empty field = ""). -/
def decOpt (s : String) : Option Str :=
  if s.trimAscii.toString == "-" then none else some (Proto.decodeField s)

def encOpt : Option Str → String
  | none => "-"
  | some v => "=" ++ Proto.encodeField v

def bit (b : Bool) : String := if b then "1" else "0"

def encStream (ds : List Delivery) : String :=
  ",".intercalate (ds.map fun d => s!"{d.number}{if d.atEnd then "E" else "."}")

def cfgOf (f : List String) : Option ApiCfg :=
  match f with
  | [inh, lvl, lf, st, strict, plug, cfg, en, dis, sets] =>
    some ⟨Proto.boolField inh, Proto.decodeField lvl, decOpt lf, Proto.boolField st, Proto.boolField strict,
          decList plug, decOpt cfg, decList en, decList dis, decList sets⟩
  | _ => none

def encParsed : Except ParseErr Parsed → String
  | .error (.missingValue _) => "err missing-value"
  | .error (.unknownOption _) => "err unknown-option"
  | .error (.badChoice _) => "err bad-choice"
  | .error .noSubcommand => "err no-subcommand"
  | .ok p => "|".intercalate ["ok", Proto.encodeField p.enable, Proto.encodeField p.disable, encList p.addPlugin,
      encOpt p.config, encList p.sets, bit p.strict, bit p.stackTrace, bit p.continueOnError,
      encOpt p.logLevel, encOpt p.logFile, Proto.encodeField p.sub, encList p.rest]

def encState : Option Bool → String
  | none => "none" | some true => "true" | some false => "false"

/-- requests:
  `lines|<hex text>`                → `F|<finalNL>|<lines>|<stream>|M|<lines>|<stream>`
  `spool|lf/crlf|<hex text>`        → `<hex spoolStdin>|<hex spoolString>`
  `univ|<hex text>`                 → `<hex univNL>`
  `args|<10 cfg fields>|<action>`   → `<api argv>|<cli argv>`
  `parse|<argv list>`               → `ok|…` / `err …`
  `idset|<hex>`                     → list
  `state|<ids list>|<enable value>|<disable value>` → none/true/false
-/
def step (line : String) : String :=
  match Proto.fields line with
  | ["lines", t] =>
    let raw := Proto.decodeField t
    let f := fspRead raw
    s!"F|{bit f.finalNL}|{encList f.lines}|{encStream (fspStream raw)}|M|{encList (memLines raw)}|{encStream (memStream raw)}"
  | ["spool", sep, t] =>
    let raw := Proto.decodeField t
    let sp := if sep.trimAscii.toString == "crlf" then LineSep.crlf else LineSep.lf
    s!"{Proto.encodeField (spoolStdin sp raw)}|{Proto.encodeField (spoolString sp raw)}"
  | ["univ", t] => Proto.encodeField (univNL (Proto.decodeField t))
  | "args" :: rest =>
    match cfgOf rest.dropLast, rest.getLast? with
    | some c, some a =>
      let act := Proto.decodeField a
      s!"{encList (apiArgs c act)}|{encList (cliArgs c act)}"
    | _, _ => "bad-op"
  | ["parse", argv] => encParsed (parseArgs (decList argv))
  | ["idset", v] => encList (idSet (Proto.decodeField v))
  | ["state", ids, en, dis] =>
    encState (cmdLineState (decList ids) (idSet (Proto.decodeField en)) (idSet (Proto.decodeField dis)))
  | _ => "bad-op"

end Verif.Drv.Lines
