import Verif.Proto
import Verif.Model.FrontMatter
import Verif.Model.ExtFlags
import Verif.Gen.ExtFlags
namespace Verif.Drv.FrontMatter
open Verif Verif.Model.FrontMatter Verif.Model.ExtFlags

def encLines (ls : Lines) : String :=
  "|".intercalate (toString ls.length :: ls.map Proto.encodeField)

def decLines (fs : List String) : Lines := fs.map Proto.decodeField

def yamlOf (s : String) : Yaml :=
  match s.trimAscii.toString with
  | "0" => .ok
  | "1" => .invalid
  | _ => .raises

def encHeader (h : HeaderOut) : String :=
  let tok := match h.token with
    | none => "0"
    | some t => "1|" ++ Proto.encodeField t.start ++ "|" ++ Proto.encodeField t.close ++ "|" ++ encLines t.collected
  let nxt := match h.next with
    | none => "0"
    | some l => "1|" ++ Proto.encodeField l
  s!"{tok}|{nxt}|{h.lineNo}|{encLines h.requeue}|{encLines h.provider}"

def encEcho (ts : List (OutTok (Nat × Line))) : String :=
  let blk := ts.filterMap fun t => match t with | .blk (n, l) => some s!"{n}|{Proto.encodeField l}" | .fm _ => none
  "|".intercalate (toString blk.length :: blk)

def flagsOf (s : String) : Option Flags :=
  match s.trimAscii.toString.toList.map (· == '1') with
  | [a, b, c, d, e, f] => some ⟨a, b, c, d, e, f⟩
  | _ => none

/-- Requests
* `scan|allowBlank|l1|…|ln`                      → `nostart` | `eof` | `stopped` | `closed|k|c1|…|ck`
* `run|enabled|allowBlank|yaml|l1|…|ln`          → `err eof` | `err yaml` |
     `ok|<header>|<echo>` where header = tok next lineNo requeue provider and echo = what the
     parser proper is fed (line number, line) under the echo parser
* `flags|b1…b6`                                  → `chars|simple|emph|c=handler;…`
A document with zero lines cannot be expressed (the providers always deliver ≥ 1 line). -/
def step (line : String) : String :=
  match Proto.fields line with
  | "scan" :: ab :: first :: rest =>
    let first := Proto.decodeField first
    if isStart first then
      match scan (Proto.boolField ab) first (decLines rest) with
      | .eof _ => "eof"
      | .stopped _ _ => "stopped"
      | .closed c _ _ => "closed|" ++ encLines c
    else "nostart"
  | "run" :: en :: ab :: y :: ls =>
    let doc := decLines ls
    let yaml : Lines → Yaml := fun _ => yamlOf y
    match headerStage (Proto.boolField en) (Proto.boolField ab) yaml doc,
          tokenize (Proto.boolField en) (Proto.boolField ab) yaml echoFrom doc with
    | .ok h, .ok ts => "ok|" ++ encHeader h ++ "|" ++ encEcho ts
    | .error .eofAssert, _ => "err eof"
    | .error .yamlRaise, _ => "err yaml"
    | _, _ => "err internal"
  | ["flags", bits] =>
    match flagsOf bits with
    | none => "bad-op"
    | some f =>
      let regs := Verif.Gen.ExtFlags.regs
      let chars := handlerChars regs f
      let hs := chars.eraseDups.map fun c =>
        Proto.encodeField [c] ++ "=" ++ (handlerOf regs f c).getD "?"
      Proto.encodeField chars ++ "|" ++ Proto.encodeField (simpleChars regs f) ++ "|" ++
        Proto.encodeField (emphChars Verif.Gen.ExtFlags.emph f) ++ "|" ++ ";".intercalate hs
  | _ => "bad-op"

end Verif.Drv.FrontMatter
