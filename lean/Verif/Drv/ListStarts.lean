import Verif.Proto
import Verif.Model.ListStarts
import Verif.Model.ListStartsSpec
/-!
  Driver for `Verif.Model.ListStarts` (entry `liststarts`).

  stack  = `,`-joined entries, bottom first; entry = `K;indent;listChar;wsBefore;wsAfter;lastNew;mtIndent;mtColumn;mtLine;lead`
           (`K` ∈ D U O Q P F H X; `listChar`, `lead` hex; `lastNew = -1` for `None`); a bare `K` is an entry with defaults.
  `u|stack|line|start|ews|skip|hasAdj|adj`   → `isStart|after|index|digits`            (is_ulist_start)
  `o|…` same                                  →                                           (is_olist_start)
  `p|stack|line|markerEnd|ews|mwm1|cur|stackCount|adj|posLine|depth`
        → `indent|remaining|wsAfter|afterIdx|wsBefore|closedAny|cur|stackCount|stack|closedLeads`   (pre_list)
  `i|afterIdx|size|mwm1|wsAfter|wsBefore|adj|depth` → `indent|remaining|wsAfter`         (__calculate_indents)
  `r|stack|currentStart`                      → `0/1`                                    (calculate_can_remove_list)
  `c|stack|allow|column`                      → `stack|calls`                            (close_required_lists; column −1 = no token)
  `col|index|indent`                          → column                                   (MarkdownToken.column_number)
  `s|line|start|ews|inPara`                   → `bullet|ordered|W|N|content|interrupt`   (the specification side, ListStartsSpec)
  errors: `err index|assertion|attribute|fuel`.
-/
namespace Verif.Drv.ListStarts
open Verif Verif.Model.ListStarts

def errS : Err → String
  | .index => "err index"
  | .assertion => "err assertion"
  | .attribute => "err attribute"
  | .fuel => "err fuel"

def kindOf (s : String) : Option Kind :=
  if s == "D" then some .document else if s == "U" then some .ulist else if s == "O" then some .olist
  else if s == "Q" then some .blockQuote else if s == "P" then some .paragraph else if s == "F" then some .fenced
  else if s == "H" then some .html else if s == "X" then some .other else none

def kindS : Kind → String
  | .document => "D" | .ulist => "U" | .olist => "O" | .blockQuote => "Q" | .paragraph => "P" | .fenced => "F"
  | .html => "H" | .other => "X"

def decEntry (s : String) : Option Entry :=
  let N := Proto.natField
  match s.splitOn ";" with
  | [k] => (kindOf k).map fun kd => { kind := kd }
  | [k, ind, lc, wb, wa, ln, mi, mc, ml, ld] =>
    (kindOf k).map fun kd =>
      { kind := kd, indent := N ind, listChar := Proto.decodeField lc, wsBefore := N wb, wsAfter := N wa,
        lastNew := (let v := Proto.intField ln; if v < 0 then none else some v.toNat),
        mtIndent := N mi, mtColumn := N mc, mtLine := N ml, lead := Proto.decodeField ld }
  | _ => none

def decStack (s : String) : Stack := if s.isEmpty then [] else (s.splitOn ",").filterMap decEntry

def encEntry (e : Entry) : String :=
  let ln : String := match e.lastNew with
    | some n => toString n
    | none => "-1"
  s!"{kindS e.kind};{e.indent};{Proto.encodeField e.listChar};{e.wsBefore};{e.wsAfter};{ln};{e.mtIndent};{e.mtColumn};{e.mtLine};{Proto.encodeField e.lead}"

def encStack (st : Stack) : String := ",".intercalate (st.map encEntry)

def bit (b : Bool) : String := if b then "1" else "0"

def optN : Option Nat → String
  | some n => toString n
  | none => "none"

def optI : Option Int → String
  | some n => toString n
  | none => "none"

def startS : Except Err StartRes → String
  | .error e => errS e
  | .ok r => s!"{bit r.isStart}|{r.after}|{optI r.index}|{optN r.digits}"

def step (line : String) : String :=
  let D := Proto.decodeField
  let N := Proto.natField
  let B := Proto.boolField
  match Proto.fields line with
  | ["u", st, l, start, ews, skip, hasAdj, adj] =>
    startS (isUlistStart (decStack st) (D l) (Proto.intField start) (D ews) (B skip) (if B hasAdj then some (D adj) else none))
  | ["o", st, l, start, ews, skip, hasAdj, adj] =>
    startS (isOlistStart (decStack st) (D l) (Proto.intField start) (D ews) (B skip) (if B hasAdj then some (D adj) else none))
  | ["p", st, l, me, ews, mwm1, cur, sc, adj, pl, depth] =>
    match preList (decStack st) (D l) (N me) (D ews) (N mwm1) (N cur) (N sc) (D adj) (N pl) (N depth) with
    | .error e => errS e
    | .ok r =>
      let leads := ",".intercalate (r.nest.closedLeads.map Proto.encodeField)
      s!"{r.indent}|{r.remaining}|{r.wsAfter}|{r.afterIdx}|{r.wsBefore}|{bit r.nest.closedAny}|{r.nest.cur}|{r.nest.stackCount}|{encStack r.nest.stack}|{leads}"
  | ["i", ai, size, mwm1, wa, wb, adj, depth] =>
    let r := calcIndents (N ai) (N size) (N mwm1) (N wa) (N wb) (D adj) (N depth)
    s!"{r.indent}|{r.remaining}|{r.wsAfter}"
  | ["r", st, cs] =>
    match canRemoveList (decStack st) (N cs) with
    | .error e => errS e
    | .ok b => bit b
  | ["c", st, allow, col] =>
    let c := Proto.intField col
    match closeRequiredLists (decStack st) (B allow) (if c < 0 then none else some c.toNat) with
    | .error e => errS e
    | .ok (st', n) => s!"{encStack st'}|{n}"
  | ["col", i, ind] => toString (listColumn (N i) (N ind))
  | ["s", l, start, ews, inPara] =>
    Verif.Model.ListStartsSpec.specLine (D l) (N start) (D ews) (B inPara)
  | _ => "bad-op"

end Verif.Drv.ListStarts
