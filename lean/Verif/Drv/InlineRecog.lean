import Verif.Proto
import Verif.Model.InlineRecog
/-!
  Driver for the inline recogniser models (`verifdrv inlinerecog`).  One request per line: `op|field|…`; strings are hex
  fields (`Verif.Proto`), numbers decimal, booleans `0`/`1`.  Answers mirror the Python return values:
  `err index|assertion|value|fuel|hang`, `none`, or `|`-separated values (strings as `=` + hex code points).
-/
namespace Verif.Drv.InlineRecog
open Verif Verif.Model.Recognisers Verif.Model.InlineRecog

def bit (b : Bool) : String := if b then "1" else "0"
def hx (s : Str) : String := "=" ++ Proto.encodeField s
def hxN (l : List Nat) : String := "=" ++ " ".intercalate (l.map fun n => String.ofList (Nat.toDigits 16 n))
def oh (o : Option Str) : String := match o with | none => "none" | some s => hx s

def errS : IErr → String
  | .index => "err index"
  | .assertion => "err assertion"
  | .value => "err value"
  | .fuel => "err fuel"
  | .hang => "err hang"

def exI {α : Type} (f : α → String) : Except IErr α → String
  | .error e => errS e
  | .ok a => f a

def ex {α : Type} (f : α → String) (x : Except Err α) : String := exI f (liftR x)

def step (line : String) : String :=
  let D := Proto.decodeField
  let N := Proto.natField
  let B := Proto.boolField
  match Proto.fields line with
  | ["cuc", s, st, c] =>
    ex (fun r => match r with | none => "none" | some (j, w) => s!"{j}|{hx w}") (collectUntilChar (D s) (N st) ((D c).headD ' '))
  | ["cuo", s, st, cs] =>
    ex (fun r => match r with | none => "none" | some (j, w) => s!"{j}|{hx w}") (collectUntilOneOf (D s) (N st) (D cs))
  | ["iao", s, cs, st] => match indexAnyOf (D s) (D cs) (N st) with | none => "-1" | some i => toString i
  | ["deltas", s] => exI (fun r => s!"{r.1}|{r.2}") (calculateDeltas (D s))
  | ["tagname", s, st] => ex hx (parseRawTagName (D s) (N st))
  | ["tagattr", s, st] =>
    ex (fun r => match r with | none => "none" | some (j, w) => s!"{j}|{hx w}") (parseTagAttributes (D s) (N st))
  | ["opentag", s] =>
    ex (fun r => match r with | none => "none|-1" | some (v, e) => s!"{hx v}|{e}") (parseRawOpenTag (D s))
  | ["closetag", s] => ex oh (parseRawCloseTag (D s))
  | ["special", r, a, b, x] => ex (fun r => s!"{oh r.1}|{r.2}") (processRawSpecial (D r) (D a) (D b) (B x))
  | ["decl", s] => ex oh (parseRawDeclaration (D s))
  | ["rawhtml", b, r] =>
    ex (fun r => match r with | none => "none|-1" | some (v, e) => s!"{hx v}|{e}") (parseRawHtml (D b) (D r))
  | ["uri", s] => ex bit (parseValidUriAutolink (D s))
  | ["email", s] => bit (parseValidEmailAutolink (D s))
  | ["emailre"] => emailPatternSer
  | ["angle", s, n] =>
    exI (fun r => s!"{r.kind}|{hx r.tokenText}|{hx r.newString}|{r.newIndex}|{r.dLine}|{r.dCol}") (handleAngleBrackets (D s) (N n))
  | ["charref", s, n] =>
    exI (fun r => s!"{hxN r.newCps}|{r.newIndex}|{oh r.original}|{oh r.unresolved}") (handleCharacterReference (D s) (N n))
  | ["bslash", s, n, g] =>
    ex (fun r => s!"{hx r.newString}|{hx r.unresolved}|{r.newIndex}") (handleInlineBackslash (D s) (N n) (B g))
  | ["bslashes", s] => exI hxN (handleBackslashes (D s))
  | ["noops", s] => exI hx (adjustForInjectedNoops (D s))
  | ["tick", s, n] =>
    exI (fun r => match r.span with
      | none => s!"lit|{hx r.newString}|{r.newIndex}|{r.dLine}|{r.dCol}"
      | some (t, k, l, tr) => s!"span|{hx t}|{hx k}|{hx l}|{hx tr}|{hx r.newString}|{r.newIndex}|{r.dLine}|{r.dCol}")
      (handleInlineBacktick (D s) (N n))
  | ["vtag", s] => bit (isValidTagName (D s))
  | ["attrname", s, i] => ex toString (extractHtmlAttributeName (D s) (N i))
  | ["attrval", s, i] => ex toString (extractOptionalAttributeValue (D s) (N i))
  | ["endtag", t, l, i] => ex (fun r => s!"{bit r.1}|{r.2}") (isCompleteHtmlEndTag (D t) (D l) (N i))
  | ["starttag", t, l, i] =>
    ex (fun r => s!"{bit r.1}|{match r.2 with | none => "none" | some n => toString n}") (isCompleteHtmlStartTag (D t) (D l) (N i))
  | _ => "bad-op"

end Verif.Drv.InlineRecog
