import Verif.Proto
import Verif.Model.BqCount
/-!
  Driver for `Verif.Model.BqCount` (entry `bqcount`).
  `c|line|osi|stackCount|curIn|fenced|html|orig|stack` → `count|start|last|avoid|k7` (k7 = `,`-joined stack indices) or `err …`;
  `stack` = `,`-joined tokens `D` doc, `Q` block quote, `L<indent>` list, `F` fenced, `H` html, `O` other.
  `s|line|osi|stack` → `specStack|specCM`.
-/
namespace Verif.Drv.BqCount
open Verif Verif.Model.Recognisers Verif.Model.BqCount

def errS : Err → String
  | .index => "err index"
  | .assertion => "err assertion"
  | .fuel => "err fuel"
  | .diverges => "err diverges"

def decTok (s : String) : Option STok :=
  if s == "D" then some .doc
  else if s == "Q" then some .bq
  else if s == "F" then some .fenced
  else if s == "H" then some .html
  else if s == "O" then some .other
  else if s.startsWith "L" then some (.list ((s.drop 1).toString.toNat?.getD 0))
  else none

def decStack (s : String) : List STok := if s.isEmpty then [] else (s.splitOn ",").filterMap decTok

def bit (b : Bool) : String := if b then "1" else "0"

def step (line : String) : String :=
  let D := Proto.decodeField
  let N := Proto.natField
  let B := Proto.boolField
  match Proto.fields line with
  | ["c", l, osi, sc, ci, f, h, o, st] =>
    match countBqStarts ⟨decStack st, N sc, N ci, B f, B h, D o⟩ (D l) (N osi) with
    | .error e => errS e
    | .ok r => s!"{r.count}|{r.start}|{r.last}|{bit r.avoid}|{",".intercalate (r.k7.map toString)}"
  | ["s", l, osi, sc] => s!"{specStack (N sc) (D l) (N osi)}|{specCM (D l) (N osi)}"
  | _ => "bad-op"

end Verif.Drv.BqCount
