import Verif.Proto
import Verif.Drv.TokenRules
import Verif.Model.ListRules.MD006
import Verif.Model.ListRules.MD007
import Verif.Model.ListRules.Frames
/-!
  Driver entry `listrules` (faithful models of MD005 / MD006 / MD007 and of `ContainerTokenManager`).

  request 1:  `<rule>~<k=v;…>&<rule>~…|<token>;<token>;…`                    (as `tokenrules`; same token syntax)
  answer  1:  per job `<scan>|<requests>|<fixed tokens>|wf<0/1>`, joined by `&`   (wf of md007 = `guard007 [] none`, the guard of `md007_total_partial`)
  request 2:  `seq|<rule>~<k=v;…>&…|<first tokens>|<second tokens>`          (two files through ONE plug-in object; the
                                                                               first pass stops at its first exception)
  answer  2:  per job `<scan of second>`, joined by `&`
  request 3:  `ctm|<token>;…`                                                (the manager alone, driven as MD007 drives it)
  answer  3:  `ok <depth>:<bq dict>:<adj dict>:<last leaf>`  or `err <Exception>`   (dicts as `k=v` sorted by key, `,`)
-/
namespace Verif.Drv.ListRules
open Verif Verif.Model.TokenRules Verif.Model.ListRules Verif.Drv.TokenRules

def c007 (kv : KV) : C007 := { indent := kv.int "indent" 2, startIndented := kv.bool "start_indented" false }

def dispatch (rule : String) (kv : KV) (toks : List Tok) : String :=
  match rule with
  | "md006" => answer md006.toRule () (fun _ => true) toks
  | "md007" => answer md007.toRule (c007 kv) (guard007 [] none) toks
  | _ => "?unknown rule"

def dispatchSeq (rule : String) (kv : KV) (a b : List Tok) : String :=
  match rule with
  | "md006" => exc reportsEnc (scanAfter md006 () a b)
  | "md007" => exc reportsEnc (scanAfter md007 (c007 kv) a b)
  | _ => "?unknown rule"

def job (toks : List Tok) (j : String) : String :=
  match j.splitOn "~" with
  | [rule, cfg] => dispatch rule.trimAscii.toString (parseKV cfg) toks
  | [rule] => dispatch rule.trimAscii.toString [] toks
  | _ => "?bad job"

def jobSeq (a b : List Tok) (j : String) : String :=
  match j.splitOn "~" with
  | [rule, cfg] => dispatchSeq rule.trimAscii.toString (parseKV cfg) a b
  | [rule] => dispatchSeq rule.trimAscii.toString [] a b
  | _ => "?bad job"

def insertSorted (p : Nat × Int) : List (Nat × Int) → List (Nat × Int)
  | [] => [p]
  | q :: qs => if p.1 ≤ q.1 then p :: q :: qs else q :: insertSorted p qs

def dictEnc (d : Dict) : String :=
  ",".intercalate ((d.foldr insertSorted []).map (fun p => s!"{p.1}={p.2}"))

/-- the manager driven by `premanage` + `manage` per token -/
def ctmRun : Ctm → List Tok → Except Err Ctm
  | c, [] => .ok c
  | c, t :: ts =>
    match c.premanage t with
    | .error e => .error e
    | .ok c1 =>
      match c1.manage t with
      | .error e => .error e
      | .ok c2 => ctmRun c2 ts

def ctmEnc (c : Ctm) : String :=
  s!"{c.stack.length}:{dictEnc c.bq}:{dictEnc c.adj}:" ++
    (match c.lastLeaf with | none => "-" | some .setext => "setext" | some .block => "block")

def step (line : String) : String :=
  match Proto.fields line with
  | [jobs, toks] =>
    if jobs.trimAscii.toString == "ctm" then
      match toksDec toks with
      | some ts => exc ctmEnc (ctmRun {} ts)
      | none => "?bad tokens"
    else
      match toksDec toks with
      | some ts => "&".intercalate ((jobs.splitOn "&").map (job ts))
      | none => "?bad tokens"
  | [tag, jobs, first, second] =>
    if tag.trimAscii.toString == "seq" then
      match toksDec first, toksDec second with
      | some a, some b => "&".intercalate ((jobs.splitOn "&").map (jobSeq a b))
      | _, _ => "?bad tokens"
    else "?bad request"
  | _ => "?bad request"

end Verif.Drv.ListRules
