import Verif.Proto
import Verif.Model.LinkRecog
/-!
  Driver for the link recogniser models (`verifdrv linkrecog`).  One request per line: `op|field|…`; strings are hex
  fields (`Verif.Proto`), numbers decimal, booleans `0`/`1`.  Answers mirror the Python return values:
  `err index|assertion|fuel|value|surrogate`, or `|`-separated values where a string is `=<hex>` and `None` is `none`.
-/
namespace Verif.Drv.LinkRecog
open Verif Verif.Model.Recognisers Verif.Model.LinkRecog

def bit (b : Bool) : String := if b then "1" else "0"
def hx (s : Str) : String := "=" ++ Proto.encodeField s
def ohx : Option Str → String
  | none => "none"
  | some s => hx s
def obit : Option Bool → String
  | none => "none"
  | some b => bit b

def errS : LErr → String
  | .index => "err index"
  | .assertion => "err assertion"
  | .fuel => "err fuel"
  | .value => "err value"
  | .surrogate => "err surrogate"

def ex {α : Type} (f : α → String) : Except LErr α → String
  | .error e => errS e
  | .ok a => f a

def chr (s : String) : Char := (Proto.decodeField s).headD ' '
def ochr (s : String) : Option Char := (Proto.decodeField s).head?

def lhpS (l : LHP) : String :=
  "|".intercalate [ohx l.inlineLink, ohx l.preInlineLink, ohx l.inlineTitle, ohx l.preInlineTitle, obit l.didUseAngle,
    hx l.bounding, hx l.beforeLinkWs, hx l.beforeTitleWs, hx l.afterTitleWs]

def step (line : String) : String :=
  let D := Proto.decodeField
  let N := Proto.natField
  let B := Proto.boolField
  match Proto.fields line with
  | ["cuo", s, st, cs] =>
    ex (fun r => match r with | none => "none" | some (j, w) => s!"{j}|{hx w}") (collectUntilOneOf (D s) (N st) (D cs))
  | ["iao", s, cs, st] => match indexAnyOf (D s) (D cs) (N st) with | none => "-1" | some k => toString k
  | ["bs", s, i, sig] => ex (fun r => s!"{r.1}|{hx r.2}") (handleInlineBackslash (D s) (N i) (B sig))
  | ["cref", s, i] => ex (fun r => s!"{hx r.1}|{r.2}") (handleCharacterReference (D s) (N i))
  | ["hb", s] => ex hx (handleBackslashes (D s))
  | ["atx", s] => hx (appendTextNoSig (D s))
  | ["ebs", s, i, cl, st] =>
    ex (fun r => s!"{r.1}|{ohx r.2}") (extractBoundedString (D s) (N i) (chr cl) (ochr st))
  | ["angle", s, i] => ex (fun r => s!"{r.1}|{hx r.2}") (parseAngleDest (D s) (N i))
  | ["nonangle", s, i] => ex (fun r => s!"{r.1}|{ohx r.2}") (parseNonAngleDest (D s) (N i))
  | ["quote", s] => hx (quote (D s))
  | ["enc", s] => ex hx (encodeLinkDestination (D s))
  | ["dest", s, i] =>
    ex (fun r => s!"{ohx r.exLink}|{ohx r.preLink}|{r.newIndex}|{ohx r.raw}|{obit r.angle}") (parseLinkDestination (D s) (N i))
  | ["title", s, i] =>
    ex (fun r => s!"{ohx r.1}|{ohx r.2.1}|{r.2.2.1}|{hx r.2.2.2}") (parseLinkTitle (D s) (N i))
  | ["label", s, i, colon] =>
    ex (fun r => s!"{bit r.1}|{r.2.1}|{ohx r.2.2}") (extractLinkLabel (D s) (N i) (B colon))
  | ["norm", s] => hx (normalizeLinkLabel (D s))
  | ["props", s, i] => ex (fun r => s!"{r.1}|{lhpS r.2}") (parseInlineLinkProperties (D s) (N i) {})
  | ["body", s, i] => ex (fun r => s!"{r.1}|{lhpS r.2}") (processInlineLinkBody (D s) (N i))
  | ["bodyrt", s, i] =>
    ex (fun r => if r.1 == -1 then "-1" else s!"{r.1}|{hx (rehydrateInlineBody r.2)}") (processInlineLinkBody (D s) (N i))
  | ["xld", s, st, bl] =>
    ex (fun r => match r with
      | (b, n, none) => s!"{bit b}|{n}"
      | (b, n, some (l, p, w, raw)) => s!"{bit b}|{n}|{ohx l}|{ohx p}|{hx w}|{ohx raw}") (extractLinkDestination (D s) (N st) (B bl))
  | ["xlt", s, i, bl] =>
    ex (fun r => match r with
      | (b, n, none) => s!"{bit b}|{n}"
      | (b, n, some (t, p, w, raw)) => s!"{bit b}|{n}|{hx t}|{hx p}|{hx w}|{hx raw}") (extractLinkTitle (D s) (N i) (B bl))
  | ["vend", s, i] => ex (fun r => s!"{bit r.1}|{r.2.1}|{ohx r.2.2}") (verifyLinkDefinitionEnd (D s) (N i))
  | ["islrd", s, st, ws, para] => ex bit (isLinkReferenceDefinition (D s) (N st) (D ws) (B para))
  | ["lrd", s, st, ws, bl, para] =>
    ex (fun r => match r with
      | (b, n, none) => s!"{bit b}|{n}"
      | (b, n, some t) =>
        s!"{bit b}|{n}|{hx t.label}|{hx t.normLabel}|{hx t.destWs}|{ohx t.link}|{ohx t.rawLink}|{hx t.title}|{hx t.titleWs}|{hx t.rawTitle}|{hx t.endWs}")
      (parseLinkReferenceDefinition (D s) (N st) (D ws) (B bl) (B para))
  -- tables checked against CPython over all code points
  | ["inthex", a, b] => bit (pyIntHex2Ok (chr a) (chr b))
  | ["isnd", c] => bit (isNd (chr c))
  | ["intspace", c] => bit (pyIntSpace (chr c))
  | ["fold", c] => hx (casefoldChar (chr c))
  | _ => "bad-op"

end Verif.Drv.LinkRecog
