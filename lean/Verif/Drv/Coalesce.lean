import Verif.Proto
import Verif.Model.Coalesce
/-!
  Driver for `Verif.Model.Coalesce` (entry `coalesce`).

  Request  `c|<only 0/1>|tok;tok;…`   → `ok|tok;tok;…` or `err index|assertion|attribute`
           `m|<only>|tok;…`           → the merge loop alone (before `__calculate_final_whitespaces`)
           `f|tok;…`                  → the flattening, one `seg` per `;`
           `k|<only>|tok;…`           → the per-input-token marks `K` keep, `D` dropped (merged into the run), `R` blank re-tagged as text
  Token syntax (fields `,`-separated; strings `=`+hex, optional strings `-` for None; numbers decimal):
    `t,tt,ew,endWs,tab,line,col`  `b,ew,line,col`  `p,finalWs,tag`  `s,finalWs,tag`  `i,ew,indWs,tag`  `f,tag`  `o,tag`
-/
namespace Verif.Drv.Coalesce
open Verif Verif.Model.Coalesce

def hx (s : List Char) : String := "=" ++ Proto.encodeField s
def ohx : Option (List Char) → String
  | none => "-"
  | some s => hx s

def dStr (s : String) : List Char := Proto.decodeField ((s.drop 1).toString)
def dOpt (s : String) : Option (List Char) := if s == "-" then none else some (dStr s)

def decTok (s : String) : Option Tok :=
  let N := Proto.natField
  match s.splitOn "," with
  | ["t", tt, ew, e, tb, l, c] => some (.text ⟨dStr tt, dStr ew, dOpt e, dOpt tb, N l, N c⟩)
  | ["b", ew, l, c] => some (.blank (dStr ew) (N l) (N c))
  | ["p", f, tag] => some (.para (dStr f) (N tag))
  | ["s", f, tag] => some (.setext (dStr f) (N tag))
  | ["i", ew, ind, tag] => some (.icode (dStr ew) (dStr ind) (N tag))
  | ["f", tag] => some (.fcode (N tag))
  | ["o", tag] => some (.other (N tag))
  | _ => none

def encTok : Tok → String
  | .text x => s!"t,{hx x.tt},{hx x.ew},{ohx x.endWs},{ohx x.tab},{x.line},{x.col}"
  | .blank ew l c => s!"b,{hx ew},{l},{c}"
  | .para f tag => s!"p,{hx f},{tag}"
  | .setext f tag => s!"s,{hx f},{tag}"
  | .icode ew ind tag => s!"i,{hx ew},{hx ind},{tag}"
  | .fcode tag => s!"f,{tag}"
  | .other tag => s!"o,{tag}"

def decToks (s : String) : Option (List Tok) :=
  if s.isEmpty then some [] else (s.splitOn ";").mapM decTok

def encToks (l : List Tok) : String := ";".intercalate (l.map encTok)

def errS : Err → String
  | .index => "err index"
  | .assertion => "err assertion"
  | .attribute => "err attribute"

def res : Except Err (List Tok) → String
  | .error e => errS e
  | .ok l => "ok|" ++ encToks l

def encSeg (g : Seg) : String :=
  let h := match g.hdr with | none => "-" | some t => encTok t
  let r := match g.run with
    | none => "-"
    | some r => s!"{r.line},{r.col},{hx r.ew},{hx r.tt},{hx r.pri},{ohx r.endWs}"
  s!"{h}/{hx g.ind}/{hx g.fin}/{r}"

def step (line : String) : String :=
  match Proto.fields line with
  | ["c", only, ts] =>
    match decToks ts with
    | none => "bad-token"
    | some l => res (coalesce (Proto.boolField only) l)
  | ["m", only, ts] =>
    match decToks ts with
    | none => "bad-token"
    | some l => res (merge (Proto.boolField only) l)
  | ["f", ts] =>
    match decToks ts with
    | none => "bad-token"
    | some l => ";".intercalate ((flatten l).map encSeg)
  | ["k", only, ts] =>
    match decToks ts with
    | none => "bad-token"
    | some l => String.ofList ((marks (Proto.boolField only) l).map Mark.letter)
  | _ => "bad-op"

end Verif.Drv.Coalesce
