import Verif.Proto
import Verif.Model.FixSched
/-!
Driver for the fix-mode model with probe rules (same semantics as the generated plug-ins in
tools/fixlib.py).

request := rules `|` doc_s `|` table
rules   := rule `;` … ; rule := id_s `,` level `,` flags `,` trig_s `,` repl_s `,` tokTrig_s
           flags = 6 bits: fixes hasStart hasToken hasLine hasDone doneNl
table   := (doc_s `=` tok_s `/` tok_s …) `;` …      token strings of every document that can occur
answer  := content_s `|` fixed `|` levels `|` ops `|` log `|` conflict      or `no-fix-rules`
conflict := `-` | level `:` content_before_s     (the pass at `level` ends in the completion-line BadPluginError)
-/
namespace Verif.Drv.FixSched
open Verif Verif.Model.FixSched

def decS (s : String) : String :=
  let t := s.trimAscii.toString
  String.ofList (Proto.decodeField (t.drop 1).toString)
def encS (s : String) : String := "x" ++ Proto.encodeField s.toList

def findSub (hay needle : List Char) : Option Nat :=
  let rec go (h : List Char) (i : Nat) : Option Nat :=
    if needle.isPrefixOf h then some i else
    match h with
    | [] => none
    | _ :: t => go t (i + 1)
  go hay 0

/-- Python `str.replace(old, new)` for a non-empty `old`. -/
def replaceAll (s old new : List Char) : List Char :=
  let rec go (fuel : Nat) (s : List Char) : List Char :=
    match fuel with
    | 0 => s
    | fuel + 1 =>
      if old.isPrefixOf s then new ++ go fuel (s.drop old.length)
      else match s with
        | [] => []
        | c :: t => c :: go fuel t
  go (s.length + 1) s

def mkRule (id : String) (level : Nat) (fixes st tk ln dn doneNl : Bool) (trig repl tokTrig : String) : XRule :=
  { id := id, level := level, fixes := fixes, hasStart := st, hasToken := tk, hasLine := ln, hasDone := dn
    tokTrig := fun t => !tokTrig.isEmpty && (findSub t.toList tokTrig.toList).isSome
    lineTrig := fun l => !trig.isEmpty && (findSub l.toList trig.toList).isSome
    lineFix := fun l => if !trig.isEmpty && (findSub l.toList trig.toList).isSome
                        then some (String.ofList (replaceAll l.toList trig.toList repl.toList)) else none
    doneFix := fun last => if doneNl then (match last with
        | some s => if s.endsWith "\n" then none else some "\n"
        | none => none) else none }

def parseRule (s : String) : Option XRule :=
  match s.splitOn "," with
  | [id, lv, flags, trig, repl, tt] =>
    match flags.trimAscii.toString.toList.map (· == '1') with
    | [a, b, c, d, e, f] => some (mkRule (decS id) (Proto.natField lv) a b c d e f (decS trig) (decS repl) (decS tt))
    | _ => none
  | _ => none

def encCall : Call → String
  | .start => "S" | .token t => s!"T:{encS t}"
  | .line n t f => s!"L:{n}:{encS t}:{if f then 1 else 0}"
  | .done n f => s!"D:{n}:{if f then 1 else 0}"

def encOp : Op → String
  | .read true => "rT" | .read false => "rk" | .createTok => "ck" | .writeTok => "wk"
  | .createLine => "cl" | .writeLine => "wl" | .copyBack => "cp" | .removeLine => "xl" | .removeTok => "xk"

def step (line : String) : String :=
  match Proto.fields line with
  | [rules, doc, table] =>
    let rs := if rules.trimAscii.toString.isEmpty then [] else (rules.splitOn ";").filterMap parseRule
    let tbl : List (String × List String) :=
      if table.trimAscii.toString.isEmpty then [] else
      (table.splitOn ";").filterMap fun e =>
        match e.splitOn "=" with
        | [d, ts] => some (decS d, if ts.trimAscii.toString.isEmpty then [] else (ts.splitOn "/").map decS)
        | _ => none
    let toks := fun d => (tbl.lookup d).getD []
    match fixFile rs toks (fun _ _ => none) (decS doc) with
    | none => "no-fix-rules"
    | some o =>
      let lv := ",".intercalate (o.levels.map toString)
      let ops := ",".intercalate (o.ops.map encOp)
      let lg := ";".intercalate (o.log.map fun (id, c) => s!"{encS id}:{encCall c}")
      let cf := match fileConflict rs toks (fun _ _ => none) (decS doc) with
        | none => "-"
        | some (k, d) => s!"{k}:{encS d}"
      s!"{encS o.content}|{if o.fixed then 1 else 0}|{lv}|{ops}|{lg}|{cf}"
  | _ => "bad-op"

end Verif.Drv.FixSched
