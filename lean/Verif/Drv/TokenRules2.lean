import Verif.Drv.TokenRules2.Codec
import Verif.Drv.TokenRules2.Md046
import Verif.Drv.TokenRules2.Md037
import Verif.Drv.TokenRules2.Md030
import Verif.Drv.TokenRules2.Md044
import Verif.Drv.TokenRules2.Md023
import Verif.Drv.TokenRules2.Bundles
/-!
  Driver entry `tokenrules2` — wire format in `Drv/TokenRules2/Codec.lean`; one file per rule under `Drv/TokenRules2/`.
-/
namespace Verif.Drv.TokenRules2
open Verif Verif.Model.TokenRules
open Verif.Drv.TokenRules (KV parseKV)

def dispatch (rule : String) (kv : KV) (toks : List Tok2) : String :=
  match rule with
  | "md046" => run046 kv toks
  | "md037" => run037 kv toks
  | "md030" => run030 kv toks
  | "md044" => run044 kv toks
  | "md023" => run023 kv toks
  | _ => (runBundle rule kv toks).getD "?unknown rule"

def job (toks : List Tok2) (j : String) : String :=
  match j.splitOn "~" with
  | [rule, cfg] => dispatch rule.trimAscii.toString (parseKV cfg) toks
  | [rule] => dispatch rule.trimAscii.toString [] toks
  | _ => "?bad job"

def step (line : String) : String :=
  match Proto.fields line with
  | [jobs, toks] =>
    match toks2Dec toks with
    | some ts => "&".intercalate ((jobs.splitOn "&").map (job ts))
    | none => "?bad tokens"
  | _ => "?bad request"

end Verif.Drv.TokenRules2
