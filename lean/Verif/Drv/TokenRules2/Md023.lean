import Verif.Drv.TokenRules2.Codec
import Verif.Model.TokenRules.Md023
namespace Verif.Drv.TokenRules2
open Verif Verif.Model.TokenRules
open Verif.Drv.TokenRules (KV)

def run023 (_kv : KV) (toks : List Tok2) : String :=
  answer2 md023 () wf023 toks

end Verif.Drv.TokenRules2
