import Verif.Drv.TokenRules2.Codec
import Verif.Model.TokenRules.Md037
namespace Verif.Drv.TokenRules2
open Verif Verif.Model.TokenRules
open Verif.Drv.TokenRules (KV)

def run037 (_kv : KV) (toks : List Tok2) : String := answer2 md037 () wf037 toks

end Verif.Drv.TokenRules2
