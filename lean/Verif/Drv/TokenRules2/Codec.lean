import Verif.Proto
import Verif.Drv.TokenRules
import Verif.Model.TokenRules.Basic2
/-!
  Wire format of the driver entry `tokenrules2` (five more token rules on the extended token `Tok2`).

  request:  `<rule id>~<k=v;k=v;…>&<rule id>~…|<token>;<token>;…`
     token = 34 comma-separated fields: the 16 of `tokenrules` (kind … endData) followed by
             endWs,startIdx,labelType,linkTitle,preLinkTitle,activeUri,beforeLinkWs,beforeTitleWs,boundChar,
             startTicks,leadWs,trailWs,linkName,destWs,dest,titleWs,titleRaw,pragmaLines
             (strings: hex; optional strings: `-` / `=`hex; startIdx: `-` or a number; pragmaLines: integers joined by `/`)
  answer:   per job `<scan>|<requests>|<fixed tokens>|wf<0/1>`, jobs joined by `&`
     scan     = `ok` reports `line:col:-|=hex extra` joined by `,`                     or  `err <Exception>`
     requests = `ok` `idx:field:i<int>|s<hex>` joined by `,` [`#` `start-end=<token>;<token>…` joined by `,`]   or  `err <Exception>`
     fixed    = `ok` `<len>:<idx>=<token>;…` (changed tokens only; all when the length changed)   or  `err <Exception>`
-/
namespace Verif.Drv.TokenRules2
open Verif Verif.Model.TokenRules
open Verif.Drv.TokenRules (KV parseKV kinds kindName optDec optEnc valEnc reportsEnc fieldName)

def natOptDec (s : String) : Option Nat :=
  let t := s.trimAscii.toString
  if t == "-" || t.isEmpty then none else t.toNat?

def natOptEnc : Option Nat → String
  | none => "-"
  | some n => toString n

def intsDec (s : String) : List Int :=
  if s.trimAscii.toString.isEmpty then [] else (s.splitOn "/").map Proto.intField

def tok2Dec (s : String) : Option Tok2 :=
  let fs := s.splitOn ","
  match Verif.Drv.TokenRules.tokDec (",".intercalate (fs.take 16)), fs.drop 16 with
  | some b, [ew, si, lt, ti, pt, au, blw, btw, bc, st, lw, tw, ln, dw, de, tws, tr, pl] =>
    some { toTok := b, endWs := optDec ew, startIdx := natOptDec si, labelType := Proto.decodeField lt,
           linkTitle := optDec ti, preLinkTitle := optDec pt, activeUri := Proto.decodeField au,
           beforeLinkWs := optDec blw, beforeTitleWs := optDec btw, boundChar := optDec bc,
           startTicks := Proto.decodeField st, leadWs := Proto.decodeField lw, trailWs := Proto.decodeField tw,
           linkName := Proto.decodeField ln, destWs := Proto.decodeField dw, dest := Proto.decodeField de,
           titleWs := Proto.decodeField tws, titleRaw := Proto.decodeField tr, pragmaLines := intsDec pl }
  | _, _ => none

def tok2Enc (t : Tok2) : String :=
  Verif.Drv.TokenRules.tokEnc t.toTok ++ "," ++
  ",".intercalate [optEnc t.endWs, natOptEnc t.startIdx, Proto.encodeField t.labelType, optEnc t.linkTitle,
    optEnc t.preLinkTitle, Proto.encodeField t.activeUri, optEnc t.beforeLinkWs, optEnc t.beforeTitleWs,
    optEnc t.boundChar, Proto.encodeField t.startTicks, Proto.encodeField t.leadWs, Proto.encodeField t.trailWs,
    Proto.encodeField t.linkName, Proto.encodeField t.destWs, Proto.encodeField t.dest, Proto.encodeField t.titleWs,
    Proto.encodeField t.titleRaw, "/".intercalate (t.pragmaLines.map toString)]

def toks2Dec (s : String) : Option (List Tok2) :=
  if s.trimAscii.toString.isEmpty then some [] else (s.splitOn ";").mapM tok2Dec

def err2Name : Err2 → String
  | .keyError => "KeyError" | .assertion => "AssertionError" | .indexError => "IndexError"
  | .valueError => "ValueError" | .typeError => "TypeError" | .attributeError => "AttributeError"
  | .badFix => "BadPluginFixError" | .hang => "Hang" | .notModelled => "NotModelled"

def field2Name : Field2 → String
  | .base f => fieldName f
  | .endWhitespace => "end_whitespace" | .linkTitle => "link_title" | .preLinkTitle => "pre_link_title"
  | .linkName => "link_name" | .linkTitleRaw => "link_title_raw"

def exc2 {α : Type} (f : α → String) : Except Err2 α → String
  | .ok a => "ok " ++ f a
  | .error e => "err " ++ err2Name e

/-- a replacement element: a new token, or the CURRENT (unfixed) state of the stream token it refers to -/
def rtokEnc (all : List Tok2) : RTok → String
  | .new t => tok2Enc t
  | .ref i => match all[i]? with | some t => tok2Enc t | none => "?ref"

def outEnc (all : List Tok2) (o : Out) : String :=
  ",".intercalate (o.reqs.map (fun q => s!"{q.idx}:{field2Name q.field}:{valEnc q.val}")) ++
  (if o.repls.isEmpty then "" else
    "#" ++ ",".intercalate (o.repls.map (fun r => s!"{r.startIdx}-{r.endIdx}=" ++ ";".intercalate (r.toks.map (rtokEnc all)))))

def numbered2 : Nat → List Tok2 → List (Nat × Tok2)
  | _, [] => []
  | i, t :: ts => (i, t) :: numbered2 (i + 1) ts

def diffEnc2 (before after : List Tok2) : String :=
  let idx := numbered2 0 after
  let ch := if before.length != after.length then idx
            else (idx.zip before).filterMap (fun p => if p.1.2 == p.2 then none else some p.1)
  toString after.length ++ ":" ++ ";".intercalate (ch.map (fun p => toString p.1 ++ "=" ++ tok2Enc p.2))

def answer2 {Cfg St : Type} (r : Rule2 Cfg St) (c : Cfg) (wf : List Tok2 → Bool) (toks : List Tok2) : String :=
  exc2 reportsEnc (scan2 r c toks) ++ "|" ++ exc2 (outEnc toks) (fixOut r c toks) ++ "|" ++ exc2 (diffEnc2 toks) (fix2 r c toks)
    ++ "|wf" ++ (if wf toks then "1" else "0")

end Verif.Drv.TokenRules2
