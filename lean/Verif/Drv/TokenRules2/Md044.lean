import Verif.Drv.TokenRules2.Codec
import Verif.Model.TokenRules.Md044
namespace Verif.Drv.TokenRules2
open Verif Verif.Model.TokenRules
open Verif.Drv.TokenRules (KV)

/-- `mode=table`: the CPython tables of the model for every character of the first token's `text`:
    `<code point>:<hex of c.lower()>:<isalnum 0/1>` joined by `,` -/
def table044 (toks : List Tok2) : String :=
  match toks with
  | t :: _ => ",".intercalate (t.text.map (fun c =>
      s!"{c.toNat}:{Proto.encodeField (lowerC c)}:{if isAlnum044 c then 1 else 0}"))
  | [] => ""

/-- `mode=lower`: `s.lower()` of the first token's `text`; `mode=find`: `text.find(ws, line)` of the first token -/
def lower044 (toks : List Tok2) : String :=
  match toks with
  | t :: _ => Proto.encodeField (lowerS t.text)
  | [] => ""

def find044 (toks : List Tok2) : String :=
  match toks with
  | t :: _ => match findSub t.ws t.text t.line.toNat with | some i => toString i | none => "-1"
  | [] => ""

/-- `mode=names`: the `names` part of `initialize_from_config` -/
def names044 (raw : Str) : String :=
  match parseNames044 raw with
  | .ok ns => "ok " ++ "/".intercalate (ns.map Proto.encodeField)
  | .error e => "err " ++ err2Name e

def run044 (kv : KV) (toks : List Tok2) : String :=
  match kv.str "mode" "" with
  | "table" => table044 toks
  | "lower" => lower044 toks
  | "find" => find044 toks
  | "names" => names044 (kv.hex "names" [])
  | _ =>
    match parseNames044 (kv.hex "names" []) with
    | .error e => "err " ++ err2Name e
    | .ok ns =>
      let c : C044 := { names := ns, codeBlocks := kv.bool "code_blocks" true, codeSpans := kv.bool "code_spans" true }
      answer2 md044 c (fun ts => !dom044 c ts || wf044 ts) toks

end Verif.Drv.TokenRules2
