import Verif.Drv.TokenRules2.Codec
import Verif.Model.TokenRules.Md030
namespace Verif.Drv.TokenRules2
open Verif Verif.Model.TokenRules
open Verif.Drv.TokenRules (KV)

def run030 (kv : KV) (toks : List Tok2) : String :=
  let c : C030 := { ulSingle := kv.int "ul_single" 1, olSingle := kv.int "ol_single" 1,
                    ulMulti := kv.int "ul_multi" 1, olMulti := kv.int "ol_multi" 1 }
  answer2 md030f c wf030 toks

end Verif.Drv.TokenRules2
