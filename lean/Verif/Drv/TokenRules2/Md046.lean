import Verif.Drv.TokenRules2.Codec
import Verif.Model.TokenRules.Md046
namespace Verif.Drv.TokenRules2
open Verif Verif.Model.TokenRules
open Verif.Drv.TokenRules (KV)

def run046 (kv : KV) (toks : List Tok2) : String :=
  let c : C046 := { style := match kv.str "style" "consistent" with
                      | "fenced" => some .fenced | "indented" => some .indented | _ => none }
  answer2 md046 c (wf046 none 0) toks

end Verif.Drv.TokenRules2
