import Verif.Drv.TokenRules2.Codec
import Verif.Model.TokenRules.MD029
import Verif.Model.TokenRules.Md030
import Verif.Model.TokenRules.Md023
/-!
  Several rules in ONE token pass over the extended tokens (`Rule2.prod`; an old rule enters through `Rule.lift`):
  the level-1 pairs whose requests can name the same field of the same token.
-/
namespace Verif.Drv.TokenRules2
open Verif Verif.Model.TokenRules
open Verif.Drv.TokenRules (KV)

def c030kv (kv : KV) : C030 :=
  { ulSingle := kv.int "ul_single" 1, olSingle := kv.int "ol_single" 1, ulMulti := kv.int "ul_multi" 1, olMulti := kv.int "ol_multi" 1 }

def runBundle (rule : String) (kv : KV) (toks : List Tok2) : Option String :=
  match rule with
  | "md029+md030" =>
    some (answer2 (md029.lift.prod md030f) (Verif.Drv.TokenRules.c029 (kv.sub "md029"), c030kv (kv.sub "md030")) wf030 toks)
  | "md023+md030" =>
    some (answer2 (md023.prod md030f) ((), c030kv (kv.sub "md030")) (fun ts => wf023 ts && wf030 ts) toks)
  | _ => none

end Verif.Drv.TokenRules2
