import Verif.Proto
import Verif.Model.Engine
import Verif.Model.Pragma
/-!
Driver for the engine model with *probe rules* — a small concrete family of rules whose
behaviour is implemented twice: here and as generated plug-ins (tools/implib.py).

request  := cont `|` allIds `|` rules `|` files
allIds   := (key_s `=` pid_s) `;` …
rules    := rule `;` … ;  rule := id_s `,` flags `,` lineTrig_s `,` tokTrig_s `,` boom_s
            flags = 6 bits: hasStart hasToken hasLine hasDone resets doneReport
files    := file `;` … ;  file := toks `,` lines       (toks = `!` for a tokenization error)
toks     := tok `/` … ;   tok := text_s `:` line `:` col
lines    := line_s `/` …        (`~` = no lines at all)
string _s := `x` ++ hex code points separated by spaces
answer   := file `;` … `|` failures `|` anyFail `|` logs `|` pragmaFailures
-/
namespace Verif.Drv.Engine
open Verif Verif.Model Verif.Model.Engine

def decS (s : String) : String :=
  let t := s.trimAscii.toString
  String.ofList (Proto.decodeField (t.drop 1).toString)
def encS (s : String) : String := "x" ++ Proto.encodeField s.toList

structure Tok where
  text : String
  line : Nat
  col  : Nat

structure Probe where
  id : String
  hasStart : Bool
  hasToken : Bool
  hasLine : Bool
  hasDone : Bool
  resets : Bool
  doneReport : Bool
  lineTrig : String
  tokTrig : String
  boom : String

def findSub (hay needle : List Char) : Option Nat :=
  let rec go (h : List Char) (i : Nat) : Option Nat :=
    if needle.isPrefixOf h then some i else
    match h with
    | [] => none
    | _ :: t => go t (i + 1)
  go hay 0

def probeRule (p : Probe) : Rule Tok :=
  { id := p.id, σ := Nat
    hasStart := p.hasStart, hasToken := p.hasToken, hasLine := p.hasLine, hasDone := p.hasDone
    onStart := fun s => (if p.resets then 0 else s, true)
    onToken := fun s t =>
      (s + 1, some (if !p.tokTrig.isEmpty && (findSub t.text.toList p.tokTrig.toList).isSome
                    then [⟨t.line, t.col, p.id, toString s⟩] else []))
    onLine := fun s n l =>
      if !p.boom.isEmpty && (findSub l.toList p.boom.toList).isSome then (s, none)
      else (s + 1, some (if p.lineTrig.isEmpty then [] else
        match findSub l.toList p.lineTrig.toList with
        | some i => [⟨n, i + 1, p.id, toString s⟩]
        | none => []))
    onDone := fun s n => (s, some (if p.doneReport then [⟨n, 1, p.id, toString s⟩] else [])) }

def mkStates : (ps : List Probe) → States (ps.map probeRule)
  | [] => ()
  | _ :: ps => (⟨(0 : Nat), []⟩, mkStates ps)

def parseProbe (s : String) : Option Probe :=
  match s.splitOn "," with
  | [id, flags, lt, tt, bm] =>
    match flags.trimAscii.toString.toList.map (· == '1') with
    | [a, b, c, d, e, f] => some ⟨decS id, a, b, c, d, e, f, decS lt, decS tt, decS bm⟩
    | _ => none
  | _ => none

def parseTok (s : String) : Tok :=
  match s.splitOn ":" with
  | [t, l, c] => ⟨decS t, Proto.natField l, Proto.natField c⟩
  | _ => ⟨"?", 0, 0⟩

def toPragmas (allIds : List (Pragma.Str × Pragma.Str)) (lines : List String) : Pragmas × List (Nat × Pragma.Failure) :=
  let t := Pragma.compileAll allIds (Pragma.pragmaLines 1 (lines.map String.toList))
  (⟨t.next.map (fun (n, ids) => (n, ids.map String.ofList)),
    t.ranges.map (fun (i, j, ids) => (i, j, ids.map String.ofList))⟩, t.failures)

def parseFile (allIds : List (Pragma.Str × Pragma.Str)) (s : String) : FileIn Tok × List (Nat × Pragma.Failure) :=
  match s.splitOn "," with
  | [toks, lines] =>
    let ls := if lines.trimAscii.toString == "~" then [] else (lines.splitOn "/").map decS
    let tk := if toks.trimAscii.toString == "!" then none
              else if toks.trimAscii.toString.isEmpty then some []
              else some ((toks.splitOn "/").map parseTok)
    let (pr, fl) := toPragmas allIds ls
    (⟨tk, ls, pr⟩, fl)
  | _ => (⟨none, [], Pragmas.none⟩, [])

def encRep (r : Rep) : String := s!"{r.line}:{r.col}:{encS r.rid}:{encS r.extra}"
def encAction : Action → String | .start => "S" | .token => "T" | .line => "L" | .done => "D"
def encErr : Option FileErr → String
  | none => "-" | some .tokenization => "T" | some (.plugin id a) => s!"P:{encS id}:{encAction a}"
def encEvent : Event Tok → String
  | .start => "S" | .token t => s!"T:{encS t.text}" | .line n l => s!"L:{n}:{encS l}" | .done n => s!"D:{n}"

def encLogs : (rs : List (Rule Tok)) → States rs → List String
  | [], _ => []
  | _ :: rs, (c, cs) => "/".intercalate (c.log.map encEvent) :: encLogs rs cs

def encFailure : Pragma.Failure → String
  | .noCommand => "noCommand" | .unknownCommand c => s!"unknownCommand:{encS (String.ofList c)}"
  | .blankId => "blankId" | .unknownId i => s!"unknownId:{encS (String.ofList i)}"
  | .noCount => "noCount" | .badCount n => s!"badCount:{encS (String.ofList n)}" | .noIds => "noIds"

def runProbes (ps : List Probe) (cont : Bool) (fs : List (FileIn Tok)) : RunOut × List String :=
  let rs : List (Rule Tok) := ps.map probeRule
  let out : States rs × RunOut := scanFiles rs cont (mkStates ps) fs
  (out.2, encLogs rs out.1)

def step (line : String) : String :=
  match Proto.fields line with
  | [cont, ids, rules, files] =>
    let allIds : List (Pragma.Str × Pragma.Str) :=
      if ids.trimAscii.toString.isEmpty then [] else
      (ids.splitOn ";").filterMap fun e =>
        match e.splitOn "=" with
        | [k, v] => some ((decS k).toList, (decS v).toList)
        | _ => none
    let ps := if rules.trimAscii.toString.isEmpty then [] else (rules.splitOn ";").filterMap parseProbe
    let fsAll := if files.trimAscii.toString.isEmpty then [] else (files.splitOn ";").map (parseFile allIds)
    let fs := fsAll.map (·.1)
    let (out, logs) := runProbes ps (Proto.boolField cont) fs
    let fileS := ";".intercalate (out.files.map fun f =>
      "/".intercalate (f.printed.map encRep) ++ "," ++ encErr f.err)
    let logS := ";".intercalate logs
    let pfS := ";".intercalate (fsAll.map fun f => "/".intercalate (f.2.map fun (n, e) => s!"{n}:{encFailure e}"))
    s!"{fileS}|{out.failures}|{if out.anyFail then 1 else 0}|{logS}|{pfS}"
  | _ => "bad-op"

end Verif.Drv.Engine
