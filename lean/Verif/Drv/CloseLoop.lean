import Verif.Proto
import Verif.Model.CloseLoop
/-!
  Driver `closeloop`: one iteration of the list-closing loop on a recorded state.

  request:  `<last_list_index>|<new_stack entry>|<newColumn>|<posIndex>|<docListIndent or ->|<containerDepth>|<ccbMany>|<hex line>|<stack>`
    entry  `kind:indent:hex listChar:wsBefore:wsAfter:startIndex:lastNewIndent or -`, kind ∈ d u o q x
    stack  entries separated by `,` (bottom first)
  answer:   `<repeat>|<emit_li>|<last_list_index'>|<stack'>` (stack' = the kinds+indents string) or `err index|assertion`
  `fuel|<n>|…same…` runs the whole loop with fuel n: `ok|<emit_li>|<stack'>`, `err …` or `fuel`.
  `hang` prints the state stored in the Lean theorem `closeloop_needs_variant`, in request syntax.
-/
namespace Verif.Drv.CloseLoop
open Verif Verif.Model.CloseLoop

def kindOf (s : String) : Kind :=
  match s.trimAscii.toString with
  | "d" => .document | "u" => .ulist | "o" => .olist | "q" => .blockQuote | _ => .other

def kindStr : Kind → String
  | .document => "d" | .ulist => "u" | .olist => "o" | .blockQuote => "q" | .other => "x"

def optNat (s : String) : Option Nat := if s.trimAscii.toString == "-" then none else some (Proto.natField s)
def optStr : Option Nat → String | none => "-" | some n => toString n

def decEntry (s : String) : Option Entry :=
  match s.splitOn ":" with
  | [k, ind, lc, wb, wa, si, lni] =>
    some ⟨kindOf k, Proto.natField ind, Proto.decodeField lc, Proto.natField wb, Proto.natField wa, Proto.natField si, optNat lni⟩
  | _ => none

def encEntry (e : Entry) : String :=
  s!"{kindStr e.kind}:{e.indent}:{Proto.encodeField e.listChar}:{e.wsBefore}:{e.wsAfter}:{e.startIndex}:{optStr e.lastNewIndent}"

def encStack (st : Stack) : String := ",".intercalate (st.map encEntry)

def decStack (s : String) : Option Stack := (s.splitOn ",").mapM decEntry

def bit (b : Bool) : String := if b then "1" else "0"

def errS : Err → String | .index => "err index" | .assertion => "err assertion"

def decode (f : List String) : Option (Nat × Ctx × Stack) :=
  match f with
  | [lli, ns, nc, pi, dli, cd, many, line, st] =>
    match decEntry ns, decStack st with
    | some e, some stack =>
      some (Proto.natField lli,
            { newStack := e, newColumn := Proto.natField nc, posIndex := Proto.natField pi, docListIndent := optNat dli,
              containerDepth := Proto.natField cd, ccbMany := Proto.boolField many, line := Proto.decodeField line,
              closeRequired := id }, stack)
    | _, _ => none
  | _ => none

def encReq (lli : Nat) (c : Ctx) (st : Stack) : String :=
  "|".intercalate [toString lli, encEntry c.newStack, toString c.newColumn, toString c.posIndex, optStr c.docListIndent,
    toString c.containerDepth, bit c.ccbMany, Proto.encodeField c.line, encStack st]

def step (line : String) : String :=
  match Proto.fields line with
  | ["hang"] => encReq 1 hangCtx hangStack
  | "fuel" :: n :: rest =>
    match decode rest with
    | some (lli, ctx, st) =>
      match closeLoop ctx (Proto.natField n) st lli with
      | .ok (st', emit) => s!"ok|{bit emit}|{encStack st'}"
      | .error .fuel => "fuel"
      | .error (.iter e) => errS e
    | none => "bad-request"
  | f =>
    match decode f with
    | some (lli, ctx, st) =>
      match closeNextLevel ctx st lli with
      | .ok (rep, emit, lli', st') => s!"{bit rep}|{bit emit}|{lli'}|{encStack st'}"
      | .error e => errS e
    | none => "bad-request"

end Verif.Drv.CloseLoop
