import Verif.Proto
import Verif.Model.Codec
import Verif.Model.Tabs
namespace Verif.Drv.Codec
open Verif Verif.Model.Codec Verif.Model.Tabs

def encRes : Res → String
  | .ok s => "ok=" ++ Proto.encodeField s
  | .error .valueError => "err=valueError"
  | .error .assertion => "err=assertion"
  | .error .hang => "err=hang"

def encIdx : Option Nat → String
  | none => "-1"
  | some i => toString i

def chr1 (s : String) : Char := (Proto.decodeField s).headD 'x'

/-- pieces: `;`-separated, each `TAG:field:field…` with hex fields. -/
def decPiece (s : String) : Option Piece :=
  match s.splitOn ":" with
  | ["L", c] => some (.lit (chr1 c))
  | ["B", c] => some (.bsEscaped (chr1 c))
  | ["BR", c, d] => some (.bsReplaced (chr1 c) (Proto.decodeField d))
  | ["R", a, b] => some (.replaced (Proto.decodeField a) (Proto.decodeField b))
  | ["N", a] => some (.removed (Proto.decodeField a))
  | ["X", a, b, c] => some (.nested (Proto.decodeField a) (Proto.decodeField b) (Proto.decodeField c))
  | _ => none

def decPieces (s : String) : List Piece :=
  if s.trimAscii.toString == "-" then [] else (s.splitOn ";").filterMap decPiece

def decRecs (s : String) : List (Nat × Str) :=
  if s.trimAscii.toString == "-" then [] else
  (s.splitOn ";").filterMap fun r =>
    match r.splitOn "=" with
    | [n, t] => some (Proto.natField n, Proto.decodeField t)
    | _ => none

def bit (b : Bool) : String := if b then "1" else "0"

/-- requests (all strings are hex fields):
  `esc|s` `mark|a|b` `nothing|a` `fwe|s|c|start` `rmbs|s` `rsbs|s` `noops|s` `escs|s` `rrm|s` `rref|s`
  `remove|s|0/1` `resolve|s` `strip|s` `nth|s|c|n` `vis|s` `detab|s|delta` `calclen|s|start`
  `final|s|0/1` `pragma|data|n=text;…` `enc|pieces` -/
def step (line : String) : String :=
  match Proto.fields line with
  | ["esc", s] => Proto.encodeField (escapeSpecial (Proto.decodeField s))
  | ["mark", a, b] => Proto.encodeField (replacementMarkers (Proto.decodeField a) (Proto.decodeField b))
  | ["nothing", a] => Proto.encodeField (replaceWithNothing (Proto.decodeField a))
  | ["fwe", s, c, st] => encIdx (findWithEscape (Proto.decodeField s) (chr1 c) (Proto.natField st))
  | ["rmbs", s] => encRes (removeBackspaces (Proto.decodeField s))
  | ["rsbs", s] => encRes (resolveBackspaces (Proto.decodeField s))
  | ["noops", s] => encRes (resolveNoops (Proto.decodeField s))
  | ["escs", s] => encRes (resolveEscapes (Proto.decodeField s))
  | ["rrm", s] => encRes (resolveReplacementMarkers (Proto.decodeField s))
  | ["rref", s] => encRes (resolveReferences (Proto.decodeField s))
  | ["remove", s, n] => encRes (removeAllN (Proto.boolField n) (Proto.decodeField s))
  | ["resolve", s] => encRes (resolveAll (Proto.decodeField s))
  | ["strip", s] => Proto.encodeField (stripSentinels (Proto.decodeField s))
  | ["nth", s, c, n] => encIdx (findNth (chr1 c) (Proto.decodeField s) (Proto.natField n))
  | ["vis", s] => Proto.encodeField (makeValueVisible (Proto.decodeField s))
  | ["detab", s, d] =>
    let t := Proto.decodeField s
    let k := Proto.natField d
    s!"{Proto.encodeField (detabify t k)}|{Proto.encodeField (detab k t)}"
  | ["calclen", s, st] => toString (calcLength (Proto.decodeField s) (Proto.natField st))
  | ["final", s, k] => Proto.encodeField (finalNewlineRule (Proto.decodeField s) (Proto.boolField k))
  | ["pragma", d, recs] => Proto.encodeField (reinsert (Proto.decodeField d) (decRecs recs))
  | ["enc", ps] =>
    let p := decPieces ps
    s!"{Proto.encodeField (encode p)}|{Proto.encodeField (sourceOf p)}|{Proto.encodeField (renderedOf p)}|{bit (decide (MarkerFree p))}"
  | _ => "bad-op"

end Verif.Drv.Codec
