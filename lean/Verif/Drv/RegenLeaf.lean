import Verif.Proto
import Verif.Model.RegenLeaf
import Verif.Model.RegenLeafSpec
/-!
  Driver for `Verif.Model.RegenLeaf` (entry `regenleaf`).

  Request  `t|tok;tok;…`   → `ok|<hex text>` or `err index|assertion|attribute|value|type|hang|unsupported`   (`transform`)
           `p|tok;tok;…`   → `ok|<hex>;<hex>;…` the per-token texts of the main loop (`runFrom`), or `err …`
           `w|tok;tok;…`   → `1` / `0`: the guard `RegenLeafSpec.WF` of `regen_total`
           `i|<hex>`       → `ok|<int>` or `err value`                                                       (`pyInt`)
           `r|<hex text>|<hex ws>|start|post|k|after` → `ok|<hex>|<index>` or `err index`                      (`recombine`)
           `b|A|<hex line>` `b|B|<hex line>` (thematic) `b|N|<hex line>` (blank) `b|P|id|lead,body,trail;…` `b|S|lead,body,trail;…|<hex underline>`
           `b|F|<hex open>|-` or `ew,tt` `|<hex close>`  → `ok|tok;tok;…` (`RegenLeafSpec.Leaf.toks`, same token syntax) or `none`
  Token syntax (fields `,`-separated; strings `=`+hex, optional strings `-` for None; numbers decimal; booleans 0/1;
  string lists `/`-separated; pragma items `line=hex` `/`-separated):
    `P,id,ew,fin` `A,ew,hashes,trailing` `S,ew,hc,hcount,fin` `B,ew,rest` `F,ew,fchar,fcount,wsInfo,preInfo,info,preAfter,after`
    `I,ew,ind` `H` `N,ew` `R,ew,nameDebug,name,destWs,destRaw,dest,titleWs,titleRaw,title,endWs` `T,tt,ew,endWs` `E,ch,len`
    `C,ticks,lead,span,trail` `W,tag` `U,txt,http,angle` `M,txt,angle` `K,lineEnd`
    `L,labelType,textFromBlocks,exLabel,preUri,uri,preTitle,title,angle,bounding,beforeLinkWs,beforeTitleWs,afterTitleWs` `G,…` (image)
    `Z` `Y,start,lines,end` `Q,items` `X` `O`
    `eP,sid,sew,ri0` `eA,ew,extra,trailing` `eS,ew,extra` `eF,ew,extraData,forced,fchar` `eH` `eI` `eE,ch,len` `eL` `eX` `eO`
-/
namespace Verif.Drv.RegenLeaf
open Verif Verif.Model.RegenLeaf

def hx (s : List Char) : String := "=" ++ Proto.encodeField s

def dStr (s : String) : List Char := Proto.decodeField ((s.drop 1).toString)
def dOpt (s : String) : Option (List Char) := if s == "-" then none else some (dStr s)
def dList (s : String) : List (List Char) := if s.isEmpty then [] else (s.splitOn "/").map dStr
def dItems (s : String) : List (Nat × List Char) :=
  if s.isEmpty then [] else (s.splitOn "/").map fun it =>
    match it.splitOn "=" with
    | [n, h] => (Proto.natField n, Proto.decodeField h)
    | _ => (0, [])

def decLink (l : List String) : Option LinkF :=
  match l with
  | [lt, tfb, ex, pu, u, pt, t, an, bd, blw, btw, atw] =>
    some ⟨dStr lt, dStr tfb, dOpt ex, dOpt pu, dOpt u, dOpt pt, dOpt t, Proto.boolField an, dOpt bd, dOpt blw, dOpt btw, dOpt atw⟩
  | _ => none

def decTok (s : String) : Option Tok :=
  let N := Proto.natField
  let Z := Proto.intField
  let B := Proto.boolField
  match s.splitOn "," with
  | ["P", id, ew, fin] => some (.para (N id) (dStr ew) (dStr fin))
  | ["A", ew, h, t] => some (.atx (dStr ew) (Z h) (Z t))
  | ["S", ew, hc, n, fin] => some (.setext (dStr ew) (dStr hc) (Z n) (dStr fin))
  | ["B", ew, rest] => some (.tbreak (dStr ew) (dStr rest))
  | ["F", ew, fc, n, wi, pi, i, pa, a] => some (.fcode (dStr ew) (dStr fc) (Z n) (dStr wi) (dStr pi) (dStr i) (dStr pa) (dStr a))
  | ["I", ew, ind] => some (.icode (dStr ew) (dStr ind))
  | ["H"] => some .html
  | ["N", ew] => some (.blank (dStr ew))
  | ["R", ew, nd, n, dw, dr, d, tw, tr, t, e] =>
    some (.lrd ⟨dStr ew, dStr nd, dStr n, dOpt dw, dOpt dr, dOpt d, dOpt tw, dOpt tr, dOpt t, dOpt e⟩)
  | ["T", tt, ew, e] => some (.text (dStr tt) (dStr ew) (dOpt e))
  | ["E", ch, n] => some (.emph (dStr ch) (Z n))
  | ["C", a, b, c, d] => some (.codespan (dStr a) (dStr b) (dStr c) (dStr d))
  | ["W", tag] => some (.rawhtml (dStr tag))
  | ["U", t, h, a] => some (.uri (dStr t) (B h) (B a))
  | ["M", t, a] => some (.email (dStr t) (B a))
  | ["K", le] => some (.hardbreak (dStr le))
  | "L" :: rest => (decLink rest).map .link
  | "G" :: rest => (decLink rest).map .image
  | ["Z"] => some .eos
  | ["Y", a, ls, b] => some (.frontmatter (dStr a) (dList ls) (dStr b))
  | ["Q", items] => some (.pragma (dItems items))
  | ["X"] => some .container
  | ["O"] => some .other
  | ["eP", sid, sew, ri] => some (.endPara (N sid) (dStr sew) (N ri))
  | ["eA", ew, x, t] => some (.endAtx (dStr ew) (dOpt x) (Z t))
  | ["eS", ew, x] => some (.endSetext (dStr ew) (dOpt x))
  | ["eF", ew, x, f, fc] => some (.endFcode (dStr ew) (dOpt x) (B f) (dStr fc))
  | ["eH"] => some .endHtml
  | ["eI"] => some .endIcode
  | ["eE", ch, n] => some (.endEmph (dStr ch) (Z n))
  | ["eL"] => some .endLink
  | ["eX"] => some .endContainer
  | ["eO"] => some .endOther
  | _ => none

def decToks (s : String) : Option (List Tok) :=
  if s.isEmpty then some [] else (s.splitOn ";").mapM decTok

def ohx : Option (List Char) → String
  | none => "-"
  | some s => hx s

def b01 (b : Bool) : String := if b then "1" else "0"

def encLink (code : String) (f : LinkF) : String :=
  ",".intercalate [code, hx f.labelType, hx f.textFromBlocks, ohx f.exLabel, ohx f.preUri, ohx f.uri, ohx f.preTitle, ohx f.title,
    b01 f.angle, ohx f.bounding, ohx f.beforeLinkWs, ohx f.beforeTitleWs, ohx f.afterTitleWs]

def encTok : Tok → String
  | .para id ew fin => s!"P,{id},{hx ew},{hx fin}"
  | .atx ew h t => s!"A,{hx ew},{h},{t}"
  | .setext ew hc n fin => s!"S,{hx ew},{hx hc},{n},{hx fin}"
  | .tbreak ew rest => s!"B,{hx ew},{hx rest}"
  | .fcode ew fc n wi pi i pa a => s!"F,{hx ew},{hx fc},{n},{hx wi},{hx pi},{hx i},{hx pa},{hx a}"
  | .icode ew ind => s!"I,{hx ew},{hx ind}"
  | .html => "H"
  | .blank ew => s!"N,{hx ew}"
  | .lrd f => ",".intercalate ["R", hx f.ew, hx f.nameDebug, hx f.name, ohx f.destWs, ohx f.destRaw, ohx f.dest, ohx f.titleWs, ohx f.titleRaw,
      ohx f.title, ohx f.endWs]
  | .text tt ew e => s!"T,{hx tt},{hx ew},{ohx e}"
  | .emph ch n => s!"E,{hx ch},{n}"
  | .codespan a b c d => s!"C,{hx a},{hx b},{hx c},{hx d}"
  | .rawhtml tag => s!"W,{hx tag}"
  | .uri t h a => s!"U,{hx t},{b01 h},{b01 a}"
  | .email t a => s!"M,{hx t},{b01 a}"
  | .hardbreak le => s!"K,{hx le}"
  | .link f => encLink "L" f
  | .image f => encLink "G" f
  | .eos => "Z"
  | .frontmatter a ls b => s!"Y,{hx a},{"/".intercalate (ls.map hx)},{hx b}"
  | .pragma items => "Q," ++ "/".intercalate (items.map fun (n, t) => s!"{n}={Proto.encodeField t}")
  | .container => "X"
  | .other => "O"
  | .endPara sid sew ri => s!"eP,{sid},{hx sew},{ri}"
  | .endAtx ew x t => s!"eA,{hx ew},{ohx x},{t}"
  | .endSetext ew x => s!"eS,{hx ew},{ohx x}"
  | .endFcode ew x f fc => s!"eF,{hx ew},{ohx x},{b01 f},{hx fc}"
  | .endHtml => "eH"
  | .endIcode => "eI"
  | .endEmph ch n => s!"eE,{hx ch},{n}"
  | .endLink => "eL"
  | .endContainer => "eX"
  | .endOther => "eO"

def dPLines (s : String) : List Verif.Model.RegenLeafSpec.PLine :=
  if s.isEmpty then [] else (s.splitOn ";").filterMap fun l =>
    match l.splitOn "," with
    | [a, b, c] => some ⟨Proto.decodeField a, Proto.decodeField b, Proto.decodeField c⟩
    | _ => none

def leafAns (l : Verif.Model.RegenLeafSpec.Leaf) : String :=
  match l.toks with
  | none => "none"
  | some ts => "ok|" ++ ";".intercalate (ts.map encTok)

def errS : Err → String
  | .index => "err index"
  | .assertion => "err assertion"
  | .attribute => "err attribute"
  | .value => "err value"
  | .type => "err type"
  | .hang => "err hang"
  | .unsupported => "err unsupported"

def step (line : String) : String :=
  match Proto.fields line with
  | ["t", ts] =>
    match decToks ts with
    | none => "bad-token"
    | some l =>
      match transform l with
      | .error e => errS e
      | .ok s => "ok|" ++ Proto.encodeField s
  | ["p", ts] =>
    match decToks ts with
    | none => "bad-token"
    | some l =>
      match runFrom {} none l with
      | .error e => errS e
      | .ok (parts, _) => "ok|" ++ ";".intercalate (parts.map Proto.encodeField)
  | ["w", ts] =>
    match decToks ts with
    | none => "bad-token"
    | some l => if Verif.Model.RegenLeafSpec.WF l then "1" else "0"
  | ["i", h] =>
    match pyInt (Proto.decodeField h) with
    | .error e => errS e
    | .ok n => s!"ok|{n}"
  | ["r", t, w, st, post, k, after] =>
    match recombine (Proto.decodeField t) (Proto.decodeField w) (Proto.natField st) (Proto.boolField post) (Proto.natField k)
        (Proto.boolField after) with
    | .error e => errS e
    | .ok (s, j) => s!"ok|{Proto.encodeField s}|{j}"
  | ["b", "A", l] => leafAns (.atx (Proto.decodeField l))
  | ["b", "B", l] => leafAns (.thematic (Proto.decodeField l))
  | ["b", "N", l] => leafAns (.blank (Proto.decodeField l))
  | ["b", "P", id, ls] => leafAns (.para (Proto.natField id) (dPLines ls))
  | ["b", "S", ls, u] => leafAns (.setext (dPLines ls) (Proto.decodeField u))
  | ["b", "F", o, body, c] =>
    let b : Option (List Char × List Char) := match body.splitOn "," with
      | [ew, tt] => some (Proto.decodeField ew, Proto.decodeField tt)
      | _ => none
    leafAns (.fence (Proto.decodeField o) b (Proto.decodeField c))
  | _ => "bad-op"

end Verif.Drv.RegenLeaf
