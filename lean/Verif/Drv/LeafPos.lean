import Verif.Proto
import Verif.Model.LeafPos
/-!
  Driver for `Verif.Model.LeafPos` (entry `leafpos`).
  Request `kind|lineNo|indent|orig[|…]` with `orig` the physical line (hex), `indent` = `index_indent`;
  kinds `atx`, `tb`, `fopen`, `para`, `setext|…|paraLine|paraCol`, `icode|…|removedChars|inPara`.
  Answer `=D|=L|none` or `=D|=L|line|col` (setext: `…|origLine|origCol`) with `D` = the tab-expanded line, `L` = `text_to_parse`;
  `err …` when the model raises.
-/
namespace Verif.Drv.LeafPos
open Verif Verif.Model.Recognisers Verif.Model.LeafPos

def hx (s : Str) : String := "=" ++ Proto.encodeField s

def errS : Err → String
  | .index => "err index"
  | .assertion => "err assertion"
  | .fuel => "err fuel"
  | .diverges => "err diverges"

def posS : Option Pos → String
  | none => "none"
  | some p => match p.orig with
    | none => s!"{p.line}|{p.col}"
    | some o => s!"{p.line}|{p.col}|{o.1}|{o.2}"

def withView (orig : String) (indent : String) (f : Str → Except Err (Option Pos)) : String :=
  match leafView (Proto.decodeField orig) (Proto.natField indent) with
  | .error e => errS e
  | .ok (d, l) =>
    match f l with
    | .error e => errS e
    | .ok r => s!"{hx d}|{hx l}|{posS r}"

def step (line : String) : String :=
  let N := Proto.natField
  match Proto.fields line with
  | ["atx", n, i, o] => withView o i (atxPos (N n) (N i) (Proto.decodeField o))
  | ["tb", n, i, o] => withView o i (thematicPos (N n) (N i) (Proto.decodeField o))
  | ["fopen", n, i, o] => withView o i (fenceOpenPos (N n) (N i) (Proto.decodeField o))
  | ["para", n, i, o] => withView o i (fun l => .ok (paraPos (N n) (N i) l))
  | ["setext", n, i, o, pl, pc] => withView o i (fun l => setextPos (N n) (N i) l (N pl, N pc))
  | ["icode", n, i, o, r, p] => withView o i (fun l => .ok (icodePos (N n) (N i) l (N r) (Proto.boolField p)))
  | _ => "bad-op"

end Verif.Drv.LeafPos
