/-
  Line protocol helpers shared by every model driver (core Lean only).
  A field is a space-separated list of hexadecimal code points; fields are
  separated by `|`.  The empty field is the empty string.
-/
namespace Verif.Proto

def hexVal (c : Char) : Nat :=
  if '0' ≤ c && c ≤ '9' then c.toNat - 48
  else if 'a' ≤ c && c ≤ 'f' then c.toNat - 87
  else c.toNat - 55

def hexNat (w : String) : Nat := w.toList.foldl (fun a c => a * 16 + hexVal c) 0

def decodeField (s : String) : List Char :=
  (s.splitOn " ").filterMap fun w => if w.isEmpty then none else some (Char.ofNat (hexNat w))

def encodeField (l : List Char) : String :=
  " ".intercalate (l.map fun c => String.ofList (Nat.toDigits 16 c.toNat))

def fields (line : String) : List String := line.splitOn "|"

def natField (s : String) : Nat := s.trimAscii.toString.toNat?.getD 0

def intField (s : String) : Int :=
  let t := s.trimAscii.toString
  if t.startsWith "-" then - (Int.ofNat ((t.drop 1).toString.toNat?.getD 0)) else Int.ofNat (t.toNat?.getD 0)

def boolField (s : String) : Bool := s.trimAscii.toString == "1"

end Verif.Proto
