/-
  COMMITTED baseline (not generated): the exact differences between the registered rules and their
  documentation pages on the pinned pymarkdown tree.  `Verif.Props.C17.code_eq_doc` proves that the
  regenerated tables differ in exactly these places, so any new drift between code and documentation
  (or the repair of one of these) breaks the theorem and has to be acknowledged here.
-/
import Verif.Model.RuleMeta
namespace Verif.Baseline
open Verif.Model.RuleMeta

def docDiffs : List Diff := [
  -- header table says "Pending", the rule declares plugin_supports_fix=True
  ⟨"md012", "autofix", ["True"], ["Pending"]⟩,
  -- header table says "Yes", the rule declares plugin_supports_fix=False
  ⟨"md013", "autofix", ["False"], ["Yes"]⟩,
  ⟨"md031", "autofix", ["True"], ["Pending"]⟩,
  -- the rule reads `headings`; the page documents `required_headings`
  ⟨"md043", "item headings", ["string", ""], []⟩,
  ⟨"md043", "item required_headings", [], ["string", ""]⟩,
  -- default is the empty string; the page says None
  ⟨"md044", "item names", ["string", ""], ["string", "None"]⟩,
  -- the debug rule of plugin_one.py is registered but has no page
  ⟨"md999", "page", ["registered"], []⟩,
  -- copy/paste slips of the pml pages
  ⟨"pml100", "prefixes", ["plugins.pml100.", "plugins.disallowed-html."], ["plugins.pml101.", "plugins.disallowed-html."]⟩,
  ⟨"pml100", "default of `enabled` row", ["False"], ["True"]⟩,
  ⟨"pml100", "item change_tag_names", ["string", "None"], ["string", "[See above list](#compatibility)."]⟩,
  ⟨"pml101", "default of `enabled` row", ["False"], ["True"]⟩]

end Verif.Baseline
