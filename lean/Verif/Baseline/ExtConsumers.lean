/-
  Reviewed baseline for C20 `flags_guard`: extension hook sites that are NOT dominated by a flag test
  because they are *data driven* — they can only act on something a flag-guarded producer created.
  Keyed by (file, function, what) so that unrelated edits (line numbers) do not disturb it.
  Any new unguarded site is not in this list and breaks `flags_guard`.
-/
namespace Verif.Baseline.ExtConsumers

def reviewed : List (String × String × String) :=
  [ -- appended only when `pragma_lines` is non-empty; `pragma_lines` is written only by
    -- PragmaExtension.look_for_pragmas, whose single call site is flag-guarded
    ("pymarkdown/general/tokenized_markdown.py", "__parse_blocks_pass", "PragmaToken(…)"),
    -- reached only for special-text tokens whose first character is in get_inline_emphasis()
    -- (asserted at the top of both functions); `~` is in that set only when the flag is on
    ("pymarkdown/inline/emphasis_helper.py", "__is_potential_closer", "EmphasisHelper.__strikethrough_emphasis"),
    ("pymarkdown/inline/emphasis_helper.py", "__is_potential_opener", "EmphasisHelper.__strikethrough_emphasis"),
    -- iterates the pragma lines of the PragmaToken (none without the token)
    ("pymarkdown/plugin_manager/plugin_manager.py", "compile_pragmas", "PragmaExtension.compile_single_pragma"),
    -- a rule validating its own configuration with a static helper; not parser code
    ("pymarkdown/plugins/rule_pml_100.py", "initialize_from_config", "MarkdownDisallowRawHtmlExtension.is_valid_tag_name") ]

end Verif.Baseline.ExtConsumers
