/-
  Faithful index-loop models of pymarkdown's LINK-part recognisers (core Lean only; linked into `verifdrv linkrecog`).

  Same conventions as `Verif.Model.Recognisers` (which this file extends and re-uses): a Python `s[i]` is `charAtL s i`
  and fails with `LErr.index` exactly where Python raises `IndexError`; every `…_verified` helper and every `assert`
  fails with `LErr.assertion`; `while` loops that jump (a backslash consumes two characters) carry an explicit fuel and
  fail with `LErr.fuel` when it runs out.  Nothing is totalised by a default value: that none of these errors can occur
  is the *theorem* `link_recognisers_total` (Verif/Props/LinkRecog.lean).  Two further outcomes are real:
    * `LErr.value`      — Python raises `ValueError` (`chr(n)` with `n > 0x10FFFF`, numeric character reference);
    * `LErr.surrogate`  — `chr(n)` with `n` a surrogate: Python goes on with a lone surrogate in a `str` (and
                          `urllib.parse.quote` later raises `UnicodeEncodeError`); Lean's `Char` has no surrogates,
                          so the model stops here and says so.
  Python's `-1` "not found" index is kept as an `Int`; slices with a possibly negative bound use `pySlice`.
  `"".join(parts)` of a list built by `append` is modelled by an accumulator string.

  Sources (pinned tree):
    pymarkdown/general/parser_helper.py            collect_until_one_of_characters(_verified), index_any_of, replace_any_of
    pymarkdown/inline/inline_backslash_helper.py   handle_inline_backslash, handle_backslashes
    pymarkdown/inline/inline_character_reference_helper.py  handle_character_reference, __handle_numeric_character_reference_hex /
                                                   _decimal / _inner (`numericRefHex`, `numericRefDecimal`, `numericFinish`),
                                                   __handle_non_numeric_character_reference (`namedRef`)
    pymarkdown/inline/inline_helper.py             extract_bounded_string, __handle_next_extract_bounded_string_item,
                                                   append_text (add_text_signature=False)
    pymarkdown/links/link_parse_helper.py          __parse_angle_link_destination, __parse_non_angle_link_destination,
                                                   __encode_link_destination, __parse_link_destination, __parse_link_title,
                                                   extract_link_label, normalize_link_label, __parse_inline_link_properties,
                                                   __process_inline_link_body (tabified_text = None) + …_final,
                                                   extract_link_destination, extract_link_title
    pymarkdown/links/link_reference_definition_parse_helper.py  __is_link_reference_definition (line part),
                                                   __verify_link_definition_end, parse_link_reference_definition (pure part)
    pymarkdown/tokens/link_start_markdown_token.py __rehydrate_inline_link_text_from_token_type_inline (the body part)
  Abstracted: the logger; `parser_properties` (unused by all of these); `InlineRequest`/`InlineResponse` objects (only
  `new_index` / `new_string` are read by the callers modelled here); CPython's `str.find`, `str.casefold` (see `casefoldChar`),
  `int(x, 16)` on a two-character string (`pyIntHex2Ok`), `urllib.parse.quote` (`quote`).
-/
import Verif.Model.Recognisers
import Verif.Gen.Entities
namespace Verif.Model.LinkRecog
open Verif.Model.Recognisers

inductive LErr where
  | index        -- IndexError
  | assertion    -- AssertionError
  | fuel         -- the model's loop ran out of fuel (proved unreachable)
  | value        -- ValueError: chr() arg not in range(0x110000)
  | surrogate    -- chr() of a surrogate code point: outside the model's strings
  deriving Repr, DecidableEq

def liftErr : Err → LErr
  | .index => .index
  | .assertion => .assertion
  | .fuel => .fuel
  | .diverges => .fuel

def liftE {α : Type} : Except Err α → Except LErr α
  | .ok a => .ok a
  | .error e => .error (liftErr e)

/-- `s[i]` for `i ≥ 0`. -/
def charAtL (s : Str) (i : Nat) : Except LErr Char :=
  match s[i]? with
  | some c => .ok c
  | none => .error .index

/-- Python `s[a:b]` for arbitrary integers (negative bounds count from the end, everything is clamped). -/
def pySlice (s : Str) (a b : Int) : Str :=
  let n : Int := s.length
  let norm (x : Int) : Nat := if x < 0 then (x + n).toNat else (min x n).toNat
  slice s (norm a) (norm b)

/-! ## parser_helper.py -/

/-- the loop of `collect_until_one_of_characters`:
`while index < size and s[index] not in cs: index += 1`. -/
def cuoLoop (s cs : Str) (size i : Nat) : Except LErr Nat :=
  if i < size then
    match charAtL s i with
    | .error e => .error e
    | .ok d => if !cs.contains d then cuoLoop s cs size (i + 1) else .ok i
  else .ok i
termination_by size - i

/-- `collect_until_one_of_characters(s, start, cs)` → `(index, s[start:index])` or `(None, None)`. -/
def collectUntilOneOf (s : Str) (start : Nat) (cs : Str) : Except LErr (Option (Nat × Str)) :=
  if start ≤ s.length then
    match cuoLoop s cs s.length start with
    | .error e => .error e
    | .ok j => .ok (some (j, slice s start j))
  else .ok none

/-- `collect_until_one_of_characters_verified`. -/
def collectUntilOneOfVerified (s : Str) (start : Nat) (cs : Str) : Except LErr (Nat × Str) :=
  match collectUntilOneOf s start cs with
  | .error e => .error e
  | .ok (some r) => .ok r
  | .ok none => .error .assertion

/-- `extract_ascii_whitespace_verified`. -/
def extractAsciiWsVerified (s : Str) (start : Nat) : Except LErr (Nat × Str) :=
  match extractAsciiWs s start with
  | some r => .ok r
  | none => .error .assertion

/-- `collect_while_one_of_characters_verified` (the loop is `Recognisers.cwoLoop`). -/
def collectWhileOneOfVerifiedL (s : Str) (start : Nat) (cs : Str) : Except LErr (Nat × Str) :=
  liftE (collectWhileOneOfVerified s start cs)

/-- `min` over `find_any` of `source_text.find(c, start)`, i.e. the first index `≥ start` holding one of `cs`
(`-1` = `none`).  `str.find` is CPython's; its result is modelled, not its loop. -/
def indexAnyOfFrom (cs : Str) : Str → Nat → Option Nat
  | [], _ => none
  | c :: r, k => if cs.contains c then some k else indexAnyOfFrom cs r (k + 1)

/-- `ParserHelper.index_any_of(s, cs, start)`. -/
def indexAnyOf (s cs : Str) (start : Nat) : Option Nat := indexAnyOfFrom cs (s.drop start) start

/-! ## inline_backslash_helper.py -/

def BS : Char := '\\'
def NL : Char := '\n'

/-- `InlineBackslashHelper.__backslash_punctuation`. -/
def bsPunct : Str := "!\"#$%&'()*+,-./:;<=>?@[]^_`{|}~\\".toList

/-- `ParserHelper.backslash_escape_sequence` = backslash + backspace. -/
def bsEscapeSeq : Str := [BS, '\x08']

/-- `handle_inline_backslash(InlineRequest(s, i), add_text_signature)` → `(new_index, new_string)`. -/
def handleInlineBackslash (s : Str) (i : Nat) (sig : Bool := true) : Except LErr (Nat × Str) :=
  let j := i + 1
  if j ≥ s.length then .ok (j, [BS])
  else
    match charAtL s j with
    | .error e => .error e
    | .ok c =>
      if c == NL then .ok (j, [BS])
      else if bsPunct.contains c then .ok (j + 1, (if sig then bsEscapeSeq else []) ++ [c])
      else .ok (j + 1, [BS, c])

/-- the `new_index` of `handle_inline_backslash`; the `assert inline_response.new_index is not None` of the callers
cannot fail (the field is always an `int`). -/
def bsNewIndex (s : Str) (i : Nat) : Except LErr Nat :=
  match handleInlineBackslash s i with
  | .error e => .error e
  | .ok r => .ok r.1

/-! ## inline_character_reference_helper.py -/

def hexDigits : Str := "0123456789abcdefABCDEF".toList       -- string.hexdigits
def lettersDigits : Str :=                                      -- string.ascii_letters + string.digits
  "abcdefghijklmnopqrstuvwxyzABCDEFGHIJKLMNOPQRSTUVWXYZ0123456789".toList

def digitVal (c : Char) : Nat :=
  if '0' ≤ c && c ≤ '9' then c.toNat - 48
  else if 'a' ≤ c && c ≤ 'f' then c.toNat - 87
  else c.toNat - 55

/-- `int(ds, base)` on a string of digits of that base. -/
def pyInt (base : Nat) (ds : Str) : Nat := ds.foldl (fun a c => a * base + digitVal c) 0

/-- `chr(n)`. -/
def pyChr (n : Nat) : Except LErr Char :=
  if n > 0x10FFFF then .error .value
  else if 0xD800 ≤ n && n ≤ 0xDFFF then .error .surrogate
  else .ok (Char.ofNat n)

def REPLACEMENT : Char := Char.ofNat 0xFFFD

/-- `__handle_numeric_character_reference_hex(new_index, s, size)` → `(new_string, new_index, translated_reference)`;
`translated_reference = -1` is `none`. -/
def numericRefHex (s : Str) (k : Nat) : Except LErr (Str × Nat × Option Nat) :=
  match charAtL s k with                                   -- hex_char = source_text[new_index]
  | .error e => .error e
  | .ok hexChar =>
    match collectWhileOneOfVerifiedL s (k + 1) hexDigits with
    | .error e => .error e
    | .ok (endIndex, coll) =>
      let delta := endIndex - (k + 1)
      .ok (['&', '#', hexChar] ++ coll, endIndex, if 1 ≤ delta && delta ≤ 6 then some (pyInt 16 coll) else none)

/-- `__handle_numeric_character_reference_decimal(new_index, s, size)`. -/
def numericRefDecimal (s : Str) (k : Nat) : Except LErr (Str × Nat × Option Nat) :=
  match collectWhileOneOfVerifiedL s k digits with
  | .error e => .error e
  | .ok (endIndex, coll) =>
    let delta := endIndex - k
    .ok (['&', '#'] ++ coll, endIndex, if 1 ≤ delta && delta ≤ 7 then some (pyInt 10 coll) else none)

/-- the tail of `__handle_numeric_character_reference_inner`: with a valid digit count and a `;`, the character. -/
def numericFinish (s : Str) (newString : Str) (newIndex : Nat) (tr : Option Nat) : Except LErr (Str × Nat) :=
  match tr with
  | none => .ok (newString, newIndex)
  | some n =>
    if newIndex < s.length then
      match charAtL s newIndex with
      | .error e => .error e
      | .ok c =>
        if c == ';' then
          if n == 0 then .ok ([REPLACEMENT], newIndex + 1)
          else
            match pyChr n with
            | .error e => .error e
            | .ok ch => .ok ([ch], newIndex + 1)
        else .ok (newString, newIndex)
    else .ok (newString, newIndex)

/-- `numericFinish` applied to the result of the hexadecimal / decimal helper. -/
def numericRefOf (s : Str) : Except LErr (Str × Nat × Option Nat) → Except LErr (Str × Nat)
  | .error e => .error e
  | .ok (newString, newIndex, tr) => numericFinish s newString newIndex tr

/-- `__handle_numeric_character_reference_inner(s, j)`, `s[j] == "#"` → `(new_string, new_index)`. -/
def numericRef (s : Str) (j : Nat) : Except LErr (Str × Nat) :=
  let k := j + 1
  let isHexE : Except LErr Bool :=
    if k < s.length then
      match charAtL s k with
      | .error e => .error e
      | .ok c => .ok (['x', 'X'].contains c)
    else .ok false
  match isHexE with
  | .error e => .error e
  | .ok isHex => numericRefOf s (if isHex then numericRefHex s k else numericRefDecimal s k)

/-- `__handle_non_numeric_character_reference` with `new_index = j` → `(new_string, new_index)`;
the entity map is `Verif.Gen.Entities` (regenerated from the repo's `entities.json` on every run). -/
def namedRef (s : Str) (j : Nat) : Except LErr (Str × Nat) :=
  match liftE (collectWhileOneOf s j lettersDigits) with
  | .error e => .error e
  | .ok none => .ok (['&'], j)                                   -- `if collected_string:` with `None`
  | .ok (some (endIndex, coll)) =>
    if coll.isEmpty then .ok (['&'], j)
    else if endIndex < s.length then
      match charAtL s endIndex with
      | .error e => .error e
      | .ok c =>
        if c == ';' then
          match Verif.Gen.Entities.lookup coll with
          | some cps => .ok (cps.map Char.ofNat, endIndex + 1)
          | none => .ok ('&' :: coll ++ [';'], endIndex + 1)
        else .ok ('&' :: coll, endIndex)
    else .ok ('&' :: coll, endIndex)

/-- `handle_character_reference(InlineRequest(s, i))`, `s[i] == "&"` → `(new_string, new_index)`. -/
def handleCharacterReference (s : Str) (i : Nat) : Except LErr (Str × Nat) :=
  let j := i + 1
  if j < s.length then
    match charAtL s j with
    | .error e => .error e
    | .ok c => if c == '#' then numericRef s j else namedRef s j
  else namedRef s j

/-- the `while next_index != -1` loop of `handle_backslashes`. -/
def hbLoop (s : Str) : Nat → Nat → Str → Except LErr Str
  | 0, _, _ => .error .fuel
  | fuel + 1, start, acc =>
    match indexAnyOf s [BS, '&'] start with
    | none => .ok (if start < s.length then acc ++ s.drop start else acc)
    | some next =>
      let acc := acc ++ slice s start next
      match charAtL s next with                                   -- current_char = source_text[next_index]
      | .error e => .error e
      | .ok cur =>
        let resp : Except LErr (Str × Nat) :=
          if cur == BS then
            match handleInlineBackslash s next false with
            | .error e => .error e
            | .ok (ni, ns) => .ok (ns, ni)
          else if cur == '&' then handleCharacterReference s next
          else .error .assertion                                 -- "If not a backslahs, must be a character reference character."
        match resp with
        | .error e => .error e
        | .ok (ns, ni) => hbLoop s fuel ni (acc ++ ns)

/-- `InlineBackslashHelper.handle_backslashes(s)`. -/
def handleBackslashes (s : Str) : Except LErr Str := hbLoop s (s.length + 1) 0 []

/-! ## inline_helper.py -/

/-- `InlineHelper.append_text("", s, add_text_signature=False)`: the HTML escape map applied character by character. -/
def htmlEscapeChar (c : Char) : Str :=
  if c == '<' then "&lt;".toList
  else if c == '>' then "&gt;".toList
  else if c == '&' then "&amp;".toList
  else if c == '"' then "&quot;".toList
  else [c]

def appendTextNoSig (s : Str) : Str := s.flatMap htmlEscapeChar

/-- `__handle_next_extract_bounded_string_item` → `(nexter_index, nesting_level, extracted so far)`. -/
def boundedItem (s : Str) (next : Nat) (acc : Str) (start : Option Char) (nesting : Int) (close : Char) (breaks : Str) :
    Except LErr (Nat × Int × Str) :=
  let step : Except LErr (Nat × Int × Str) :=
    if isCharAt s next BS then
      match bsNewIndex s next with
      | .error e => .error e
      | .ok ni => .ok (ni, nesting, acc ++ slice s next ni)
    else
      match start with
      | some st =>
        if isCharAt s next st then .ok (next + 1, nesting + 1, acc ++ [st])
        else if isCharAt s next close then .ok (next + 1, nesting - 1, acc ++ [close])
        else .error .assertion                                   -- "Character at index must be the close character."
      | none =>
        if isCharAt s next close then .ok (next + 1, nesting - 1, acc ++ [close])
        else .error .assertion
  match step with
  | .error e => .error e
  | .ok (ni, nest, acc) =>
    match collectUntilOneOfVerified s ni breaks with
    | .error e => .error e
    | .ok (nexter, data) => .ok (nexter, nest, acc ++ data)

/-- the `while next_index < len(source_text) and (source_text[next_index] != close_character or nesting_level != 0)`
loop of `extract_bounded_string`. -/
def boundedLoop (s : Str) (start : Option Char) (close : Char) (breaks : Str) :
    Nat → Nat → Int → Str → Except LErr (Nat × Int × Str)
  | 0, _, _, _ => .error .fuel
  | fuel + 1, next, nesting, acc =>
    if next < s.length then
      match charAtL s next with
      | .error e => .error e
      | .ok c =>
        if c != close || nesting != 0 then
          match boundedItem s next acc start nesting close breaks with
          | .error e => .error e
          | .ok (n2, nest2, acc2) => boundedLoop s start close breaks fuel n2 nest2 acc2
        else .ok (next, nesting, acc)
    else .ok (next, nesting, acc)

/-- `break_characters` of `extract_bounded_string`: backslash, close character, and the start character if there is one. -/
def boundedBreaks (start : Option Char) (close : Char) : Str :=
  match start with
  | some st => [BS, close, st]
  | none => [BS, close]

/-- `InlineHelper.extract_bounded_string(s, new_index, close, start)` → `(index, text or None)`. -/
def extractBoundedString (s : Str) (newIndex : Nat) (close : Char) (start : Option Char) :
    Except LErr (Nat × Option Str) :=
  let breaks : Str := boundedBreaks start close
  match collectUntilOneOfVerified s newIndex breaks with
  | .error e => .error e
  | .ok (next, data) =>
    match boundedLoop s start close breaks (s.length + 1) next 0 data with
    | .error e => .error e
    | .ok (next, nesting, acc) =>
      if isCharAt s next close && nesting == 0 then .ok (next + 1, some acc) else .ok (next, none)

/-! ## link_parse_helper.py: destination -/

/-- `__angle_link_destination_breaks`. -/
def angleBreaks : Str := ['>', BS]

/-- `Constants.ascii_control_characters` + `()\`. -/
def nonAngleBreaks : Str := ((List.range 33).map Char.ofNat) ++ ['\x7f', '(', ')', BS]

/-- the `while True` loop of `__parse_angle_link_destination` → `(newer_index, joined parts)`. -/
def angleLoop (s : Str) : Nat → Nat → Str → Except LErr (Nat × Str)
  | 0, _, _ => .error .fuel
  | fuel + 1, i, acc =>
    match collectUntilOneOfVerified s i angleBreaks with
    | .error e => .error e
    | .ok (j, part) =>
      if !isCharAt s j BS then .ok (j, acc ++ part)
      else
        match bsNewIndex s j with
        | .error e => .error e
        | .ok k => angleLoop s fuel k (acc ++ part ++ slice s j k)

/-- `__parse_angle_link_destination(s, new_index)` (`s[new_index] == "<"`) → `(newer_index or -1, text)`. -/
def parseAngleDest (s : Str) (i : Nat) : Except LErr (Int × Str) :=
  match angleLoop s (s.length + 1) (i + 1) [] with
  | .error e => .error e
  | .ok (j, acc) => if isCharAt s j '>' then .ok ((j : Int) + 1, acc) else .ok (-1, [])

/-- the `while keep_collecting` loop of `__parse_non_angle_link_destination` → `(newer_index, nesting_level, joined parts)`. -/
def nonAngleLoop (s : Str) : Nat → Nat → Nat → Str → Except LErr (Nat × Nat × Str)
  | 0, _, _, _ => .error .fuel
  | fuel + 1, i, nest, acc =>
    match collectUntilOneOfVerified s i nonAngleBreaks with
    | .error e => .error e
    | .ok (j, part) =>
      let acc := acc ++ part
      if isCharAt s j BS then
        match bsNewIndex s j with
        | .error e => .error e
        | .ok k => nonAngleLoop s fuel k nest (acc ++ slice s j k)
      else if isCharAt s j '(' then nonAngleLoop s fuel (j + 1) (nest + 1) (acc ++ ['('])
      else if isCharAt s j ')' then
        if nest != 0 then nonAngleLoop s fuel (j + 1) (nest - 1) (acc ++ [')'])
        else .ok (j, nest, acc)
      else .ok (j, nest, acc)

/-- `__parse_non_angle_link_destination(s, new_index)` → `(newer_index, text)` or `(-1, None)`. -/
def parseNonAngleDest (s : Str) (i : Nat) : Except LErr (Int × Option Str) :=
  match nonAngleLoop s (s.length + 1) i 0 [] with
  | .error e => .error e
  | .ok (j, nest, acc) => if nest != 0 then .ok (-1, none) else .ok (j, some acc)

/-! ### `__encode_link_destination` -/

/-- UTF-8 bytes of a character (`str.encode("utf-8")`). -/
def utf8Bytes (c : Char) : List Nat :=
  let n := c.toNat
  if n < 0x80 then [n]
  else if n < 0x800 then [0xC0 + n / 64, 0x80 + n % 64]
  else if n < 0x10000 then [0xE0 + n / 4096, 0x80 + n / 64 % 64, 0x80 + n % 64]
  else [0xF0 + n / 262144, 0x80 + n / 4096 % 64, 0x80 + n / 64 % 64, 0x80 + n % 64]

def hexUpper (n : Nat) : Char := "0123456789ABCDEF".toList.getD n '?'

def pctByte (b : Nat) : Str := ['%', hexUpper (b / 16), hexUpper (b % 16)]

/-- `__link_safe_characters`. -/
def linkSafe : Str := "/#:?=()*!$'+,;@".toList

/-- the always-safe set of `urllib.parse.quote`: ASCII letters, digits, `_.-~`. -/
def quoteAlwaysSafe (c : Char) : Bool :=
  ('a' ≤ c && c ≤ 'z') || ('A' ≤ c && c ≤ 'Z') || ('0' ≤ c && c ≤ '9') || c == '_' || c == '.' || c == '-' || c == '~'

/-- `urllib.parse.quote(s, safe=linkSafe)`: every UTF-8 byte outside the safe sets becomes `%XX`. -/
def quoteChar (c : Char) : Str :=
  if quoteAlwaysSafe c || linkSafe.contains c then [c] else (utf8Bytes c).flatMap pctByte

def quote (s : Str) : Str := s.flatMap quoteChar

/-- the characters `int()` strips as white space: ASCII `\t\n\v\f\r` and space (`Py_ISSPACE`), and every *non-ASCII*
`Py_UNICODE_ISSPACE` character (CPython maps those to a space before parsing; U+001C–U+001F are `str.isspace()` but
are not stripped).  Unicode 15.0; checked against CPython's `int` by the correspondence. -/
def pyIntSpace (c : Char) : Bool :=
  let n := c.toNat
  (0x09 ≤ n && n ≤ 0x0D) || n == 0x20 || n == 0x85 || n == 0xA0 || n == 0x1680 ||
  (0x2000 ≤ n && n ≤ 0x200A) || n == 0x2028 || n == 0x2029 || n == 0x202F || n == 0x205F || n == 0x3000

/-- first code points of the 68 runs of ten Unicode decimal digits (category Nd, Unicode 15.0; checked against
`unicodedata` by the correspondence). -/
def ndStarts : List Nat :=
  [48, 1632, 1776, 1984, 2406, 2534, 2662, 2790, 2918, 3046, 3174, 3302, 3430, 3558, 3664, 3792, 3872, 4160, 4240, 6112,
   6160, 6470, 6608, 6784, 6800, 6992, 7088, 7232, 7248, 42528, 43216, 43264, 43472, 43504, 43600, 44016, 65296, 66720,
   68912, 69734, 69872, 69942, 70096, 70384, 70736, 70864, 71248, 71360, 71472, 71904, 72016, 72784, 73040, 73120, 73552,
   92768, 92864, 93008, 120782, 120792, 120802, 120812, 120822, 123200, 123632, 124144, 125264, 130032]

def isNd (c : Char) : Bool := ndStarts.any fun st => st ≤ c.toNat && c.toNat < st + 10

/-- a character `int(·, 16)` takes for a digit: ASCII hex digit or any Unicode decimal digit. -/
def pyHexDigitLike (c : Char) : Bool := hexDigits.contains c || isNd c

/-- does `int(x, 16)` succeed on the two-character string `[a, b]`?  (`int` strips Unicode white space, takes a sign,
and digits; `0x` needs a digit after it, underscores need digits on both sides.) -/
def pyIntHex2Ok (a b : Char) : Bool :=
  (pyHexDigitLike a && pyHexDigitLike b) || (pyIntSpace a && pyHexDigitLike b) || (pyHexDigitLike a && pyIntSpace b) ||
  ((a == '+' || a == '-') && pyHexDigitLike b)

/-- `__special_link_destination_characters`. -/
def specialDest : Str := ['%', '&']

/-- the `while percent_index < link_to_encode_size` loop of `__encode_link_destination`. -/
def encLoop (s : Str) : Nat → Nat → Str → Except LErr Str
  | 0, _, _ => .error .fuel
  | fuel + 1, pi, acc =>
    if pi < s.length then
      match charAtL s pi with                                     -- special_character = link_to_encode[percent_index]
      | .error e => .error e
      | .ok sc =>
        let pi := pi + 1
        let r : Except LErr (Nat × Str) :=
          if sc == '%' then
            let hexGuess := slice s pi (pi + 2)
            match hexGuess with
            | [a, b] => if pyIntHex2Ok a b then .ok (pi + 2, acc ++ ['%', a, b]) else .ok (pi, acc ++ "%25".toList)
            | _ => .ok (pi, acc ++ "%25".toList)
          else if sc == '&' then .ok (pi, acc ++ "&amp;".toList)
          else .error .assertion                                  -- "Special character is either % (see if) or &."
        match r with
        | .error e => .error e
        | .ok (pi, acc) =>
          match collectUntilOneOfVerified s pi specialDest with
          | .error e => .error e
          | .ok (pi2, before) => encLoop s fuel pi2 (acc ++ quote before)
    else .ok acc

/-- `LinkParseHelper.__encode_link_destination(s)`. -/
def encodeLinkDestination (s : Str) : Except LErr Str :=
  match collectUntilOneOfVerified s 0 specialDest with
  | .error e => .error e
  | .ok (pi, before) => encLoop s (s.length + 1) pi (quote before)

/-- result of `__parse_link_destination`: `(ex_link, pre_handle_link, new_index, source_text[start_index:new_index],
did_use_angle_start)`; the failure tuple is `(None, None, -1, None, None)`. -/
structure DestResult where
  exLink : Option Str
  preLink : Option Str
  newIndex : Int
  raw : Option Str
  angle : Option Bool
  deriving Repr, DecidableEq

def DestResult.fail : DestResult := ⟨none, none, -1, none, none⟩

/-- the part of `__parse_link_destination` after the angle / non-angle branch: the newline test, `handle_backslashes`,
`__encode_link_destination`, and the result tuple. -/
def destFinish (s : Str) (i : Nat) (ni : Int) (ex : Str) (angle : Bool) : Except LErr DestResult :=
  if ni != -1 && ex.contains NL then .ok .fail
  else
    match (if ni != -1 && !ex.isEmpty then handleBackslashes ex else .ok ex) with
    | .error e => .error e
    | .ok ex2 =>
      match encodeLinkDestination ex2 with
      | .error e => .error e
      | .ok enc => .ok ⟨some enc, some ex, ni, some (pySlice s i ni), some angle⟩

/-- `LinkParseHelper.__parse_link_destination(s, new_index)`. -/
def parseLinkDestination (s : Str) (i : Nat) : Except LErr DestResult :=
  let angle := isCharAt s i '<'
  -- (new_index, ex_link) after the branch, or the early `return None, None, -1, None, None`
  let br : Except LErr (Option (Int × Str)) :=
    if angle then
      match parseAngleDest s i with
      | .error e => .error e
      | .ok (ni, ex) => .ok (some (ni, ex))
    else
      match parseNonAngleDest s i with
      | .error e => .error e
      | .ok (ni, some ex) => if ex.isEmpty then .ok none else .ok (some (ni, ex))
      | .ok (_, none) => .ok none                                  -- `if not ex_link`
  match br with
  | .error e => .error e
  | .ok none => .ok .fail
  | .ok (some (ni, ex)) => destFinish s i ni ex angle

/-! ## link_parse_helper.py: title, label -/

/-- one branch of `__parse_link_title`: `bounding_character = b; newer_index, ex_title = extract_bounded_string(…)`. -/
def titleBranch (b : Str) : Except LErr (Nat × Option Str) → Except LErr (Int × Option Str × Str)
  | .error e => .error e
  | .ok (ni, t) => .ok ((ni : Int), t, b)

/-- the part of `__parse_link_title` after the branches: `pre_ex_title = ex_title`, and if it is not `None`
`ex_title = append_text("", handle_backslashes(ex_title), add_text_signature=False)`. -/
def titleFinish : Except LErr (Int × Option Str × Str) → Except LErr (Option Str × Option Str × Int × Str)
  | .error e => .error e
  | .ok (ni, none, b) => .ok (none, none, ni, b)
  | .ok (ni, some t, b) =>
    match handleBackslashes t with
    | .error e => .error e
    | .ok t2 => .ok (some (appendTextNoSig t2), some t, ni, b)

/-- `LinkParseHelper.__parse_link_title(s, new_index)` → `(ex_title, pre_ex_title, newer_index, bounding_character)`. -/
def parseLinkTitle (s : Str) (i : Nat) : Except LErr (Option Str × Option Str × Int × Str) :=
  titleFinish
    (if isCharAt s i '\'' then titleBranch ['\''] (extractBoundedString s (i + 1) '\'' none)
     else if isCharAt s i '"' then titleBranch ['"'] (extractBoundedString s (i + 1) '"' none)
     else if isCharAt s i '(' then titleBranch ['('] (extractBoundedString s (i + 1) ')' (some '('))
     else .ok (-1, some [], []))

/-- `__link_label_breaks` = `[]\`. -/
def labelBreaks : Str := ['[', ']', BS]

/-- the `while True` loop of `extract_link_label` → `none` for the early `return False, -1, None` (unescaped `[`),
else `(new_index, joined parts)`. -/
def labelLoop (s : Str) : Nat → Nat → Str → Except LErr (Option (Nat × Str))
  | 0, _, _ => .error .fuel
  | fuel + 1, i, acc =>
    match collectUntilOneOfVerified s i labelBreaks with
    | .error e => .error e
    | .ok (j, part) =>
      let acc := acc ++ part
      if isCharAt s j BS then
        match bsNewIndex s j with
        | .error e => .error e
        | .ok k => labelLoop s fuel k (acc ++ slice s j k)
      else if isCharAt s j '[' then .ok none
      else .ok (some (j, acc))

/-- `LinkParseHelper.extract_link_label(s, new_index, include_reference_colon)` → `(ok, new_index, label)`. -/
def extractLinkLabel (s : Str) (i : Nat) (colon : Bool := true) : Except LErr (Bool × Int × Option Str) :=
  match labelLoop s (s.length + 1) i [] with
  | .error e => .error e
  | .ok none => .ok (false, -1, none)
  | .ok (some (j, acc)) =>
    if !isCharAt s j ']' then .ok (false, j, none)
    else
      let j := j + 1
      if colon then
        if !isCharAt s j ':' then .ok (false, -1, none) else .ok (true, (j : Int) + 1, some acc)
      else .ok (true, j, some acc)

/-! ### `normalize_link_label` -/

/-- `Constants.non_space_ascii_whitespace`. -/
def nonSpaceWs : Str := ['\t', '\n', '\x0b', '\x0c', '\r']

/-- `ParserHelper.replace_any_of(s, cs, " ")`: every character of `cs` becomes a space. -/
def replaceAnyOfSp (cs : Str) (s : Str) : Str := s.map fun c => if cs.contains c then ' ' else c

/-- `s.split(" ")`. -/
def splitSp : Str → Str → List Str
  | [], cur => [cur.reverse]
  | c :: r, cur => if c == ' ' then cur.reverse :: splitSp r [] else splitSp r (c :: cur)

/-- `" ".join(parts)`. -/
def joinSp : List Str → Str
  | [] => []
  | [p] => p
  | p :: ps => p ++ ' ' :: joinSp ps

/-- `str.casefold()` of one character — exact on ASCII, Latin-1, Greek capitals, final sigma, Cyrillic capitals and
U+1E9E; the identity elsewhere (the correspondence measures the 1 398 code points where CPython's table says
otherwise: those are outside the model). -/
def casefoldChar (c : Char) : Str :=
  let n := c.toNat
  if 'A' ≤ c && c ≤ 'Z' then [Char.ofNat (n + 32)]
  else if n < 0xC0 then (if n == 0xB5 then [Char.ofNat 0x3BC] else [c])
  else if n == 0xDF || n == 0x1E9E then ['s', 's']
  else if 0xC0 ≤ n && n ≤ 0xDE && n != 0xD7 then [Char.ofNat (n + 32)]
  else if 0x391 ≤ n && n ≤ 0x3A9 && n != 0x3A2 then [Char.ofNat (n + 32)]
  else if n == 0x3C2 then [Char.ofNat 0x3C3]
  else if 0x410 ≤ n && n ≤ 0x42F then [Char.ofNat (n + 32)]
  else if 0x400 ≤ n && n ≤ 0x40F then [Char.ofNat (n + 80)]
  else [c]

/-- `s.strip(" ")`. -/
def stripSp (s : Str) : Str := ((s.dropWhile (· == ' ')).reverse.dropWhile (· == ' ')).reverse

/-- `LinkParseHelper.normalize_link_label(label)`. -/
def normalizeLinkLabel (label : Str) : Str :=
  let l1 := replaceAnyOfSp nonSpaceWs label
  let parts := (splitSp l1 []).filter (fun p => !p.isEmpty)
  stripSp ((joinSp parts).flatMap casefoldChar)

/-! ## link_parse_helper.py: the inline link body `( ws dest ws title ws )` -/

/-- the fields of `LinkHelperProperties` the inline-link body writes. -/
structure LHP where
  inlineLink : Option Str := some []
  preInlineLink : Option Str := some []
  inlineTitle : Option Str := some []
  preInlineTitle : Option Str := some []
  didUseAngle : Option Bool := some false
  bounding : Str := []
  beforeLinkWs : Str := []
  beforeTitleWs : Str := []
  afterTitleWs : Str := []
  deriving Repr, DecidableEq

/-- `__parse_inline_link_properties(s, new_index, lhp)` → `(newer_index, lhp)`. -/
def parseInlineLinkProperties (s : Str) (i : Nat) (lhp : LHP) : Except LErr (Int × LHP) :=
  let lhp := { lhp with inlineTitle := some [], preInlineTitle := some [], bounding := [], beforeTitleWs := [], afterTitleWs := [] }
  match parseLinkDestination s i with
  | .error e => .error e
  | .ok d =>
    let lhp := { lhp with inlineLink := d.exLink, preInlineLink := d.preLink, didUseAngle := d.angle }
    let afterDest : Except LErr (Int × LHP) :=
      if d.newIndex != -1 then
        match extractAsciiWsVerified s d.newIndex.toNat with
        | .error e => .error e
        | .ok (n1, ws) =>
          let lhp := { lhp with beforeTitleWs := ws }
          if isCharAtNot s n1 ')' then
            match parseLinkTitle s n1 with
            | .error e => .error e
            | .ok (t, pt, n2, b) => .ok (n2, { lhp with inlineTitle := t, preInlineTitle := pt, bounding := b })
          else .ok (n1, lhp)
      else .ok (-1, lhp)
    match afterDest with
    | .error e => .error e
    | .ok (n, lhp) =>
      if n != -1 then
        match extractAsciiWsVerified s n.toNat with
        | .error e => .error e
        | .ok (n3, ws) => .ok (n3, { lhp with afterTitleWs := ws })
      else .ok (n, lhp)

/-- `__process_inline_link_body_final(newer_index, s, None, did_use_angle_start)`. -/
def processInlineLinkBodyFinal (s : Str) (n : Int) (angle : Option Bool) : Except LErr (Int × Bool) :=
  if n != -1 then
    match angle with
    | none => .error .assertion               -- "If index is not -1, did_use_angle_start must be defined."
    | some a => if isCharAt s n.toNat ')' then .ok (n + 1, a) else .ok (-1, a)
  else .ok (n, false)

/-- `__process_inline_link_body(s, new_index, tabified_text=None, lhp)` with `s[new_index] == "("`
→ `(newer_index, lhp)`. -/
def processInlineLinkBody (s : Str) (i : Nat) : Except LErr (Int × LHP) :=
  match extractAsciiWsVerified s (i + 1) with
  | .error e => .error e
  | .ok (n0, ws) =>
    let lhp : LHP := { beforeLinkWs := ws }
    let r : Except LErr (Int × LHP) :=
      if !isCharAt s n0 ')' then parseInlineLinkProperties s n0 lhp
      else .ok (n0, lhp)
    match r with
    | .error e => .error e
    | .ok (n, lhp) =>
      match processInlineLinkBodyFinal s n lhp.didUseAngle with
      | .error e => .error e
      | .ok (n', a) => .ok (n', { lhp with didUseAngle := some a })

/-! ## link_start_markdown_token.py: what the Markdown regenerator writes for the body of an inline link -/

/-- `active_link_uri` / `active_link_title`: `pre or processed` where `pre` was blanked when equal to `processed`
(`LinkCreateHelper`). -/
def activeOf (pre processed : Option Str) : Str :=
  let pre' : Str := if pre == processed then [] else pre.getD []
  if !pre'.isEmpty then pre' else processed.getD []

/-- `__rehydrate_inline_link_text_from_token_type_inline` from `"("` on (the label part before it is the text of the link). -/
def rehydrateInlineBody (l : LHP) : Str :=
  let uri := activeOf l.preInlineLink l.inlineLink
  let title := activeOf l.preInlineTitle l.inlineTitle
  let dest := if l.didUseAngle == some true then '<' :: uri ++ ['>'] else uri
  let titlePart : Str :=
    if !title.isEmpty then
      let (pre, suf) : Char × Char :=
        if l.bounding == ['\''] then ('\'', '\'') else if l.bounding == ['('] then ('(', ')') else ('"', '"')
      pre :: title ++ suf :: l.afterTitleWs
    else []
  '(' :: l.beforeLinkWs ++ dest ++ l.beforeTitleWs ++ titlePart ++ [')']

/-! ## link reference definitions -/

/-- `LinkParseHelper.extract_link_destination(line, start, is_blank_line)` →
`(ok, index, inline_link, pre_inline_link, prefix_whitespace, inline_raw_link)`. -/
def extractLinkDestination (s : Str) (start : Nat) (blank : Bool) :
    Except LErr (Bool × Int × Option (Option Str × Option Str × Str × Option Str)) :=
  match collectWhileOneOfVerifiedL s start asciiWs with
  | .error e => .error e
  | .ok (aw, prefixWs) =>
    if aw == s.length && !blank then .ok (false, aw, none)
    else
      match parseLinkDestination s aw with
      | .error e => .error e
      | .ok d =>
        if d.newIndex == -1 then .ok (false, -1, none)
        else .ok (true, d.newIndex, some (d.exLink, d.preLink, prefixWs, d.raw))

/-- `LinkParseHelper.extract_link_title(line, new_index, is_blank_line)` →
`(ok, index, inline_title, pre_inline_title, ex_ws, line[start:new_index])`. -/
def extractLinkTitle (s : Str) (i : Nat) (blank : Bool) :
    Except LErr (Bool × Int × Option (Str × Str × Str × Str)) :=
  match extractAsciiWsVerified s i with
  | .error e => .error e
  | .ok (ni, ws) =>
    if ni == s.length && !blank then .ok (false, ni, none)
    else if !ws.isEmpty && ni < s.length then
      match parseLinkTitle s ni with
      | .error e => .error e
      | .ok (t, pt, n2, _) =>
        match t, pt with
        | some t, some pt =>
          if n2 == -1 then .ok (false, n2, none)
          else .ok (true, n2, some (t, pt, ws, pySlice s ni n2))
        | _, _ => .ok (false, n2, none)
    else .ok (true, ni, some ([], [], ws, slice s ni ni))

/-- `__verify_link_definition_end(line, new_index)` → `(ok, index, ex_ws)`. -/
def verifyLinkDefinitionEnd (s : Str) (i : Nat) : Except LErr (Bool × Int × Option Str) :=
  match extractAsciiWsVerified s i with
  | .error e => .error e
  | .ok (ni, ws) => if ni < s.length then .ok (false, -1, none) else .ok (true, ni, some ws)

/-- `remaining_line.find("\\", start)`. -/
def findBsFrom (r : Str) (start : Nat) : Option Nat := indexAnyOf r [BS] start

/-- the `while found_index != -1 and found_index < size - 1` loop of `__is_link_reference_definition`. -/
def lrdBsLoop (r : Str) : Nat → Option Nat → Except LErr (Option Nat)
  | 0, _ => .error .fuel
  | fuel + 1, found =>
    match found with
    | none => .ok none
    | some f => if f + 1 < r.length then lrdBsLoop r fuel (findBsFrom r (f + 2)) else .ok (some f)

/-- `__is_link_reference_definition(parser_state, line, start_index, extracted_whitespace)`; `inPara` = the stack top is
a paragraph. -/
def isLinkReferenceDefinition (line : Str) (start : Nat) (ws : Str) (inPara : Bool) : Except LErr Bool :=
  if inPara then .ok false
  else if lenLe ws 3 && isCharAtOneOf line start ['['] then
    let remaining := line.drop (start + 1)
    match remaining.getLast? with
    | some c =>
      if c == BS then
        -- NB the first `find` starts at the *caller's* `start_index` (the variable is re-used before it is reset to 0)
        match lrdBsLoop remaining (remaining.length + 1) (findBsFrom remaining start) with
        | .error e => .error e
        | .ok found => .ok (found != some (remaining.length - 1))
      else .ok true
    | none => .ok true
  else .ok false

/-- the raw pieces `LinkReferenceInfo` keeps of a definition. -/
structure LrdResult where
  newIndex : Int
  label : Str                 -- collected_destination (raw label)
  normLabel : Str
  destWs : Str                -- line_destination_whitespace
  link : Option Str
  rawLink : Option Str
  title : Str
  titleWs : Str               -- line_title_whitespace (after the trailing-newline trim)
  rawTitle : Str
  endWs : Str
  deriving Repr, DecidableEq

/-- `parse_link_reference_definition(parser_state, line, start_index, extracted_whitespace, is_blank_line)`
→ `(did_start, new_index, tuple)`. -/
def parseLinkReferenceDefinition (line : Str) (start : Nat) (ws : Str) (blank inPara : Bool) :
    Except LErr (Bool × Int × Option LrdResult) :=
  match isLinkReferenceDefinition line start ws inPara with
  | .error e => .error e
  | .ok false => .ok (false, -1, none)
  | .ok true =>
    match extractLinkLabel line (start + 1) with
    | .error e => .error e
    | .ok (false, ni, _) => .ok (false, ni, none)
    | .ok (true, _, none) => .error .assertion       -- "if extract_link_label returned true, this must be defined."
    | .ok (true, ni, some label) =>
      match extractLinkDestination line ni.toNat blank with
      | .error e => .error e
      | .ok (false, ni, _) => .ok (false, ni, none)
      | .ok (true, _, none) => .error .assertion
      | .ok (true, ni, some (link, _, destWs, rawLink)) =>
        match extractLinkTitle line ni.toNat blank with
        | .error e => .error e
        | .ok (false, ni, _) => .ok (false, ni, none)
        | .ok (true, _, none) => .error .assertion
        | .ok (true, ni, some (title, _, titleWs, rawTitle)) =>
          match verifyLinkDefinitionEnd line ni.toNat with
          | .error e => .error e
          | .ok (false, ni, _) => .ok (false, ni, none)
          | .ok (true, _, none) => .error .assertion
          | .ok (true, ni, some endWs) =>
            let norm := normalizeLinkLabel label
            if norm.isEmpty then .ok (false, -1, none)
            else
              let titleWs' := if title.isEmpty && titleWs.getLast? == some NL then titleWs.dropLast else titleWs
              .ok (true, ni, some ⟨ni, label, norm, destWs, link, rawLink, title, titleWs', rawTitle, endWs⟩)

end Verif.Model.LinkRecog
