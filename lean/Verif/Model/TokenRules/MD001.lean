import Verif.Model.TokenRules.Basic
/-
  MD001 heading-increment — faithful model of pymarkdown/plugins/rule_md_001.py :: RuleMd001
  (`starting_new_file`, `next_token`; configuration `front_matter_title`).
  State: `__last_heading_count` (an int, 0 = no heading yet; Python truthiness is kept: a `hash_count` of 0
  is skipped, a negative one — a SetExt token with an unknown underline character has −1 — is remembered).
-/
namespace Verif.Model.TokenRules

structure C001 where
  /-- `front_matter_title` (default "title") -/
  title : Str := ['t', 'i', 't', 'l', 'e']
  deriving Repr

/-- the `hash_count` local of `next_token` (`none` = Python `None`) -/
def hash001 (c : C001) (t : Tok) : Option Int :=
  match t.kind with
  | .atx | .setext => some t.hashCount
  | .frontMatter => if t.keys.contains c.title then some 1 else none
  | _ => none

def extra001 (last h : Int) : Str :=
  "Expected: h".toList ++ pyStr (last + 1) ++ "; Actual: h".toList ++ pyStr h

def next001 (c : C001) (fm : Bool) (last : Int) (i : Nat) (t : Tok) : Except Err (Int × List Report × List FixReq) :=
  match hash001 c t with
  | none => .ok (last, [], [])
  | some h =>
    if h = 0 then .ok (last, [], [])
    else if last ≠ 0 ∧ h > last ∧ h - last > 1 then
      if fm then .ok (last + 1, [], [⟨i, .hashCount, .int (last + 1)⟩])
      else .ok (h, [⟨t.line, t.col, some (extra001 last h)⟩], [])
    else .ok (h, [], [])

def md001 : Rule C001 Int := ⟨fun _ => 0, next001⟩

/-- what the fix does, written directly: a heading whose level exceeds the (already fixed) level of the
    previous heading by more than one gets that level + 1 -/
def clamp001 (c : C001) : Int → List Tok → List Tok
  | _, [] => []
  | last, t :: ts =>
    match hash001 c t with
    | none => t :: clamp001 c last ts
    | some h =>
      if h = 0 then t :: clamp001 c last ts
      else if last ≠ 0 ∧ h > last ∧ h - last > 1 then { t with hashCount := last + 1 } :: clamp001 c (last + 1) ts
      else t :: clamp001 c h ts

/-- the documented condition over the heading levels in document order: a heading is reported iff its level
    exceeds the level of the heading before it by more than one -/
def jumps001 : Option Int → List (Int × Tok) → List Tok
  | _, [] => []
  | none, (h, _) :: hs => jumps001 (some h) hs
  | some p, (h, t) :: hs => (if h > p + 1 then [t] else []) ++ jumps001 (some h) hs

/-- the headings of a stream with their levels (front matter with a title counts as level 1) -/
def headings001 (c : C001) (toks : List Tok) : List (Int × Tok) :=
  toks.filterMap (fun t => match hash001 c t with
    | some h => if h = 0 then none else some (h, t)
    | none => none)

/-- well-formedness of a real stream: ATX levels 1–6, SetExt levels 1–2 -/
def wf001 (t : Tok) : Bool :=
  match t.kind with
  | .atx => decide (1 ≤ t.hashCount ∧ t.hashCount ≤ 6)
  | .setext => decide (1 ≤ t.hashCount ∧ t.hashCount ≤ 2)
  | _ => true

end Verif.Model.TokenRules
