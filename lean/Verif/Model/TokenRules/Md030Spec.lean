import Verif.Model.TokenRules.Md030
/-
  MD030 list-marker-space — what the rule SHOULD report, read from /repo/newdocs/src/plugins/rule_md030.md, stated on the TREE of
  a token stream (independent of the rule's stack machine and of `ListTracker`):

    "This rule triggers when a List Item element is not followed by N space characters before the text starts"
    "`ol_single` / `ol_multi` … for Ordered List elements, `ul_single` / `ul_multi` … for Unordered List elements.
     a `single` List Item is one that does not contain two or more paragraphs and a `double` List Item is one that does"

  Tree: a list is its start token, its body, its end token; a new-list-item token inside the body starts the next item of THAT list.
  An item "contains" the paragraphs that lie directly in it — in its own part of the body, block quotes included (their tokens are
  leaves here), nested lists excluded (`directParas030`; the page's own example needs this reading: with two-paragraph items counted
  through nested lists `+ second item` of the example would be a multi item).  `deepParas` is the other reading; the two differ
  (`md030_spec_deep_differs` in Props).
  The number of columns between the marker and the text (`actual030`): `indent_level` is the 0-based column of the text and
  `column_number` the 1-based column of the marker, so their difference is the spaces plus the marker's width minus one — a bullet is
  one column wide (`- a`: 2 − 1 = 1), an ordered marker is its digits plus the delimiter, so the digits (`list_start_content`) are
  subtracted (`1. a`: 3 − 1 − 1 = 1).  The page does not say how the columns are counted; this is the count under which its four
  examples hold.
  Reports are listed in the order in which the lists END in the stream (inner lists before the list that contains them).
-/
namespace Verif.Model.TokenRules

inductive Blk030 where
  /-- a token that is neither a list start, a list end nor a new-list-item token -/
  | leaf (t : Tok2)
  /-- a new-list-item token: the next item of the enclosing list starts here -/
  | item (t : Tok2)
  | list (start : Tok2) (body : List Blk030) (stop : Tok2)

mutual
def Blk030.flatten : Blk030 → List Tok2
  | .leaf t => [t]
  | .item t => [t]
  | .list s body e => s :: (flattenL030 body ++ [e])
def flattenL030 : List Blk030 → List Tok2
  | [] => []
  | b :: bs => b.flatten ++ flattenL030 bs
end

def isListTok030 (k : Kind) : Bool :=
  decide (k = .ulist ∨ k = .olist ∨ k = .ulistEnd ∨ k = .olistEnd ∨ k = .li)

mutual
/-- the tree's tokens have the kinds their places demand -/
def Blk030.wk : Blk030 → Bool
  | .leaf t => !isListTok030 t.kind
  | .item t => decide (t.kind = .li)
  | .list s body e => decide (s.kind = .ulist ∨ s.kind = .olist) && decide (e.kind = .ulistEnd ∨ e.kind = .olistEnd) && wkL030 body
def wkL030 : List Blk030 → Bool
  | [] => true
  | b :: bs => b.wk && wkL030 bs
end

def Blk030.isItem : Blk030 → Bool
  | .item _ => true
  | _ => false

def Blk030.isPara : Blk030 → Bool
  | .leaf t => decide (t.kind = .para)
  | _ => false

/-- the paragraphs directly inside a run of blocks -/
def directParas030 (bs : List Blk030) : Nat := bs.countP Blk030.isPara

/-- split a list body at its new-list-item tokens: the contents of the first item, then every further item token with its contents -/
def splitItems030 : List Blk030 → List Blk030 × List (Tok2 × List Blk030)
  | [] => ([], [])
  | .item t :: bs => ([], (t, (splitItems030 bs).1) :: (splitItems030 bs).2)
  | b :: bs => (b :: (splitItems030 bs).1, (splitItems030 bs).2)

/-- the items of a list: marker token (the list start token for the first one) and contents -/
def items030 (start : Tok2) (body : List Blk030) : List (Tok2 × List Blk030) :=
  (start, (splitItems030 body).1) :: (splitItems030 body).2

/-- the columns between the end of the marker and the text -/
def actual030 (ordered : Bool) (t : Tok2) : Int :=
  t.indent - t.col - (if ordered then (t.content.length : Int) else 0)

def wanted030 (c : C030) (ordered multi : Bool) : Int :=
  match ordered, multi with
  | false, false => c.ulSingle
  | false, true => c.ulMulti
  | true, false => c.olSingle
  | true, true => c.olMulti

def msg030 (want actual : Int) : Str :=
  "Expected: ".toList ++ pyStr want ++ "; Actual: ".toList ++ pyStr actual

/-- the reports for one list (`paras` = how an item's paragraphs are counted) -/
def specList030 (paras : List Blk030 → Nat) (c : C030) (start : Tok2) (body : List Blk030) : List Report :=
  let ordered := decide (start.kind = .olist)
  (items030 start body).filterMap (fun it =>
    let want := wanted030 c ordered (decide (2 ≤ paras it.2))
    if actual030 ordered it.1 ≠ want then some ⟨it.1.line, it.1.col, some (msg030 want (actual030 ordered it.1))⟩ else none)

mutual
def Blk030.spec (c : C030) : Blk030 → List Report
  | .leaf _ => []
  | .item _ => []
  | .list s body _ => specL030 c body ++ specList030 directParas030 c s body
def specL030 (c : C030) : List Blk030 → List Report
  | [] => []
  | b :: bs => b.spec c ++ specL030 c bs
end

mutual
/-- every list of the tree, at any depth, as (start token, body); inner lists before the list that contains them -/
def Blk030.lists : Blk030 → List (Tok2 × List Blk030)
  | .leaf _ => []
  | .item _ => []
  | .list s body _ => listsL030 body ++ [(s, body)]
def listsL030 : List Blk030 → List (Tok2 × List Blk030)
  | [] => []
  | b :: bs => b.lists ++ listsL030 bs
end

mutual
/-- the other reading of "contains": paragraphs at any depth -/
def Blk030.deepParas : Blk030 → Nat
  | .leaf t => if t.kind = .para then 1 else 0
  | .item _ => 0
  | .list _ body _ => deepParasL030 body
def deepParasL030 : List Blk030 → Nat
  | [] => 0
  | b :: bs => b.deepParas + deepParasL030 bs
end

mutual
def Blk030.specDeep (c : C030) : Blk030 → List Report
  | .leaf _ => []
  | .item _ => []
  | .list s body _ => specDeepL030 c body ++ specList030 deepParasL030 c s body
def specDeepL030 (c : C030) : List Blk030 → List Report
  | [] => []
  | b :: bs => b.specDeep c ++ specDeepL030 c bs
end

end Verif.Model.TokenRules
