import Verif.Model.TokenRules.Basic2
/-
  MD023 heading-start-left — faithful model of
    pymarkdown/plugins/rule_md_023.py :: RuleMd023
      starting_new_file (on a fresh instance)            → `init023`
      next_token                                         → `next023`
      __handle_atx_heading                               → `atx023`
      __handle_setext_heading                            → `setext023`
      __handle_setext_heading_end                        → `setextEnd023`
      __handle_text / __handle_text_split / __handle_text_split_end → `text023`, `loop023`, `split023`, `splitEnd023`
      __fix_adjustments                                  → `fixAdj023`
    pymarkdown/plugins/utils/container_token_manager.py :: ContainerTokenManager (all of it)
      premanage_container_tokens                         → `cmPre023`
      manage_container_tokens                            → `cmPost023`
      __manage_leaf_tokens (+ __is_simple_delta, __is_remember_leaf_token, __is_clear_leaf_token, __manage_leaf_tokens_text,
      __manage_lrd_token)                                → `cmLeaf023`, `leafDelta023`

  State = what the instance keeps between `next_token` calls.  A stored token OBJECT is represented by its index in the stream
  (identity) together with exactly the fields the rule ever reads from it: the container manager (`container_token_stack` — `Cont023`:
  index, block quote or list, `leading_spaces`, `indent_level`; TOP FIRST; `bq_line_index` and `list_adjust_map` — dicts keyed by the
  stack length; `last_leaf_token` — only its class is read), `__setext_start_token` (line and column: the report position),
  `__any_leading_whitespace_detected`, `__seen_first_line_of_setext`, `__last_skipped_text_token` (index, `token_text`,
  `end_whitespace`), `__leading_spaces_split` (dict keyed by the list start token = its index in the stream).
  `ContainerTokenManager.clear()` does NOT clear `list_adjust_map`: the model (and the tie) start every stream on a fresh instance.

  Explicit failures: `KeyError` (`del` / `+=` on the two dicts), `IndexError` (`del stack[-1]`, `ex_ws[0]`, the assignment into the
  split `leading_spaces`; a NEGATIVE index wraps as in Python), `AssertionError` (`leading_spaces is not None`,
  `len(split_text) == len(split_end_whitespace)`, `__setext_start_token is not None`, the text-under-leaf assert).
  In fix mode `add_triggered_rule` drops the report; in scan mode `register_fix_token_request` drops the request.
  NOTE `__handle_text_split_end` calls `__fix_adjustments` in SCAN mode too (its exceptions are reachable there).
-/
namespace Verif.Model.TokenRules

/-! ## a Python `dict` with `int` keys (never iterated: order is immaterial) -/
def dget {α : Type} (d : List (Nat × α)) (k : Nat) : Option α :=
  match d with
  | [] => none
  | (k', v) :: r => if k' = k then some v else dget r k

def ddel {α : Type} (d : List (Nat × α)) (k : Nat) : List (Nat × α) := d.filter (fun p => p.1 != k)

def dset {α : Type} (d : List (Nat × α)) (k : Nat) (v : α) : List (Nat × α) := (k, v) :: ddel d k

/-- `l[i] = v` for a Python list: negative indices count from the end, anything else outside is `IndexError` -/
def pySet {α : Type} (l : List α) (i : Int) (v : α) : Option (List α) :=
  if 0 ≤ i then (if i.toNat < l.length then some (l.set i.toNat v) else none)
  else if -(l.length : Int) ≤ i then some (l.set (i + l.length).toNat v) else none

/-- the alert character `\a` of the replacement markers `\a original \a replacement \a` -/
def alertCh : Char := '\x07'
/-- `ParserHelper.whitespace_split_character` -/
def wsSplitCh : Char := '\x02'

/-- the text behind the first occurrence of `c` -/
def dropThrough (c : Char) : Str → Option Str
  | [] => none
  | x :: xs => if x = c then some xs else dropThrough c xs

/-- `__handle_text_split`: `next_split_text[end_index + 1:]` with `get_replacement_indices(next_split_text, 0)` for a line that starts with
    the alert character: the marker is cut when it is complete; `end_index == -1` (no second or third alert character) keeps the line -/
def stripMarker (s : Str) : Str :=
  match s with
  | [] => []
  | _ :: r =>
    match dropThrough alertCh r with
    | none => s
    | some r1 =>
      match dropThrough alertCh r1 with
      | none => s
      | some r2 => r2

def startsAlert (s : Str) : Bool :=
  match s with
  | c :: _ => c == alertCh
  | [] => false

/-! ## ContainerTokenManager -/
/-- a token of `container_token_stack`: its index and what is read from it -/
structure Cont023 where
  idx : Nat
  /-- `is_block_quote_start` (otherwise a list start) -/
  isBq : Bool
  /-- `leading_spaces` -/
  leading : Option Str
  /-- `indent_level` -/
  indent : Int
  deriving DecidableEq, Repr

def cont023 (i : Nat) (t : Tok2) : Cont023 := ⟨i, t.kind == .bquote, t.leading, t.indent⟩

structure CM023 where
  /-- `container_token_stack`, top first -/
  stack : List Cont023 := []
  /-- `bq_line_index` -/
  bq : List (Nat × Int) := []
  /-- `list_adjust_map` -/
  lam : List (Nat × Int) := []
  /-- class of `last_leaf_token` -/
  lastLeaf : Option Kind := none
  deriving DecidableEq, Repr

def isSimpleDelta023 : Kind → Bool
  | .blank | .tbreak | .atx | .paraEnd | .hardBreak => true
  | _ => false

def isRemember023 : Kind → Bool
  | .setext | .icode | .html => true
  | _ => false

def isClear023 : Kind → Bool
  | .icodeEnd | .htmlEnd | .setextEnd | .fenceEnd => true
  | _ => false

/-- `__manage_lrd_token` -/
def lrdDelta023 (t : Tok2) : Int := 1 + countNl t.text + countNl t.destWs + countNl t.titleWs + countNl t.titleRaw

/-- `__manage_leaf_tokens_text` -/
def textDelta023 (last : Kind) (t : Tok2) : Except Err2 Int :=
  if last = .setext then
    match t.endWs with
    | some e => .ok (countNl e)
    | none => .ok 0
  else if last = .html ∨ last = .icode ∨ last = .fence then .ok (countNl t.text + 1)
  else .error .assertion

/-- the branch chain of `__manage_leaf_tokens`: (`bq_delta`, new `last_leaf_token`) -/
def leafDelta023 (last : Option Kind) (t : Tok2) : Except Err2 (Int × Option Kind) :=
  if isSimpleDelta023 t.kind then .ok (1, last)
  else if isRemember023 t.kind then .ok (0, some t.kind)
  else if isClear023 t.kind then .ok (if t.kind = .setextEnd ∨ t.kind = .fenceEnd then 1 else 0, none)
  else if t.kind = .fence then .ok (1, some .fence)
  else if t.kind = .para then .ok (countNl t.ws, last)
  else if t.kind = .lrd then .ok (lrdDelta023 t, last)
  else if t.kind = .text then
    match last with
    | some l =>
      match textDelta023 l t with
      | .ok d => .ok (d, last)
      | .error e => .error e
    | none => .ok (0, last)
  else .ok (0, last)

/-- `self.bq_line_index[len(self.container_token_stack)] += d` -/
def bqAdd023 (cm : CM023) (d : Int) : Except Err2 CM023 :=
  match dget cm.bq cm.stack.length with
  | none => .error .keyError
  | some v => .ok { cm with bq := dset cm.bq cm.stack.length (v + d) }

/-- `__manage_leaf_tokens` -/
def cmLeaf023 (cm : CM023) (t : Tok2) : Except Err2 CM023 :=
  match leafDelta023 cm.lastLeaf t with
  | .error e => .error e
  | .ok (d, ll) => bqAdd023 { cm with lastLeaf := ll } d

/-- `premanage_container_tokens` -/
def cmPre023 (cm : CM023) (t : Tok2) : Except Err2 CM023 :=
  if !cm.stack.isEmpty && cm.lastLeaf == some .setext && t.kind == .setextEnd then bqAdd023 cm 1 else .ok cm

/-- `del self.container_token_stack[-1]` -/
def popStack023 (cm : CM023) : Except Err2 CM023 :=
  match cm.stack with
  | [] => .error .indexError
  | _ :: r => .ok { cm with stack := r }

/-- `manage_container_tokens` -/
def cmPost023 (cm : CM023) (i : Nat) (t : Tok2) : Except Err2 CM023 :=
  match t.kind with
  | .bquote =>
    let st := cont023 i t :: cm.stack
    .ok { cm with stack := st, bq := dset cm.bq st.length 0 }
  | .bquoteEnd =>
    match dget cm.bq cm.stack.length with
    | none => .error .keyError
    | some _ => popStack023 { cm with bq := ddel cm.bq cm.stack.length }
  | .ulist | .olist =>
    let st := cont023 i t :: cm.stack
    .ok { cm with stack := st, bq := dset cm.bq st.length 0, lam := dset cm.lam st.length 1 }
  | .li =>
    match dget cm.lam cm.stack.length with
    | none => .error .keyError
    | some v => .ok { cm with lam := dset cm.lam cm.stack.length (v + 1) }
  | .ulistEnd | .olistEnd =>
    match dget cm.bq cm.stack.length, dget cm.lam cm.stack.length with
    | none, _ => .error .keyError
    | some _, none => .error .keyError
    | some _, some _ =>
      popStack023 { cm with bq := ddel cm.bq cm.stack.length, lam := ddel cm.lam cm.stack.length }
  | _ => if cm.stack.isEmpty then .ok cm else cmLeaf023 cm t

/-! ## the rule -/
abbrev Cache023 := List (Nat × List Str)

structure St023 where
  cm : CM023 := {}
  /-- `__setext_start_token`: its `line_number`, `column_number` -/
  setext : Option (Int × Int) := none
  /-- `__any_leading_whitespace_detected` -/
  anyWs : Bool := false
  /-- `__seen_first_line_of_setext` -/
  seenFirst : Bool := false
  /-- `__last_skipped_text_token`: index, `token_text`, `end_whitespace` -/
  lastSkipped : Option (Nat × Str × Option Str) := none
  /-- `__leading_spaces_split` -/
  cache : Cache023 := []
  deriving DecidableEq, Repr

def spaces023 (n : Int) : Str := List.replicate n.toNat ' '

/-- `__fix_adjustments(ex_ws, ind)`: the new cache and the returned whitespace -/
def fixAdj023 (cm : CM023) (cache : Cache023) (exWs : Str) (ind : Int) : Except Err2 (Cache023 × Str) :=
  match cm.stack with
  | [] => .ok (cache, [])
  | ct :: _ =>
    match exWs with
    | [] => .error .indexError
    | c :: _ =>
      if ct.isBq then .ok (cache, if c = '\t' then [' '] else [])
      else if c = '\t' then
        match dget cm.bq cm.stack.length with
        | none => .error .keyError
        | some track =>
          match dget cm.lam cm.stack.length with
          | none => .error .keyError
          | some adj =>
            match (match dget cache ct.idx with
                   | some sp => some sp
                   | none => ct.leading.map (splitOn1 '\n')) with
            | none => .error .assertion
            | some sp =>
              match pySet sp (track - adj + ind) (spaces023 ct.indent) with
              | none => .error .indexError
              | some sp' => .ok (dset cache ct.idx sp', [])
      else .ok (cache, [])

/-- the local variables of `__handle_text` that the per-line loop updates, with the two state fields it writes -/
structure Loop023 where
  anyWs : Bool
  seenFirst : Bool
  cache : Cache023
  newText : List Str := []
  newEnd : List Str := []
  deriving DecidableEq, Repr

/-- `split_next_split = next_split_end_whitespace.split("\x02")`, `len(split_next_split) == 2 and split_next_split[0]`:
    a later-line entry `leading \x02 trailing` of `end_whitespace` with a non-empty leading part -/
def leadSplit023 (l : Str) : Option (Str × Str) :=
  match splitOn1 wsSplitCh l with
  | [a, b] => if a.isEmpty then none else some (a, b)
  | _ => none

/-- the `elif` / `else` branches of `__handle_text_split_end`: a non-empty entry gets a `\x02` in front -/
def plainEnd023 (L : Loop023) (nse : Str) : Loop023 :=
  { L with newEnd := L.newEnd ++ [if nse.isEmpty then nse else wsSplitCh :: nse] }

/-- `__handle_text_split_end` -/
def splitEnd023 (cm : CM023) (L : Loop023) (nse : Str) (i : Nat) : Except Err2 Loop023 :=
  match leadSplit023 nse with
  | some (a, b) =>
    match fixAdj023 cm L.cache a i with
    | .error e => .error e
    | .ok (cache', fs) =>
      .ok { L with anyWs := true, cache := cache',
                   newEnd := L.newEnd ++ [if fs ++ wsSplitCh :: b = [wsSplitCh] then [] else fs ++ wsSplitCh :: b] }
  | none => .ok (plainEnd023 L nse)

/-- the `if context.in_fix_mode:` block of `__handle_text_split`: a line that starts with a replacement marker loses it (and
    `__fix_adjustments("\t", ind)` is called for its side effect on the list's `leading_spaces`) -/
def stripLine023 (fm : Bool) (cm : CM023) (isEnd : Bool) (L : Loop023) (nst : Str) : Except Err2 Loop023 :=
  if fm then
    if startsAlert nst then
      match fixAdj023 cm L.cache ['\t'] (if isEnd then -1 else 0) with
      | .error e => .error e
      | .ok (cache', _) => .ok { L with cache := cache', newText := L.newText ++ [stripMarker nst] }
    else .ok { L with newText := L.newText ++ [nst] }
  else .ok L

/-- `__handle_text_split` for line `i`: `nst` = `split_text[i]`, `nse` = `split_end_whitespace[i]` (`none`: no `end_whitespace`) -/
def split023 (fm : Bool) (cm : CM023) (isEnd : Bool) (L : Loop023) (nst : Str) (nse : Option Str) (i : Nat) : Except Err2 Loop023 :=
  match stripLine023 fm cm isEnd L nst with
  | .error e => .error e
  | .ok L1 =>
    match nse with
    | some e =>
      if L1.seenFirst then splitEnd023 cm L1 e i
      else .ok { L1 with seenFirst := true, newEnd := L1.newEnd ++ [e] }
    | none => .ok { L1 with seenFirst := true }

/-- `for split_index in range(len(split_text))`; the lengths agree (asserted before): running out of `end_whitespace` lines is the
    `IndexError` of `split_end_whitespace[split_index]` -/
def loop023 (fm : Bool) (cm : CM023) (isEnd : Bool) : Loop023 → Nat → List Str → Option (List Str) → Except Err2 Loop023
  | L, _, [], _ => .ok L
  | L, i, x :: xs, none =>
    match split023 fm cm isEnd L x none i with
    | .error e => .error e
    | .ok L' => loop023 fm cm isEnd L' (i + 1) xs none
  | _, _, _ :: _, some [] => .error .indexError
  | L, i, x :: xs, some (e :: es) =>
    match split023 fm cm isEnd L x (some e) i with
    | .error e => .error e
    | .ok L' => loop023 fm cm isEnd L' (i + 1) xs (some es)

def nl023 : Str := ['\n']

/-- `__handle_text(context, token, is_setext_end)` -/
def text023 (fm : Bool) (s : St023) (i : Nat) (text : Str) (endWs : Option Str) (isEnd : Bool) :
    Except Err2 (St023 × List FixReq2) :=
  if s.setext.isNone || (s.anyWs && !fm) || ((endWs.getD []).isEmpty && !isEnd) then
    .ok ({ s with lastSkipped := some (i, text, endWs) }, [])
  else if !(fm || !s.anyWs) then .error .assertion
  else
    let st := splitOn1 '\n' text
    let se := endWs.map (splitOn1 '\n')
    if (match se with | some e => decide (e.length ≠ st.length) | none => false) then .error .assertion
    else
      match loop023 fm s.cm isEnd { anyWs := s.anyWs, seenFirst := s.seenFirst, cache := s.cache } 0 st se with
      | .error e => .error e
      | .ok L =>
        let s' : St023 := { s with lastSkipped := none, anyWs := L.anyWs, seenFirst := L.seenFirst, cache := L.cache }
        if fm then
          let ne := joinWith nl023 L.newEnd
          let nt := joinWith nl023 L.newText
          .ok (s', (match endWs with
                    | some e => if ne ≠ e then [⟨i, .endWhitespace, .str ne⟩] else []
                    | none => []) ++
                   (if nt ≠ text then [⟨i, .base .tokenText, .str nt⟩] else []))
        else .ok (s', [])

/-- `__handle_atx_heading` -/
def atx023 (fm : Bool) (s : St023) (i : Nat) (t : Tok2) : Except Err2 (St023 × Out) :=
  if t.ws.isEmpty then .ok (s, {})
  else if fm then
    match fixAdj023 s.cm s.cache t.ws 0 with
    | .error e => .error e
    | .ok (cache', w) => .ok ({ s with cache := cache' }, { reqs := [⟨i, .base .extractedWhitespace, .str w⟩] })
  else .ok (s, { reports := [⟨t.line, t.col, none⟩] })

/-- `__handle_setext_heading` -/
def setext023 (fm : Bool) (s : St023) (i : Nat) (t : Tok2) : St023 × Out :=
  ({ s with setext := some (t.line, t.col), anyWs := !t.ws.isEmpty, seenFirst := false, lastSkipped := none },
   { reqs := match t.ws with
             | c :: _ => if fm then [⟨i, .base .extractedWhitespace, .str (if c = '\t' then [' '] else [])⟩] else []
             | [] => [] })

/-- `__handle_setext_heading_end`, first statement: in fix mode the last skipped text token is handled again with `is_setext_end=True` -/
def reHandle023 (fm : Bool) (s : St023) : Except Err2 (St023 × List FixReq2) :=
  match s.lastSkipped with
  | some (j, tx, ew) => if fm then text023 fm s j tx ew true else .ok (s, [])
  | none => .ok (s, [])

/-- `__handle_setext_heading_end`, the `if token.extracted_whitespace:` block (the underline's indentation) -/
def endWs023 (fm : Bool) (s1 : St023) (i : Nat) (t : Tok2) : Except Err2 (St023 × List FixReq2) :=
  if t.ws.isEmpty then .ok (s1, [])
  else if fm then
    match fixAdj023 s1.cm s1.cache t.ws 0 with
    | .error e => .error e
    | .ok (cache', w) => .ok ({ s1 with anyWs := true, cache := cache' }, [⟨i, .base .extractedWhitespace, .str w⟩])
  else .ok ({ s1 with anyWs := true }, [])

/-- `__handle_setext_heading_end`, the report at the SetExt START token -/
def endReport023 (fm : Bool) (s2 : St023) (reqs : List FixReq2) : Except Err2 (St023 × Out) :=
  if s2.anyWs then
    match s2.setext with
    | none => .error .assertion
    | some (line, col) =>
      .ok ({ s2 with setext := none }, { reports := if fm then [] else [⟨line, col, none⟩], reqs := reqs })
  else .ok ({ s2 with setext := none }, { reqs := reqs })

/-- `__handle_setext_heading_end` -/
def setextEnd023 (fm : Bool) (s : St023) (i : Nat) (t : Tok2) : Except Err2 (St023 × Out) :=
  match reHandle023 fm s with
  | .error e => .error e
  | .ok (s1, r1) =>
    match endWs023 fm s1 i t with
    | .error e => .error e
    | .ok (s2, r2) => endReport023 fm s2 (r1 ++ r2)

/-- the `if token.is_list_end` block of `next_token` -/
def listEnd023 (fm : Bool) (s : St023) (t : Tok2) : List FixReq2 :=
  if (t.kind = .ulistEnd ∨ t.kind = .olistEnd) ∧ fm = true then
    match t.startIdx with
    | some j =>
      match dget s.cache j with
      | some sp => [⟨j, .base .leadingSpaces, .str (joinWith nl023 sp)⟩]
      | none => []
    | none => []
  else []

/-- the heading / text dispatch of `next_token` -/
def dispatch023 (fm : Bool) (s : St023) (i : Nat) (t : Tok2) : Except Err2 (St023 × Out) :=
  match t.kind with
  | .atx => atx023 fm s i t
  | .setext => .ok (setext023 fm s i t)
  | .text =>
    match text023 fm s i t.text t.endWs false with
    | .error e => .error e
    | .ok (s', r) => .ok (s', { reqs := r })
  | .setextEnd => setextEnd023 fm s i t
  | _ => .ok (s, {})

def next023 (_c : Unit) (fm : Bool) (_all : List Tok2) (s : St023) (i : Nat) (t : Tok2) : Except Err2 (St023 × Out) :=
  match cmPre023 s.cm t with
  | .error e => .error e
  | .ok cm1 =>
    match dispatch023 fm { s with cm := cm1 } i t with
    | .error e => .error e
    | .ok (s2, o) =>
      let o' : Out := { o with reqs := o.reqs ++ listEnd023 fm s2 t }
      match cmPost023 s2.cm i t with
      | .error e => .error e
      | .ok cm3 => .ok ({ s2 with cm := cm3 }, o')

def init023 (_c : Unit) : St023 := {}

def md023 : Rule2 Unit St023 := ⟨init023, next023⟩

/-! ## the stream invariant of `md023_fix_ok` / `md023_scan_ok`

  `wf023` replays the container manager next to three bits of bookkeeping of its own (inside a SetExt heading?  the last text token the rule
  skipped in fix mode) and checks, token by token:
  * containers are properly nested: a block quote end closes a block quote, a list end closes a list AND names it (`startIdx`), a new list
    item arrives directly inside a list (otherwise `KeyError` / a second `leading_spaces` request for the same list);
  * a SetExt end token arrives inside a SetExt heading (otherwise the `assert self.__setext_start_token is not None`);
  * a text token of a SetExt heading with a non-empty `end_whitespace` has as many `end_whitespace` lines as text lines (the `assert`);
  * every TAB site directly inside a list — an ATX heading / SetExt underline whose whitespace starts with a TAB, a heading text line that
    starts with a replacement marker, a later heading line whose leading whitespace starts with a TAB — finds `leading_spaces` present and
    its line index `bq_line_index − list_adjust_map + ind` inside the split list (`idxOk023`; otherwise `AssertionError` / `IndexError`).
  The last item is stated over the container manager's own counters: that these counters are the right LINE numbers is the parser's side
  of the contract and is checked by the tie on every parsed stream (`|wf1`). -/
structure W023 where
  cm : CM023 := {}
  /-- between a SetExt start and its end -/
  inSetext : Bool := false
  /-- `token_text`, `end_whitespace` of the last text token that fix mode skipped -/
  lastSk : Option (Str × Option Str) := none
  deriving DecidableEq, Repr

/-- the index `__fix_adjustments` would use is inside the split `leading_spaces` (vacuous unless the innermost container is a list) -/
def idxOk023 (cm : CM023) (ind : Int) : Bool :=
  match cm.stack with
  | [] => true
  | ct :: _ =>
    ct.isBq ||
    (match ct.leading, dget cm.bq cm.stack.length, dget cm.lam cm.stack.length with
     | some l, some track, some adj =>
       decide (-((splitOn1 '\n' l).length : Int) ≤ track - adj + ind ∧ track - adj + ind < ((splitOn1 '\n' l).length : Int))
     | _, _, _ => false)

def tabHead023 (ws : Str) : Bool :=
  match ws with
  | c :: _ => c == '\t'
  | [] => false

/-- the leading part of a later-line entry of `end_whitespace` -/
def leadPart023 (l : Str) : Option Str := (leadSplit023 l).map (·.1)

/-- line by line: the TAB sites of one text token (`ind0` = the `ind` of a marker line) -/
def textSites023 (cm : CM023) (ind0 : Int) : Nat → List Str → Option (List Str) → Bool
  | _, [], _ => true
  | k, x :: xs, none => (!startsAlert x || idxOk023 cm ind0) && textSites023 cm ind0 (k + 1) xs none
  | _, _ :: _, some [] => false
  | k, x :: xs, some (e :: es) =>
    (!startsAlert x || idxOk023 cm ind0) &&
    (match leadPart023 e with
     | some a => !tabHead023 a || idxOk023 cm k
     | none => true) && textSites023 cm ind0 (k + 1) xs (some es)

def lenOk023 (text : Str) (endWs : Option Str) : Bool :=
  match endWs with
  | some e => (splitOn1 '\n' e).length == (splitOn1 '\n' text).length
  | none => true

/-- the checks for one token; `cm1` = the container manager after `premanage_container_tokens` -/
def wfOk023 (w : W023) (cm1 : CM023) (t : Tok2) : Bool :=
  match t.kind with
  | .bquoteEnd => (match cm1.stack with | ct :: _ => ct.isBq | [] => false)
  | .ulistEnd | .olistEnd => (match cm1.stack with | ct :: _ => !ct.isBq && t.startIdx == some ct.idx | [] => false)
  | .li => (match cm1.stack with | ct :: _ => !ct.isBq | [] => false)
  | .atx => !tabHead023 t.ws || idxOk023 cm1 0
  | .setextEnd =>
    w.inSetext && (!tabHead023 t.ws || idxOk023 cm1 0) &&
    (match w.lastSk with
     | some (tx, ew) => lenOk023 tx ew && textSites023 cm1 (-1) 0 (splitOn1 '\n' tx) (ew.map (splitOn1 '\n'))
     | none => true)
  | .text =>
    !(w.inSetext && !(t.endWs.getD []).isEmpty) ||
      (lenOk023 t.text t.endWs && textSites023 cm1 0 0 (splitOn1 '\n' t.text) (t.endWs.map (splitOn1 '\n')))
  | _ => true

/-- the bookkeeping after one token; `cm2` = the container manager after `manage_container_tokens` -/
def wfNext023 (w : W023) (cm2 : CM023) (t : Tok2) : W023 :=
  match t.kind with
  | .setext => { cm := cm2, inSetext := true, lastSk := none }
  | .setextEnd => { cm := cm2, inSetext := false, lastSk := none }
  | .text =>
    if !w.inSetext || (t.endWs.getD []).isEmpty then { w with cm := cm2, lastSk := some (t.text, t.endWs) }
    else { w with cm := cm2, lastSk := none }
  | _ => { w with cm := cm2 }

def wfStep023 (w : W023) (i : Nat) (t : Tok2) : Option W023 :=
  match cmPre023 w.cm t with
  | .error _ => none
  | .ok cm1 =>
    if wfOk023 w cm1 t then
      match cmPost023 cm1 i t with
      | .error _ => none
      | .ok cm2 => some (wfNext023 w cm2 t)
    else none

def wfFrom023 : W023 → Nat → List Tok2 → Bool
  | _, _, [] => true
  | w, i, t :: ts =>
    match wfStep023 w i t with
    | some w' => wfFrom023 w' (i + 1) ts
    | none => false

def wf023 (toks : List Tok2) : Bool := wfFrom023 {} 0 toks

end Verif.Model.TokenRules
