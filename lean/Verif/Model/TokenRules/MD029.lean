import Verif.Model.TokenRules.Basic
/-
  MD029 ol-prefix — faithful model of pymarkdown/plugins/rule_md_029.py :: RuleMd029
  (`starting_new_file`, `__calculate_match_info`, `__match_first_item`, `__match_non_first_items`, `__report_invalid`,
  `next_token`; configuration `style`, `allow_extended_start_values`).
  State: `__list_stack` (only `is_ordered_list_start` of its elements is read: a list of booleans, top first) and
  `__ordered_list_stack` (pairs (style or None, last known number or None), top first).
  Explicit failures: `IndexError` (`del …[-1]`, `…[-1]` on an empty stack), `ValueError` (`int(list_start_content)`),
  the `assert`s of `__calculate_match_info` / `__match_non_first_items`.
-/
namespace Verif.Model.TokenRules

inductive Sty029 where
  | one | ordered | zero | oneOrOrdered
  deriving DecidableEq, Repr

structure C029 where
  style : Sty029 := .oneOrOrdered
  allowExt : Bool := false
  deriving Repr

abbrev Ent029 := Option Sty029 × Option Int

structure St029 where
  lists : List Bool := []
  ols : List Ent029 := []
  deriving DecidableEq, Repr

/-- `__calculate_match_info`: (style text, expected number) -/
def matchInfo (sty : Sty029) (initial : Bool) (last : Option Int) : Except Err (Str × Int) :=
  match sty with
  | .ordered =>
    if initial then .ok ("1/2/3".toList, 1)
    else match last with
      | some l => .ok ("1/2/3".toList, l + 1)
      | none => .error .assertion
  | .one => .ok ("1/1/1".toList, 1)
  | .zero => .ok ("0/0/0".toList, 0)
  | .oneOrOrdered => .error .assertion

def optStr : Option Int → Str
  | some n => pyStr n
  | none => "None".toList

/-- `__report_invalid` -/
def reportInvalid (fm : Bool) (i : Nat) (t : Tok) (initial : Bool) (sty : Sty029) (last new : Option Int) :
    Except Err (Ent029 × List Report × List FixReq) :=
  match matchInfo sty initial last with
  | .error e => .error e
  | .ok (txt, expected) =>
    let actual := match new with | none => last | some n => some n
    if fm then
      let r1 : FixReq := ⟨i, .listStartContent, .str (pyStr expected)⟩
      let r2 : List FixReq :=
        match initial, new with
        | false, some n =>
          let delta : Int := (pyStr expected).length - (pyStr n).length
          if delta ≠ 0 then [⟨i, .indentLevel, .int (t.indent + delta)⟩] else []
        | _, _ => []
      .ok ((some sty, some expected), [], r1 :: r2)
    else
      .ok ((none, none),
        [⟨t.line, t.col, some ("Expected: ".toList ++ pyStr expected ++ "; Actual: ".toList ++ optStr actual ++ "; Style: ".toList ++ txt)⟩], [])

def firstSty (c : C029) (last : Int) : Sty029 :=
  if c.style = .oneOrOrdered ∧ last ≠ 1 then .ordered else c.style

def firstValid (c : C029) (sty : Sty029) (last : Int) : Bool :=
  match sty with
  | .ordered => c.allowExt || last == 0 || last == 1
  | .one => last == 1
  | .zero => last == 0
  | .oneOrOrdered => true

/-- `__match_first_item` -/
def matchFirst (c : C029) (fm : Bool) (i : Nat) (t : Tok) : Except Err (Ent029 × List Report × List FixReq) :=
  match pyInt t.content with
  | none => .error .valueError
  | some last =>
    if firstValid c (firstSty c last) last then .ok ((some (firstSty c last), some last), [], [])
    else reportInvalid fm i t true (firstSty c last) (some last) none

def nextSty (sty0 : Sty029) (new : Int) : Sty029 :=
  if sty0 = .oneOrOrdered then (if new = 1 then .one else .ordered) else sty0

def nextValid (sty : Sty029) (last : Option Int) (new : Int) : Except Err Bool :=
  match sty with
  | .one => .ok (new == 1)
  | .zero => .ok (new == 0)
  | .ordered =>
    match last with
    | some l => .ok (new == l + 1)
    | none => .error .assertion
  | .oneOrOrdered => .error .assertion

/-- `__match_non_first_items` -/
def matchNext (fm : Bool) (i : Nat) (t : Tok) (e : Ent029) : Except Err (Ent029 × List Report × List FixReq) :=
  match e.1 with
  | none => .ok (e, [], [])
  | some sty0 =>
    match pyInt t.content with
    | none => .error .valueError
    | some new =>
      match nextValid (nextSty sty0 new) e.2 new with
      | .error er => .error er
      | .ok true => .ok ((some (nextSty sty0 new), some new), [], [])
      | .ok false => reportInvalid fm i t false (nextSty sty0 new) e.2 (some new)

def next029 (c : C029) (fm : Bool) (s : St029) (i : Nat) (t : Tok) : Except Err (St029 × List Report × List FixReq) :=
  match t.kind with
  | .ulist => .ok ({ s with lists := false :: s.lists }, [], [])
  | .olist =>
    match matchFirst c fm i t with
    | .error e => .error e
    | .ok (ent, rp, fx) => .ok ({ lists := true :: s.lists, ols := ent :: s.ols }, rp, fx)
  | .ulistEnd =>
    match s.lists with
    | [] => .error .indexError
    | _ :: ls => .ok ({ s with lists := ls }, [], [])
  | .olistEnd =>
    match s.lists with
    | [] => .error .indexError
    | _ :: ls =>
      match s.ols with
      | [] => .error .indexError
      | _ :: os => .ok ({ lists := ls, ols := os }, [], [])
  | .li =>
    match s.lists with
    | [] => .error .indexError
    | false :: _ => .ok (s, [], [])
    | true :: _ =>
      match s.ols with
      | [] => .error .indexError
      | e :: os =>
        match matchNext fm i t e with
        | .error er => .error er
        | .ok (e', rp, fx) => .ok ({ s with ols := e' :: os }, rp, fx)
  | _ => .ok (s, [], [])

def md029 : Rule C029 St029 := ⟨fun _ => {}, next029⟩

/-- per token: the number of an ordered list start / item is a non-empty string of ASCII digits -/
def wf029 (t : Tok) : Bool :=
  match t.kind with
  | .olist => (pyInt t.content).isSome
  | _ => true

/-- whole stream: list ends match the innermost open list, list items occur inside a list, and the number of an item of an
    ordered list is a non-empty string of ASCII digits (`stack`: kinds of the open lists, innermost first) -/
def wfS029 : List Bool → List Tok → Bool
  | _, [] => true
  | stack, t :: ts =>
    match t.kind with
    | .ulist => wfS029 (false :: stack) ts
    | .olist => (pyInt t.content).isSome && wfS029 (true :: stack) ts
    | .ulistEnd =>
      match stack with
      | false :: st => wfS029 st ts
      | _ => false
    | .olistEnd =>
      match stack with
      | true :: st => wfS029 st ts
      | _ => false
    | .li =>
      match stack with
      | [] => false
      | true :: _ => (pyInt t.content).isSome && wfS029 stack ts
      | false :: _ => wfS029 stack ts
    | _ => wfS029 stack ts

end Verif.Model.TokenRules
