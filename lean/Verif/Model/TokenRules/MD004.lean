import Verif.Model.TokenRules.Basic
/-
  MD004 ul-style — faithful model of pymarkdown/plugins/rule_md_004.py :: RuleMd004
  (`starting_new_file`, `__get_sequence_type`, `__next_token_triggered`, `next_token`; configuration `style`).
  State: `__actual_style_type` (a dict level → style, here an association list that is only ever extended with
  absent keys) and `__current_list_level` (an int that goes negative on unbalanced end tokens).
  Explicit failures: the `assert` of `__get_sequence_type` (a bullet other than `*`, `+`, `-`) and the `KeyError`
  of `self.__actual_style_type[0]` when level 0 was never recorded.
-/
namespace Verif.Model.TokenRules

inductive Bul where
  | asterisk | plus | dash
  deriving DecidableEq, Repr

inductive S004 where
  | consistent | fixed (b : Bul) | sublist
  deriving DecidableEq, Repr

structure C004 where
  style : S004 := .consistent
  deriving Repr

structure St004 where
  actual : List (Int × Bul) := []
  level : Int := 0
  deriving DecidableEq, Repr

def Bul.name : Bul → Str
  | .asterisk => "asterisk".toList | .plus => "plus".toList | .dash => "dash".toList

def Bul.char : Bul → Char
  | .asterisk => '*' | .plus => '+' | .dash => '-'

/-- `__get_sequence_type` -/
def seqType (t : Tok) : Except Err Bul :=
  if t.seq = ['*'] then .ok .asterisk
  else if t.seq = ['+'] then .ok .plus
  else if t.seq = ['-'] then .ok .dash
  else .error .assertion

def init004 (c : C004) : St004 :=
  match c.style with
  | .fixed b => { actual := [(0, b)], level := 0 }
  | _ => {}

/-- the first half of the `is_unordered_list_start` branch: make sure the current level has an entry -/
def ensure004 (c : C004) (s : St004) (t : Tok) : Except Err (List (Int × Bul)) :=
  match s.actual.lookup s.level with
  | some _ => .ok s.actual
  | none =>
    if c.style = .sublist ∨ (c.style = .consistent ∧ s.actual = []) then
      match seqType t with
      | .ok b => .ok ((s.level, b) :: s.actual)
      | .error e => .error e
    else
      match s.actual.lookup 0 with
      | some b => .ok ((s.level, b) :: s.actual)
      | none => .error .keyError

def extra004 (want this : Bul) : Str :=
  "Expected: ".toList ++ want.name ++ "; Actual: ".toList ++ this.name

def next004 (c : C004) (fm : Bool) (s : St004) (i : Nat) (t : Tok) : Except Err (St004 × List Report × List FixReq) :=
  match t.kind with
  | .ulist =>
    match ensure004 c s t with
    | .error e => .error e
    | .ok actual =>
      match seqType t with
      | .error e => .error e
      | .ok this =>
        match actual.lookup s.level with
        | none => .error .keyError
        | some want =>
          let s' : St004 := { actual := actual, level := s.level + 1 }
          if want ≠ this then
            if fm then .ok (s', [], [⟨i, .listStartSequence, .str [want.char]⟩])
            else .ok (s', [⟨t.line, t.col, some (extra004 want this)⟩], [])
          else .ok (s', [], [])
  | .ulistEnd => .ok ({ s with level := s.level - 1 }, [], [])
  | _ => .ok (s, [], [])

def md004 : Rule C004 St004 := ⟨init004, next004⟩

/-- per token: the bullet is one of the three the parser produces -/
def wf004 (t : Tok) : Bool :=
  match t.kind with
  | .ulist => decide (t.seq = ['*'] ∨ t.seq = ['+'] ∨ t.seq = ['-'])
  | _ => true

/-- whole stream: no prefix has more unordered-list ends than starts (the level never goes negative) -/
def balanced004 : Int → List Tok → Bool
  | _, [] => true
  | lv, t :: ts =>
    match t.kind with
    | .ulist => balanced004 (lv + 1) ts
    | .ulistEnd => decide (0 < lv) && balanced004 (lv - 1) ts
    | _ => balanced004 lv ts

end Verif.Model.TokenRules

namespace Verif.Model.TokenRules
/-! ## the documented condition, written over the unordered-list starts of the stream -/

/-- the unordered-list starts of a stream with their bullet and nesting level among unordered lists
    (0 = outermost); a start whose bullet is none of `* + -` is skipped -/
def ulOf : Int → List Tok → List (Bul × Tok × Int)
  | _, [] => []
  | lv, t :: ts =>
    match t.kind with
    | .ulist =>
      match seqType t with
      | .ok b => (b, t, lv) :: ulOf (lv + 1) ts
      | .error _ => ulOf (lv + 1) ts
    | .ulistEnd => ulOf (lv - 1) ts
    | _ => ulOf lv ts

/-- "every list start whose bullet is not `want`" -/
def wrongBullet (want : Bul) (us : List (Bul × Tok × Int)) : List Tok :=
  us.filterMap (fun u => if u.1 = want then none else some u.2.1)

/-- `sublist`: "each level behaves as if `consistent` was specified for that level" — per level, the first bullet seen -/
def wrongSub : List (Int × Bul) → List (Bul × Tok × Int) → List Tok
  | _, [] => []
  | tbl, (b, t, lv) :: rest =>
    match tbl.lookup lv with
    | some want => (if b = want then [] else [t]) ++ wrongSub tbl rest
    | none => wrongSub ((lv, b) :: tbl) rest

/-- the documented condition of MD004 -/
def spec004 (c : C004) (toks : List Tok) : List Tok :=
  let us := ulOf 0 toks
  match c.style with
  | .fixed b => wrongBullet b us
  | .consistent =>
    match us with
    | u :: rest => wrongBullet u.1 rest
    | [] => []
  | .sublist => wrongSub [] us

end Verif.Model.TokenRules
