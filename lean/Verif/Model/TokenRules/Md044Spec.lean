import Verif.Model.TokenRules.Md044
/-
  MD044 — what the rule SHOULD report, written from the page /repo/newdocs/src/plugins/rule_md044.md, not from the code:
    "This rule triggers when this rule finds any standalone instance of a word specified in the `names` configuration value that
     does not have a correct capitalization."  "… does not trigger if the found text is not an isolated word within the text."
    Configuration: `code_blocks` "Search in Fenced Code Block elements and Indented Code Block elements", `code_spans` "Search in
    Inline Code Span elements".
  Scope of this specification: text (paragraphs, headings, code blocks) and code spans; the page's sentences about links, images and
  link reference definitions are not formalised (the faithful model covers them).  The CPython notions "same word up to
  capitalisation" and "alphanumeric" are taken from the model's tables (`lc044`, `isAlnum044`: checked against CPython by the tie).
  Position of a trigger: the line and column of its first character, counted from the token's position (line breaks inside the
  token's text start a new line at column 1).
-/
namespace Verif.Model.TokenRules

/-- the same word up to capitalisation -/
def sameLetters044 (a b : Str) : Bool := a.map lc044 == b.map lc044

/-- the `n` characters of `s` from index `i` on -/
def specSlice044 (s : Str) (i n : Nat) : Str := (s.drop i).take n

/-- "standalone", "an isolated word": neither neighbour is alphanumeric -/
def standalone044 (s : Str) (i n : Nat) : Bool :=
  (i == 0 || match s[i - 1]? with | some c => !isAlnum044 c | none => true) &&
  (match s[i + n]? with | some c => !isAlnum044 c | none => true)

/-- a trigger: a standalone instance of `name` at index `i` of `s` without the correct capitalisation -/
def isTrigger044 (name s : Str) (i : Nat) : Bool :=
  decide (i + name.length ≤ s.length) && sameLetters044 (specSlice044 s i name.length) name && standalone044 s i name.length &&
    specSlice044 s i name.length != name

/-- all triggers of a text: name by name in configuration order, left to right -/
def specTriggers044 (names : List Str) (s : Str) : List (Str × Nat) :=
  names.flatMap (fun n => ((List.range (s.length + 1)).filter (isTrigger044 n s)).map (fun i => (n, i)))

/-- the characters of the last line of a text -/
def lastLine044 : Str → Str
  | [] => []
  | c :: cs => if cs.contains '\n' then lastLine044 cs else if c = '\n' then cs else c :: cs

/-- line and column of index `i` of a text that starts at `(line, col)` -/
def specPos044 (line col : Int) (s : Str) (i : Nat) : Int × Int :=
  if (s.take i).contains '\n' then (line + (countNl (s.take i) : Nat), ((lastLine044 (s.take i)).length : Int) + 1)
  else (line, col + (i : Int))

def specReport044 (line col : Int) (s : Str) (p : Str × Nat) : Report :=
  ⟨(specPos044 line col s p.2).1, (specPos044 line col s p.2).2,
   some ("Expected: ".toList ++ p.1 ++ "; Actual: ".toList ++ specSlice044 s p.2 p.1.length)⟩

/-- the reports of one token; the `Bool` says whether the token lies in a code block.  A code span's text starts behind its
    opening back-ticks and leading white space. -/
def specTok044 (c : C044) (inCode : Bool) (t : Tok2) : List Report :=
  match t.kind with
  | .text =>
    if !inCode || c.codeBlocks then (specTriggers044 c.names t.text).map (specReport044 t.line t.col t.text) else []
  | .codeSpan =>
    if c.codeSpans then
      (specTriggers044 c.names t.text).map (specReport044 t.line (t.col + (t.startTicks.length + t.leadWs.length : Nat)) t.text)
    else []
  | _ => []

def specScanFrom044 (c : C044) : Bool → List Tok2 → List Report
  | _, [] => []
  | inCode, t :: ts =>
    specTok044 c inCode t ++
      specScanFrom044 c (match t.kind with
        | .fence | .icode => true
        | .fenceEnd | .icodeEnd => false
        | _ => inCode) ts

/-- the specification of the scan on streams of text, code spans and code blocks -/
def specScan044 (c : C044) (toks : List Tok2) : List Report := specScanFrom044 c false toks

end Verif.Model.TokenRules
