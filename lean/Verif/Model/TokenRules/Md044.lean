import Verif.Model.TokenRules.Basic2
import Verif.Model.Codec
/-
  MD044 proper-names — faithful model of pymarkdown/plugins/rule_md_044.py :: RuleMd044
    initialize_from_config (names: strip, split(","), strip, empty / duplicate → ValueError)   → `parseNames044`
    starting_new_file                                                                         → `init044`
    next_token (early return on an empty name list, `__replacement_items.clear()`, the kind chain) → `next044`, `hits044`, `state044`
    __handle_text, __handle_inline_code_span, __handle_inline_link_end, __handle_inline_link_fix,
    __handle_inline_image, __handle_link_reference_definition                                 → `hits044` branches
    __adjust_for_newlines_and_search                                                          → `adjSearch044`
    __search_for_matches (remove_all_from_text unless keep_text_with_markers; `.lower()`; per name `str.find` loop
        advancing by `len(next_name)`)                                                        → `search044`, `searchNames044`, `nameLoop044`
    __search_for_possible_matches (line / column arithmetic, two `assert`s)                   → `posAdj044`
    __check_for_proper_match (`isalnum` of the neighbours in the ORIGINAL text, `assert len(..) == len(..)`) → `check044`
    __apply_replacement_items, __apply_normal_replacement, __apply_matching_replacement       → `applyItems044`, `applyAll044`
    ParserHelper.adjust_for_newlines                                                          → `adjNl`
    RulePlugin.report_next_token_error (negative column delta = absolute column)              → `report044`
  CPython: `str.lower()` → `lowerS` (per character table `lowerC`), `str.isalnum()` → `isAlnum044`, `str.find(sub, start)` → `findSub`.
    The tables are stated on the alphabet `alphabet044` = U+0000 … U+00FF, İ U+0130 (its `.lower()` has TWO characters), ı U+0131,
    U+0307, ẞ U+1E9E; the tie compares them with CPython character by character and checks that `.lower()` is context free there.
  State kept between calls: `__is_in_code_block`.  (`__replacement_items` is cleared at the start of every call that gets past the
  empty-name-list test and is only read later in the same call: it is a local of `next044`.)
  The pinned version has NO `html_elements` switch (configuration = `names`, `code_blocks`, `code_spans`).
  One search = one list of `Hit044` (found index, required capitalisation, found text, line / column delta); scan mode turns each hit
  into a report, fix mode into a `FoundReplacement` — nothing before that point in the Python depends on `context.in_fix_mode`.
  Explicit failures: IndexError (`original_source[found_index - 1]` when a length-changing `.lower()` moved the index past the end),
  AssertionError (the length assert, the `None` asserts, `text_to_check is not None`), AttributeError (an end-link token whose start
  token has no `label_type`), the codec's ValueError / AssertionError / Hang (`remove_all_from_text`), Hang (an empty name).
  Core Lean only.
-/
namespace Verif.Model.TokenRules

/-! ## CPython tables -/
def cİ : Char := 'İ'
def cDot : Char := '̇'
def cSharpS : Char := 'ß'
def cCapSharpS : Char := 'ẞ'
def cDotlessI : Char := 'ı'

/-- one-character lower case on the part of the alphabet where `.lower()` keeps the length -/
def lc044 (c : Char) : Char :=
  if 0xC0 ≤ c.toNat ∧ c.toNat ≤ 0xDE ∧ c.toNat ≠ 0xD7 then Char.ofNat (c.toNat + 32)
  else if c = cCapSharpS then cSharpS
  else c.toLower

/-- `c.lower()` -/
def lowerC (c : Char) : Str := if c = cİ then ['i', cDot] else [lc044 c]

/-- `s.lower()` (context free on the alphabet: no final sigma there) -/
def lowerS : Str → Str
  | [] => []
  | c :: cs => lowerC c ++ lowerS cs

/-- `isalnum` of a lower-case character of the alphabet -/
def alnumLower (c : Char) : Bool :=
  c.isAlphanum || c.toNat == 0xAA || c.toNat == 0xB5 || c.toNat == 0xBA || c.toNat == 0xB2 || c.toNat == 0xB3 || c.toNat == 0xB9
    || c.toNat == 0xBC || c.toNat == 0xBD || c.toNat == 0xBE
    || (decide (0xDF ≤ c.toNat) && decide (c.toNat ≤ 0xFF) && c.toNat != 0xF7) || c == cDotlessI

/-- `c.isalnum()` -/
def isAlnum044 (c : Char) : Bool := c == cİ || alnumLower (lc044 c)

def alphabet044 : List Char :=
  (List.range 256).map Char.ofNat ++ [cİ, cDotlessI, cDot, cCapSharpS]

/-- `s.find(pat, start)` (`none` = −1); for an empty `pat`: `start` when `start ≤ len(s)` -/
def findSub (pat : Str) : Str → Nat → Option Nat
  | s, 0 =>
    if pat.isPrefixOf s then some 0
    else match s with
      | [] => none
      | _ :: xs => (findSub pat xs 0).map (· + 1)
  | [], _ + 1 => none
  | _ :: xs, n + 1 => (findSub pat xs n).map (· + 1)

/-! ## `ParserHelper.adjust_for_newlines` -/
/-- the `while` loop: every newline at an index `k` with `start ≤ k < en`, in order -/
def adjNlGo (en : Nat) : Nat → Str → Int × Int → Int × Int
  | _, [], acc => acc
  | k, c :: cs, (col, line) =>
    if k < en ∧ c = '\n' then adjNlGo en (k + 1) cs (-((en : Int) - (k : Int)), line + 1)
    else adjNlGo en (k + 1) cs (col, line)

/-- `(col_adjust, line_adjust)` -/
def adjNl (src : Str) (start en : Nat) : Int × Int := adjNlGo en start (src.drop start) ((en : Int), 0)

/-! ## one search -/
structure Hit044 where
  /-- `found_index` -/
  idx : Nat
  /-- `required_capitalization` -/
  cap : Str
  /-- `original_found_text` -/
  found : Str
  /-- `line_number_delta` -/
  dl : Int
  /-- `column_number_delta` -/
  dc : Int
  deriving DecidableEq, Repr

/-- `original_source[found_index - 1].isalnum() if found_index > 0 else False`; `none` = IndexError -/
def beforeAlnum (orig : Str) (fi : Nat) : Option Bool :=
  if fi > 0 then orig[fi - 1]?.map isAlnum044 else some false

/-- `original_source[after_found_index].isalnum() if after_found_index < len(original_source) else False` -/
def afterAlnum (orig : Str) (k : Nat) : Bool :=
  match orig[k]? with
  | some c => isAlnum044 c
  | none => false

/-- `original_source[found_index : found_index + len(required_capitalization)]` -/
def sliceAt (orig : Str) (fi n : Nat) : Str := (orig.drop fi).take n

/-- `__check_for_proper_match` up to the `if context.in_fix_mode` -/
def check044 (orig : Str) (fi : Nat) (cap : Str) (dl dc : Int) : Except Err2 (List Hit044) :=
  match beforeAlnum orig fi with
  | none => .error .indexError
  | some before =>
    -- `if not is_character_after_match and not is_character_before_match and original_found_text != required_capitalization`
    if afterAlnum orig (fi + cap.length) then .ok []
    else if before then .ok []
    else if sliceAt orig fi cap.length = cap then .ok []
    else if (sliceAt orig fi cap.length).length ≠ cap.length then .error .assertion
    else .ok [⟨fi, cap, sliceAt orig fi cap.length, dl, dc⟩]

/-- the arithmetic of `__search_for_possible_matches`: `(line_adjust, col_adjust)` -/
def posAdj044 (low : Str) (start fi : Nat) (sameLine sx sy : Int) : Except Err2 (Int × Int) :=
  let (col, line) := adjNl low start fi
  match (if line = 0 ∧ sy = 0 then (if col < 0 ∨ sameLine > 0 then none else some (col - sameLine)) else some col) with
  | none => .error .assertion
  | some col1 =>
    let col2 :=
      if col1 = 0 ∧ sx ≠ 0 then -(col1 + (if sx > 0 then -sx else -(-sx - 1)))
      else if col1 > 0 ∧ sx ≠ 0 then -(col1 + (-sx - 1))
      else col1
    .ok (line + sy, col2)

/-- the `while found_index != -1` loop for one name; `fuel` bounds the iterations (`nameLoop044_fuel`: `len + 2` is never
    exhausted for a non-empty name; an EMPTY name makes the Python loop run for ever: `"".find("", 0) = 0`, advance 0) -/
def nameLoop044 (orig low name : Str) (sameLine sx sy : Int) : Nat → Nat → Except Err2 (List Hit044)
  | 0, _ => .error .hang
  | fuel + 1, start =>
    match findSub (lowerS name) low start with
    | none => .ok []
    | some fi =>
      match posAdj044 low start fi sameLine sx sy with
      | .error e => .error e
      | .ok (dl, dc) =>
        match check044 orig fi name dl dc with
        | .error e => .error e
        | .ok h =>
          match nameLoop044 orig low name sameLine sx sy fuel (fi + name.length) with
          | .error e => .error e
          | .ok hs => .ok (h ++ hs)

/-- `for next_name in self.__proper_name_list` -/
def searchNames044 (orig low : Str) (sameLine sx sy : Int) : List Str → Except Err2 (List Hit044)
  | [] => .ok []
  | n :: ns =>
    match nameLoop044 orig low n sameLine sx sy (low.length + 2) 0 with
    | .error e => .error e
    | .ok h =>
      match searchNames044 orig low sameLine sx sy ns with
      | .error e => .error e
      | .ok hs => .ok (h ++ hs)

def codecErr044 : Verif.Model.Codec.Err → Err2
  | .valueError => .valueError
  | .assertion => .assertion
  | .hang => .hang

/-- `__search_for_matches` -/
def search044 (names : List Str) (keep : Bool) (s : Str) (sameLine sx sy : Int) : Except Err2 (List Hit044) :=
  match (if keep then .ok s else Verif.Model.Codec.removeAll s) with
  | .error e => .error (codecErr044 e)
  | .ok s' => searchNames044 s' (lowerS s') sameLine sx sy names

/-- `__adjust_for_newlines_and_search` -/
def adjSearch044 (names : List Str) (body full s : Str) (sameLine : Int) : Except Err2 (List Hit044) :=
  let (sx, sy) := if body.contains '\n' then adjNl full 0 full.length else (0, 0)
  search044 names false s sameLine sx sy

/-! ## configuration, state -/
structure C044 where
  /-- `__proper_name_list` (already validated: see `parseNames044`) -/
  names : List Str := []
  codeBlocks : Bool := true
  codeSpans : Bool := true
  deriving DecidableEq, Repr

structure St044 where
  /-- `__is_in_code_block` -/
  inCode : Bool := false
  deriving DecidableEq, Repr

/-- `s.strip(" ")` -/
def stripSp (s : Str) : Str := ((s.dropWhile (· == ' ')).reverse.dropWhile (· == ' ')).reverse

def parseNamesGo : List Str → List Str → List Str → Except Err2 (List Str)
  | [], _, acc => .ok acc.reverse
  | p :: ps, lows, acc =>
    let n := stripSp p
    if n.isEmpty then .error .valueError
    else if lows.contains (lowerS n) then .error .valueError
    else parseNamesGo ps (lowerS n :: lows) (n :: acc)

/-- the `names` part of `initialize_from_config` -/
def parseNames044 (raw : Str) : Except Err2 (List Str) :=
  let s := stripSp raw
  if s.isEmpty then .ok [] else parseNamesGo (splitOn1 ',' s) [] []

/-- `part_context` -/
inductive Part044 where
  | none | x | y | linkTitle | textFromBlocks | preLinkTitle | linkNameDebug | linkName | linkTitleRaw
  deriving DecidableEq, Repr

abbrev PHit044 := Part044 × Hit044

def tag044 (p : Part044) (r : Except Err2 (List Hit044)) : Except Err2 (List PHit044) :=
  match r with
  | .error e => .error e
  | .ok hs => .ok (hs.map (fun h => (p, h)))

/-- `pre_link_title or link_title` -/
def activeTitle044 (t : Tok2) : Option Str :=
  match t.preLinkTitle with
  | some p => if p.isEmpty then t.linkTitle else some p
  | none => t.linkTitle

def inlineLbl : Str := "inline".toList

/-- a Python truthy optional string -/
def truthy044 : Option Str → Bool
  | some s => !s.isEmpty
  | none => false

/-- two searches one after the other (the first one's exception comes first) -/
def seq044 (a b : Except Err2 (List PHit044)) : Except Err2 (List PHit044) :=
  match a with
  | .error e => .error e
  | .ok x =>
    match b with
    | .error e => .error e
    | .ok y => .ok (x ++ y)

/-- `end_token.start_markdown_token` as a link token: `none` = AttributeError (`label_type`) -/
def startTok044 (all : List Tok2) (t : Tok2) : Option Tok2 :=
  match t.startIdx.bind (fun j => all[j]?) with
  | some lt => if lt.kind = .link ∨ lt.kind = .image then some lt else none
  | none => none

def linkBody044 (t : Tok2) (blw btw bc : Str) : Str := blw ++ t.activeUri ++ btw ++ bc

def linkFull044 (pre : Str) (t : Tok2) (body : Str) : Str := pre ++ t.text ++ "](".toList ++ body

/-- the title search of an inline link (`pre` = "[", at the end-link token) / inline image (`pre` = "![") in scan mode -/
def inlineTitleHits044 (names : List Str) (part : Part044) (pre : Str) (t : Tok2) : Except Err2 (List PHit044) :=
  match t.beforeLinkWs, t.beforeTitleWs, t.boundChar with
  | some blw, some btw, some bc =>
    match activeTitle044 t with
    | none => .error .assertion
    | some title =>
      tag044 part (adjSearch044 names (linkBody044 t blw btw bc) (linkFull044 pre t (linkBody044 t blw btw bc)) title
        (-((linkFull044 pre t (linkBody044 t blw btw bc)).length : Int)))
  | _, _, _ => .error .assertion

/-- `link_name = lrd_token.link_name_debug or lrd_token.link_name` -/
def lrdName044 (t : Tok2) : Str := if t.text.isEmpty then t.linkName else t.text

def lrdFull044 (t : Tok2) : Str := '[' :: (lrdName044 t ++ "]:".toList ++ t.destWs ++ t.dest ++ t.titleWs ++ ['\''])

/-- `-(len(full_link_text) - 1)` -/
def lrdOffset044 (t : Tok2) : Int := -(((lrdFull044 t).length : Int) - 1)

/-- `-(len(extracted_start_backticks) + len(leading_whitespace))` -/
def spanOffset044 (t : Tok2) : Int := -((t.startTicks.length + t.leadWs.length : Nat) : Int)

/-- the kind chain of `next_token` up to `if self.__replacement_items`: the hits in the order they are found -/
def hits044 (c : C044) (fm : Bool) (all : List Tok2) (s : St044) (t : Tok2) : Except Err2 (List PHit044) :=
  match t.kind with
  | .text =>
    if !s.inCode || c.codeBlocks then tag044 .none (search044 c.names fm t.text 0 0 0) else .ok []
  | .codeSpan =>
    if c.codeSpans then tag044 .none (search044 c.names fm t.text (spanOffset044 t) 0 0) else .ok []
  | .linkEnd =>
    if fm then .ok [] else
    match startTok044 all t with
    | none => .error .attributeError
    | some lt => if lt.labelType = inlineLbl then inlineTitleHits044 c.names .x ['['] lt else .ok []
  | .image =>
    seq044 (tag044 .none (search044 c.names false t.text (-2) 0 0))
      (if fm then
        match t.linkTitle with
        | none => .error .assertion
        | some lt =>
          seq044 (tag044 .linkTitle (search044 c.names false lt 0 0 0)) (tag044 .textFromBlocks (search044 c.names false t.text 0 0 0))
      else if t.labelType = inlineLbl then inlineTitleHits044 c.names .y ['!', '['] t
      else .ok [])
  | .lrd =>
    seq044
      (if fm then
        seq044 (if t.text.isEmpty then .ok [] else tag044 .linkNameDebug (search044 c.names false t.text (-1) 0 0))
          (tag044 .linkName (search044 c.names false t.linkName (-1) 0 0))
      else tag044 .linkName (search044 c.names false (lrdName044 t) (-1) 0 0))
      (seq044 (tag044 .linkTitleRaw (adjSearch044 c.names (lrdFull044 t) (lrdFull044 t) t.titleRaw (lrdOffset044 t)))
        (if fm && truthy044 t.linkTitle then
          tag044 .linkTitle (adjSearch044 c.names (lrdFull044 t) (lrdFull044 t) (t.linkTitle.getD []) (lrdOffset044 t))
        else .ok []))
  | .link =>
    if fm then
      match t.linkTitle with
      | none => .error .assertion
      | some lt =>
        seq044 (tag044 .linkTitle (search044 c.names false lt 0 0 0))
          (seq044 (tag044 .textFromBlocks (search044 c.names false t.text 0 0 0))
            (if t.labelType = inlineLbl ∧ truthy044 t.preLinkTitle = true then
              tag044 .preLinkTitle (search044 c.names false (t.preLinkTitle.getD []) 0 0 0)
            else .ok []))
    else .ok []
  | _ => .ok []

/-- `__is_in_code_block` after the token -/
def state044 (s : St044) (t : Tok2) : St044 :=
  match t.kind with
  | .fence | .icode => { inCode := true }
  | .fenceEnd | .icodeEnd => { inCode := false }
  | _ => s

/-- the token whose position a report uses: the link token for the title search at the end-link token -/
def repTok044 (all : List Tok2) (t : Tok2) : Tok2 :=
  match t.kind with
  | .linkEnd => (startTok044 all t).getD t
  | _ => t

/-! ## reports -/
def expected044 : Str := "Expected: ".toList
def actual044 : Str := "; Actual: ".toList

/-- `report_next_token_error(context, token, extra, line_number_delta, column_number_delta)` -/
def report044 (line col : Int) (h : Hit044) : Report :=
  ⟨line + h.dl, if h.dc ≥ 0 then col + h.dc else -h.dc, some (expected044 ++ h.cap ++ actual044 ++ h.found)⟩

/-! ## the fix -/
/-- `new_text[:i] + cap + new_text[i + len(cap):]` -/
def replAt (s : Str) (i : Nat) (cap : Str) : Str := s.take i ++ cap ++ s.drop (i + cap.length)

def applyAll044 (s : Str) (items : List PHit044) : Str :=
  items.foldl (fun acc h => replAt acc h.2.idx h.2.cap) s

/-- `__apply_normal_replacement` -/
def applyNormal044 (i : Nat) (s : Str) (items : List PHit044) (f : Field2) : Except Err2 (List FixReq2) :=
  if applyAll044 s items = s then .error .assertion else .ok [⟨i, f, .str (applyAll044 s items)⟩]

/-- `__apply_matching_replacement` -/
def applyMatching044 (i : Nat) (s : Option Str) (items : List PHit044) (p : Part044) (f : Field2) : Except Err2 (List FixReq2) :=
  match s with
  | none => .error .assertion
  | some s =>
    if applyAll044 s (items.filter (fun h => h.1 = p)) = s then .ok []
    else .ok [⟨i, f, .str (applyAll044 s (items.filter (fun h => h.1 = p)))⟩]

def seqReq (a b : Except Err2 (List FixReq2)) : Except Err2 (List FixReq2) :=
  match a with
  | .error e => .error e
  | .ok x =>
    match b with
    | .error e => .error e
    | .ok y => .ok (x ++ y)

/-- `__apply_replacement_items` -/
def applyItems044 (i : Nat) (t : Tok2) (items : List PHit044) : Except Err2 (List FixReq2) :=
  match t.kind with
  | .text => applyNormal044 i t.text items (.base .tokenText)
  | .codeSpan => applyNormal044 i t.text items (.base .spanText)
  | .lrd =>
    seqReq (applyMatching044 i (some t.linkName) items .linkName .linkName)
      (seqReq (if t.text.isEmpty then .ok [] else applyMatching044 i (some t.text) items .linkNameDebug (.base .linkNameDebug))
        (seqReq (applyMatching044 i (some t.titleRaw) items .linkTitleRaw .linkTitleRaw)
          (if truthy044 t.linkTitle then applyMatching044 i t.linkTitle items .linkTitle .linkTitle else .ok [])))
  | .link =>
    seqReq (applyMatching044 i t.linkTitle items .linkTitle .linkTitle)
      (seqReq (applyMatching044 i t.preLinkTitle items .preLinkTitle .preLinkTitle)
        (applyMatching044 i (some t.text) items .textFromBlocks (.base .textFromBlocks)))
  | .image =>
    seqReq (applyMatching044 i t.linkTitle items .linkTitle .linkTitle)
      (applyMatching044 i (some t.text) items .textFromBlocks (.base .textFromBlocks))
  | _ => .error .assertion

def next044 (c : C044) (fm : Bool) (all : List Tok2) (s : St044) (i : Nat) (t : Tok2) : Except Err2 (St044 × Out) :=
  if c.names.isEmpty then .ok (s, {}) else
  match hits044 c fm all s t with
  | .error e => .error e
  | .ok hits =>
    if fm then
      if hits.isEmpty then .ok (state044 s t, {})
      else match applyItems044 i t hits with
        | .error e => .error e
        | .ok reqs => .ok (state044 s t, { reqs := reqs })
    else .ok (state044 s t, { reports := hits.map (fun h => report044 (repTok044 all t).line (repTok044 all t).col h.2) })

def init044 (_c : C044) : St044 := {}

def md044 : Rule2 C044 St044 := ⟨init044, next044⟩

/-! ## the domain of the totality theorems, and the structural stream invariant -/
/-- `c.lower()` has one character -/
def simpleC (c : Char) : Bool := c != cİ

def simpleS (s : Str) : Bool := s.all simpleC

/-- a string the rule searches after `remove_all_from_text`: the codec succeeds and the result is `simpleS` -/
def okStr044 (s : Str) : Bool :=
  match Verif.Model.Codec.removeAll s with
  | .ok r => simpleS r
  | .error _ => false

def okOpt044 : Option Str → Bool
  | some s => okStr044 s
  | none => true

/-- TEXT domain: no configured name is empty, and no name and no searched string (before and after `remove_all_from_text`, which has
    to succeed) contains a character whose lower case has another length (on the alphabet: İ) -/
def domTok044 (t : Tok2) : Bool :=
  match t.kind with
  | .text | .codeSpan => simpleS t.text && okStr044 t.text
  | .link | .image => okStr044 t.text && okOpt044 t.linkTitle && okOpt044 t.preLinkTitle
  | .lrd => okStr044 t.text && okStr044 t.linkName && okStr044 t.titleRaw && okOpt044 t.linkTitle
  | _ => true

def dom044 (c : C044) (toks : List Tok2) : Bool :=
  c.names.all (fun n => simpleS n && !n.isEmpty) && toks.all domTok044

def inlineOk044 (t : Tok2) : Bool :=
  t.labelType != inlineLbl || (t.beforeLinkWs.isSome && t.beforeTitleWs.isSome && t.boundChar.isSome)

/-- STRUCTURAL invariant of parsed streams: link / image tokens carry their optional strings, an end-link token names a link token -/
def wfTok044 (all : List Tok2) (t : Tok2) : Bool :=
  match t.kind with
  | .link => t.linkTitle.isSome && t.preLinkTitle.isSome && inlineOk044 t
  | .image => t.linkTitle.isSome && inlineOk044 t
  | .linkEnd =>
    match t.startIdx.bind (fun j => all[j]?) with
    | some lt => lt.kind == .link
    | none => false
  | _ => true

def wf044 (all : List Tok2) : Bool := all.all (wfTok044 all)

end Verif.Model.TokenRules
