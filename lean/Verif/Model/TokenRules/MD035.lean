import Verif.Model.TokenRules.Basic
/-
  MD035 hr-style — faithful model of pymarkdown/plugins/rule_md_035.py :: RuleMd035
  (`initialize_from_config`, `starting_new_file`, `next_token`; configuration `style`).
  State: `__actual_style` (a string; empty = not yet determined — Python truthiness is kept: a first thematic break
  whose `rest_of_line` is empty leaves it undetermined).
  MD048 code-fence-style — faithful model of pymarkdown/plugins/rule_md_048.py :: RuleMd048
  (`starting_new_file`, `next_token`; configuration `style`).  State: `__actual_style_type` ("" / backtick / tilde).
-/
namespace Verif.Model.TokenRules

structure C035 where
  /-- `none` = `consistent`; otherwise the configured rule text (validated non-empty by `__validate_configuration_style`) -/
  style : Option Str := none
  deriving Repr

def next035 (_c : C035) (fm : Bool) (actual : Str) (i : Nat) (t : Tok) : Except Err (Str × List Report × List FixReq) :=
  match t.kind with
  | .tbreak =>
    match actual with
    | [] => .ok (t.rest, [], [])
    | a :: as =>
      if a :: as ≠ t.rest then
        if fm then .ok (actual, [], [⟨i, .startCharacter, .str [a]⟩, ⟨i, .restOfLine, .str (a :: as)⟩])
        else .ok (actual, [⟨t.line, t.col, some ("Expected: ".toList ++ (a :: as) ++ ", Actual: ".toList ++ t.rest)⟩], [])
      else .ok (actual, [], [])
  | _ => .ok (actual, [], [])

def md035 : Rule C035 Str := ⟨fun c => c.style.getD [], next035⟩

/-- the documented condition: with a configured style every thematic break with another text; with `consistent`
    every break whose text differs from the first break's -/
def spec035Go : Str → List Tok → List Tok
  | _, [] => []
  | want, t :: ts =>
    match t.kind with
    | .tbreak =>
      match want with
      | [] => spec035Go t.rest ts
      | _ => (if want ≠ t.rest then [t] else []) ++ spec035Go want ts
    | _ => spec035Go want ts

def spec035 (c : C035) (toks : List Tok) : List Tok := spec035Go (c.style.getD []) toks

/-! ## MD048 -/
inductive Fence where
  | backtick | tilde
  deriving DecidableEq, Repr

def Fence.name : Fence → Str
  | .backtick => "backtick".toList | .tilde => "tilde".toList

def Fence.char : Fence → Char
  | .backtick => '`' | .tilde => '~'

structure C048 where
  /-- `none` = `consistent` -/
  style : Option Fence := none
  deriving Repr

/-- `current_style`: anything but a backtick counts as tilde -/
def fenceOf (t : Tok) : Fence := if t.fenceChar = ['`'] then .backtick else .tilde

def next048 (_c : C048) (fm : Bool) (actual : Option Fence) (i : Nat) (t : Tok) :
    Except Err (Option Fence × List Report × List FixReq) :=
  match t.kind with
  | .fence =>
    let cur := fenceOf t
    let act := actual.getD cur
    if act ≠ cur then
      if fm then .ok (some act, [], [⟨i, .fenceCharacter, .str [act.char]⟩])
      else .ok (some act, [⟨t.line, t.col, some ("Expected: ".toList ++ act.name ++ "; Actual: ".toList ++ cur.name)⟩], [])
    else .ok (some act, [], [])
  | _ => .ok (actual, [], [])

def md048 : Rule C048 (Option Fence) := ⟨fun c => c.style, next048⟩

def spec048Go : Option Fence → List Tok → List Tok
  | _, [] => []
  | want, t :: ts =>
    match t.kind with
    | .fence =>
      match want with
      | none => spec048Go (some (fenceOf t)) ts
      | some w => (if w ≠ fenceOf t then [t] else []) ++ spec048Go want ts
    | _ => spec048Go want ts

/-- the documented condition: with a configured style every fenced block with the other fence character; with
    `consistent` every block whose fence character differs from the first block's -/
def spec048 (c : C048) (toks : List Tok) : List Tok := spec048Go c.style toks

end Verif.Model.TokenRules
