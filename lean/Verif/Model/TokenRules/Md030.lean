import Verif.Model.TokenRules.Basic2
import Verif.Model.TokenRules.MD030
/-
  MD030 list-marker-space — BOTH modes: faithful model of
    pymarkdown/plugins/rule_md_030.py :: RuleMd030
        starting_new_file                                       → `init030f`
        next_token                                              → `next030f`
        __next_token_list_start                                 → `listStart030f`
        __next_token_list_end, __handle_list_end, __report_or_fix → `listEnd030f`, `viol030`, `check030` (reports, of the old model)
        __next_token_list_end_registrations                     → `regs030`, `regsGo030`, `adjLines030`, `adjLine030`
    pymarkdown/plugins/utils/list_tracker.py :: ListTracker
        next_token, __count_newlines_in_token                   → `track030`, `countNl030`
        list_start, new_list_item, list_end, list_end_cleanup   → inside `listStart030f`, `newItem030f`, `listEnd030f`
        register, get_registrations, get_start_stop             → `dictSet030` on the local `adj` map, `startStop030`
  (the scan half over the old token type is `MD030.lean`; `md030f_scan_eq_old` in Props/TokenRules2/Md030.lean proves that the scan
  reports of this model are those of the old one).

  State.  The rule's `__list_stack` / `__list_tokens` and the tracker's `__list_stack` are pushed and popped together (`list_start`,
  `list_end_cleanup`); the tracker's five dicts keyed by the list LEVEL (`__line_count`, `__list_start_indices`, `__list_end_indices`,
  `__current_list_tokens`, `__list_adjustments`) get key `len(stack)` exactly when a level is pushed and lose it exactly when it is
  popped: their key set is always 1 … len(stack).  So one stack of frames `Fr030f` (innermost first) carries all of it and a
  level lookup fails exactly when the stack is empty (`assert list_level in self.__list_start_indices` → AssertionError).
  The dicts keyed by TOKEN inside a level (`starts`, `ends`, and the registrations `adj`) are association lists keyed by the token's
  index in the stream (Python: object identity) in insertion order; a missing key is `KeyError`.
  `__list_adjustments[level]` is empty from `list_start` until the level's `list_end` and deleted right after it: it is a local value of
  `listEnd030f`, not part of the state.
  `__paragraph_count_map` is keyed by `str(token)` in the code; like the old model this one keys by the token (the count lives in the
  token's entry): `str` of a list token contains its line and column, two list tokens of one parsed document never print alike
  (the tie counts such pairs on every parsed stream: 0; its synthetic streams get distinct line numbers).
  `__current_list_parent` is always the last token of the innermost open list (`None` when no list is open).
  Explicit failures: list end / list item outside every list (AssertionError / IndexError), an end token whose `start_markdown_token`
  is not a list start token (`.leading_spaces` → AttributeError; also when it is not in the stream: the tie's builder supplies a
  paragraph token), a line index beyond the split `leading_spaces` (IndexError), `get_start_stop` of an unknown token (KeyError).
-/
namespace Verif.Model.TokenRules

/-! ## dicts keyed by token (index) -/
def dictGet030 {α : Type} (k : Nat) : List (Nat × α) → Option α
  | [] => none
  | (k', v) :: d => if k' = k then some v else dictGet030 k d

/-- `d[k] = v`: an existing key keeps its place -/
def dictSet030 {α : Type} (k : Nat) (v : α) : List (Nat × α) → List (Nat × α)
  | [] => [(k, v)]
  | (k', v') :: d => if k' = k then (k, v) :: d else (k', v') :: dictSet030 k v d

/-- one list level: the rule's `__list_stack[-1]` / `__list_tokens[-1]` and the tracker's dict entries for this level -/
structure Fr030f where
  /-- `__list_stack[-1].is_ordered_list_start` -/
  ordered : Bool
  /-- `__list_tokens[-1]`: index of the token, what the rule reads of it, its `__paragraph_count_map` entry -/
  ents : List (Nat × Ent030)
  /-- `__line_count[level]` -/
  lineCount : Nat := 0
  /-- `__list_start_indices[level]` -/
  starts : List (Nat × Nat) := []
  /-- `__list_end_indices[level]` -/
  ends : List (Nat × Nat) := []
  /-- `__current_list_tokens[level]` -/
  cur : Nat
  deriving DecidableEq, Repr

structure St030f where
  stack : List Fr030f := []
  /-- `ListTracker.__was_last_blank_line` -/
  wasBlank : Bool := false
  deriving DecidableEq, Repr

/-! ## `ListTracker.next_token` -/
/-- `__count_newlines_in_token` -/
def countNl030 (t : Tok2) : Nat :=
  match t.kind with
  | .blank => 1
  | .text | .link | .image | .rawHtml => countNl t.text
  | .codeSpan => countNl t.leadWs + countNl t.text + countNl t.trailWs
  | _ => 0

def addLines030 (n : Nat) : List Fr030f → List Fr030f
  | [] => []
  | fr :: rest => { fr with lineCount := fr.lineCount + n } :: rest

/-- `ListTracker.next_token` (the "weird calculation": a blank line counts once when it is seen and once more when the next token is
    neither an end token nor a container token) -/
def track030 (s : St030f) (t : Tok2) : St030f :=
  let fire := s.wasBlank && !t.kind.isEnd
  let extra := fire && !t.kind.isContainer && !s.stack.isEmpty
  let stack1 := if extra then addLines030 1 s.stack else s.stack
  let wb1 := if fire then false else s.wasBlank
  let wb2 := if t.kind = .blank then true else wb1
  -- `if list_stack_length and x:` (x = False exactly when the extra line was counted)
  let stack2 := if extra then stack1 else addLines030 (countNl030 t) stack1
  ⟨stack2, wb2⟩

/-! ## `__handle_list_end` -/
def required030 (c : C030) (ordered : Bool) (paras : Nat) : Int :=
  if ordered then (if paras > 1 then c.olMulti else c.olSingle) else (if paras > 1 then c.ulMulti else c.ulSingle)

/-- `delta`: the number of columns between the end of the marker and the content -/
def delta030 (ordered : Bool) (e : Ent030) : Int :=
  e.indent - e.col - (if ordered then (e.contentLen : Int) else 0)

/-- the list's tokens that fail the check, each with `adjust_amount = delta − required_spaces` (never 0) -/
def viol030 (c : C030) (ordered : Bool) (ents : List (Nat × Ent030)) : List (Nat × Ent030 × Int) :=
  ents.filterMap (fun p =>
    let a := delta030 ordered p.2 - required030 c ordered p.2.paras
    if a ≠ 0 then some (p.1, p.2, a) else none)

/-! ## `__next_token_list_end_registrations` -/
/-- `s[:-adj]` for `adj > 0` (empty when `adj ≥ len(s)`), `s + " " * -adj` otherwise -/
def adjLine030 (adj : Int) (s : Str) : Str :=
  if adj > 0 then s.take (s.length - adj.toNat) else s ++ List.replicate (-adj).toNat ' '

/-- `for next_index in range(start, stop)`: `n` = `stop − start` indices from `k` on -/
def adjLines030 (adj : Int) : Nat → Nat → List Str → Except Err2 (List Str)
  | 0, _, ls => .ok ls
  | n + 1, k, ls =>
    if k = ls.length - 1 then adjLines030 adj n (k + 1) ls
    else match ls[k]? with
      | none => .error .indexError
      | some l =>
        if l.isEmpty then adjLines030 adj n (k + 1) ls
        else adjLines030 adj n (k + 1) (ls.set k (adjLine030 adj l))

/-- `get_start_stop` -/
def startStop030 (fr : Fr030f) (k : Nat) : Except Err2 (Nat × Nat) :=
  match dictGet030 k fr.starts with
  | none => .error .keyError
  | some a =>
    match dictGet030 k fr.ends with
    | none => .error .keyError
    | some b => .ok (a, b)

/-- `for registered_token, adj in registration_map.items()` -/
def regsGo030 (fr : Fr030f) : List (Nat × Int) → List Str → Except Err2 (List Str)
  | [], ls => .ok ls
  | (k, adj) :: regs, ls =>
    match startStop030 fr k with
    | .error e => .error e
    | .ok (a, b) =>
      match adjLines030 adj (b - a) a ls with
      | .error e => .error e
      | .ok ls' => regsGo030 fr regs ls'

/-- `__next_token_list_end_registrations` for the end token `t`: at most one `leading_spaces` request, for `t.start_markdown_token` -/
def regs030 (all : List Tok2) (t : Tok2) (fr : Fr030f) (regs : List (Nat × Int)) : Except Err2 (List FixReq2) :=
  match t.startIdx with
  | none => .error .attributeError
  | some j =>
    match all[j]? with
    | none => .error .attributeError
    | some lt =>
      if lt.kind ≠ .ulist ∧ lt.kind ≠ .olist then .error .attributeError else
      match lt.leading with
      | none => .ok []
      | some ld =>
        if ld.isEmpty then .ok [] else
        match regsGo030 fr regs (splitOn1 '\n' ld) with
        | .error e => .error e
        | .ok ls =>
          let rebuilt := joinWith ['\n'] ls
          if rebuilt ≠ ld then .ok [⟨j, .base .leadingSpaces, .str rebuilt⟩] else .ok []

/-! ## the rule -/
def entOf030 (i : Nat) (t : Tok2) : Nat × Ent030 := (i, ent030 t.toTok)

def bumpLastF030 : List (Nat × Ent030) → List (Nat × Ent030)
  | [] => []
  | [p] => [(p.1, { p.2 with paras := p.2.paras + 1 })]
  | p :: ps => p :: bumpLastF030 ps

/-- `__next_token_list_start` + `ListTracker.list_start` -/
def listStart030f (s : St030f) (i : Nat) (t : Tok2) : St030f :=
  { s with stack := { ordered := t.kind == .olist, ents := [entOf030 i t], lineCount := 0, starts := [(i, 0)], ends := [], cur := i } :: s.stack }

/-- the `is_new_list_item` branch + `ListTracker.new_list_item` -/
def newItem030f (fr : Fr030f) (i : Nat) (t : Tok2) : Fr030f :=
  { fr with ents := fr.ents ++ [entOf030 i t], ends := dictSet030 fr.cur fr.lineCount fr.ends,
            starts := dictSet030 i fr.lineCount fr.starts, cur := i }

/-- `__report_or_fix` in fix mode: the `indent_level` request -/
def indentReq030 (v : Nat × Ent030 × Int) : FixReq2 := ⟨v.1, .base .indentLevel, .int (v.2.1.indent - v.2.2)⟩

/-- `ListTracker.register` for every failing token, in order (`__list_adjustments[level]` is empty before) -/
def regMap030 (vs : List (Nat × Ent030 × Int)) : List (Nat × Int) :=
  vs.foldl (fun d v => dictSet030 v.1 v.2.2 d) []

/-- `__next_token_list_end` up to and including the registrations, for the innermost level `fr` -/
def listEnd030f (c : C030) (fm : Bool) (all : List Tok2) (fr : Fr030f) (t : Tok2) : Except Err2 Out :=
  -- `ListTracker.list_end`
  let fr1 := { fr with ends := dictSet030 fr.cur fr.lineCount fr.ends }
  if fm then
    let vs := viol030 c fr1.ordered fr1.ents
    let regs := regMap030 vs
    -- `if registration_map := self.__frank.get_registrations():`
    if regs.isEmpty then .ok { reqs := vs.map indentReq030 } else
    match regs030 all t fr1 regs with
    | .error e => .error e
    | .ok rq => .ok { reqs := vs.map indentReq030 ++ rq }
  else .ok { reports := check030 c fr1.ordered (fr1.ents.map (·.2)) }

/-- the state after `next_token` (it does not depend on the mode, the configuration or the rest of the stream), or the failure of a
    list end / list item outside every list -/
def step030f (s : St030f) (i : Nat) (t : Tok2) : Except Err2 St030f :=
  match t.kind with
  | .ulist | .olist => .ok (track030 (listStart030f s i t) t)
  | .ulistEnd | .olistEnd =>
    match s.stack with
    | [] => .error .assertion            -- `ListTracker.list_end`: `assert list_level in self.__list_start_indices`
    | _ :: rest => .ok (track030 { s with stack := rest } t)
  | .li =>
    match s.stack with
    | [] => .error .indexError           -- `self.__list_tokens[-1]`
    | fr :: rest => .ok (track030 ⟨newItem030f fr i t :: rest, false⟩ t)
  | .para =>
    match s.stack with
    | [] => .ok (track030 s t)
    | fr :: rest => .ok (track030 { s with stack := { fr with ents := bumpLastF030 fr.ents } :: rest } t)
  | _ => .ok (track030 s t)

/-- what `next_token` leaves in the context: only a list end token reports / requests anything -/
def out030f (c : C030) (fm : Bool) (all : List Tok2) (s : St030f) (t : Tok2) : Except Err2 Out :=
  match t.kind with
  | .ulistEnd | .olistEnd =>
    match s.stack with
    | [] => .ok {}
    | fr :: _ => listEnd030f c fm all fr t
  | _ => .ok {}

/-- `next_token`.  (With an empty stack a list end fails in `ListTracker.list_end`, before anything is reported; with a non-empty one the
    state change cannot fail, so the order of the two halves does not matter.) -/
def next030f (c : C030) (fm : Bool) (all : List Tok2) (s : St030f) (i : Nat) (t : Tok2) : Except Err2 (St030f × Out) :=
  match step030f s i t with
  | .error e => .error e
  | .ok s' =>
    match out030f c fm all s t with
    | .error e => .error e
    | .ok o => .ok (s', o)

def init030f (_c : C030) : St030f := {}

def md030f : Rule2 C030 St030f := ⟨init030f, next030f⟩

/-! ## the stream invariant of `md030_fix_ok` -/
/-- the number of lines `leading_spaces` has an entry for; `none`: the rule does not look at it (`None` or empty) -/
def leadLines030 (t : Tok2) : Option Nat :=
  match t.leading with
  | none => none
  | some ld => if ld.isEmpty then none else some (splitOn1 '\n' ld).length

/-- a list end token closes an open list and names THAT list's start token -/
def wfTok030 (s : St030f) (t : Tok2) : Bool :=
  match t.kind with
  | .ulistEnd | .olistEnd =>
    match s.stack with
    | [] => false
    | fr :: _ =>
      match t.startIdx, fr.ents.head? with
      | some j, some p => decide (j = p.1)
      | _, _ => false
  | _ => true

/-- what every parsed stream satisfies (checked by the tie on each one): a list end token closes an open list and names THAT list's
    start token (which is in the stream), a list item lies inside a list.  (`s` = the rule's state; it depends neither on the mode nor
    on the configuration.) -/
def wfGo030 : St030f → Nat → List Tok2 → Bool
  | _, _, [] => true
  | s, i, t :: ts =>
    wfTok030 s t &&
    match step030f s i t with
    | .ok s' => wfGo030 s' (i + 1) ts
    | .error _ => false

def wf030 (toks : List Tok2) : Bool := wfGo030 {} 0 toks

/-- when the list end token `t` arrives, the tracker's line count of the level it closes is at most the number of lines of the
    `leading_spaces` of the token `t` names -/
def coverTok030 (all : List Tok2) (s : St030f) (t : Tok2) : Bool :=
  match t.kind with
  | .ulistEnd | .olistEnd =>
    match s.stack, t.startIdx with
    | fr :: _, some j =>
      (match all[j]? with
       | some lt => (match leadLines030 lt with | some n => decide (fr.lineCount ≤ n) | none => true)
       | none => true)
    | _, _ => true
  | _ => true

/-- what parsed streams do NOT always satisfy (`md030_fix_index_error_real`): the line counts stay inside `leading_spaces` -/
def coverGo030 (all : List Tok2) : St030f → Nat → List Tok2 → Bool
  | _, _, [] => true
  | s, i, t :: ts =>
    coverTok030 all s t &&
    match step030f s i t with
    | .ok s' => coverGo030 all s' (i + 1) ts
    | .error _ => true

def cover030 (toks : List Tok2) : Bool := coverGo030 toks {} 0 toks

end Verif.Model.TokenRules
