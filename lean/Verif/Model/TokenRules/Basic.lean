/-
  TokenRules.Basic — the shared part of the FAITHFUL models of the token-driven fix-capable rules.

  Python modelled here
    pymarkdown/tokens/*.py :: `_modify_token` of every token class      → `modify`
    pymarkdown/plugin_manager/plugin_scan_context.py :: register_fix_token_request (dropped in scan mode),
                                                        add_triggered_rule (dropped in fix mode)
    pymarkdown/file_scan_helper.py :: __process_file_fix_tokens (the next_token loop)        → `runFrom`
                                      __process_file_fix_tokens_apply_fixes_inner / __apply_token_fix → `applyFixes`

  Abstract token = `kind` + exactly the fields the modelled rules read or write (+ line / column for the
  report).  A field that a token class does not have keeps its default value; `modify` refuses it exactly
  where the class's `_modify_token` chain returns False.  Tokens are identified by their INDEX in the
  stream (Python: object identity, `actual_tokens.index(token)`).

  Abstracted away: the text of `BadPluginFixError` messages and which of several failing tokens raises
  first (the model reports the failure of the token with the smallest index, the code that of the token
  whose first request was registered first — both end the fix of the file with `BadPluginFixError`).
  Core Lean only.
-/
namespace Verif.Model.TokenRules

abbrev Str := List Char

/-- token classes (`token_name`); `…End` = the `EndMarkdownToken` whose `type_name` is that class -/
inductive Kind where
  | atx | atxEnd | setext | setextEnd | frontMatter | para | paraEnd | text | blank | tbreak
  | fence | fenceEnd | icode | icodeEnd | html | htmlEnd | lrd
  | ulist | ulistEnd | olist | olistEnd | li | bquote | bquoteEnd
  | codeSpan | rawHtml | link | linkEnd | image | emphasis | emphasisEnd | hardBreak | autolink
  | eos | pragma
  deriving DecidableEq, Repr, BEq

structure Tok where
  kind : Kind
  line : Int := 0
  /-- `column_number` -/
  col : Int := 0
  /-- `hash_count` (atx, setext) -/
  hashCount : Int := 0
  /-- `remove_trailing_count` (atx) -/
  trailing : Int := 0
  /-- keys of `matter_map` (front matter) -/
  keys : List Str := []
  /-- `list_start_sequence` (ulist: the bullet; olist: the delimiter) -/
  seq : Str := []
  /-- `list_start_content` (olist, li) -/
  content : Str := []
  /-- `indent_level` (ulist, olist, li) -/
  indent : Int := 0
  /-- `extracted_whitespace` -/
  ws : Str := []
  /-- `leading_spaces` (ulist, olist), `bleading_spaces` (bquote) -/
  leading : Option Str := none
  /-- `start_character` (tbreak) -/
  startChar : Str := []
  /-- `rest_of_line` (tbreak) -/
  rest : Str := []
  /-- `fence_character` (fence) -/
  fenceChar : Str := []
  /-- `token_text` (text), `span_text` (codeSpan), `text_from_blocks` (link, image), `link_name_debug` (lrd) -/
  text : Str := []
  /-- `extra_end_data` (end tokens) -/
  endData : Option Str := none
  deriving DecidableEq, Repr

/-- field names a modelled rule passes to `register_fix_token_request` -/
inductive Field where
  | columnNumber | hashCount | listStartSequence | listStartContent | indentLevel | extractedWhitespace
  | leadingSpaces | bleadingSpaces | startCharacter | restOfLine | fenceCharacter | tokenText | spanText
  | textFromBlocks | linkNameDebug | extraEndData
  deriving DecidableEq, Repr, BEq

/-- `field_value: Union[str, int]` -/
inductive Val where
  | int (i : Int)
  | str (s : Str)
  deriving DecidableEq, Repr

structure FixReq where
  idx : Nat
  field : Field
  val : Val
  deriving DecidableEq, Repr

structure Report where
  line : Int
  col : Int
  extra : Option Str := none
  deriving DecidableEq, Repr

/-- the exceptions a rule body or the fix application can end with -/
inductive Err where
  | keyError | assertion | indexError | valueError | typeError
  /-- `BadPluginFixError` -/
  | badFix
  /-- the Python loop does not terminate (`ParserHelper` marker codec on a malformed string) -/
  | hang
  /-- the fix-mode half of a rule that is modelled in scan mode only (MD030) -/
  | notModelled
  deriving DecidableEq, Repr

/-! ## `_modify_token` -/
/-- `LeafMarkdownToken._modify_token` (does NOT call the base class: `column_number` is refused) -/
def leafMod (t : Tok) (f : Field) (v : Val) : Option Tok :=
  match f, v with
  | .extractedWhitespace, .str s => some { t with ws := s }
  | _, _ => none

/-- `MarkdownToken._modify_token` -/
def baseMod (t : Tok) (f : Field) (v : Val) : Option Tok :=
  match f, v with
  | .columnNumber, .int n => some { t with col := n }
  | _, _ => none

/-- `ListStartMarkdownToken._modify_token` -/
def listMod (t : Tok) (f : Field) (v : Val) : Option Tok :=
  match f, v with
  | .listStartContent, .str s => some { t with content := s }
  | .listStartSequence, .str s => some { t with seq := s }
  | .extractedWhitespace, .str s => some { t with ws := s }
  | .indentLevel, .int n => some { t with indent := n }
  | .leadingSpaces, .str s => some { t with leading := some s }
  | _, _ => baseMod t f v

def modify (t : Tok) (f : Field) (v : Val) : Option Tok :=
  match t.kind with
  | .atx =>
    match f, v with
    | .hashCount, .int n => if 1 ≤ n ∧ n ≤ 6 then some { t with hashCount := n } else leafMod t f v
    | _, _ => leafMod t f v
  | .setext | .frontMatter | .blank | .icode | .html | .para => leafMod t f v
  | .tbreak =>
    match f, v with
    | .startCharacter, .str s => some { t with startChar := s }
    | .restOfLine, .str s => some { t with rest := s }
    | _, _ => leafMod t f v
  | .fence =>
    match f, v with
    | .fenceCharacter, .str s => if s = ['~'] ∨ s = ['`'] then some { t with fenceChar := s } else leafMod t f v
    | _, _ => leafMod t f v
  | .lrd =>
    match f, v with
    | .linkNameDebug, .str s => some { t with text := s }
    | _, _ => leafMod t f v
  | .ulist | .olist => listMod t f v
  | .bquote =>
    match f, v with
    | .bleadingSpaces, .str s => some { t with leading := some s }
    | _, _ => baseMod t f v
  | .li =>
    match f, v with
    | .listStartContent, .str s => some { t with content := s }
    | .extractedWhitespace, .str s => some { t with ws := s }
    | .indentLevel, .int n => some { t with indent := n }
    | _, _ => none
  | .text =>
    match f, v with
    | .tokenText, .str s => some { t with text := s }
    | .extractedWhitespace, .str s => some { t with ws := s }
    | _, _ => none
  | .codeSpan =>
    match f, v with
    | .spanText, .str s => some { t with text := s }
    | _, _ => none
  | .link | .image =>
    match f, v with
    | .textFromBlocks, .str s => some { t with text := s }
    | _, _ => none
  | .rawHtml => none
  | .atxEnd | .setextEnd | .paraEnd | .fenceEnd | .icodeEnd | .htmlEnd | .ulistEnd | .olistEnd
  | .bquoteEnd | .linkEnd | .emphasisEnd =>
    match f, v with
    | .extractedWhitespace, .str s => some { t with ws := s }
    | .extraEndData, .str s => some { t with endData := some s }
    | _, _ => none
  | .emphasis | .hardBreak | .autolink | .eos | .pragma => baseMod t f v

/-! ## applying the registered requests -/
/-- a field name occurs twice among the requests of one token: "Multiple plugins … have requested a fix
    for the same field of the same token" -/
def hasDup : List Field → Bool
  | [] => false
  | f :: fs => fs.contains f || hasDup fs

def modAll : Tok → List (Field × Val) → Except Err Tok
  | t, [] => .ok t
  | t, (f, v) :: g =>
    match modify t f v with
    | some t' => modAll t' g
    | none => .error .badFix

/-- `__apply_token_fix` for one token with its list of requests -/
def applyGroup (t : Tok) (g : List (Field × Val)) : Except Err Tok :=
  if hasDup (g.map (·.1)) then .error .badFix else modAll t g

def groupOf (reqs : List FixReq) (i : Nat) : List (Field × Val) :=
  (reqs.filter (·.idx == i)).map (fun q => (q.field, q.val))

def applyFrom (reqs : List FixReq) : Nat → List Tok → Except Err (List Tok)
  | _, [] => .ok []
  | i, t :: ts =>
    match applyGroup t (groupOf reqs i) with
    | .error e => .error e
    | .ok t' =>
      match applyFrom reqs (i + 1) ts with
      | .error e => .error e
      | .ok ts' => .ok (t' :: ts')

/-- `__process_file_fix_tokens_apply_fixes_inner` (field requests; a request for a token that is not in
    the stream makes `actual_tokens.index` raise `ValueError`) -/
def applyFixes (toks : List Tok) (reqs : List FixReq) : Except Err (List Tok) :=
  if reqs.any (fun q => decide (toks.length ≤ q.idx)) then .error .valueError else applyFrom reqs 0 toks

/-! ## a rule and its runs -/
structure Rule (Cfg St : Type) where
  /-- `initialize_from_config` + `starting_new_file` -/
  init : Cfg → St
  /-- `next_token(context, token)`; the `Bool` is `context.in_fix_mode`, the `Nat` the index of the token -/
  next : Cfg → Bool → St → Nat → Tok → Except Err (St × List Report × List FixReq)

variable {Cfg St : Type}

def runFrom (r : Rule Cfg St) (c : Cfg) (fm : Bool) : St → Nat → List Tok → Except Err (St × List Report × List FixReq)
  | s, _, [] => .ok (s, [], [])
  | s, i, t :: ts =>
    match r.next c fm s i t with
    | .error e => .error e
    | .ok (s', rp, fx) =>
      match runFrom r c fm s' (i + 1) ts with
      | .error e => .error e
      | .ok (s'', rps, fxs) => .ok (s'', rp ++ rps, fx ++ fxs)

/-- scan mode: the reports in the order they are made -/
def scan (r : Rule Cfg St) (c : Cfg) (toks : List Tok) : Except Err (List Report) :=
  match runFrom r c false (r.init c) 0 toks with
  | .error e => .error e
  | .ok (_, rps, _) => .ok rps

/-- fix mode: the requests in the order they are registered -/
def fixReqs (r : Rule Cfg St) (c : Cfg) (toks : List Tok) : Except Err (List FixReq) :=
  match runFrom r c true (r.init c) 0 toks with
  | .error e => .error e
  | .ok (_, _, fxs) => .ok fxs

/-- fix mode: the token stream after the requests were applied -/
def fix (r : Rule Cfg St) (c : Cfg) (toks : List Tok) : Except Err (List Tok) :=
  match fixReqs r c toks with
  | .error e => .error e
  | .ok fxs => applyFixes toks fxs

/-- the same, token by token, for a rule whose requests always name the current token -/
def fixFrom (r : Rule Cfg St) (c : Cfg) : St → Nat → List Tok → Except Err (List Tok)
  | _, _, [] => .ok []
  | s, i, t :: ts =>
    match r.next c true s i t with
    | .error e => .error e
    | .ok (s', _, fx) =>
      match applyGroup t (fx.map (fun q => (q.field, q.val))) with
      | .error e => .error e
      | .ok t' =>
        match fixFrom r c s' (i + 1) ts with
        | .error e => .error e
        | .ok ts' => .ok (t' :: ts')

/-! ## small Python helpers -/
/-- `str(n)` for an `int` -/
def pyStr (n : Int) : Str :=
  if n < 0 then '-' :: Nat.toDigits 10 n.natAbs else Nat.toDigits 10 n.toNat

/-- `int(s)` for a non-empty string of ASCII digits; `none` = `ValueError`.  (Python's `int` also accepts
    surrounding white space, a sign, `_` separators and non-ASCII digits: outside the modelled alphabet.) -/
def pyInt (s : Str) : Option Int :=
  if s.isEmpty || !s.all Char.isDigit then none
  else some (Int.ofNat (Nat.ofDigitChars 10 s 0))

end Verif.Model.TokenRules
