import Verif.Model.TokenRules.Md046
/-
  MD046 — the documented condition as a FILTER over the token stream, written from /repo/newdocs/src/plugins/rule_md046.md without the
  rule's state machine: "This rule triggers when there is inconsistent use of code block elements within the same document";
  `consistent` "sets the current configuration type to either `indented` or `fenced` based on the first code block encountered in
  the document"; `fenced` / `indented`: only that style is to be used.
  (The reference condition over the reference parser's blocks is `Verif.Model.RuleSpec.md046`; `md046_faithful_eq_spec` connects the two.)
-/
namespace Verif.Model.TokenRules

/-- a code block start token (`is_code_block`) -/
def isCode046 (t : Tok2) : Bool := decide (t.kind = .fence) || decide (t.kind = .icode)

/-- its style -/
def sty046 (t : Tok2) : Sty046 := if t.kind = .fence then .fenced else .indented

/-- the style of the first code block of the stream -/
def firstSty046 (toks : List Tok2) : Option Sty046 := (toks.find? isCode046).map sty046

/-- the required style: the configured one, or with `consistent` that of the first code block (`none`: no code block at all) -/
def required046 (c : C046) (toks : List Tok2) : Option Sty046 :=
  match c.style with
  | some s => some s
  | none => firstSty046 toks

def msg046 (req cur : Sty046) : Str := "Expected: ".toList ++ req.name ++ "; Actual: ".toList ++ cur.name

/-- the code block start tokens whose style is not `req` -/
def offending046 (req : Option Sty046) (toks : List Tok2) : List Tok2 :=
  toks.filter (fun t => isCode046 t && decide (req ≠ some (sty046 t)))

def report046 (req : Option Sty046) (t : Tok2) : Report :=
  ⟨t.line, t.col, some (msg046 (req.getD (sty046 t)) (sty046 t))⟩

/-- every code block of the wrong style, at its start token, with `Expected: <required>; Actual: <its style>` -/
def spec046 (c : C046) (toks : List Tok2) : List Report :=
  (offending046 (required046 c toks) toks).map (report046 (required046 c toks))

end Verif.Model.TokenRules
