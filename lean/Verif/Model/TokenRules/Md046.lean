import Verif.Model.TokenRules.Basic2
/-
  MD046 code-block-style — faithful model of pymarkdown/plugins/rule_md_046.py :: RuleMd046
    initialize_from_config / starting_new_file → `init046`
    next_token                                 → `next046`
    __fix, __create_new_fenced_tokens, __create_new_indented_tokens → `fix046`, `newFenced`, `newIndented`
  State: `__actual_style_type` ("" = not decided), `__start_fix_token`, `__inner_fix_token`, `__token_before_start_fix_token`
  (tokens by index in the stream; `__last_token` is the token at index − 1).
  The rule's fix is a REPLACEMENT record (`register_replace_tokens_request`): the code block's start token … end token are replaced by
  a new start token, the original inner text token (the same object) and a new end token; converting to the indented style after a
  paragraph end puts a new blank-line token in front.  All new tokens have line number 0.
  Explicit failures: `assert end_token.start_markdown_token == self.__start_fix_token`, `assert token.is_text`,
  `assert self.__inner_fix_token is None` (AssertionError); `EndOfStreamToken` has no `start_markdown_token` (AttributeError).
-/
namespace Verif.Model.TokenRules

inductive Sty046 where
  | fenced | indented
  deriving DecidableEq, Repr

structure C046 where
  /-- `style`: `none` = "consistent" -/
  style : Option Sty046 := none
  deriving DecidableEq, Repr

structure St046 where
  actual : Option Sty046 := none
  startFix : Option Nat := none
  inner : Option Nat := none
  before : Option Nat := none
  deriving DecidableEq, Repr

def Sty046.name : Sty046 → Str
  | .fenced => "fenced".toList
  | .indented => "indented".toList

/-- `FencedCodeBlockMarkdownToken("`", 3, "", …, PositionMarker(0, 0, ""))` and its end token (`extra_end_data = ":3"`) -/
def newFenced (endStart : Nat) : Tok2 × Tok2 :=
  ({ kind := .fence, line := 0, col := 1, fenceChar := ['`'] },
   { kind := .fenceEnd, endData := some [':', '3'], startIdx := some endStart })

/-- `IndentedCodeBlockMarkdownToken("    ", 0, 0)` with one `add_indented_whitespace("    ")` per newline of the inner text -/
def newIndented (endStart : Nat) (innerText : Option Str) : Tok2 × Tok2 :=
  let n := match innerText with | some s => countNl s | none => 0
  ({ kind := .icode, line := 0, col := 0, ws := "    ".toList,
     leading := some ((List.replicate n ("\n    ".toList)).flatten) },
   { kind := .icodeEnd, startIdx := some endStart })

def newBlank : Tok2 := { kind := .blank, line := 0, col := 1 }

/-- `__fix`: the replacement list -/
def fix046 (all : List Tok2) (s : St046) : List RTok :=
  let innerTok : Option Tok2 := s.inner.bind (fun j => all[j]?)
  let blank : Bool := s.actual = some .indented &&
    (match s.before.bind (fun j => all[j]?) with | some b => b.kind == .paraEnd | none => false)
  let k := if blank then 1 else 0
  let (st, en) := if s.actual = some .fenced then newFenced k else newIndented k (innerTok.map (·.text))
  (if blank then [.new newBlank] else []) ++ [.new st] ++ (s.inner.toList.map .ref) ++ [.new en]

def next046 (_c : C046) (fm : Bool) (all : List Tok2) (s : St046) (i : Nat) (t : Tok2) : Except Err2 (St046 × Out) :=
  match s.startFix with
  | some sidx =>
    if t.kind.isEnd then
      if t.kind = .eos then .error .attributeError
      else if t.startIdx ≠ some sidx then .error .assertion
      else .ok ({ s with startFix := none, inner := none, before := none }, { repls := [⟨sidx, i, fix046 all s⟩] })
    else if t.kind ≠ .text then .error .assertion
    else if s.inner.isSome then .error .assertion
    else .ok ({ s with inner := some i }, {})
  | none =>
    match t.kind with
    | .fence | .icode =>
      let cur : Sty046 := if t.kind = .fence then .fenced else .indented
      let act := s.actual.getD cur
      let s1 := { s with actual := some act }
      if act ≠ cur then
        if fm then .ok ({ s1 with startFix := some i, before := if i = 0 then none else some (i - 1) }, {})
        else .ok (s1, { reports := [⟨t.line, t.col, some ("Expected: ".toList ++ act.name ++ "; Actual: ".toList ++ cur.name)⟩] })
      else .ok (s1, {})
    | _ => .ok (s, {})

def init046 (c : C046) : St046 := { actual := c.style }

def md046 : Rule2 C046 St046 := ⟨init046, next046⟩

/-- the stream invariant under which the fix never raises: after a code block start only text tokens (at most one) follow up to an end
    token that names the start token -/
def wf046 : Option (Nat × Bool) → Nat → List Tok2 → Bool
  | _, _, [] => true
  | none, i, t :: ts =>
    if t.kind = .fence ∨ t.kind = .icode then wf046 (some (i, false)) (i + 1) ts else wf046 none (i + 1) ts
  | some (sidx, seenText), i, t :: ts =>
    if t.kind.isEnd then decide (t.kind ≠ .eos) && decide (t.startIdx = some sidx) && wf046 none (i + 1) ts
    else decide (t.kind = .text) && !seenText && wf046 (some (sidx, true)) (i + 1) ts

end Verif.Model.TokenRules
