import Verif.Model.TokenRules.Md037
/-
  MD037 — statements of what the rule SHOULD compute, written without the index arithmetic of the code.

  * `cutGo037` / `Chain037` / `BlankDel037`: what a fix of one text token may do — cut out a chain of disjoint intervals, in text order;
    delete blanks only.
  * `eligGo037`: the eligible emphasis runs of a text, by one left-to-right pass over the characters (no `str.find`, no indices
    to restart from): the reference for `__find_next_eligible_emphasis` driven by the loop of `__check_text_token`.
  * `pageFirst037` / `pageSecond037`: the rule page's trigger ("at least one of a pair of eligible emphasis characters are surrounded
    by whitespace characters").
-/
namespace Verif.Model.TokenRules

/-- `txt[pos:]` without the intervals `[p.start, p.stop)` of `ps` (meant for intervals in increasing order from `pos`) -/
def cutGo037 (txt : Str) : Nat → List Pend037 → Str
  | pos, [] => txt.drop pos
  | pos, p :: ps => (txt.drop pos).take (p.start - pos) ++ cutGo037 txt p.stop ps

/-- the intervals come in text order from `pos` on and do not overlap -/
def Chain037 : Nat → List Pend037 → Prop
  | _, [] => True
  | pos, p :: ps => pos ≤ p.start ∧ p.start ≤ p.stop ∧ Chain037 p.stop ps

/-- total length of the intervals -/
def cutLen037 : List Pend037 → Nat
  | [] => 0
  | p :: ps => (p.stop - p.start) + cutLen037 ps

/-- `s'` is `s` with some blanks (space, tab) deleted: every other character is kept, in order -/
inductive BlankDel037 : Str → Str → Prop
  | nil : BlankDel037 [] []
  | keep (c : Char) {s s' : Str} : BlankDel037 s s' → BlankDel037 (c :: s) (c :: s')
  | del (c : Char) {s s' : Str} : isBlank037 c = true → BlankDel037 s s' → BlankDel037 (c :: s) s'

/-! ## the scan, re-stated

  The eligible emphasis runs of a text, by ONE left-to-right pass over its characters.  `skip` = number of characters still to be
  stepped over, `prev` = the character in front of `rest`, `pos` = the index of the head of `rest`.  A `*` or `_` that is looked at
  * directly behind U+0008 (the marker of a backslash escape) is not a marker; the next character is not looked at;
  * otherwise it starts a run of `len ≥ 1` equal characters; if the run stands between two U+0007 (it is the replacement text of
    a character reference) it is not a marker, and the next character is not looked at;
  * otherwise, if there is a blank (space, tab) directly before or directly behind the run, the run is ELIGIBLE, and the character
    behind the run is not looked at;
  * otherwise it is not, and the next character is not looked at (so the rest of a longer run is looked at again from its third
    character on).
  "Not looked at" is the code's `start_index = next_index + 1 + found_length`. -/
def eligGo037 : Nat → Option Char → Nat → Str → List Found037
  | _, _, _, [] => []
  | k + 1, _, pos, c :: cs => eligGo037 k (some c) (pos + 1) cs
  | 0, prev, pos, c :: cs =>
    if c = '*' ∨ c = '_' then
      if prev = some Codec.BS then eligGo037 1 (some c) (pos + 1) cs
      else if prev = some Codec.AL ∧ (c :: cs)[runLen037 c (c :: cs)]? = some Codec.AL then eligGo037 1 (some c) (pos + 1) cs
      else if isBlankO037 prev || isBlankO037 ((c :: cs)[runLen037 c (c :: cs)]?) then
        ⟨c, pos, runLen037 c (c :: cs), prev, (c :: cs)[runLen037 c (c :: cs)]?⟩ ::
          eligGo037 (runLen037 c (c :: cs)) (some c) (pos + 1) cs
      else eligGo037 1 (some c) (pos + 1) cs
    else eligGo037 0 (some c) (pos + 1) cs

def eligibles037 (text : Str) : List Found037 := eligGo037 0 none 0 text

/-- the `EligibleEmphasis` object for a run found in token `t` at index `i` -/
def mkEmph037 (i : Nat) (text : Str) (line col : Int) (f : Found037) : Emph037 :=
  ⟨f.ch, f.start, f.len, f.before, f.after, i, text, line, col⟩

/-- the reports for a closed pair under the two conditions `c1` (report the opening run) and `c2` (report the closing run) -/
def pairReports037 (c1 c2 : Emph037 → Emph037 → Bool) (b a : Emph037) : Except Err2 (List Report) :=
  match (if c1 b a then (report037 b a.len).map (fun r => [r]) else .ok []) with
  | .error e => .error e
  | .ok r1 =>
    match (if c2 b a then (report037 a (-1)).map (fun r => [r]) else .ok []) with
    | .error e => .error e
    | .ok r2 => .ok (r1 ++ r2)

/-- the stack discipline over a list of eligible runs: a run that equals the top of the stack in character and length closes a
    pair with it (and is not pushed); any other run is pushed.  Result: the stack afterwards and the reports of the closed pairs. -/
def pairsGo037 (c1 c2 : Emph037 → Emph037 → Bool) : List Emph037 → List Emph037 → Except Err2 (List Emph037 × List Report)
  | st, [] => .ok (st, [])
  | [], e :: es => pairsGo037 c1 c2 [e] es
  | b :: rest, e :: es =>
    if b.ch = e.ch ∧ b.len = e.len then
      match pairReports037 c1 c2 b e with
      | .error x => .error x
      | .ok r =>
        match pairsGo037 c1 c2 rest es with
        | .error x => .error x
        | .ok (st', rs) => .ok (st', r ++ rs)
    else pairsGo037 c1 c2 (e :: b :: rest) es

/-- the stream: a paragraph / SetExt / ATX start token opens a block with an empty stack, the matching kind of end token closes it,
    the text tokens in between (also those inside links, emphasis …) are scanned with ONE stack per block; text outside is not
    looked at -/
def specGo037 (c1 c2 : Emph037 → Emph037 → Bool) : Option (List Emph037) → Nat → List Tok2 → Except Err2 (List Report)
  | _, _, [] => .ok []
  | cur, i, t :: ts =>
    if isBlockStart037 t.kind then specGo037 c1 c2 (some []) (i + 1) ts
    else if isBlockEnd037 t.kind then specGo037 c1 c2 none (i + 1) ts
    else
      match cur with
      | some st =>
        if t.kind = .text then
          match pairsGo037 c1 c2 st ((eligibles037 t.text).map (mkEmph037 i t.text t.line t.col)) with
          | .error x => .error x
          | .ok (st', rs) =>
            match specGo037 c1 c2 (some st') (i + 1) ts with
            | .error x => .error x
            | .ok rs' => .ok (rs ++ rs')
        else specGo037 c1 c2 cur (i + 1) ts
      | none => specGo037 c1 c2 none (i + 1) ts

def specScan037 (c1 c2 : Emph037 → Emph037 → Bool) (toks : List Tok2) : Except Err2 (List Report) := specGo037 c1 c2 none 0 toks

/-! ## the pairs that close — which pairs are examined does not depend on the two conditions -/

/-- the stack discipline alone: the stack afterwards and the pairs (opening run, closing run) in the order they close -/
def closedGo037 : List Emph037 → List Emph037 → List Emph037 × List (Emph037 × Emph037)
  | st, [] => (st, [])
  | [], e :: es => closedGo037 [e] es
  | b :: rest, e :: es =>
    if b.ch = e.ch ∧ b.len = e.len then ((closedGo037 rest es).1, (b, e) :: (closedGo037 rest es).2)
    else closedGo037 (e :: b :: rest) es

/-- the pairs that close in a stream, block by block -/
def specPairs037 : Option (List Emph037) → Nat → List Tok2 → List (Emph037 × Emph037)
  | _, _, [] => []
  | cur, i, t :: ts =>
    if isBlockStart037 t.kind then specPairs037 (some []) (i + 1) ts
    else if isBlockEnd037 t.kind then specPairs037 none (i + 1) ts
    else
      match cur with
      | some st =>
        if t.kind = .text then
          (closedGo037 st ((eligibles037 t.text).map (mkEmph037 i t.text t.line t.col))).2 ++
            specPairs037 (some (closedGo037 st ((eligibles037 t.text).map (mkEmph037 i t.text t.line t.col))).1) (i + 1) ts
        else specPairs037 cur (i + 1) ts
      | none => specPairs037 none (i + 1) ts

def closedPairs037 (toks : List Tok2) : List (Emph037 × Emph037) := specPairs037 none 0 toks

/-- the reports of a list of closed pairs, in order; the first failing report ends everything -/
def repAll037 (c1 c2 : Emph037 → Emph037 → Bool) : List (Emph037 × Emph037) → Except Err2 (List Report)
  | [] => .ok []
  | p :: ps =>
    match pairReports037 c1 c2 p.1 p.2 with
    | .error x => .error x
    | .ok r =>
      match repAll037 c1 c2 ps with
      | .error x => .error x
      | .ok rs => .ok (r ++ rs)

/-- the position `__report` computes when the text in front of the run holds no character of the in-band marker codec: line of the
    token + newlines in front of the run; column of the token + characters since the last newline (or since the start of the text)
    + `adjust` — and when that sum is negative, its absolute value -/
def plainPos037 (e : Emph037) (adjust : Int) : Report :=
  let pre := e.text.take e.start
  reportPos037 e.line e.col (countNl pre) ((if countNl pre ≠ 0 then afterLastNl037 pre else pre.length : Nat) + adjust)

/-! ## the rule page

  "this rule check[s] for cases where at least one of a pair of eligible emphasis characters are surrounded by whitespace characters":
  the opening run is reported when it has a blank on both sides, the closing run when it has. -/
def surrounded037 (e : Emph037) : Bool := isBlankO037 e.before && isBlankO037 e.after
def pageFirst037 (b _a : Emph037) : Bool := surrounded037 b
def pageSecond037 (_b a : Emph037) : Bool := surrounded037 a

/-- the two readings agree on a pair whose outer sides are spaces and whose inner sides are not tabs -/
def PageOK037 (p : Emph037 × Emph037) : Prop :=
  p.1.before = some ' ' ∧ p.2.after = some ' ' ∧ p.1.after ≠ some '\t' ∧ p.2.before ≠ some '\t'


end Verif.Model.TokenRules
