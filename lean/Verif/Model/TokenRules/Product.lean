import Verif.Model.TokenRules.Basic
/-
  Several rules in one token pass — pymarkdown/plugin_manager/plugin_manager.py :: PluginManager.next_token
  (every enabled plug-in, in plug-in order, gets the token; the first exception ends the pass) together with the shared
  `fix_token_map` of plugin_scan_context.py (the requests of all plug-ins for one token form ONE group, checked for
  duplicate field names and applied in registration order).
-/
namespace Verif.Model.TokenRules

def Rule.prod {C1 S1 C2 S2 : Type} (r1 : Rule C1 S1) (r2 : Rule C2 S2) : Rule (C1 × C2) (S1 × S2) :=
  ⟨fun c => (r1.init c.1, r2.init c.2),
   fun c fm s i t =>
     match r1.next c.1 fm s.1 i t with
     | .error e => .error e
     | .ok (s1, rp1, fx1) =>
       match r2.next c.2 fm s.2 i t with
       | .error e => .error e
       | .ok (s2, rp2, fx2) => .ok ((s1, s2), rp1 ++ rp2, fx1 ++ fx2)⟩

infixr:70 " ⊗ " => Rule.prod

end Verif.Model.TokenRules
