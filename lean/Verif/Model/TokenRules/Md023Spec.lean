import Verif.Model.TokenRules.Md023
/-
  MD023 — what the rule SHOULD report, read off `/repo/newdocs/src/plugins/rule_md023.md`, written over the token stream without the
  rule's state machine:

    "This rule triggers when one or more whitespace characters precedes the Heading element"  (ATX: `extracted_whitespace` non-empty;
     SetExt: the first text line — the start token's `extracted_whitespace` — or the boundary line — the END token's
     `extracted_whitespace` — is indented: the page's three SetExt examples)
    "With respect to multiple line SetExt Heading elements, this rule triggers when any line within the SetExt Heading element has
     leading spaces"  (a text token's `end_whitespace` carries one entry per line; a later line's entry is `leading \x02 trailing`)
    "the reported position was moved to the start of the boundary line"  (the SetExt START token's line / column, once per heading).

  `page023` collects, per SetExt heading, the `end_whitespace` lines of its text tokens; the heading is reported when the start token's
  or the end token's whitespace is non-empty or ANY collected line has a non-empty leading part.
  `trig023` is the condition the CODE implements (`md023_scan_iff`): the same, except that the FIRST collected line never counts — the
  code drops the first line of the first text token it looks at, and it only looks at text tokens with a non-empty `end_whitespace`:
  when the heading's first text line ends in a hard line break (or an inline element is followed by one) the first collected line IS a
  later line of the heading (`md023_spec_witness`).
  The page says nothing about containers: inside a block quote or list the whitespace in question is what is left after the
  container's own prefix (the parser's `extracted_whitespace`), for the underline as for the text lines.
-/
namespace Verif.Model.TokenRules

/-- an `end_whitespace` line `leading \x02 trailing` with a non-empty leading part -/
def leadLine023 (l : Str) : Bool := (leadPart023 l).isSome

/-- the `end_whitespace` lines a text token contributes to its heading -/
def endLines023 (t : Tok2) : List Str :=
  match t.endWs with
  | some e => if e.isEmpty then [] else splitOn1 '\n' e
  | none => []

def rep023 (t : Tok2) : Report := ⟨t.line, t.col, none⟩

/-- the report of a SetExt END token -/
def hsEnd023 (first : Bool) (o : Option (Tok2 × List Str)) (t : Tok2) : List Report :=
  match o with
  | some (h, ls) =>
    if !h.ws.isEmpty || (if first then ls else ls.tail).any leadLine023 || !t.ws.isEmpty then [rep023 h] else []
  | none => []

/-- what one token adds to the report list; `o` = the open SetExt heading (its start token, the lines collected so far);
    `first` = does the first collected line count? -/
def hsOut023 (first : Bool) (o : Option (Tok2 × List Str)) (t : Tok2) : List Report :=
  match t.kind with
  | .atx => if t.ws.isEmpty then [] else [rep023 t]
  | .setextEnd => hsEnd023 first o t
  | _ => []

/-- the open heading after one token -/
def hsNext023 (o : Option (Tok2 × List Str)) (t : Tok2) : Option (Tok2 × List Str) :=
  match t.kind with
  | .setext => some (t, [])
  | .text => o.map (fun p => (p.1, p.2 ++ endLines023 t))
  | .setextEnd => none
  | _ => o

def headScan023 (first : Bool) : Option (Tok2 × List Str) → List Tok2 → List Report
  | _, [] => []
  | o, t :: ts => hsOut023 first o t ++ headScan023 first (hsNext023 o t) ts

/-- the documented condition -/
def page023 (toks : List Tok2) : List Report := headScan023 true none toks

/-- the implemented condition -/
def trig023 (toks : List Tok2) : List Report := headScan023 false none toks

end Verif.Model.TokenRules
