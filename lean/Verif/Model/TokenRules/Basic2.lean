import Verif.Model.TokenRules.Basic
/-
  TokenRules.Basic2 — the shared part of the FAITHFUL models of five more fix-capable token rules
  (MD023 MD030-fix MD037 MD044 MD046).  Extends `Basic` without touching it.

  Python modelled here
    pymarkdown/tokens/*.py :: `_modify_token`, the fields the FIVE rules add to the nine of `Basic`      → `modify2`
        text_markdown_token.py (`end_whitespace`), reference_markdown_token.py (`link_title`, `pre_link_title`),
        link_reference_definition_markdown_token.py (`link_name`, `link_title`, `link_title_raw`)
    pymarkdown/plugin_manager/plugin_scan_context.py :: register_fix_token_request, register_replace_tokens_request
    pymarkdown/file_scan_helper.py :: __process_file_fix_tokens_apply_fixes_inner                         → `applyFixes2`
        __apply_token_fix (per token, in `fix_token_map` insertion order)                                → `applyField`
        __look_for_collisions, __apply_replacements, __apply_replacement_fix                             → `collide`, `applyRepl`
        MarkdownToken.adjust_line_number, PragmaToken.adjust_pragma_line_number                           → `adjLine`, `adjPragma`

  `Tok2` = `Tok` + the fields only the five rules read.  A rule's `next` additionally receives the whole ORIGINAL stream:
  Python end tokens carry a reference `start_markdown_token`; the model carries the INDEX of that token (`startIdx`) and
  looks the token up in the stream (in fix mode no token is modified before the pass is over, so this is what Python reads).
  Core Lean only.
-/
namespace Verif.Model.TokenRules

structure Tok2 extends Tok where
  /-- `end_whitespace` (text) -/
  endWs : Option Str := none
  /-- index in the stream of `start_markdown_token` (`EndMarkdownToken`); `none`: that token is not in the stream -/
  startIdx : Option Nat := none
  /-- `label_type` (link, image) -/
  labelType : Str := []
  /-- `link_title` (link, image, lrd) -/
  linkTitle : Option Str := none
  /-- `pre_link_title` (link, image) -/
  preLinkTitle : Option Str := none
  /-- `active_link_uri` (link, image) -/
  activeUri : Str := []
  /-- `before_link_whitespace` (link, image) -/
  beforeLinkWs : Option Str := none
  /-- `before_title_whitespace` (link, image) -/
  beforeTitleWs : Option Str := none
  /-- `inline_title_bounding_character` (link, image) -/
  boundChar : Option Str := none
  /-- `extracted_start_backticks` (codeSpan) -/
  startTicks : Str := []
  /-- `leading_whitespace` (codeSpan) -/
  leadWs : Str := []
  /-- `trailing_whitespace` (codeSpan) -/
  trailWs : Str := []
  /-- `link_name` (lrd) -/
  linkName : Str := []
  /-- `link_destination_whitespace` (lrd) -/
  destWs : Str := []
  /-- `link_destination` (lrd) -/
  dest : Str := []
  /-- `link_title_whitespace` (lrd) -/
  titleWs : Str := []
  /-- `link_title_raw` (lrd) -/
  titleRaw : Str := []
  /-- keys of `pragma_lines` (pragma) -/
  pragmaLines : List Int := []
  deriving DecidableEq, Repr

/-- field names passed to `register_fix_token_request` by any of the fourteen modelled rules -/
inductive Field2 where
  | base (f : Field)
  | endWhitespace | linkTitle | preLinkTitle | linkName | linkTitleRaw
  deriving DecidableEq, Repr, BEq

structure FixReq2 where
  idx : Nat
  field : Field2
  val : Val
  deriving DecidableEq, Repr

/-- an element of `ReplaceTokensRecord.replacement_tokens`: a token object the rule created, or one of the stream's own token
    objects (by index) — Python passes the OBJECT, so a line adjustment made by an earlier replacement is visible through it -/
inductive RTok where
  | new (t : Tok2)
  | ref (i : Nat)
  deriving DecidableEq, Repr

/-- `ReplaceTokensRecord`: start and end token by index in the original stream.  In `toks` a NEW end token names its start token by
    its position in `toks`. -/
structure Repl where
  startIdx : Nat
  endIdx : Nat
  toks : List RTok
  deriving DecidableEq, Repr

inductive Err2 where
  | keyError | assertion | indexError | valueError | typeError | attributeError
  | badFix | hang | notModelled
  deriving DecidableEq, Repr

def Err.to2 : Err → Err2
  | .keyError => .keyError | .assertion => .assertion | .indexError => .indexError | .valueError => .valueError
  | .typeError => .typeError | .badFix => .badFix | .hang => .hang | .notModelled => .notModelled

/-- what one `next_token` call leaves in the context -/
structure Out where
  reports : List Report := []
  reqs : List FixReq2 := []
  repls : List Repl := []
  deriving DecidableEq, Repr

def Out.append (a b : Out) : Out := ⟨a.reports ++ b.reports, a.reqs ++ b.reqs, a.repls ++ b.repls⟩
instance : Append Out := ⟨Out.append⟩

/-! ## token predicates -/
/-- `is_end_token`: `token_name.startswith("end-")` — true for `end-of-stream` too -/
def Kind.isEnd : Kind → Bool
  | .atxEnd | .setextEnd | .paraEnd | .fenceEnd | .icodeEnd | .htmlEnd | .ulistEnd | .olistEnd | .bquoteEnd
  | .linkEnd | .emphasisEnd | .eos => true
  | _ => false

/-- `is_container` (token class CONTAINER_BLOCK) -/
def Kind.isContainer : Kind → Bool
  | .ulist | .olist | .li | .bquote => true
  | _ => false

/-! ## `_modify_token` -/
def modify2 (t : Tok2) (f : Field2) (v : Val) : Option Tok2 :=
  match f with
  | .base g => (modify t.toTok g v).map (fun b => { t with toTok := b })
  | .endWhitespace =>
    match t.kind, v with
    | .text, .str s => some { t with endWs := some s }
    | _, _ => none
  | .linkTitle =>
    match t.kind, v with
    | .link, .str s | .image, .str s | .lrd, .str s => some { t with linkTitle := some s }
    | _, _ => none
  | .preLinkTitle =>
    match t.kind, v with
    | .link, .str s | .image, .str s => some { t with preLinkTitle := some s }
    | _, _ => none
  | .linkName =>
    match t.kind, v with
    | .lrd, .str s => some { t with linkName := s }
    | _, _ => none
  | .linkTitleRaw =>
    match t.kind, v with
    | .lrd, .str s => some { t with titleRaw := s }
    | _, _ => none

/-! ## applying the registered field requests (`fix_token_map` is a dict keyed by token, in insertion order) -/
def hasDup2 : List Field2 → Bool
  | [] => false
  | f :: fs => fs.contains f || hasDup2 fs

def modAll2 : Tok2 → List (Field2 × Val) → Except Err2 Tok2
  | t, [] => .ok t
  | t, (f, v) :: g =>
    match modify2 t f v with
    | some t' => modAll2 t' g
    | none => .error .badFix

/-- `__apply_token_fix` -/
def applyGroup2 (t : Tok2) (g : List (Field2 × Val)) : Except Err2 Tok2 :=
  if hasDup2 (g.map (·.1)) then .error .badFix else modAll2 t g

def groupOf2 (reqs : List FixReq2) (i : Nat) : List (Field2 × Val) :=
  (reqs.filter (·.idx == i)).map (fun q => (q.field, q.val))

/-- the token indices in the order in which they first occur among the requests (dict insertion order) -/
def firstOcc : List Nat → List Nat → List Nat
  | _, [] => []
  | seen, i :: is => if seen.contains i then firstOcc seen is else i :: firstOcc (i :: seen) is

def setAt (ts : List Tok2) (i : Nat) (t : Tok2) : List Tok2 := ts.set i t

/-- the loop over `fix_token_map.items()`: a token that is not in the stream raises `ValueError` AFTER its requests were applied
    to it (`actual_tokens.index`), a refused request `BadPluginFixError` -/
def applyFieldsGo (reqs : List FixReq2) : List Nat → List Tok2 → Except Err2 (List Tok2)
  | [], ts => .ok ts
  | i :: is, ts =>
    match ts[i]? with
    | none => .error .valueError
    | some t =>
      match applyGroup2 t (groupOf2 reqs i) with
      | .error e => .error e
      | .ok t' => applyFieldsGo reqs is (ts.set i t')

def applyFields (ts : List Tok2) (reqs : List FixReq2) : Except Err2 (List Tok2) :=
  applyFieldsGo reqs (firstOcc [] (reqs.map (·.idx))) ts

/-! ## replacements -/
/-- `range(start_index, end_index + 1)` -/
def rangeIncl (a b : Nat) : List Nat := (List.range (b + 1 - a)).map (· + a)

/-- `__look_for_collisions` for all records in order; `fixed` = indices with a field request, `repd` = indices already claimed -/
def collide (n : Nat) (fixed : List Nat) : List Nat → List Repl → Except Err2 Unit
  | _, [] => .ok ()
  | repd, r :: rs =>
    if n ≤ r.startIdx ∨ n ≤ r.endIdx then .error .valueError else
    let rg := rangeIncl r.startIdx r.endIdx
    if rg.any fixed.contains then .error .badFix
    else if rg.any repd.contains then .error .badFix
    else collide n fixed (rg ++ repd) rs

/-- `adjust_line_number`: a line number of 0 stays 0 -/
def adjLine (d : Int) (t : Tok2) : Tok2 := if t.line = 0 then t else { t with line := t.line + d }

def insDesc (k : Int) : List Int → List Int
  | [] => [k]
  | x :: xs => if x ≤ k then k :: x :: xs else x :: insDesc k xs

def sortDesc (l : List Int) : List Int := l.foldr insDesc []

/-- one `adjust_pragma_line_number(k, k + d)` on the key set -/
def rekey (k d : Int) (keys : List Int) : List Int :=
  let ks := keys.filter (· != k)
  if ks.contains (k + d) then ks else ks ++ [k + d]

/-- the pragma branch of `__apply_replacement_fix`: keys above the end token's line move by `d`, largest first -/
def adjPragma (endLine d : Int) (t : Tok2) : Tok2 :=
  { t with pragmaLines := ((sortDesc t.pragmaLines).filter (fun k => k > endLine)).foldl (fun ks k => rekey k d ks) t.pragmaLines }

/-- an element of the working list `actual_tokens`: the `i`-th token OBJECT of the original stream (its current state is in the
    store), or the `off`-th element of a replacement list, a new token -/
inductive WTok where
  | orig (i : Nat)
  | new (off : Nat) (t : Tok2)
  deriving DecidableEq, Repr

/-- current state of the token objects of the original stream (by index), and the working list -/
structure Work where
  store : List Tok2
  list : List WTok
  deriving DecidableEq, Repr

def Work.tok (w : Work) : WTok → Option Tok2
  | .orig i => w.store[i]?
  | .new _ t => some t

/-- `actual_tokens.index(token)` for a token object of the original stream -/
def findTag (i : Nat) : List WTok → Option Nat
  | [] => none
  | x :: ws => if x = .orig i then some 0 else (findTag i ws).map (· + 1)

/-- the `while actual_start_index < end_index and actual_tokens[actual_start_index].is_end_token` loop -/
def skipEnds (w : Work) (e : Nat) : Nat → Nat → Nat
  | 0, a => a
  | fuel + 1, a =>
    match w.list[a]? >>= w.tok with
    | some t => if a < e ∧ t.kind.isEnd then skipEnds w e fuel (a + 1) else a
    | none => a

def modStore (f : Tok2 → Tok2) (store : List Tok2) (i : Nat) : List Tok2 :=
  match store[i]? with
  | some t => store.set i (f t)
  | none => store

/-- apply `f` to the token objects of a segment of the working list (an object that occurs twice is changed twice) -/
def modSeg (f : Tok2 → Tok2) : List Tok2 → List WTok → List Tok2 × List WTok
  | store, [] => (store, [])
  | store, .orig i :: ws =>
    let (st', ws') := modSeg f (modStore f store i) ws
    (st', .orig i :: ws')
  | store, .new o t :: ws =>
    let (st', ws') := modSeg f store ws
    (st', .new o (f t) :: ws')

def tagNew : Nat → List RTok → List WTok
  | _, [] => []
  | k, .new t :: ts => .new k t :: tagNew (k + 1) ts
  | k, .ref i :: ts => .orig i :: tagNew (k + 1) ts

def RTok.line (store : List Tok2) : RTok → Option Int
  | .new t => some t.line
  | .ref i => store[i]?.map (·.line)

/-- `__apply_replacement_fix` -/
def applyRepl (w : Work) (r : Repl) : Except Err2 Work :=
  match findTag r.startIdx w.list, findTag r.endIdx w.list with
  | some s, some e =>
    match w.list[skipEnds w e w.list.length s]? >>= w.tok, w.store[r.endIdx]?,
          r.toks.head? >>= RTok.line w.store, r.toks.getLast? >>= RTok.line w.store with
    | some first, some endTok, some l0, some ll =>
      let d1 := endTok.line - first.line + 1
      let d2 := ll - l0 + 1
      let d := d2 - d1
      let (store', tail) := modSeg (adjLine d) w.store (w.list.drop (e + 1))
      let list' := w.list.take s ++ tagNew 0 r.toks ++ tail
      -- `if new_tokens[-1].is_pragma`
      match list'.getLast? with
      | some last =>
        (match (Work.tok ⟨store', list'⟩ last) with
         | some lt =>
           if lt.kind = .pragma then
             let (store'', l2) := modSeg (adjPragma endTok.line d) store' [last]
             .ok ⟨store'', list'.dropLast ++ l2⟩
           else .ok ⟨store', list'⟩
         | none => .error .indexError)
      | none => .error .indexError
    | _, _, _, _ => .error .indexError
  | _, _ => .error .valueError

def applyRepls : Work → List Repl → Except Err2 Work
  | w, [] => .ok w
  | w, r :: rs =>
    match applyRepl w r with
    | .error e => .error e
    | .ok w' => applyRepls w' rs

/-- the final stream; the `start_markdown_token` references become indices of the NEW stream (a reference to a removed token: `none`) -/
def reindex (w : Work) : Nat → List WTok → List Tok2
  | _, [] => []
  | p, .orig i :: ws =>
    (match w.store[i]? with
     | some t => [match t.startIdx with | some j => { t with startIdx := findTag j w.list } | none => t]
     | none => []) ++ reindex w (p + 1) ws
  | p, .new off t :: ws =>
    (match t.startIdx with | some j => { t with startIdx := some (p - off + j) } | none => t) :: reindex w (p + 1) ws

/-- `__process_file_fix_tokens_apply_fixes_inner` -/
def applyFixes2 (toks : List Tok2) (reqs : List FixReq2) (repls : List Repl) : Except Err2 (List Tok2) :=
  match applyFields toks reqs with
  | .error e => .error e
  | .ok ts =>
    match collide toks.length (firstOcc [] (reqs.map (·.idx))) [] repls with
    | .error e => .error e
    | .ok () =>
      match applyRepls ⟨ts, (List.range ts.length).map .orig⟩ repls with
      | .error e => .error e
      | .ok w => .ok (reindex w 0 w.list)

/-! ## a rule and its runs -/
structure Rule2 (Cfg St : Type) where
  /-- `initialize_from_config` + `starting_new_file` (on a fresh plug-in instance) -/
  init : Cfg → St
  /-- `next_token(context, token)`: `Bool` = `context.in_fix_mode`, `List Tok2` = the stream, `Nat` = index of the token -/
  next : Cfg → Bool → List Tok2 → St → Nat → Tok2 → Except Err2 (St × Out)

variable {Cfg St : Type}

def runFrom2 (r : Rule2 Cfg St) (c : Cfg) (fm : Bool) (all : List Tok2) : St → Nat → List Tok2 → Except Err2 (St × Out)
  | s, _, [] => .ok (s, {})
  | s, i, t :: ts =>
    match r.next c fm all s i t with
    | .error e => .error e
    | .ok (s', o) =>
      match runFrom2 r c fm all s' (i + 1) ts with
      | .error e => .error e
      | .ok (s'', os) => .ok (s'', o ++ os)

def scan2 (r : Rule2 Cfg St) (c : Cfg) (toks : List Tok2) : Except Err2 (List Report) :=
  match runFrom2 r c false toks (r.init c) 0 toks with
  | .error e => .error e
  | .ok (_, o) => .ok o.reports

/-- fix mode: the field requests and the replacement records in registration order -/
def fixOut (r : Rule2 Cfg St) (c : Cfg) (toks : List Tok2) : Except Err2 Out :=
  match runFrom2 r c true toks (r.init c) 0 toks with
  | .error e => .error e
  | .ok (_, o) => .ok o

def fix2 (r : Rule2 Cfg St) (c : Cfg) (toks : List Tok2) : Except Err2 (List Tok2) :=
  match fixOut r c toks with
  | .error e => .error e
  | .ok o => applyFixes2 toks o.reqs o.repls

/-- one of the nine rules of `Basic`, run on the extended tokens -/
def Rule.lift (r : Rule Cfg St) : Rule2 Cfg St :=
  ⟨r.init, fun c fm _ s i t =>
    match r.next c fm s i t.toTok with
    | .error e => .error e.to2
    | .ok (s', rp, fx) => .ok (s', ⟨rp, fx.map (fun q => ⟨q.idx, .base q.field, q.val⟩), []⟩)⟩

/-- two rules in one pass (`PluginManager.next_token`, shared `fix_token_map` / `replace_tokens_list`) -/
def Rule2.prod {C1 S1 C2 S2 : Type} (r1 : Rule2 C1 S1) (r2 : Rule2 C2 S2) : Rule2 (C1 × C2) (S1 × S2) :=
  ⟨fun c => (r1.init c.1, r2.init c.2),
   fun c fm all s i t =>
     match r1.next c.1 fm all s.1 i t with
     | .error e => .error e
     | .ok (s1, o1) =>
       match r2.next c.2 fm all s.2 i t with
       | .error e => .error e
       | .ok (s2, o2) => .ok ((s1, s2), o1 ++ o2)⟩

/-! ## small Python helpers shared by the five rules -/
/-- `s.count("\n")` -/
def countNl (s : Str) : Nat := s.count '\n'

/-- `s.split(sep)` for a one-character separator (never empty: `"".split(c) = [""]`) -/
def splitOn1 (sep : Char) : Str → List Str
  | [] => [[]]
  | c :: cs =>
    if c = sep then [] :: splitOn1 sep cs
    else match splitOn1 sep cs with
      | [] => [[c]]
      | p :: ps => (c :: p) :: ps

/-- `sep.join(parts)` -/
def joinWith (sep : Str) : List Str → Str
  | [] => []
  | [p] => p
  | p :: ps => p ++ sep ++ joinWith sep ps

end Verif.Model.TokenRules
