import Verif.Model.TokenRules.Basic2
import Verif.Model.Codec
/-
  MD037 no-space-in-emphasis — faithful model of pymarkdown/plugins/rule_md_037.py :: RuleMd037
    starting_new_file                → `init037`   (`__pending_fixes` is NOT cleared there: the model, like the tie, starts from a
                                                    fresh instance per stream)
    next_token                       → `next037`
    __check_text_token               → `checkLoop037` (the `while next_index is not None` loop, with fuel `len(token_text) + 1`;
                                                    `Lemmas/TokenRules/Md037Fuel.lean` proves the fuel is never exhausted)
    __find_next_eligible_emphasis    → `findNext037`
    __check                          → `check037`
    __report                         → `report037`  (`ParserHelper.remove_all_from_text` = `Verif.Model.Codec.removeAll`;
                                                    `report_next_token_error` with line / column deltas = `reportPos037`)
    __fix                            → `fixAfter037` / `fixBefore037`
    __process_fixes                  → `procGo037` / `procFixes037`
  ParserHelper.collect_while_character_verified / collect_while_one_of_characters_verified /
  collect_backwards_while_one_of_characters_verified / is_character_at_index_whitespace → `runLen037`, `blanksFwd037`, `blanksBack037`,
  `isBlank037`;  Python slices `s[:i]`, `s[j:]` with NEGATIVE indices (reached by `__process_fixes`) → `pyTake037`, `pyDrop037`.

  State (`St037`): `__block_token` (index), `__past_emphasis_list` (a stack; the model keeps the top at the HEAD of the list, Python
  at the end), `__pending_fixes` (in append order).  A reference to a text token object is modelled as its index in the stream
  together with a snapshot of the three fields the rule reads through it (no token is modified while the pass runs: in fix mode the requests are applied afterwards).
  Explicit failures: the marker codec raising inside `__report` (`ValueError` from `str.index`, `AssertionError`, a loop that does
  not end).  The `assert`s of `__check`, `__process_fixes` and of the `…_verified` helpers cannot fail (shown by construction:
  every call site has the index inside the string); fix mode therefore never raises inside the rule — the exception of fix mode is
  `BadPluginFixError` from `__apply_token_fix` (two `token_text` requests for one token, `md037_fix_duplicate_request`).
  Core Lean only.
-/
namespace Verif.Model.TokenRules

/-- `ParserHelper.__normal_whitespace` = `" \t"` (what `is_character_at_index_whitespace` accepts; also the `" \t"` of `__fix`) -/
def isBlank037 (c : Char) : Bool := c == ' ' || c == '\t'

/-- `is_character_at_index_whitespace(ch, 0) if ch else False` for an optional one-character string -/
def isBlankO037 : Option Char → Bool
  | some c => isBlank037 c
  | none => false

/-- `collect_while_character_verified(s, start, ch)[0]` on `s.drop start`: the length of the run of `ch` -/
def runLen037 (ch : Char) : Str → Nat
  | [] => 0
  | c :: cs => if c = ch then runLen037 ch cs + 1 else 0

/-- number of leading blanks (`collect_while_one_of_characters_verified(s, start, " \t")[0] - start` on `s.drop start`) -/
def blanksFwd037 : Str → Nat
  | [] => 0
  | c :: cs => if isBlank037 c then blanksFwd037 cs + 1 else 0

/-- number of trailing blanks of `s` (`collect_backwards_while_one_of_characters_verified(t, end, " \t")[0]` on `s = t[:end]`) -/
def blanksBack037 (s : Str) : Nat := blanksFwd037 s.reverse

/-- `s[:i]` -/
def pyTake037 (s : Str) (i : Int) : Str := if i < 0 then s.take (s.length - i.natAbs) else s.take i.toNat
/-- `s[j:]` -/
def pyDrop037 (s : Str) (j : Int) : Str := if j < 0 then s.drop (s.length - j.natAbs) else s.drop j.toNat

/-- `EligibleEmphasis` -/
structure Emph037 where
  ch : Char
  start : Nat
  len : Nat
  before : Option Char
  after : Option Char
  /-- `text_token`: index in the stream and what the rule reads of the token object: `token_text`, `line_number`, `column_number` -/
  tidx : Nat
  text : Str
  line : Int
  col : Int
  deriving DecidableEq, Repr

/-- `PendingFixes` -/
structure Pend037 where
  tidx : Nat
  /-- `token_to_modify.token_text` -/
  text : Str
  start : Nat
  stop : Nat
  deriving DecidableEq, Repr

structure St037 where
  block : Option Nat := none
  /-- top of the stack FIRST -/
  past : List Emph037 := []
  pending : List Pend037 := []
  deriving DecidableEq, Repr

/-- which of the two `str.find` results is taken -/
def pick037 : Option Nat → Option Nat → Option (Nat × Char)
  | none, none => none
  | some a, none => some (a, '*')
  | none, some u => some (u, '_')
  | some a, some u => if a < u then some (a, '*') else some (u, '_')

/-- what `__find_next_eligible_emphasis` found, without the token -/
structure Found037 where
  ch : Char
  start : Nat
  len : Nat
  before : Option Char
  after : Option Char
  deriving DecidableEq, Repr

/-- `__find_next_eligible_emphasis(text_token, start_index)` → `(new_emphasis, next_index)` -/
def findNext037 (text : Str) (start : Nat) : Option Found037 × Option Nat :=
  match pick037 (Codec.findFrom '*' text start) (Codec.findFrom '_' text start) with
  | none => (none, none)
  | some (si, ch) =>
    let before : Option Char := if si = 0 then none else text[si - 1]?
    if before = some Codec.BS then (none, some si) else
    let len := runLen037 ch (text.drop si)
    let after : Option Char := text[si + len]?
    if before = some Codec.AL ∧ after = some Codec.AL then (none, some si) else
    if isBlankO037 before || isBlankO037 after then (some ⟨ch, si, len, before, after⟩, some si) else (none, some si)

def codecErr037 : Verif.Model.Codec.Err → Err2
  | .valueError => .valueError
  | .assertion => .assertion
  | .hang => .hang

/-- number of characters after the last newline (`len(s) - (s.rindex("\n") + 1)`) -/
def afterLastNl037 (s : Str) : Nat := (s.reverse.takeWhile (· != '\n')).length

/-- `report_next_token_error(context, token, line_number_delta, column_number_delta)`: a NEGATIVE column delta is an absolute column -/
def reportPos037 (line col : Int) (dl : Nat) (dc : Int) : Report :=
  ⟨line + dl, if dc ≥ 0 then col + dc else -dc, none⟩

/-- `__report(context, eligible, column_adjust)` -/
def report037 (e : Emph037) (adjust : Int) : Except Err2 Report :=
  match Codec.removeAll (e.text.take e.start) with
  | .error er => .error (codecErr037 er)
  | .ok adj =>
    let nl := countNl adj
    let dc : Nat := if nl ≠ 0 then afterLastNl037 adj else adj.length
    .ok (reportPos037 e.line e.col nl (dc + adjust))

/-- `__fix(token, eligible, was_after=True)`: the blanks after the marker run -/
def fixAfter037 (e : Emph037) : Pend037 :=
  let s := e.start + e.len
  ⟨e.tidx, e.text, s, s + blanksFwd037 (e.text.drop s)⟩

/-- `__fix(token, eligible, was_after=False)`: the blanks before the marker run.  (`collect_backwards…(text, start - 1, …)` does not
    look at `text[start - 1]`, which `__check` has seen to be a space.) -/
def fixBefore037 (e : Emph037) : Pend037 :=
  ⟨e.tidx, e.text, (e.start - 1) - blanksBack037 (e.text.take (e.start - 1)), e.start⟩

def firstCond037 (b a : Emph037) : Bool :=
  (b.before == some ' ' && b.after == some ' ') && a.after == some ' '

def secondCond037 (b a : Emph037) : Bool :=
  (a.before == some ' ' && a.after == some ' ') && b.before == some ' '

/-- `__check(context, eligible_before, eligible_after)`: the pending fixes to append (fix mode) or the reports (scan mode) -/
def check037 (fm : Bool) (b a : Emph037) : Except Err2 (List Pend037 × List Report) :=
  if fm then
    .ok ((if firstCond037 b a then [fixAfter037 b] else []) ++ (if secondCond037 b a then [fixBefore037 a] else []), [])
  else
    match (if firstCond037 b a then (report037 b a.len).map (fun r => [r]) else .ok []) with
    | .error e => .error e
    | .ok r1 =>
      match (if secondCond037 b a then (report037 a (-1)).map (fun r => [r]) else .ok []) with
      | .error e => .error e
      | .ok r2 => .ok ([], r1 ++ r2)

/-- the body of the loop of `__check_text_token` for a found emphasis: close the pair with the top of the stack, or push -/
def step037 (fm : Bool) (s : St037) (rs : List Report) (e : Emph037) : Except Err2 (St037 × List Report) :=
  match s.past with
  | b :: rest =>
    if b.ch = e.ch ∧ b.len = e.len then
      match check037 fm b e with
      | .error er => .error er
      | .ok (ps, r) => .ok ({ s with past := rest, pending := s.pending ++ ps }, rs ++ r)
    else .ok ({ s with past := e :: s.past }, rs)
  | [] => .ok ({ s with past := e :: s.past }, rs)

/-- the loop of `__check_text_token` on the token at index `i` with `token_text`, `line_number`, `column_number`; every round moves
    `start_index` forward by at least 2 -/
def checkLoop037 (fm : Bool) (i : Nat) (text : Str) (line col : Int) : Nat → Nat → St037 → List Report → Except Err2 (St037 × List Report)
  | 0, _, _, _ => .error .hang
  | fuel + 1, start, s, rs =>
    match findNext037 text start with
    | (_, none) => .ok (s, rs)
    | (none, some nx) => checkLoop037 fm i text line col fuel (nx + 1 + 1) s rs
    | (some f, some nx) =>
      match step037 fm s rs ⟨f.ch, f.start, f.len, f.before, f.after, i, text, line, col⟩ with
      | .error e => .error e
      | .ok (s', rs') => checkLoop037 fm i text line col fuel (nx + 1 + f.len) s' rs'

/-- `__check_text_token` -/
def checkText037 (fm : Bool) (i : Nat) (text : Str) (line col : Int) (s : St037) : Except Err2 (St037 × List Report) :=
  checkLoop037 fm i text line col (text.length + 1) 0 s []

def tokenTextReq037 (i : Nat) (txt : Str) : FixReq2 := ⟨i, .base .tokenText, .str txt⟩

/-- `if current_token != new_bob.token_to_modify:` — the request for the token that is left … -/
def procEmit037 (cur : Option (Nat × Str × Int)) (p : Pend037) : List FixReq2 :=
  match cur with
  | some (i, txt, _) => if i = p.tidx then [] else [tokenTextReq037 i txt]
  | none => []

/-- … and `(current_token, current_text, current_delta)` after that `if` -/
def procStart037 (cur : Option (Nat × Str × Int)) (p : Pend037) : Nat × Str × Int :=
  match cur with
  | some (i, txt, d) => if i = p.tidx then (i, txt, d) else (p.tidx, p.text, 0)
  | none => (p.tidx, p.text, 0)

/-- `current_text = current_text[: start - delta] + current_text[end - delta :]`, `current_delta += end - start` -/
def procCut037 (now : Nat × Str × Int) (p : Pend037) : Nat × Str × Int :=
  (now.1, pyTake037 now.2.1 (p.start - now.2.2) ++ pyDrop037 now.2.1 (p.stop - now.2.2), now.2.2 + ((p.stop : Int) - p.start))

/-- the `for` loop of `__process_fixes` with `(current_token, current_text, current_delta)`, and the final request -/
def procGo037 : Option (Nat × Str × Int) → List Pend037 → List FixReq2
  | none, [] => []
  | some (i, txt, _), [] => [tokenTextReq037 i txt]
  | cur, p :: ps => procEmit037 cur p ++ procGo037 (some (procCut037 (procStart037 cur p) p)) ps

/-- `__process_fixes` (called with a non-empty list only, so `assert current_token is not None` holds) -/
def procFixes037 (ps : List Pend037) : List FixReq2 := procGo037 none ps

/-- `token.is_paragraph or token.is_setext_heading or token.is_atx_heading` -/
def isBlockStart037 (k : Kind) : Bool := k == .para || k == .setext || k == .atx

/-- `token.is_paragraph_end or token.is_setext_heading_end or token.is_atx_heading_end` -/
def isBlockEnd037 (k : Kind) : Bool := k == .paraEnd || k == .setextEnd || k == .atxEnd

/-- `next_token`: the `if` / `elif` chain.  (`__block_token` is only ever a paragraph, SetExt or ATX token, so the kind test of the third
    branch adds nothing to `is not None`; in scan mode `register_fix_token_request` drops the request.) -/
def next037 (_c : Unit) (fm : Bool) (_all : List Tok2) (s : St037) (i : Nat) (t : Tok2) : Except Err2 (St037 × Out) :=
  if isBlockStart037 t.kind then .ok ({ s with block := some i, past := [] }, {})
  else if isBlockEnd037 t.kind then
    if s.pending.isEmpty then .ok ({ s with block := none, past := [] }, {})
    else .ok ({ block := none, past := [], pending := [] }, { reqs := if fm then procFixes037 s.pending else [] })
  else if t.kind = .text ∧ s.block.isSome then
    match checkText037 fm i t.text t.line t.col s with
    | .error e => .error e
    | .ok (s', rs) => .ok (s', { reports := rs })
  else .ok (s, {})

def init037 (_c : Unit) : St037 := {}

def md037 : Rule2 Unit St037 := ⟨init037, next037⟩

/-! ## the stream invariants of `md037_fix_ok` and of `md037_fix_text_ordered`

  `__process_fixes` registers one `token_text` request each time the token of the pending list CHANGES.  When the entries of one text
  token are not contiguous in the list (pairs that nest or cross over several text tokens) the same token gets two requests and
  `__apply_token_fix` raises `BadPluginFixError`.  `wf037`: at every block end the pending list is grouped by token.
  `__process_fixes` subtracts the running `current_delta` from the indices of each entry, which is right only when the entries of a
  token come in text order and do not overlap.  `wfOrd037`: at every block end the pending list is grouped and ordered. -/

/-- merge consecutive equal entries -/
def compress037 : List Nat → List Nat
  | [] => []
  | [i] => [i]
  | i :: j :: l => if i = j then compress037 (j :: l) else i :: compress037 (j :: l)

/-- no token comes back after a different one -/
def grouped037 (L : List Pend037) : Bool := decide (compress037 (L.map (·.tidx))).Nodup

/-- consecutive entries of the same token: the earlier one ends before the later one starts -/
def ordGo037 : List Pend037 → Bool
  | [] => true
  | [_] => true
  | q :: p :: ps => (if q.tidx = p.tidx then decide (q.stop ≤ p.start) else true) && ordGo037 (p :: ps)

def ordered037 (L : List Pend037) : Bool := grouped037 L && ordGo037 L

/-- the fix-mode run, checking `chk` on the pending list at every block end -/
def wfGoG037 (chk : List Pend037 → Bool) : St037 → Nat → List Tok2 → Bool
  | _, _, [] => true
  | s, i, t :: ts =>
    match next037 () true [] s i t with
    | .error _ => false
    | .ok (s', _) => (!isBlockEnd037 t.kind || chk s.pending) && wfGoG037 chk s' (i + 1) ts

def wf037 (toks : List Tok2) : Bool := wfGoG037 grouped037 {} 0 toks

def wfOrd037 (toks : List Tok2) : Bool := wfGoG037 ordered037 {} 0 toks

end Verif.Model.TokenRules
