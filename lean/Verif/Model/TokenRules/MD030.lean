import Verif.Model.TokenRules.Basic
/-
  MD030 list-marker-space — SCAN MODE ONLY: faithful model of pymarkdown/plugins/rule_md_030.py :: RuleMd030
  (`starting_new_file`, `__handle_list_end`, `__next_token_list_start`, `__next_token_list_end`, `next_token` with
  `context.in_fix_mode == False`; configuration `ul_single`, `ol_single`, `ul_multi`, `ol_multi`).
  Not modelled: fix mode (`__report_or_fix`, `__next_token_list_end_registrations` and the `ListTracker` bookkeeping that
  feeds it) — `next030 _ true …` answers `notModelled`.  In scan mode the `ListTracker` calls have no effect on the reports;
  on streams whose list ends match list starts they do not raise (domain `balanced030`, checked by the tie).
  State: `__list_stack` / `__list_tokens` as one stack (innermost first) of (ordered?, the list's start and item tokens in
  order, each with its paragraph count).  `__paragraph_count_map` is keyed by `str(token)` in the code; the model keys by the
  token itself (two list tokens of one document never print alike: the text contains line and column).
  `__current_list_parent` is always the last token of the innermost open list.
-/
namespace Verif.Model.TokenRules

structure C030 where
  ulSingle : Int := 1
  olSingle : Int := 1
  ulMulti : Int := 1
  olMulti : Int := 1
  deriving Repr

structure Ent030 where
  line : Int
  col : Int
  indent : Int
  contentLen : Nat
  paras : Nat := 0
  deriving DecidableEq, Repr

abbrev St030 := List (Bool × List Ent030)

def bumpLast : List Ent030 → List Ent030
  | [] => []
  | [e] => [{ e with paras := e.paras + 1 }]
  | e :: es => e :: bumpLast es

/-- `__handle_list_end` for one list -/
def check030 (c : C030) (ordered : Bool) (es : List Ent030) : List Report :=
  es.filterMap (fun e =>
    let required := if ordered then (if e.paras > 1 then c.olMulti else c.olSingle)
                    else (if e.paras > 1 then c.ulMulti else c.ulSingle)
    let delta : Int := e.indent - e.col - (if ordered then (e.contentLen : Int) else 0)
    if delta ≠ required then
      some ⟨e.line, e.col, some ("Expected: ".toList ++ pyStr required ++ "; Actual: ".toList ++ pyStr delta)⟩
    else none)

def ent030 (t : Tok) : Ent030 := ⟨t.line, t.col, t.indent, t.content.length, 0⟩

def next030 (c : C030) (fm : Bool) (s : St030) (_i : Nat) (t : Tok) : Except Err (St030 × List Report × List FixReq) :=
  if fm then .error .notModelled else
  match t.kind with
  | .ulist => .ok ((false, [ent030 t]) :: s, [], [])
  | .olist => .ok ((true, [ent030 t]) :: s, [], [])
  | .ulistEnd | .olistEnd =>
    match s with
    | [] => .error .assertion            -- `ListTracker.list_end`: `assert list_level in self.__list_start_indices`
    | (ordered, es) :: rest => .ok (rest, check030 c ordered es, [])
  | .li =>
    match s with
    | [] => .error .indexError
    | (ordered, es) :: rest => .ok ((ordered, es ++ [ent030 t]) :: rest, [], [])
  | .para =>
    match s with
    | [] => .ok (s, [], [])
    | (ordered, es) :: rest => .ok ((ordered, bumpLast es) :: rest, [], [])
  | _ => .ok (s, [], [])

def md030 : Rule C030 St030 := ⟨fun _ => [], next030⟩

/-- no prefix of the stream has more list ends than list starts, and list items lie inside a list -/
def balanced030 : Nat → List Tok → Bool
  | _, [] => true
  | d, t :: ts =>
    match t.kind with
    | .ulist | .olist => balanced030 (d + 1) ts
    | .ulistEnd | .olistEnd => decide (0 < d) && balanced030 (d - 1) ts
    | .li => decide (0 < d) && balanced030 d ts
    | _ => balanced030 d ts

end Verif.Model.TokenRules
