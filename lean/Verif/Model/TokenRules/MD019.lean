import Verif.Model.TokenRules.Basic
import Verif.Model.Codec
import Verif.Model.Tabs
/-
  MD019 no-multiple-space-atx — faithful model of pymarkdown/plugins/rule_md_019.py :: RuleMd019
  (`starting_new_file`, `__report`, `next_token`).
  State: `__atx_heading_token` — the open ATX heading WITHOUT closing hashes whose first text token has not been seen;
  only its line, column and `hash_count` are read.  An ATX heading with closing hashes leaves the state untouched.
  `ParserHelper.remove_all_from_text` = `Codec.removeAll` and `TabHelper.detabify_string` = `Tabs.detabify` (the models of
  C02, tied there to the real functions on all strings ≤ 6); their `ValueError` / `AssertionError` / non-termination on
  malformed marker strings are passed through.
  Domain: `column_number ≥ 1` and `hash_count ≥ 0` of the remembered heading (the tab start index `col − 1 + hash_count`
  is taken `toNat`).
-/
namespace Verif.Model.TokenRules

structure St019 where
  /-- (line, column, hash_count) of `__atx_heading_token` -/
  atx : Option (Int × Int × Int) := none
  deriving DecidableEq, Repr

def codecErr : Verif.Model.Codec.Err → Err
  | .valueError => .valueError
  | .assertion => .assertion
  | .hang => .hang

/-- the whitespace the rule measures: markers removed, tabs expanded from the column after the hashes -/
def resolved019 (col hc : Int) (ws : Str) : Except Err Str :=
  match Verif.Model.Codec.removeAll ws with
  | .error e => .error (codecErr e)
  | .ok r => if r.contains '\t' then .ok (Verif.Model.Tabs.detabify r (col - 1 + hc).toNat) else .ok r

def next019 (_c : Unit) (fm : Bool) (s : St019) (i : Nat) (t : Tok) : Except Err (St019 × List Report × List FixReq) :=
  match t.kind with
  | .atx => if t.trailing = 0 then .ok ({ atx := some (t.line, t.col, t.hashCount) }, [], []) else .ok (s, [], [])
  | .paraEnd => .ok ({ atx := none }, [], [])
  | .text =>
    match s.atx with
    | none => .ok ({ atx := none }, [], [])
    | some (line, col, hc) =>
      match resolved019 col hc t.ws with
      | .error e => .error e
      | .ok r =>
        if r.length > 1 then
          if fm then .ok ({ atx := none }, [], [⟨i, .extractedWhitespace, .str [' ']⟩])
          else .ok ({ atx := none }, [⟨line, col, none⟩], [])
        else .ok ({ atx := none }, [], [])
  | _ => .ok (s, [], [])

def md019 : Rule Unit St019 := ⟨fun _ => {}, next019⟩

/-- the marker codec accepts the whitespace of the token (true for every real stream; checked by the tie) -/
def wf019 (t : Tok) : Bool :=
  match t.kind with
  | .text => match Verif.Model.Codec.removeAll t.ws with | .ok _ => true | .error _ => false
  | _ => true

end Verif.Model.TokenRules
