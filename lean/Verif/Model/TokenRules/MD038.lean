import Verif.Model.TokenRules.Basic
/-
  MD038 no-space-in-code — faithful model of pymarkdown/plugins/rule_md_038.py :: RuleMd038.next_token
  MD039 no-space-in-links — faithful model of pymarkdown/plugins/rule_md_039.py :: RuleMd039.next_token
  Both are stateless.  Explicit failure: `IndexError` of `span_text[0]` on an empty code span text.
-/
namespace Verif.Model.TokenRules

/-- `(has_leading, has_trailing)` of MD038; `none` = `IndexError` -/
def pad038 (s : Str) : Option (Bool × Bool) :=
  match s with
  | [] => none
  | [c] => some (c == ' ', false)
  | c0 :: c1 :: rest =>
    let r := (c0 :: c1 :: rest).reverse
    some (c0 == ' ' && c1 != '`',
          match r with
          | l0 :: l1 :: _ => l0 == ' ' && l1 != '`'
          | _ => false)

/-- `adjusted_span_text` -/
def adjust038 (s : Str) (lead trail : Bool) : Str :=
  let a := if lead then s.drop 1 else s
  if trail then a.dropLast else a

def next038 (_c : Unit) (fm : Bool) (_s : Unit) (i : Nat) (t : Tok) : Except Err (Unit × List Report × List FixReq) :=
  match t.kind with
  | .codeSpan =>
    match pad038 t.text with
    | none => .error .indexError
    | some (lead, trail) =>
      if lead != trail || lead then
        if fm then .ok ((), [], [⟨i, .spanText, .str (adjust038 t.text lead trail)⟩])
        else .ok ((), [⟨t.line, t.col, none⟩], [])
      else .ok ((), [], [])
  | _ => .ok ((), [], [])

def md038 : Rule Unit Unit := ⟨fun _ => (), next038⟩

/-- the domain on which one fix pass is enough: the text is not a single space, has no second padding space behind a
    removed leading one and none before a removed trailing one -/
def wf038 (t : Tok) : Bool :=
  match t.kind with
  | .codeSpan =>
    match pad038 t.text with
    | none => false
    | some (lead, trail) =>
      match pad038 (adjust038 t.text lead trail) with
      | some (false, false) => true
      | _ => false
  | _ => true

/-! ## MD039 -/
/-- `Constants.ascii_whitespace` -/
def isAw (c : Char) : Bool := c == ' ' || c == '\t' || c == '\n' || c == '\x0b' || c == '\x0c' || c == '\r'

def rstripAw : Str → Str
  | [] => []
  | c :: cs =>
    match rstripAw cs with
    | [] => if isAw c then [] else [c]
    | r => c :: r

/-- `s.strip(Constants.ascii_whitespace)` -/
def stripAw (s : Str) : Str := rstripAw (s.dropWhile isAw)

def next039 (_c : Unit) (fm : Bool) (_s : Unit) (i : Nat) (t : Tok) : Except Err (Unit × List Report × List FixReq) :=
  match t.kind with
  | .link | .image =>
    if t.text ≠ stripAw t.text then
      if fm then .ok ((), [], [⟨i, .textFromBlocks, .str (stripAw t.text)⟩])
      else .ok ((), [⟨t.line, t.col, none⟩], [])
    else .ok ((), [], [])
  | .lrd =>
    if t.text ≠ stripAw t.text then
      if fm then .ok ((), [], [⟨i, .linkNameDebug, .str (stripAw t.text)⟩])
      else .ok ((), [⟨t.line, t.col, none⟩], [])
    else .ok ((), [], [])
  | _ => .ok ((), [], [])

def md039 : Rule Unit Unit := ⟨fun _ => (), next039⟩

end Verif.Model.TokenRules
