import Verif.Model.TokenRules.Basic
import Verif.Model.Codec
import Verif.Model.Tabs
/-
  MD021 no-multiple-space-closed-atx — faithful model of pymarkdown/plugins/rule_md_021.py :: RuleMd021
  (`starting_new_file`, `__report`, `__handle_atx_end`, `next_token`).
  State: `__atx_heading_token` (set only by an ATX heading WITH closing hashes; line, column, hash_count are read),
  `__is_left_in_error`, `__first_text_token` (its index: the fix request names it later, at the end token — the one
  NON-LOCAL request among the modelled rules), `__last_token` (token_text and column of the last text token).
  Note what the code does NOT reset: an ATX heading without closing hashes leaves `__atx_heading_token`,
  `__first_text_token` and `__last_token` as they are (only `__is_left_in_error` is cleared).
  Explicit failures: the `assert`s of `__handle_atx_end` / `__report`.
  Domain (as MD019): columns ≥ 1, hash_count ≥ 0 (tab start indices are taken `toNat`).
-/
namespace Verif.Model.TokenRules

structure St021 where
  atx : Option (Int × Int × Int) := none
  leftErr : Bool := false
  first : Option Nat := none
  /-- (token_text, column_number) of `__last_token` -/
  last : Option (Str × Int) := none
  deriving DecidableEq, Repr

def codecErr21 : Verif.Model.Codec.Err → Err
  | .valueError => .valueError
  | .assertion => .assertion
  | .hang => .hang

/-- the closing whitespace as `__handle_atx_end` measures it -/
def endData021 (s : St021) (extra : Str) : Except Err Str :=
  if extra.contains '\t' then
    match s.last with
    | none => .error .assertion
    | some (txt, col) =>
      match Verif.Model.Codec.removeAll txt with
      | .error e => .error (codecErr21 e)
      | .ok r =>
        let start := (col - 1).toNat
        let r' := Verif.Model.Tabs.detabify r start
        .ok (Verif.Model.Tabs.detabify extra (start + r'.length))
  else .ok extra

/-- the opening whitespace as the `is_text` branch measures it -/
def startWs021 (col hc : Int) (ws : Str) : Except Err Str :=
  match Verif.Model.Codec.removeAll ws with
  | .error e => .error (codecErr21 e)
  | .ok r => if r.contains '\t' then .ok (Verif.Model.Tabs.detabify r (col - 1 + hc).toNat) else .ok r

def next021 (_c : Unit) (fm : Bool) (s : St021) (i : Nat) (t : Tok) : Except Err (St021 × List Report × List FixReq) :=
  match t.kind with
  | .atx =>
    .ok ({ s with atx := if t.trailing ≠ 0 then some (t.line, t.col, t.hashCount) else s.atx, leftErr := false }, [], [])
  | .paraEnd => .ok ({ s with atx := none }, [], [])
  | .atxEnd =>
    match t.endData with
    | none => .error .assertion
    | some extra0 =>
      match endData021 s extra0 with
      | .error e => .error e
      | .ok extra =>
        let s' : St021 := { atx := none, leftErr := s.leftErr, first := none, last := none }
        if s.leftErr || decide (extra.length > 1) then
          match s.atx with
          | none => .error .assertion
          | some (line, col, _) =>
            if fm then
              match (if s.leftErr then (match s.first with
                                        | none => (none : Option (List FixReq))
                                        | some j => some [⟨j, .extractedWhitespace, .str [' ']⟩])
                     else some []) with
              | none => .error .assertion
              | some r1 =>
                .ok (s', [], r1 ++ (if extra.length > 1 then [⟨i, .extraEndData, .str [' ']⟩] else []))
            else .ok (s', [⟨line, col, none⟩], [])
        else .ok (s', [], [])
  | .text =>
    match (if s.first.isNone then s.atx else none) with
    | some (_, col, hc) =>
      match startWs021 col hc t.ws with
      | .error e => .error e
      | .ok r => .ok ({ s with leftErr := s.leftErr || decide (r.length > 1), first := some i, last := some (t.text, t.col) }, [], [])
    | none => .ok ({ s with last := some (t.text, t.col) }, [], [])
  | _ => .ok (s, [], [])

def md021 : Rule Unit St021 := ⟨fun _ => {}, next021⟩

end Verif.Model.TokenRules
