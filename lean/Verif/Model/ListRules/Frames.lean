import Verif.Model.ListRules.MD007
/-
  The STREAM INVARIANT of the container bookkeeping, written without dictionaries: a stack of frames
  (container token, number of lines counted inside it so far).  `guard007` is the decidable guard of MD007's totality
  theorem; `Rep` says when a `Ctm` (dict-based, as the Python) represents a frame stack.  Stale dictionary entries
  above the stack (what `clear()` leaves in `list_adjust_map`) are allowed by `Rep`.
-/
namespace Verif.Model.ListRules
open Verif.Model.TokenRules

/-- top first: (container token, its line counter `bq_line_index[depth]`) -/
abbrev Frames := List (Tok × Int)

/-- `bq_line_index[len(stack)] += d` -/
def bump : Frames → Int → Frames
  | [], _ => []
  | (t, n) :: rest, d => (t, n + d) :: rest

/-- strip the unordered lists on top -/
def dropUl : Frames → Frames
  | [] => []
  | f :: rest => if f.1.kind = .ulist then dropUl rest else f :: rest

/-- `n` is a valid Python index into a list of length `len` -/
def inRange (n : Int) (len : Nat) : Bool := decide (-(len : Int) ≤ n ∧ n < len)

/-- LINE BUDGET: every block quote frame has `bleading_spaces`, and its line counter indexes one of its lines -/
def budget : Frames → Bool
  | [] => true
  | (t, n) :: rest =>
    (if t.kind = .bquote then
      match t.leading with
      | none => false
      | some ls => inRange n (splitNl ls).length
     else true) && budget rest

/-- `premanage_container_tokens` on frames -/
def preBump (fs : Frames) (lf : Option Leaf) (t : Tok) : Frames :=
  if !fs.isEmpty && lf == some .setext && decide (t.kind = .setextEnd) then bump fs 1 else fs

/-- the guard: containers are closed only when one is open, list ends and `li` tokens come directly inside a list,
    LRD tokens carry their four debug strings, and whenever an unordered list (item) is checked the line budget
    of the block quotes below the innermost bullets holds -/
def guard007 : Frames → Option Leaf → List Tok → Bool
  | _, _, [] => true
  | fs0, lf, t :: ts =>
    let fs := preBump fs0 lf t
    match t.kind with
    | .bquote | .olist => guard007 ((t, 0) :: fs) lf ts
    | .ulist => budget (dropUl fs) && guard007 ((t, 0) :: fs) lf ts
    | .li =>
      match fs with
      | [] => false
      | (top, _) :: _ => isListStart top && (decide (top.kind ≠ .ulist) || budget (dropUl fs)) && guard007 fs lf ts
    | .bquoteEnd =>
      match fs with
      | [] => false
      | _ :: rest => guard007 rest lf ts
    | .ulistEnd | .olistEnd =>
      match fs with
      | [] => false
      | (top, _) :: rest => isListStart top && guard007 rest lf ts
    | _ =>
      if fs.isEmpty then guard007 fs lf ts
      else
        match leafDelta lf t with
        | .error _ => false
        | .ok (d, lf') => guard007 (bump fs d) lf' ts

def RepBq (bq : Dict) : Frames → Prop
  | [] => True
  | f :: rest => bq.lookup (rest.length + 1) = some f.2 ∧ RepBq bq rest

def RepAdj (adj : Dict) : Frames → Prop
  | [] => True
  | f :: rest => (isListStart f.1 = true → ∃ v, adj.lookup (rest.length + 1) = some v) ∧ RepAdj adj rest

/-- the manager state `c` represents the frame stack `fs` with last leaf `lf` -/
def Rep (fs : Frames) (lf : Option Leaf) (c : Ctm) : Prop :=
  c.stack = fs.map (·.1) ∧ RepBq c.bq fs ∧ RepAdj c.adj fs ∧ c.lastLeaf = lf

end Verif.Model.ListRules
