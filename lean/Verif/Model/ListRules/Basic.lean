import Verif.Model.TokenRules.Basic
/-
  ListRules.Basic — the shared part of the FAITHFUL models of the list-indentation rules MD005 / MD006 / MD007:
  small Python helpers and the model of pymarkdown/plugins/utils/container_token_manager.py :: ContainerTokenManager.

  The token abstraction, `_modify_token`, `register_fix_token_request` / `__apply_token_fix` and the run functions
  (`scan`, `fixReqs`, `fix`) are those of `Verif.Model.TokenRules` (the rules of this block can be put into a
  `Rule.prod` with the rules modelled there).  The list rules read five attributes `Tok` has no field of its
  own for; they are carried by fields the token class in question does not use (the tie's `abstract` fills
  them exactly so, tools/listruleslib.py):

    text  token  `end_whitespace : Optional[str]`                          → `endData`
    lrd   token  `link_name_debug + link_destination_whitespace + link_title_whitespace + link_title_raw`
                 (only their newlines are counted) → `leading = some …`;  `none` when one of the four is `None`
    ulist/olist  `last_new_list_token` (set by the PARSER to the last `li` of the list; constant during a
                 rule pass)  → `trailing = 1` and `hashCount = last_new_list_token.indent_level`; `trailing = 0` = `None`
    codeSpan     `leading_whitespace + span_text + trailing_whitespace`   → `text`   (newlines counted by MD005)
    rawHtml      `raw_tag`                                                  → `text`

  Python modelled here
    ContainerTokenManager.__init__                        → `Ctm` default value
    ContainerTokenManager.clear                           → `Ctm.clear`        (does NOT reset `list_adjust_map`)
    ContainerTokenManager.premanage_container_tokens      → `Ctm.premanage`
    ContainerTokenManager.manage_container_tokens         → `Ctm.manage`
    ContainerTokenManager.__manage_leaf_tokens (+ `__is_simple_delta`, `__is_remember_leaf_token`,
      `__is_clear_leaf_token`, `__manage_leaf_tokens_text`, `__manage_lrd_token`)  → `Ctm.leafDelta`
  `dict` = association list `Dict` (`d[k]` → `lookup`, KeyError = `none`); `container_token_stack` = `List Tok` with
  the TOP OF THE STACK (`[-1]`) AT THE HEAD, so `container_token_stack[i]` is the head of the suffix of length `i + 1`.
  Core Lean only.
-/
namespace Verif.Model.ListRules
open Verif.Model.TokenRules

/-! ## Python helpers -/
/-- `s.count("\n")` -/
def countNl (s : Str) : Int := (s.count '\n' : Nat)

/-- `s.split("\n")` (never empty) -/
def splitNl : Str → List Str
  | [] => [[]]
  | c :: cs =>
    match splitNl cs with
    | [] => [[]]
    | l :: ls => if c = '\n' then [] :: l :: ls else (c :: l) :: ls

/-- `"\n".join(ls)` -/
def joinNl : List Str → Str
  | [] => []
  | [l] => l
  | l :: ls => l ++ '\n' :: joinNl ls

/-- `l[i]` for an `int` index: negative indices count from the end, `none` = `IndexError` -/
def pyGet {α : Type} (l : List α) (i : Int) : Option α :=
  if 0 ≤ i then l[i.toNat]? else if 0 ≤ i + l.length then l[(i + l.length).toNat]? else none

/-- `s[:e]` -/
def pySliceTo (s : Str) (e : Int) : Str :=
  if 0 ≤ e then s.take e.toNat else s.take (e + s.length).toNat

/-- `" " * n` -/
def spaces (n : Int) : Str := List.replicate n.toNat ' '

/-- `s[:-d] if d > 0 else s + " " * (-d)`  (the whitespace adjustment of MD005) -/
def adjustWs (s : Str) (d : Int) : Str :=
  if 0 < d then pySliceTo s (-d) else s ++ spaces (-d)

/-! ## token predicates (`MarkdownToken.is_…`) -/
def isListStart (t : Tok) : Bool := decide (t.kind = .ulist) || decide (t.kind = .olist)
def isListEnd (t : Tok) : Bool := decide (t.kind = .ulistEnd) || decide (t.kind = .olistEnd)

/-- `last_new_list_token.indent_level if last_new_list_token is not None else indent_level` -/
def curIndent (t : Tok) : Int := if t.trailing = 0 then t.indent else t.hashCount

/-! ## `dict` with `int` keys -/
abbrev Dict := List (Nat × Int)

/-- `d[k] = v` -/
def Dict.set (d : Dict) (k : Nat) (v : Int) : Dict := (k, v) :: d.filter (fun p => p.1 != k)
/-- `del d[k]` (`none` = KeyError) -/
def Dict.del (d : Dict) (k : Nat) : Option Dict :=
  match d.lookup k with
  | some _ => some (d.filter (fun p => p.1 != k))
  | none => none
/-- `d[k] += x` (`none` = KeyError) -/
def Dict.add (d : Dict) (k : Nat) (x : Int) : Option Dict :=
  match d.lookup k with
  | some v => some (d.set k (v + x))
  | none => none

/-! ## ContainerTokenManager -/
/-- what is read of `last_leaf_token`: is it a SetExt heading, or one of indented code / HTML block / fenced code -/
inductive Leaf where
  | setext | block
  deriving DecidableEq, Repr

structure Ctm where
  /-- `container_token_stack`, top at the head -/
  stack : List Tok := []
  /-- `bq_line_index` -/
  bq : Dict := []
  /-- `last_leaf_token` -/
  lastLeaf : Option Leaf := none
  /-- `list_adjust_map` -/
  adj : Dict := []
  deriving DecidableEq, Repr

/-- `clear()`: three of the four fields -/
def Ctm.clear (c : Ctm) : Ctm := { c with stack := [], bq := [], lastLeaf := none }

/-- `premanage_container_tokens` -/
def Ctm.premanage (c : Ctm) (t : Tok) : Except Err Ctm :=
  if !c.stack.isEmpty && c.lastLeaf == some .setext && decide (t.kind = .setextEnd) then
    match c.bq.add c.stack.length 1 with
    | some bq => .ok { c with bq := bq }
    | none => .error .keyError
  else .ok c

/-- `__manage_lrd_token` -/
def lrdDelta (t : Tok) : Except Err Int :=
  match t.leading with
  | some s => .ok (1 + countNl s)
  | none => .error .assertion

/-- `__manage_leaf_tokens` without its last line: the delta and the new `last_leaf_token` (`lf` = the current one) -/
def leafDelta (lf : Option Leaf) (t : Tok) : Except Err (Int × Option Leaf) :=
  match t.kind with
  | .blank | .tbreak | .atx | .paraEnd | .hardBreak => .ok (1, lf)
  | .setext => .ok (0, some .setext)
  | .icode | .html => .ok (0, some .block)
  | .icodeEnd | .htmlEnd => .ok (0, none)
  | .setextEnd | .fenceEnd => .ok (1, none)
  | .fence => .ok (1, some .block)
  | .para => .ok (countNl t.ws, lf)
  | .lrd =>
    match lrdDelta t with
    | .ok d => .ok (d, lf)
    | .error e => .error e
  | .text =>
    match lf with
    | none => .ok (0, none)
    | some .setext => .ok ((match t.endData with | some w => countNl w | none => 0), lf)
    | some .block => .ok (countNl t.text + 1, lf)
  | _ => .ok (0, lf)

/-- `manage_container_tokens` -/
def Ctm.manage (c : Ctm) (t : Tok) : Except Err Ctm :=
  match t.kind with
  | .bquote =>
    .ok { c with stack := t :: c.stack, bq := c.bq.set (c.stack.length + 1) 0 }
  | .bquoteEnd =>
    match c.bq.del c.stack.length with
    | none => .error .keyError
    | some bq =>
      match c.stack with
      | [] => .error .indexError
      | _ :: st => .ok { c with stack := st, bq := bq }
  | .ulist | .olist =>
    .ok { c with stack := t :: c.stack, bq := c.bq.set (c.stack.length + 1) 0, adj := c.adj.set (c.stack.length + 1) 1 }
  | .li =>
    match c.adj.add c.stack.length 1 with
    | some adj => .ok { c with adj := adj }
    | none => .error .keyError
  | .ulistEnd | .olistEnd =>
    match c.bq.del c.stack.length with
    | none => .error .keyError
    | some bq =>
      match c.adj.del c.stack.length with
      | none => .error .keyError
      | some adj =>
        match c.stack with
        | [] => .error .indexError
        | _ :: st => .ok { c with stack := st, bq := bq, adj := adj }
  | _ =>
    if c.stack.isEmpty then .ok c
    else
      match leafDelta c.lastLeaf t with
      | .error e => .error e
      | .ok (d, lf) =>
        match c.bq.add c.stack.length d with
        | some bq => .ok { c with bq := bq, lastLeaf := lf }
        | none => .error .keyError

/-! ## a rule with `starting_new_file` separated from `__init__`

  `Rule.init c` is "construct the plug-in object, `initialize_from_config`, `starting_new_file`".  `reset` is
  `starting_new_file` on an object that has already seen tokens (the second file of a run; the first file may
  have been abandoned in the middle of the token pass). -/
structure RuleR (Cfg St : Type) extends Rule Cfg St where
  reset : St → St

variable {Cfg St : Type}

/-- the state after the first `n` steps that succeed: a pass over `toks` that stops at the first exception
    (continue-on-error: the plug-in object stays as the exception left it — the model keeps the state BEFORE
    the failing `next_token`; the tie checks this is what the rule objects do for the fields read later) -/
def runPrefix (r : Rule Cfg St) (c : Cfg) (fm : Bool) : St → Nat → List Tok → St
  | s, _, [] => s
  | s, i, t :: ts =>
    match r.next c fm s i t with
    | .error _ => s
    | .ok (s', _, _) => runPrefix r c fm s' (i + 1) ts

/-- scan-mode reports of `second` when the same plug-in object first saw (a prefix of) `first` -/
def scanAfter (r : RuleR Cfg St) (c : Cfg) (first second : List Tok) : Except Err (List Report) :=
  match runFrom r.toRule c false (r.reset (runPrefix r.toRule c false (r.init c) 0 first)) 0 second with
  | .error e => .error e
  | .ok (_, rps, _) => .ok rps

end Verif.Model.ListRules
