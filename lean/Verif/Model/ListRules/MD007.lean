import Verif.Model.ListRules.Basic
/-
  MD007 ul-indent — faithful model of pymarkdown/plugins/rule_md_007.py :: RuleMd007
    starting_new_file                              → `reset007` (= `ContainerTokenManager.clear`)
    next_token                                     → `next007`
    __calculate_base_column (+ `_ordered_list`, `_block_quote`)  → `ulRun`, `baseGo`
    __check                                        → `check007`
    __check_apply_fix                              → `fix007`
  configuration `indent` (2…4, validated by the plug-in manager before the rule runs), `start_indented`.

  Explicit failures
    IndexError      `container_token_stack[-1]` for an `li` with no open container;
                    `split_leading_spaces[bq_index]` when the manager counted more lines inside a block quote than
                    its `bleading_spaces` has (the KNOWN crash F-CRASH-MD007-calculate_base_column_block_quote)
    KeyError        `bq_line_index[…]`, `list_adjust_map[…]` of the manager
    AssertionError  `bleading_spaces is not None`; `len(extracted_whitespace) >= column_delta` in the fix
-/
namespace Verif.Model.ListRules
open Verif.Model.TokenRules

structure C007 where
  indent : Int := 2
  startIndented : Bool := false
  deriving DecidableEq, Repr

/-- first loop of `__calculate_base_column`: the unordered lists on top of the stack -/
def ulRun : List Tok → Nat × List Tok
  | [] => (0, [])
  | t :: ts => if t.kind = .ulist then ((ulRun ts).1 + 1, (ulRun ts).2) else (0, t :: ts)

/-- second loop of `__calculate_base_column` over the rest of the stack (top first); the key of `bq_line_index`
    is `stack_index + 1` = the length of the remaining stack.  Result: (container_base_column, block_quote_base) -/
def baseGo (bq : Dict) : List Tok → Bool → Int → Int → Except Err (Int × Int)
  | [], _, base, bqb => .ok (base, bqb)
  | t :: rest, ig, base, bqb =>
    match t.kind with
    | .olist => baseGo bq rest true (if ig then base else base + curIndent t) bqb
    | .bquote =>
      match bq.lookup (rest.length + 1) with
      | none => .error .keyError
      | some idx =>
        match t.leading with
        | none => .error .assertion
        | some ls =>
          match pyGet (splitNl ls) idx with
          | none => .error .indexError
          | some seg => baseGo bq rest false (base + seg.length) (if bqb = 0 then base + seg.length else bqb)
    | _ => baseGo bq rest ig base bqb

def extra007 (want adj cbc : Int) : Str :=
  "Expected: ".toList ++ pyStr (want + cbc) ++ ", Actual=".toList ++ pyStr (adj + cbc)

/-- the `leading_spaces` request of `__check_apply_fix` -/
def fixLeading007 (ls : Str) (indent total : Int) : Str :=
  joinNl ((splitNl ls).map (fun l => if indent ≤ l.length then pySliceTo l (-total) else l))

/-- the `leading_spaces` request (only when `leading_spaces` is a non-empty string) -/
def leadReq007 (i : Nat) (t : Tok) (total : Int) : List FixReq :=
  match t.leading with
  | some (c :: cs) => [⟨i, .leadingSpaces, .str (fixLeading007 (c :: cs) t.indent total)⟩]
  | _ => []

/-- `__check_apply_fix`; `cd` = column_delta (> 0 at the call site), `fs` = follow_space_delta -/
def fix007 (i : Nat) (t : Tok) (adj want : Int) : Except Err (List FixReq) :=
  let cd := adj - want
  let fs := t.indent - t.col - 1
  if (t.ws.length : Int) < cd then .error .assertion
  else
    .ok ([⟨i, .extractedWhitespace, .str (pySliceTo t.ws (-cd))⟩, ⟨i, .indentLevel, .int (t.indent - cd - fs)⟩]
      ++ (if t.kind = .li then [] else ⟨i, .columnNumber, .int (t.col - cd)⟩ :: leadReq007 i t (cd + fs)))

/-- `list_depth` after the two adjustments of `__check` (`run` = the value `__calculate_base_column` returned) -/
def depth007 (c : C007) (t : Tok) (run : Nat) : Int :=
  (run : Int) - (if t.kind = .li then 1 else 0) + (if c.startIndented then 1 else 0)

/-- `__check` after `__calculate_base_column` returned -/
def decide007 (c : C007) (fm : Bool) (i : Nat) (t : Tok) (depth base bqb : Int) : Except Err (List Report × List FixReq) :=
  let adj := t.col - 1 - base
  let want := depth * c.indent
  if want < adj then
    if fm then
      match fix007 i t adj want with
      | .error e => .error e
      | .ok fx => .ok ([], fx)
    else
      let cbc := if bqb ≠ 0 then base - bqb else if base ≠ 0 then base + 1 else base
      .ok ([⟨t.line, t.col, some (extra007 want adj cbc)⟩], [])
  else .ok ([], [])

/-- `__check` -/
def check007 (c : C007) (fm : Bool) (s : Ctm) (i : Nat) (t : Tok) : Except Err (List Report × List FixReq) :=
  match baseGo s.bq (ulRun s.stack).2 false 0 0 with
  | .error e => .error e
  | .ok (base, bqb) => decide007 c fm i t (depth007 c t (ulRun s.stack).1) base bqb

/-- is `__check` called for this token: `is_unordered_list_start or (is_new_list_item and stack[-1].is_unordered_list_start)` -/
def checks007 (s : Ctm) (t : Tok) : Except Err Bool :=
  if t.kind = .ulist then .ok true
  else if t.kind = .li then
    match s.stack with
    | [] => .error .indexError
    | top :: _ => .ok (decide (top.kind = .ulist))
  else .ok false

def next007 (c : C007) (fm : Bool) (s : Ctm) (i : Nat) (t : Tok) : Except Err (Ctm × List Report × List FixReq) :=
  match s.premanage t with
  | .error e => .error e
  | .ok s1 =>
    match checks007 s1 t with
    | .error e => .error e
    | .ok b =>
      match (if b then check007 c fm s1 i t else .ok ([], [])) with
      | .error e => .error e
      | .ok (rp, fx) =>
        match s1.manage t with
        | .error e => .error e
        | .ok s2 => .ok (s2, rp, fx)

def md007 : RuleR C007 Ctm := { init := fun _ => {}, next := next007, reset := Ctm.clear }

end Verif.Model.ListRules
