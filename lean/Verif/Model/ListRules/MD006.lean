import Verif.Model.ListRules.Basic
/-
  MD006 ul-start-left — faithful model of pymarkdown/plugins/rule_md_006.py :: RuleMd006 (disabled by default)
    starting_new_file            → `reset006` (the one field is reassigned)
    __calculate_expected_indent  → `expected006`
    next_token                   → `next006`
    __report_or_fix              → `act006`
  State: `__token_stack` (list starts and block quote starts), top at the head.

  Explicit failures
    IndexError      `del self.__token_stack[-1]` / `self.__token_stack[-1]` on the empty stack
    AssertionError  `bleading_spaces is not None`
-/
namespace Verif.Model.ListRules
open Verif.Model.TokenRules

abbrev St006 := List Tok

/-- `__calculate_expected_indent`, called when the current unordered list is on top of the stack -/
def expected006 (st : St006) : Except Err Int :=
  match st with
  | _ :: parent :: _ =>
    if parent.kind = .bquote then
      match parent.leading with
      | none => .error .assertion
      | some ls =>
        match splitNl ls with
        | seg :: _ => .ok ((seg.length : Int) + (parent.col - 1))
        | [] => .error .indexError
    else .ok parent.indent
  | _ => .ok 0

/-- `__report_or_fix` -/
def act006 (fm : Bool) (i : Nat) (t : Tok) (delta : Int) : List Report × List FixReq :=
  if fm then
    ([], [⟨i, .indentLevel, .int (t.indent + delta)⟩]
      ++ (if t.kind = .li then [⟨i, .extractedWhitespace, .str (pySliceTo t.ws delta)⟩]
          else [⟨i, .extractedWhitespace, .str []⟩, ⟨i, .columnNumber, .int (t.col + delta)⟩]))
  else ([⟨t.line, t.col, none⟩], [])

/-- the common part of the two checking branches -/
def check006 (fm : Bool) (st : St006) (i : Nat) (t : Tok) : Except Err (List Report × List FixReq) :=
  match expected006 st with
  | .error e => .error e
  | .ok ex =>
    let delta := 1 + ex - t.col
    if delta ≠ 0 then .ok (act006 fm i t delta) else .ok ([], [])

def next006 (_ : Unit) (fm : Bool) (st : St006) (i : Nat) (t : Tok) : Except Err (St006 × List Report × List FixReq) :=
  match t.kind with
  | .ulist =>
    match check006 fm (t :: st) i t with
    | .error e => .error e
    | .ok (rp, fx) => .ok (t :: st, rp, fx)
  | .olist | .bquote => .ok (t :: st, [], [])
  | .ulistEnd | .olistEnd | .bquoteEnd =>
    match st with
    | [] => .error .indexError
    | _ :: st' => .ok (st', [], [])
  | .li =>
    match st with
    | [] => .error .indexError
    | top :: _ =>
      if top.kind = .ulist then
        match check006 fm st i t with
        | .error e => .error e
        | .ok (rp, fx) => .ok (st, rp, fx)
      else .ok (st, [], [])
  | _ => .ok (st, [], [])

def md006 : RuleR Unit St006 := { init := fun _ => [], next := next006, reset := fun _ => [] }

end Verif.Model.ListRules
