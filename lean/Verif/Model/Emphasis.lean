/-
  Faithful model of pymarkdown's emphasis resolution
  (`/repo/pymarkdown/inline/emphasis_helper.py`, class `EmphasisHelper`, and the fields of
  `pymarkdown/tokens/special_text_markdown_token.py` it reads and writes).  Core Lean only.

  Abstraction.  `inline_blocks` is a Python list of token *objects*; `delimiter_stack` is a second list
  holding references to the special-text objects among them, in order, and it is never changed after
  `__create_delimiter_stack`.  The model therefore keeps the mutable fields of the special tokens in
  `stk : List Special` (index = position in the delimiter stack = object identity) and lets
  `blocks : List Block` refer to them by that index (`Block.sp id`).  `list.index` / `list.remove` use `==`,
  which for `MarkdownToken` is object identity, i.e. equality of `Block.sp id`.
  A non-special token is `Block.plain tag` (tag = its index in the input list, so order preservation is
  observable); the tokens the function creates are `Block.es len ch` (EmphasisMarkdownToken) and
  `Block.ee len ch` (its end token).  Line / column numbers are not modelled.

  Python exceptions are explicit: `Err.index` (IndexError), `Err.assertion` (AssertionError),
  `Err.value` (ValueError of `list.index` / `list.remove`), `Err.fuel` (the model's loop ran out of fuel:
  the Python loop would still be running).
-/
import Verif.Gen.EmphChars
namespace Verif.Model.Emphasis

abbrev Str := List Char

inductive Err where
  | index | assertion | value | fuel
  deriving Repr, DecidableEq, BEq

/-- the fields of a `SpecialTextMarkdownToken` the emphasis code touches. -/
structure Special where
  text : Str                 -- token_text
  rep : Int                  -- repeat_count (Python int: may go negative on ill-formed input)
  prec : Option Str          -- preceding_two  (None for `[`, `![`, `]`)
  foll : Option Str          -- following_two
  active : Bool              -- is_active
  deriving Repr, DecidableEq, BEq

/-- one element of the input `inline_blocks`. -/
inductive Item where
  | plain
  | special (s : Special)
  deriving Repr, DecidableEq, BEq

inductive Block where
  | plain (tag : Nat)
  | sp (id : Nat)
  | es (len : Nat) (ch : Char)
  | ee (len : Nat) (ch : Char)
  deriving Repr, DecidableEq, BEq

/-! ## character classes (`Constants.unicode_whitespace`, `Constants.punctuation_characters`) -/
def isWs (c : Char) : Bool := Gen.EmphChars.whitespace.contains c.toNat
def isPunct (c : Char) : Bool := Gen.EmphChars.punctuation.contains c.toNat

/-- `preceding_two.rjust(2, " ")[-1]` -/
def precChar (p : Str) : Char := p.getLast?.getD ' '
/-- `following_two.ljust(2, " ")[0]` -/
def follChar (f : Str) : Char := f.head?.getD ' '

/-- `__is_right_flanking_delimiter_run` on the two neighbouring characters -/
def rightFl (p f : Char) : Bool :=
  !isWs p && (!isPunct p || (isPunct p && (isWs f || isPunct f)))

/-- `__is_left_flanking_delimiter_run` on the two neighbouring characters -/
def leftFl (p f : Char) : Bool :=
  !isWs f && (!isPunct f || (isPunct f && (isWs p || isPunct p)))

/-- the two `assert … is not None` of both flanking functions, then the padded neighbours. -/
def flankArgs (t : Special) : Except Err (Char × Char) :=
  match t.prec, t.foll with
  | some p, some f => pure (precChar p, follChar f)
  | _, _ => throw .assertion

def isRight (t : Special) : Except Err Bool := do
  let (p, f) ← flankArgs t
  pure (rightFl p f)

def isLeft (t : Special) : Except Err Bool := do
  let (p, f) ← flankArgs t
  pure (leftFl p f)

/-- `EmphasisHelper.__inline_emphasis` after `initialize` -/
def emphChars (strike : Bool) : Str := if strike then ['*', '_', '~'] else ['*', '_']

/-- `token_text[0]` -/
def head0 (t : Special) : Except Err Char :=
  match t.text with
  | c :: _ => pure c
  | [] => throw .index

/-- pure core of `__is_potential_closer`: delimiter char, `len(token_text)`, neighbours -/
def closerCore (c : Char) (tlen : Nat) (p f : Char) : Bool :=
  if c == '*' then rightFl p f
  else if c == '~' then (if tlen < 3 then rightFl p f else false)
  else
    if rightFl p f then
      let l := leftFl p f
      !l || (l && isPunct f)
    else false

/-- pure core of `__is_potential_opener` -/
def openerCore (c : Char) (tlen : Nat) (p f : Char) : Bool :=
  if c == '*' then leftFl p f
  else if c == '~' then (if tlen < 3 then leftFl p f else false)
  else
    if leftFl p f then
      let r := rightFl p f
      !r || (r && isPunct p)
    else false

/-- `__is_potential_closer` with its assertions -/
def potentialCloser (strike : Bool) (t : Special) : Except Err Bool := do
  let c ← head0 t
  if !(emphChars strike).contains c then throw .assertion
  if c == '*' then isRight t
  else if c == '~' then (if t.text.length < 3 then isRight t else pure false)
  else
    if c != '_' then throw .assertion
    let r ← isRight t
    if r then
      let l ← isLeft t
      let (_, f) ← flankArgs t
      pure (!l || (l && isPunct f))
    else pure false

/-- `__is_potential_opener` with its assertions -/
def potentialOpener (strike : Bool) (t : Special) : Except Err Bool := do
  let c ← head0 t
  if !(emphChars strike).contains c then throw .assertion
  if c == '*' then isLeft t
  else if c == '~' then (if t.text.length < 3 then isLeft t else pure false)
  else
    if c != '_' then throw .assertion
    let l ← isLeft t
    if l then
      let r ← isRight t
      let (p, _) ← flankArgs t
      pure (!r || (r && isPunct p))
    else pure false

/-- "can both open and close" as `__is_open_close_emphasis_valid` computes it (`a and b`, short-circuit) -/
def isBoth (strike : Bool) (t : Special) : Except Err Bool := do
  if ← potentialCloser strike t then potentialOpener strike t else pure false

/-- the rule-of-3 test on two lengths, given that one of the two runs is both opener and closer -/
def rule3 (ro rc : Int) : Bool :=
  if (rc + ro) % 3 == 0 then (rc % 3 == 0 && ro % 3 == 0) else true

/-- `__is_open_close_emphasis_valid (open_token, close_token)`; `ro`, `rc` are the lengths the rule of 3 looks at
    (the Python passes the CURRENT `repeat_count`s, see `pyPolicy`). -/
def validPair (strike : Bool) (o c : Special) (ro rc : Int) : Except Err Bool :=
  match o.text with
  | [] => pure false                          -- `not (open_token.token_text and …)`
  | oc :: _ => do
    let cc ← head0 c
    if oc != cc then pure false               -- delimiter mismatch
    else if !o.active then pure false         -- not active
    else
      let v ← potentialOpener strike o
      if v then
        let cb ← isBoth strike c
        let ob ← isBoth strike o
        if cb || ob then pure (rule3 ro rc) else pure true
      else pure false

/-- `__process_this_delimiter_item` -/
def processThis (strike : Bool) (t : Special) : Except Err Bool :=
  if !t.active then pure false
  else do
    let c ← head0 t
    if !(emphChars strike).contains c then pure false
    else potentialCloser strike t

/-! ## the two decisions of the main loop, as a parameter
  `closer` = `__process_this_delimiter_item`, `valid o ot c ct` = `__is_open_close_emphasis_valid` on the stack
  entries at positions `o` (opener candidate) and `c` (closer).  The structural theorems hold for every policy
  that only pairs active tokens; `pyPolicy` is the Python's. -/
structure Policy where
  closer : Special → Except Err Bool
  valid : Nat → Special → Nat → Special → Except Err Bool

def pyPolicy (strike : Bool) : Policy where
  closer := processThis strike
  valid := fun _ ot _ ct => validPair strike ot ct ot.rep ct.rep

/-- the same decisions with the rule of 3 evaluated on the ORIGINAL run lengths `orig[id]`
    (what cmark / commonmark.js do and the specification's "length of the delimiter run" says);
    used only for the comparison with LeanMark and for the deviation witness. -/
def origPolicy (strike : Bool) (orig : List Int) : Policy where
  closer := processThis strike
  valid := fun o ot c ct => validPair strike ot ct (orig.getD o ot.rep) (orig.getD c ct.rep)

/-! ## list primitives with Python's behaviour -/
/-- `list.index(a)` -/
def idxOf {α : Type} [DecidableEq α] (a : α) : List α → Option Nat
  | [] => none
  | x :: xs => if x = a then some 0 else (idxOf a xs).map (· + 1)

def idxOfE {α : Type} [DecidableEq α] (a : α) (l : List α) : Except Err Nat :=
  match idxOf a l with
  | some i => pure i
  | none => throw .value

/-- `list.insert(i, a)` (an index past the end appends, as in Python) -/
def insertAt {α : Type} (l : List α) (i : Nat) (a : α) : List α := l.take i ++ a :: l.drop i

/-- `list.remove(a)` -/
def removeE {α : Type} [DecidableEq α] (a : α) (l : List α) : Except Err (List α) :=
  if a ∈ l then pure (l.erase a) else throw .value

/-- mutate the object at stack position `i` -/
def upd (stk : List Special) (i : Nat) (f : Special → Special) : List Special :=
  match stk[i]? with
  | some t => stk.set i (f t)
  | none => stk

def deact (stk : List Special) (i : Nat) : List Special := upd stk i fun t => { t with active := false }
def reduce (stk : List Special) (i : Nat) (n : Int) : List Special :=
  upd stk i fun t => { t with rep := t.rep - n }

def getS (stk : List Special) (i : Nat) : Except Err Special :=
  match stk[i]? with
  | some t => pure t
  | none => throw .index

/-! ## `__create_delimiter_stack`, `__find_token_in_delimiter_stack` -/
/-- blocks and delimiter stack of an input list; `tag` / `id` are the running counters. -/
def createFrom : Nat → Nat → List Item → List Block × List Special
  | _, _, [] => ([], [])
  | tag, id, .plain :: r =>
    let (b, s) := createFrom (tag + 1) id r
    (.plain tag :: b, s)
  | tag, id, .special t :: r =>
    let (b, s) := createFrom (tag + 1) (id + 1) r
    (.sp id :: b, t :: s)

def createStack (items : List Item) : List Block × List Special := createFrom 0 0 items

/-- the `while wall_index_in_inlines >= 0` loop; the argument is `wall_index_in_inlines + 1`.
    `delimiter_stack.index(special_token)` is the token's `id`. -/
def walkBack (blocks : List Block) : Nat → Int
  | 0 => -1
  | n + 1 =>
    match blocks[n]? with
    | some (.sp id) => id
    | _ => walkBack blocks n

/-- `wall` = index of `wall_token` in `inline_blocks` (`None` = no wall); an index outside the list stands for
    a wall token that is not in the list (`list.index` raises ValueError). -/
def findWall (blocks : List Block) : Option Nat → Except Err Int
  | none => pure (-1)
  | some w => if w < blocks.length then pure (walkBack blocks (w + 1)) else throw .value

/-! ## `__find_potential_opener` -/
/-- the argument is `scan_index + 1`; `openers_bottom` is never updated by the Python (the assignment is commented
    out), so its test coincides with the one against `stack_bottom`. -/
def findOpener (pol : Policy) (stk : List Special) (c : Nat) (ct : Special) (bottom : Int) :
    Nat → Except Err (Option Nat)
  | 0 => pure none
  | n + 1 =>
    if (n : Int) > bottom then
      match stk[n]? with
      | none => throw .index
      | some ot => do
        if ← pol.valid n ot c ct then pure (some n) else findOpener pol stk c ct bottom n
    else pure none

/-! ## `__process_emphasis_pair` + `__mark_used_tokens` -/
structure St where
  blocks : List Block
  stk : List Special
  cur : Nat
  deriving Repr, DecidableEq

/-- the `while inline_index < end_index_in_blocks` loop: `n` iterations starting at index `i`. -/
def deactRange (blocks : List Block) : Nat → Nat → List Special → Except Err (List Special)
  | 0, _, stk => pure stk
  | n + 1, i, stk =>
    match blocks[i]? with
    | none => throw .index
    | some (.sp id) => deactRange blocks n (i + 1) (deact stk id)
    | some _ => deactRange blocks n (i + 1) stk

def emphLen (ot ct : Special) : Nat := if ct.rep ≥ 2 ∧ ot.rep ≥ 2 then 2 else 1

def processPair (blocks : List Block) (stk : List Special) (o c cur : Nat) : Except Err St := do
  let ot ← getS stk o
  let ct ← getS stk c
  let ch ← head0 ot
  let L := emphLen ot ct
  let start ← idxOfE (.sp o) blocks
  let blocks := insertAt blocks (start + 1) (.es L ch)
  let end0 ← idxOfE (.sp c) blocks
  let blocks := insertAt blocks end0 (.ee L ch)
  let end1 := end0 + 1
  -- __mark_used_tokens
  let stk := reduce stk c L
  let (blocks, end2, stk, cur) ←
    (if ct.rep - L = 0 then do
      let b ← removeE (.sp c) blocks
      pure (b, end1 - 1, deact stk c, cur)
    else pure (blocks, end1, stk, cur - 1) : Except Err (List Block × Nat × List Special × Nat))
  let stk := reduce stk o L
  let (blocks, end3, stk) ←
    (if ot.rep - L = 0 then do
      let b ← removeE (.sp o) blocks
      pure (b, end2 - 1, deact stk o)
    else pure (blocks, end2, stk) : Except Err (List Block × Nat × List Special))
  let stk ← deactRange blocks (end3 - (start + 1)) (start + 1) stk
  pure ⟨blocks, stk, cur⟩

/-! ## the main loop of `resolve_inline_emphasis` -/
def loop (pol : Policy) (bottom : Int) : Nat → St → Except Err St
  | 0, _ => throw .fuel
  | f + 1, σ =>
    if σ.cur + 1 < σ.stk.length then                      -- current_position < len(delimiter_stack) - 1
      let cur := σ.cur + 1
      match σ.stk[cur]? with
      | none => throw .index
      | some ct => do
        if !(← pol.closer ct) then loop pol bottom f { σ with cur := cur }
        else
          match ← findOpener pol σ.stk cur ct bottom cur with
          | none => loop pol bottom f { σ with cur := cur }
          | some o => do
            let σ' ← processPair σ.blocks σ.stk o cur cur
            loop pol bottom f σ'
    else pure σ

/-- `token_text[:n]` for a Python int `n` -/
def pySlice (s : Str) (n : Int) : Str :=
  if n ≥ 0 then s.take n.toNat else s.take (s.length - (-n).toNat)

/-- `__reset_token_text`: every special token still in `inline_blocks` -/
def resetText : List Block → List Special → List Special
  | [], stk => stk
  | .sp id :: r, stk => resetText r (upd stk id fun t => { t with text := pySlice t.text t.rep })
  | _ :: r, stk => resetText r stk

/-- `__clear_remaining_emphasis`: `n` entries starting at `i` -/
def clearFrom : Nat → Nat → List Special → List Special
  | 0, _, stk => stk
  | n + 1, i, stk => clearFrom n (i + 1) (deact stk i)

def sumRepeat : List Special → Nat
  | [] => 0
  | t :: r => t.rep.toNat + sumRepeat r

/-- fuel that is provably enough for well-formed input (`Lemmas/EmphasisTotal`) -/
def fuelOf (stk : List Special) : Nat := stk.length + sumRepeat stk + 1

structure Result where
  blocks : List Block
  stk : List Special
  deriving Repr, DecidableEq

deriving instance DecidableEq for Except

def resolveWithFuel (pol : Policy) (fuel : Nat) (wall : Option Nat) (items : List Item) : Except Err Result := do
  let (blocks, stk) := createStack items
  let bottom ← findWall blocks wall
  let cur := (bottom + 1).toNat
  let σ ← (if cur < stk.length then loop pol bottom fuel ⟨blocks, stk, cur⟩ else pure ⟨blocks, stk, cur⟩ : Except Err St)
  let stk := resetText σ.blocks σ.stk
  let stk := clearFrom (stk.length - cur) cur stk
  pure ⟨σ.blocks, stk⟩

def resolveWith (pol : Policy) (wall : Option Nat) (items : List Item) : Except Err Result :=
  resolveWithFuel pol (fuelOf (createStack items).2) wall items

/-- `EmphasisHelper.resolve_inline_emphasis(inline_blocks, wall_token)`, strike-through extension on / off -/
def resolve (strike : Bool) (wall : Option Nat) (items : List Item) : Except Err Result :=
  resolveWith (pyPolicy strike) wall items

/-! ## what the theorems speak about -/
abbrev Frame := Nat × Char

/-- one pass over the output with a stack of open emphasis starts: an end token must match the most recent open start
    (same length, same character).  `act` marks special tokens in front of which the stack has to be empty
    (used for the loop invariant; `fun _ => false` for the plain nesting check). -/
def nestRun (act : Nat → Bool) : List Frame → List Block → Option (List Frame)
  | S, [] => some S
  | S, .plain _ :: r => nestRun act S r
  | S, .sp i :: r => if act i && !S.isEmpty then none else nestRun act S r
  | S, .es n c :: r => nestRun act ((n, c) :: S) r
  | S, .ee n c :: r =>
    match S with
    | (n', c') :: S' => if n = n' ∧ c = c' then nestRun act S' r else none
    | [] => none

/-- emphasis start / end tokens are balanced and properly nested -/
def WellNested (b : List Block) : Prop := nestRun (fun _ => false) [] b = some []

def plains (b : List Block) : List Nat := b.filterMap fun x => match x with | .plain t => some t | _ => none

/-- delimiter character of stack entry `i` (first character of its text) -/
def charOf (stk : List Special) (i : Nat) : Option Char := (stk[i]?).bind (·.text.head?)
def repOf (stk : List Special) (i : Nat) : Int := match stk[i]? with | some t => t.rep | none => 0

/-- delimiter characters of kind `ch` accounted for by a block list: remaining repeat counts of the special tokens
    whose character is `ch` (characters taken from `cof`) + lengths of the emphasis start and end tokens of `ch`. -/
def weight (cof : Nat → Option Char) (stk : List Special) (ch : Char) : List Block → Int
  | [] => 0
  | .plain _ :: r => weight cof stk ch r
  | .sp i :: r => (if cof i = some ch then repOf stk i else 0) + weight cof stk ch r
  | .es n c :: r => (if c = ch then (n : Int) else 0) + weight cof stk ch r
  | .ee n c :: r => (if c = ch then (n : Int) else 0) + weight cof stk ch r

/-- the source text a block list stands for, as a list of atoms: a non-special token (by its input position) or one
    delimiter character.  `render` reads a special token as the first `repeat_count` characters of its text (what
    `__reset_token_text` leaves), `renderOut` as its text (used for results, where the reset has been done);
    emphasis start / end tokens stand for their `len` delimiter characters. -/
inductive Atom where
  | tok (tag : Nat)
  | chr (c : Char)
  deriving DecidableEq, Repr

def render (stk : List Special) : List Block → List Atom
  | [] => []
  | .plain t :: r => .tok t :: render stk r
  | .sp i :: r => (match stk[i]? with
      | some t => (pySlice t.text t.rep).map Atom.chr
      | none => []) ++ render stk r
  | .es n c :: r => List.replicate n (Atom.chr c) ++ render stk r
  | .ee n c :: r => List.replicate n (Atom.chr c) ++ render stk r

def renderOut (stk : List Special) : List Block → List Atom
  | [] => []
  | .plain t :: r => .tok t :: renderOut stk r
  | .sp i :: r => (match stk[i]? with
      | some t => t.text.map Atom.chr
      | none => []) ++ renderOut stk r
  | .es n c :: r => List.replicate n (Atom.chr c) ++ renderOut stk r
  | .ee n c :: r => List.replicate n (Atom.chr c) ++ renderOut stk r

end Verif.Model.Emphasis
