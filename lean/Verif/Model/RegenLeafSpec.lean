/-
  RegenLeafSpec — what a container-free token stream is *supposed* to look like and what the regenerator is supposed to
  give back, written from the token documentation (`/repo/newdocs/src/developer.md`, the token classes' doc strings) and
  the CommonMark block structure, not from the handlers:

  * `Leaf` / `Leaf.toks` / `Leaf.lines` — the tokens the block pass + inline pass produce for a leaf block whose inline
    content is plain text, in terms of the opening-line decompositions of `Verif.Model.LeafFields`, and the source lines
    the block stands for (used by `regen_leaf_roundtrip`);
  * `AState` / `gStep` / `WF` — the grammar of container-free streams as a decidable guard: which token may follow in
    which open block, which field shapes the handlers assume, and the newline budget of a paragraph
    (used by `regen_total`);
  * `StyleEq` — "the two tokens differ in style fields only" (used by `regen_field_local`).
-/
import Verif.Model.RegenLeaf
import Verif.Model.LeafFields
namespace Verif.Model.RegenLeafSpec
open Verif.Model.RegenLeaf
open Verif.Model.Codec (Str plain WSPLIT)
open Verif.Model.Lines (splitOn joinOn splitNL joinNL NL)
open Verif.Model.LeafFields (AtxFields ThematicFields FenceOpenFields FenceCloseFields SetextFields)

/-! ## Leaf blocks with plain-text content -/

/-- one physical line of a paragraph / setext heading: leading white space, text, trailing white space -/
structure PLine where
  lead : Str
  body : Str
  trail : Str
  deriving Repr, DecidableEq

def PLine.src (l : PLine) : Str := l.lead ++ l.body ++ l.trail

/-- no newline and no in-band marker character in any of the three pieces -/
def PLine.ok (l : PLine) : Bool :=
  plain l.lead && plain l.body && plain l.trail && !l.lead.contains NL && !l.body.contains NL && !l.trail.contains NL

/-- `str(n)` for a natural number (`fuel` ≥ number of digits) -/
def decimalAux : Nat → Nat → Str
  | 0, _ => []
  | fuel + 1, n => if n < 10 then [Char.ofNat (48 + n)] else decimalAux fuel (n / 10) ++ [Char.ofNat (48 + n % 10)]

def decimal (n : Nat) : Str := decimalAux (n + 1) n

/-- trailing white space of the last line -/
def lastTrail (ls : List PLine) : Str :=
  match ls.getLast? with
  | some l => l.trail
  | none => []

/-- The paragraph token's `extracted_whitespace` holds the leading white space of every line, the text token the line
texts, its `end_whitespace` the trailing white space of every line but the last (whose trailing white space is the
paragraph's `final_whitespace`). -/
def paraToks (id : Nat) (ls : List PLine) : List Tok :=
  let leads := joinNL (ls.map (·.lead))
  [.para id leads (lastTrail ls),
   .text (joinNL (ls.map (·.body))) []
     (if 2 ≤ ls.length then some (joinNL (ls.dropLast.map (·.trail) ++ [[]])) else some []),
   .endPara id leads (ls.length - 1)]

/-- the `end_whitespace` entry of line `i ≥ 1` of a setext heading's text: leading white space, U+0002, trailing white space
(of the last line: nothing, it is the heading's `final_whitespace`) — but a line without leading white space stores its
trailing white space alone, which the regenerator then takes for a first-line entry (F-SETEXT-TRAILWS). -/
def setextEntry (l : PLine) (last : Bool) : Str :=
  if l.lead = [] then (if last then [] else l.trail) else l.lead ++ WSPLIT :: (if last then [] else l.trail)

def setextEntries : List PLine → List Str
  | [] => []
  | [l] => [setextEntry l true]
  | l :: m :: ls => setextEntry l false :: setextEntries (m :: ls)

/-- setext heading: text lines `ls`, underline fields `u` -/
def setextToks (ls : List PLine) (u : SetextFields) : List Tok :=
  match ls with
  | [] => []
  | l :: rest =>
    [.setext l.lead [u.char] u.count (lastTrail (l :: rest)),
     .text (joinNL ((l :: rest).map (·.body))) []
       (if rest = [] then some [] else some (joinNL (l.trail :: setextEntries rest))),
     .endSetext u.lead (some u.trail)]

def atxToks (f : AtxFields) : List Tok :=
  [.atx f.lead f.hashes f.closing, .text f.text f.wsAfter (some []), .endAtx f.wsAtEnd (some f.wsBeforeEnd) f.closing]

def thematicToks (f : ThematicFields) : List Tok := [.tbreak f.lead f.rest]

/-- fenced code block with a closing fence; `bodyEw ++ bodyText` is the content (absent when `body = none`) -/
def fenceToks (f : FenceOpenFields) (body : Option (Str × Str)) (g : FenceCloseFields) : List Tok :=
  [.fcode f.lead [f.char] f.count f.wsBeforeInfo [] f.info [] f.afterInfo] ++
  (match body with
   | none => []
   | some (ew, tt) => [.text tt ew none]) ++
  [.endFcode g.lead (some (endExtraData g.lead (some (g.trail ++ ':' :: decimal g.count)) false true)) false [f.char]]

/-- A leaf block of a document, given by its source lines. -/
inductive Leaf where
  | blank (line : Str)
  | thematic (line : Str)
  | atx (line : Str)
  | para (id : Nat) (ls : List PLine)
  | setext (ls : List PLine) (underline : Str)
  | fence (openLine : Str) (body : Option (Str × Str)) (closeLine : Str)
  deriving Repr

def Leaf.lines : Leaf → List Str
  | .blank l => [l]
  | .thematic l => [l]
  | .atx l => [l]
  | .para _ ls => ls.map PLine.src
  | .setext ls u => ls.map PLine.src ++ [u]
  | .fence o none c => [o, c]
  | .fence o (some (ew, tt)) c => [o] ++ splitNL (ew ++ tt) ++ [c]

/-- the tokens of the block (`none`: the modelled recogniser does not accept the line) -/
def Leaf.toks : Leaf → Option (List Tok)
  | .blank l => match LeafFields.fieldsBlank l with
    | .ok (some ws) => some [.blank ws]
    | _ => none
  | .thematic l => match LeafFields.fieldsThematic l with
    | .ok (some f) => some (thematicToks f)
    | _ => none
  | .atx l => match LeafFields.fieldsAtx l with
    | .ok (some f) => some (atxToks f)
    | _ => none
  | .para id ls => if ls = [] then none else some (paraToks id ls)
  | .setext ls u => match LeafFields.fieldsSetext u with
    | .ok (some f) => if ls = [] then none else some (setextToks ls f)
    | _ => none
  | .fence o body c => match LeafFields.fieldsFenceOpen o with
    | .ok (some f) => match LeafFields.fieldsFenceClose c f.char f.count with
      | .ok (some g) => some (fenceToks f body g)
      | _ => none
    | _ => none

/-- no line after the first and before the last has trailing but no leading white space (the F-SETEXT-TRAILWS shape) -/
def setextMiddleOk : List PLine → Bool
  | [] => true
  | [_] => true
  | l :: m :: ls => (!l.lead.isEmpty || l.trail.isEmpty) && setextMiddleOk (m :: ls)

/-- The side conditions under which the block is inside the proved round trip:
plain text (no in-band marker characters: those are `Codec`'s theorems), the ATX text plain, the opening fence not of the
shape F-FENCE-TRAILWS (white space after the fence and no info string), no `:` in the closing fence line, no middle line
of a setext heading of the shape F-SETEXT-TRAILWS. -/
def Leaf.ok : Leaf → Bool
  | .blank _ => true
  | .thematic _ => true
  | .atx l => match LeafFields.fieldsAtx l with
    | .ok (some f) => plain f.text && plain f.wsAfter
    | _ => false
  | .para _ ls => ls.all PLine.ok
  | .setext ls _ => ls.all (fun l => l.ok && !l.lead.contains WSPLIT && !l.trail.contains WSPLIT) && setextMiddleOk ls.tail
  | .fence o body c => (match LeafFields.fieldsFenceOpen o with
      | .ok (some f) => !f.info.isEmpty || f.wsBeforeInfo.isEmpty
      | _ => false) && !c.contains ':' &&
      (match body with
       | none => true
       | some (ew, tt) => plain ew && plain tt)

/-! ## Well-formed container-free streams (the guard of `regen_total`)

The grammar of a container-free token stream, read off the token documentation: leaf blocks do not nest; inline tokens
occur inside a paragraph / heading (text also inside code and html blocks); links nest inside them; every start token
that requires an end token gets the matching one.  On top of the grammar the handlers assume field shapes, stated here
field by field, and — for paragraphs — a newline budget: the inline tokens of a paragraph together hold exactly as many
newlines as the paragraph's `extracted_whitespace`. -/

/-- abstract regenerator state: the open leaf block, the `rehydrate_index` of the open paragraph, the number of open links -/
structure AState where
  blk : Option Blk := none
  used : Nat := 0
  links : Nat := 0
  deriving Repr, DecidableEq

/-- the block stack this state stands for (top first) -/
def AState.stack (a : AState) : List Blk := List.replicate a.links .link ++ a.blk.toList

/-- `"".rjust(n, s)` needs a one-character `s` -/
def oneChar (s : Str) : Bool := s.length == 1

def asciiDigits (s : Str) : Bool := !s.isEmpty && s.all (fun c => "0123456789".toList.contains c)

/-- `extra_data` of a not-forced `end-fcode-block`: at least three `:`-separated parts, the third a decimal number -/
def fenceEndShape (xd : Option Str) : Bool :=
  match xd with
  | none => false
  | some d =>
    match splitOn ':' d with
    | _ :: _ :: cnt :: _ => asciiDigits cnt
    | _ => false

/-- the five fields `__rehydrate_link_reference_definition` asserts to be present -/
def lrdShape (f : LrdF) : Bool :=
  f.destWs.isSome && (pyOr f.destRaw f.dest).isSome && f.titleWs.isSome && (pyOr f.titleRaw f.title).isSome && f.endWs.isSome

/-- what `rehydrate_inline_link_text_from_token` assumes: a known label type; for `full` the label; for `inline` the two
white-space fields, a URI, and — with a title — the white space after it; the link text without marker characters where it
goes through `remove_all_from_text` (shortcut and inline). -/
def linkShape (f : LinkF) : Bool :=
  if f.labelType = "shortcut".toList then plain f.textFromBlocks
  else if f.labelType = "full".toList then f.exLabel.isSome
  else if f.labelType = "collapsed".toList then true
  else if f.labelType = "inline".toList then
    f.beforeTitleWs.isSome && f.beforeLinkWs.isSome && plain f.textFromBlocks && (pyOr f.preUri f.uri).isSome &&
      (!truthy (pyOr f.preTitle f.title) || f.afterTitleWs.isSome)
  else false

/-- entries `0 … n-1` of a setext text token's `end_whitespace`: empty, or split by U+0002 into two parts, or (entry 0 only) one part -/
def setextEntriesOK (spw : List Str) : Nat → Nat → Bool
  | _, 0 => true
  | idx, n + 1 =>
    (match spw[idx]? with
     | none => false
     | some [] => true
     | some (w :: ws) =>
       match splitOn WSPLIT (w :: ws) with
       | [_] => idx == 0
       | [_, _] => true
       | _ => false) && setextEntriesOK spw (idx + 1) n

/-- add `k` newlines to the open paragraph's rehydrate index, if they fit its `extracted_whitespace`; other blocks: nothing -/
def AState.consume (a : AState) (k : Nat) : Option AState :=
  match a.blk with
  | some (.para _ pew _) => if k = 0 then some a else if a.used + k ≤ countNl pew then some { a with used := a.used + k } else none
  | _ => some a

def AState.empty (a : AState) : Bool := a.blk.isNone && a.links == 0

/-- a link / image whose rehydrated text is `t`: a text spanning lines goes through `remove_all_from_text` as a whole and
takes its continuation-line indentation from the paragraph -/
def AState.placeLinkText (a : AState) (t : Str) : Option AState :=
  if t.contains NL then (if plain t then a.consume (countNl t) else none) else some a

/-- One token in state `a` (`prev` = the previous token): the next state, or `none` when the stream is not well formed here. -/
def gStep (a : AState) (prev : Option Tok) : Tok → Option AState
  | .para id ew fin => if a.empty && plain (ew.takeWhile (· != NL)) then some { blk := some (.para id ew fin), used := 0, links := 0 } else none
  | .atx _ _ _ => if a.empty then some { a with blk := some .atx } else none
  | .setext _ hc n fin => if a.empty && oneChar hc then some { a with blk := some (.setext hc n fin) } else none
  | .tbreak _ _ => some a
  | .fcode _ fchar _ _ _ _ _ _ => if a.empty && oneChar fchar then some { a with blk := some .fcode } else none
  | .icode ew ind => if a.empty then some { a with blk := some (.icode ew ind) } else none
  | .html => if a.empty then some { a with blk := some .html } else none
  | .blank _ => some a
  | .lrd f => if lrdShape f then some a else none
  | .text tt ew e =>
    if 0 < a.links then some a else
    match a.blk with
    | none => none
    | some b =>
      if plain tt && plain ew then
        match b with
        | .para _ pew _ =>
          if countNl tt = 0 then some a
          else if a.used + countNl tt ≤ countNl pew && truthy e && countNl tt ≤ countNl (e.getD []) then
            some { a with used := a.used + countNl tt } else none
        | .setext .. =>
          if countNl tt = 0 then some a
          else match e with
            | some e' => if setextEntriesOK (splitNL e') 0 (countNl tt + 1) then some a else none
            | none => none
        | .icode cew ind => if countNl tt ≤ countNl (cew ++ ew ++ ind) then some a else none
        | _ => some a
      else none
  | .emph ch _ => if 0 < a.links then some a else if a.blk.isSome && oneChar ch then some a else none
  | .endEmph ch _ => if 0 < a.links then some a else if a.blk.isSome && oneChar ch then some a else none
  | .codespan _ lead span trail =>
    if 0 < a.links then some a else
    if a.blk.isSome && plain lead && plain span && plain trail then a.consume (countNl lead + countNl span + countNl trail) else none
  | .rawhtml tag =>
    if 0 < a.links then some a else
    if plain tag then
      match a.blk with
      | none => none
      | some (.para ..) => some { a with used := a.used + countNl tag }
      | some _ => some a
    else none
  | .uri _ http _ => if http || 0 < a.links || a.blk.isSome then some a else none
  | .email _ _ => if 0 < a.links || a.blk.isSome then some a else none
  | .hardbreak le => if 0 < a.links then some a else if a.blk.isSome then a.consume (countNl le + 1) else none
  | .link f =>
    if (0 < a.links || a.blk.isSome) && linkShape f then
      match linkText f with
      | .ok t => (a.placeLinkText t).map fun a' => { a' with links := a'.links + 1 }
      | .error _ => none
    else none
  | .image f =>
    if 0 < a.links then some a else
    if a.blk.isSome && linkShape f then
      match linkText f with
      | .ok t => a.placeLinkText ('!' :: t)
      | .error _ => none
    else none
  | .eos => some a
  | .frontmatter _ _ _ => some a
  | .pragma _ => some a
  | .container => none
  | .other => none
  | .endPara sid sew _ =>
    match a.blk with
    | some (.para id _ _) => if a.links == 0 && sid == id && a.used == countNl sew then some {} else none
    | _ => none
  | .endAtx _ extra _ => if a.links == 0 && a.blk == some .atx && extra.isSome then some {} else none
  | .endSetext _ extra =>
    match a.blk with
    | some (.setext hc _ _) => if a.links == 0 && extra.isSome && oneChar hc then some {} else none
    | _ => none
  | .endFcode _ xd forced fchar =>
    if a.links == 0 && a.blk == some .fcode && (if forced then prev.isSome else fenceEndShape xd && oneChar fchar) then some {} else none
  | .endHtml => if a.links == 0 && a.blk == some .html then some {} else none
  | .endIcode =>
    match a.blk with
    | some (.icode ..) => if a.links == 0 then some {} else none
    | _ => none
  | .endLink => if 0 < a.links then some { a with links := a.links - 1 } else none
  | .endContainer => none
  | .endOther => none

def gRun (a : AState) (prev : Option Tok) : List Tok → Option AState
  | [] => some a
  | t :: ts =>
    match gStep a prev t with
    | none => none
    | some a' => gRun a' (some t) ts

/-- **Well-formed stream**: not empty, accepted by the grammar / field-shape / newline-budget guard, every block closed. -/
def WF (ts : List Tok) : Bool :=
  !ts.isEmpty && (match gRun {} none ts with
    | some a => a.empty
    | none => false)

/-! ## Style fields (for `regen_field_local`) -/

/-- The two tokens are the same up to *style fields*: fields their own handler writes out, that are not copied into the block
stack and do not move a paragraph's rehydrate index.  These are the fields the token fixers of the rules write
(MD001: `hash_count`; MD019 / MD021: the white space after / before the hashes = the text token's `extracted_whitespace`, the end
token's `extra_end_data` and `extracted_whitespace`; MD035: `rest_of_line`; MD048: `fence_character` — in the start token and, read
through `start_markdown_token`, in the end token; MD049 / MD050: `emphasis_character`), plus the other fields of the same kind. -/
inductive StyleEq : Tok → Tok → Prop
  | refl (t : Tok) : StyleEq t t
  | atx (ew ew' : Str) (h h' tr tr' : Int) : StyleEq (.atx ew h tr) (.atx ew' h' tr')
  | endAtx (ew ew' : Str) (x x' : Option Str) (tr tr' : Int) : StyleEq (.endAtx ew x tr) (.endAtx ew' x' tr')
  | tbreak (ew ew' r r' : Str) : StyleEq (.tbreak ew r) (.tbreak ew' r')
  | blank (ew ew' : Str) : StyleEq (.blank ew) (.blank ew')
  | fcode (ew ew' fc fc' : Str) (n n' : Int) (a b c d e a' b' c' d' e' : Str) :
      StyleEq (.fcode ew fc n a b c d e) (.fcode ew' fc' n' a' b' c' d' e')
  | endFcode (ew ew' : Str) (xd xd' : Option Str) (forced : Bool) (fc fc' : Str) :
      StyleEq (.endFcode ew xd forced fc) (.endFcode ew' xd' forced fc')
  | emph (ch ch' : Str) (n n' : Int) : StyleEq (.emph ch n) (.emph ch' n')
  | endEmph (ch ch' : Str) (n n' : Int) : StyleEq (.endEmph ch n) (.endEmph ch' n')
  | textEw (tt ew ew' : Str) (e : Option Str) : StyleEq (.text tt ew e) (.text tt ew' e)

/-- token by token -/
inductive StreamStyleEq : List Tok → List Tok → Prop
  | nil : StreamStyleEq [] []
  | cons {t t' : Tok} {ts ts' : List Tok} : StyleEq t t' → StreamStyleEq ts ts' → StreamStyleEq (t :: ts) (t' :: ts')

theorem StreamStyleEq.length_eq {a b : List Tok} (h : StreamStyleEq a b) : a.length = b.length := by
  induction h with
  | nil => rfl
  | cons _ _ ih => simp [ih]

end Verif.Model.RegenLeafSpec
