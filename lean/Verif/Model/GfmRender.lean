/-
  Faithful model of pymarkdown's HTML generator (token stream → HTML), core Lean only.

  Source (line numbers of the pinned tree):
    pymarkdown/transform_gfm/transform_to_gfm.py            `TransformToGfm.transform`, `__apply_trailing_text`,
                                                            `__apply_leading_text`
    pymarkdown/transform_gfm/transform_to_gfm_token_handlers.py   `apply_transformation` (dispatch)
    pymarkdown/transform_gfm/transform_state.py             `TransformState`
    pymarkdown/transform_gfm/transform_to_gfm_list_looseness.py   every function (see `Verif.Model.GfmLoose`)
    pymarkdown/tokens/*.py, pymarkdown/extensions/*.py      every `register_for_html_transform` handler
    pymarkdown/tokens/list_start_markdown_token_helper.py   `handle_start_list_token`, `handle_end_list_token`
    pymarkdown/inline/inline_helper.py                      `append_text` (only the two uses of the URI autolink handler)
    pymarkdown/general/parser_helper.py                     `collect_until_one_of_characters(_verified)`,
                                                            `count_characters_in_text`; `resolve_all_from_text` is
                                                            `Verif.Model.Codec.resolveAll`

  Modelling rules
  * A token is abstracted to its Python class (`Body` constructor = `token_name`), its `line_number` and exactly the
    fields a handler or the looseness calculation reads.  `start_markdown_token` of an end token (an object reference)
    is the INDEX of that object in the stream; the serialiser refuses streams where it is not in the stream.
  * `output_html` is a list of `Chunk`s; every test the Python makes on the string (`output_html[-1]`, `endswith`,
    `startswith`, truthiness) is made on `flat`, the concatenation of the chunks' text.  The chunk structure only
    records WHO wrote a piece (a tag the renderer emits, a newline, a payload) — it never influences a decision.
  * Python exceptions are explicit results: `IndexError` (list index, `list.pop`, `str[-1]` on ""), `AssertionError`,
    `AttributeError` (a `cast(...)` to the wrong class followed by a field access), the codec's errors.
    Negative list indices wrap as in Python (`pyGet`).
  * `TransformState.next_token` is written but never read by any handler: not modelled.  `last_token` is always
    `actual_tokens[actual_token_index - 1]` (or `None` at index 0): derived.
  * `ListStartMarkdownToken.is_loose` (mutated by `calculate_list_looseness`, read by `reset_list_looseness`) is the
    association list `St.loose`; a list token never written to has its constructor default `True`.
-/
import Verif.Model.Codec
import Verif.Model.WellFormed
namespace Verif.Model.GfmRender
open Verif.Model.Codec (Str)

/-! ## Tokens -/

/-- `token_name` of a non-end token (one constructor per Python token class). -/
inductive Kind
  | para | blank | atx | setext | tbreak | lrd | htmlBlock | fcode | icode
  | text | codeSpan | hardBreak | uriAutolink | emailAutolink | rawHtml | emphasis | link | image
  | bquote | ulist | olist | li | eos | pragma | frontMatter | taskList
  deriving DecidableEq, Repr

def Kind.name : Kind → String
  | .para => "para" | .blank => "BLANK" | .atx => "atx" | .setext => "setext" | .tbreak => "tbreak"
  | .lrd => "link-ref-def" | .htmlBlock => "html-block" | .fcode => "fcode-block" | .icode => "icode-block"
  | .text => "text" | .codeSpan => "icode-span" | .hardBreak => "hard-break" | .uriAutolink => "uri-autolink"
  | .emailAutolink => "email-autolink" | .rawHtml => "raw-html" | .emphasis => "emphasis" | .link => "link"
  | .image => "image" | .bquote => "block-quote" | .ulist => "ulist" | .olist => "olist" | .li => "li"
  | .eos => "end-of-stream" | .pragma => "pragma" | .frontMatter => "front-matter" | .taskList => "task-list"

def Kind.all : List Kind :=
  [.para, .blank, .atx, .setext, .tbreak, .lrd, .htmlBlock, .fcode, .icode, .text, .codeSpan, .hardBreak,
   .uriAutolink, .emailAutolink, .rawHtml, .emphasis, .link, .image, .bquote, .ulist, .olist, .li, .eos, .pragma,
   .frontMatter, .taskList]

def Kind.ofName (s : String) : Option Kind := Kind.all.find? fun k => k.name == s

/-- the fields read by the HTML generator, per token class -/
inductive Body
  | para | blank | tbreak | lrd | htmlBlock | icode | hardBreak | ulist | li | eos | pragma | frontMatter
  | atx (hashCount : Nat)
  | setext (headingCharacter : Str)
  | fcode (extractedText : Str)
  | text (tokenText extractedWhitespace : Str) (endWhitespace : Option Str)
  | codeSpan (spanText : Str)
  | uriAutolink (autolinkText : Str) (addHttpPrefix : Bool)
  | emailAutolink (autolinkText : Str)
  | rawHtml (rawTag : Str)
  | emphasis (emphasisCharacter : Str) (emphasisLength : Nat)
  | link (linkUri linkTitle : Str)
  | image (linkUri imageAltText linkTitle : Str)
  | bquote (bleadingSpaces : Str)
  | olist (listStartContent : Nat)           -- `int(list_start_content)`
  | taskList (checkedCharacter : Str)
  /-- `EndMarkdownToken(type_name, …, start_markdown_token, was_forced)`; `ptr` = index of `start_markdown_token` -/
  | end_ (typeName : Kind) (ptr : Nat) (wasForced : Bool)
  deriving DecidableEq, Repr

structure Tok where
  line : Nat
  body : Body
  deriving DecidableEq, Repr

/-- `Some k` for a token of class `k`, `none` for an `EndMarkdownToken` -/
def Body.kind? : Body → Option Kind
  | .para => some .para | .blank => some .blank | .tbreak => some .tbreak | .lrd => some .lrd
  | .htmlBlock => some .htmlBlock | .icode => some .icode | .hardBreak => some .hardBreak | .ulist => some .ulist
  | .li => some .li | .eos => some .eos | .pragma => some .pragma | .frontMatter => some .frontMatter
  | .atx _ => some .atx | .setext _ => some .setext | .fcode _ => some .fcode | .text .. => some .text
  | .codeSpan _ => some .codeSpan | .uriAutolink .. => some .uriAutolink | .emailAutolink _ => some .emailAutolink
  | .rawHtml _ => some .rawHtml | .emphasis .. => some .emphasis | .link .. => some .link | .image .. => some .image
  | .bquote _ => some .bquote | .olist _ => some .olist | .taskList _ => some .taskList
  | .end_ .. => none

def Tok.kind? (t : Tok) : Option Kind := t.body.kind?

/-- `token_name` -/
def Tok.name (t : Tok) : String :=
  match t.body with
  | .end_ k _ _ => "end-" ++ k.name
  | b => match b.kind? with | some k => k.name | none => ""

/-! ### the `is_…` properties of `MarkdownToken` (all are tests on `token_name`) -/

def Tok.isKind (t : Tok) (k : Kind) : Bool := t.kind? == some k
def Tok.isEndOf (t : Tok) (k : Kind) : Bool :=
  match t.body with
  | .end_ k' _ _ => k' == k
  | _ => false

def Tok.isBlank (t : Tok) : Bool := t.isKind .blank
def Tok.isLrd (t : Tok) : Bool := t.isKind .lrd
def Tok.isLi (t : Tok) : Bool := t.isKind .li
def Tok.isBqStart (t : Tok) : Bool := t.isKind .bquote
def Tok.isBqEnd (t : Tok) : Bool := t.isEndOf .bquote
def Tok.isListStart (t : Tok) : Bool := t.isKind .ulist || t.isKind .olist
def Tok.isListEnd (t : Tok) : Bool := t.isEndOf .ulist || t.isEndOf .olist
def Tok.isParaEnd (t : Tok) : Bool := t.isEndOf .para
def Tok.isText (t : Tok) : Bool := t.isKind .text
/-- `is_end_token`: `token_name.startswith("end-")` — true for every `EndMarkdownToken` AND for `end-of-stream` -/
def Tok.isEndToken (t : Tok) : Bool :=
  match t.body with
  | .end_ .. => true
  | .eos => true
  | _ => false
/-- `is_block` -/
def Tok.isBlock (t : Tok) : Bool :=
  t.isBqStart || t.isListStart || t.isKind .tbreak || t.isKind .atx || t.isKind .setext
    || t.isKind .icode || t.isKind .fcode || t.isKind .htmlBlock || t.isKind .para

/-! ### the token as the C04 monitor sees it -/

open Verif.Model.WellFormed (Cls) in
def Kind.cls : Kind → Cls
  | .para | .blank | .atx | .setext | .tbreak | .lrd | .htmlBlock | .fcode | .icode | .frontMatter => .leaf
  | .text | .codeSpan | .hardBreak | .uriAutolink | .emailAutolink | .rawHtml | .emphasis | .link | .image
  | .taskList => .inline
  | .bquote | .ulist | .olist | .li => .container
  | .eos | .pragma => .special

/-- `requires_end_token` -/
def Kind.requiresEnd : Kind → Bool
  | .para | .atx | .setext | .htmlBlock | .fcode | .icode | .emphasis | .link | .bquote | .ulist | .olist | .li => true
  | _ => false

/-- the abstraction `Verif.Drv.WellFormed.tokOf` applies to the real token (name, class, start / end+pointer / atom) -/
def Tok.toWf (t : Tok) : Verif.Model.WellFormed.Tok :=
  match t.body with
  | .end_ k p _ => ⟨"end-" ++ k.name, .inline, .end_ p⟩
  | b =>
    match b.kind? with
    | some k => ⟨k.name, k.cls, if k.requiresEnd && k != .li then .start else .atom⟩
    | none => ⟨"", .special, .atom⟩

/-- "accepted by the C04 monitor" -/
def WellFormed (ts : List Tok) : Prop := Verif.Model.WellFormed.wfCheck (ts.map Tok.toWf) = .ok ()

instance (ts : List Tok) : Decidable (WellFormed ts) := by unfold WellFormed; infer_instance

/-! ## Errors, Python list indexing -/

inductive Err
  | indexError                 -- list index out of range / `pop` from empty list / `""[-1]`
  | assertion                  -- a Python `assert` failed / `raise AssertionError`
  | attributeError             -- field access after a `cast` to the wrong class
  | codec (e : Codec.Err)      -- `resolve_all_from_text` raised (ValueError / AssertionError) or does not terminate
  | hang                       -- a loop of the renderer itself does not terminate (fuel exhausted)
  | dangling                   -- outside the model: `start_markdown_token` index not in the stream
  deriving DecidableEq, Repr

abbrev R := Except Err

/-- `lst[i]` for a Python `int` index: negative indices count from the end. -/
def pyGet {α : Type} (l : List α) (i : Int) : R α :=
  if 0 ≤ i then
    match l[i.toNat]? with
    | some a => .ok a
    | none => .error .indexError
  else if 0 ≤ (l.length : Int) + i then
    match l[((l.length : Int) + i).toNat]? with
    | some a => .ok a
    | none => .error .indexError
  else .error .indexError

/-- `while not p(lst[i]): i -= 1` — the final `i`.  Each iteration lowers `i`; below `-len` the indexing raises.
`fuel` is never exhausted when it exceeds `i + len + 2` (`scanDown_fuel` in `Verif.Props.GfmRender`). -/
def scanDownF {α : Type} (l : List α) (p : α → Bool) : Nat → Int → R Int
  | 0, _ => .error .hang
  | fuel + 1, i =>
    match pyGet l i with
    | .error e => .error e
    | .ok a => if p a then .ok i else scanDownF l p fuel (i - 1)

def scanDown {α : Type} (l : List α) (p : α → Bool) (i : Int) : R Int :=
  scanDownF l p ((i + l.length + 2).toNat + 1) i

/-! ## Output -/

inductive Tag
  | p | h (n : Nat) | pre | code | blockquote | ul | ol | li | em | strong | del | a
  deriving DecidableEq, Repr

def Tag.name : Tag → Str
  | .p => "p".toList | .h n => 'h' :: (toString n).toList | .pre => "pre".toList | .code => "code".toList
  | .blockquote => "blockquote".toList | .ul => "ul".toList | .ol => "ol".toList | .li => "li".toList
  | .em => "em".toList | .strong => "strong".toList | .del => "del".toList | .a => "a".toList

/-- where the VALUE of an attribute / the text of a payload chunk comes from -/
inductive Src
  | fixed            -- a constant of the renderer (`type="checkbox"`, `checked=""`, `start="3"`)
  | text             -- `resolve_all_from_text(token_text)` (+ whitespace) of a text token
  | codeSpan | rawHtml | htmlBlockText | codeBlockText
  | href | src | title | alt | cls | autolinkBody | emailBody
  deriving DecidableEq, Repr

structure Attr where
  name : Str
  value : Str
  src : Src
  deriving DecidableEq, Repr

def Attr.flat (a : Attr) : Str := ' ' :: (a.name ++ '=' :: '"' :: (a.value ++ ['"']))

def attrsFlat : List Attr → Str
  | [] => []
  | a :: as => a.flat ++ attrsFlat as

inductive Void | hr | br | img | input
  deriving DecidableEq, Repr

inductive Chunk
  | opn (t : Tag) (attrs : List Attr)      -- `<t a="v" …>`
  | cls (t : Tag)                          -- `</t>`
  | void (v : Void) (attrs : List Attr)    -- `<hr />` `<br />` `<img … />` `<input …>`
  | nl                                     -- a newline written by the renderer
  | payload (from_ : Src) (s : Str)         -- text that comes from a token field
  deriving DecidableEq, Repr

def Chunk.flat : Chunk → Str
  | .opn t as => '<' :: (t.name ++ attrsFlat as ++ ['>'])
  | .cls t => '<' :: '/' :: (t.name ++ ['>'])
  | .void .hr _ => "<hr />".toList
  | .void .br _ => "<br />".toList
  | .void .img as => "<img".toList ++ attrsFlat as ++ " />".toList
  | .void .input as => "<input".toList ++ attrsFlat as ++ ['>']
  | .nl => ['\n']
  | .payload _ s => s

abbrev Out := List Chunk

def flat : Out → Str
  | [] => []
  | c :: cs => c.flat ++ flat cs

def NL : Char := '\n'

/-- `s.endswith(suf)` -/
def endsWith (s suf : Str) : Bool := suf.reverse.isPrefixOf s.reverse
/-- `s.startswith(pre)` -/
def startsWith (s pre : Str) : Bool := pre.isPrefixOf s

/-- `output_html and output_html[-1] != "\n"` -/
def needsNL (o : Out) : Bool :=
  match (flat o).getLast? with
  | none => false
  | some c => c != NL

def endsList (o : Out) : Bool := endsWith (flat o) "</ol>".toList || endsWith (flat o) "</ul>".toList

/-! ## `TransformState` -/

structure St where
  inCode : Bool := false
  inFenced : Bool := false
  inHtml : Bool := false
  inSetext : Bool := false
  inLoose : Bool := true
  idx : Nat := 0
  trailing : Option Out := none
  leading : Option Out := none
  stack : List Out := []                  -- `transform_stack`, top first
  loose : List (Nat × Bool) := []         -- `is_loose` of the list tokens written so far, latest first
  deriving Repr

/-- `list_token.is_loose` of the list token at index `i` -/
def St.isLooseAt (st : St) (i : Nat) : Bool := (st.loose.lookup i).getD true

/-! ## List looseness (transform_to_gfm_list_looseness.py) -/

/-- `__is_really_loose`, the loop: `k` = `search_index + 1`. -/
def reallyLooseLoop (ts : List Tok) : Nat → Nat → R Bool
  | 0, _ => .error .assertion                  -- "must always have a real answer"
  | s + 1, inner =>
    match ts[s]? with
    | none => .error .indexError
    | some rt =>
      if rt.isBqEnd || rt.isListEnd then reallyLooseLoop ts s (inner + 1)
      else if rt.isListStart then (if inner != 0 then reallyLooseLoop ts s (inner - 1) else .ok true)
      else if rt.isBqStart then (if inner != 0 then reallyLooseLoop ts s (inner - 1) else .ok false)
      else reallyLooseLoop ts s inner

/-- `__is_really_loose(actual_tokens, check_index)`; `search_index = check_index - 1`, loop while `>= 0`. -/
def isReallyLoose (ts : List Tok) (checkIndex : Int) : R Bool := reallyLooseLoop ts checkIndex.toNat 0

/-- `__is_token_loose(actual_tokens, current_token_index, xx)` -/
def isTokenLoose (ts : List Tok) (cur : Int) (xx : Bool) : R Bool := do
  let check ← scanDown ts (fun t => !t.isLrd) (cur - 1)
  let tok ← pyGet ts check
  if tok.isBlank then
    let prev ← pyGet ts (check - 1)
    if prev.isLi || prev.isListStart then pure false
    else if prev.isBqStart && xx then pure false
    else isReallyLoose ts check
  else pure false

/-- `__handle_blank_line` -/
def handleBlankLine (ts : List Tok) (cur : Tok) (sc : Int) (idx : Nat) : R Bool := do
  let sb ← scanDown ts (fun t => !t.isBlank) ((idx : Int) - 2)
  let pp ← pyGet ts sb
  let pp ←
    if pp.isEndToken then
      match pp.body with
      | .end_ _ p _ => (match ts[p]? with | some s => pure s | none => throw .dangling)
      | _ => throw .attributeError          -- `end-of-stream` has no `start_markdown_token`
    else pure pp
  let currentCheck := cur.isBlock && !cur.isLrd
  let prePrevCheck := pp.isBlock && !pp.isLrd
  pure (sc == 0 && currentCheck && prePrevCheck)

/-- `__handle_list_end` → (stop_me, is_loose, stack_count) -/
def handleListEnd (ts : List Tok) (sc : Int) (isLoose : Bool) (idx : Nat) : R (Bool × Bool × Int) :=
  if sc == 0 then pure (true, isLoose, sc)
  else
    let sc := sc - 1
    if sc == 0 then
      if idx + 1 < ts.length then
        match ts[idx + 1]? with
        | none => throw .indexError
        | some nx =>
          if !nx.isListEnd then do
            let stop ← isTokenLoose ts idx false
            pure (stop, stop, sc)
          else pure (false, isLoose, sc)
      else throw .assertion                  -- "Index must be within list."
    else pure (false, isLoose, sc)

/-- the `while search_index >= 0 and not next_token.is_block_quote_start` loop of
`__handle_block_quote_end_calc`; `k` = `search_index + 1`, `nt` = `next_token`. -/
def bqFind (ts : List Tok) : Nat → Tok → R Tok
  | 0, nt => .ok nt
  | s + 1, nt =>
    if nt.isBqStart then .ok nt
    else
      match pyGet ts ((s : Int) - 1) with
      | .error e => .error e
      | .ok nt' => bqFind ts s nt'

/-- `len(s.split("\n"))` -/
def splitCount (s : Str) : Nat := s.count NL + 1

/-- `__handle_block_quote_end_calc` -/
def bqEndCalc (ts : List Tok) (searchIndex : Int) (idx : Nat) : R Bool := do
  let stop ← isTokenLoose ts (searchIndex + 1) true
  if stop then
    let blankTok ← pyGet ts searchIndex
    let cur ← pyGet ts idx
    let nt ← bqFind ts (idx + 1) cur
    match nt.body with
    | .bquote bl =>
      let endLine := nt.line + splitCount bl
      pure (!(blankTok.line < endLine))
    | _ => throw .attributeError             -- `next_token.bleading_spaces` on a token that is no block quote
  else pure false

/-- `__handle_block_quote_end` → (stop_me, is_loose, stack_count) -/
def handleBqEnd (ts : List Tok) (sc : Int) (idx : Nat) (stop : Bool) (isLoose : Bool) : R (Bool × Bool × Int) :=
  let old := sc
  let sc := sc - 1
  if old != 0 && sc == 0 then do
    let _ ← pyGet ts ((idx : Int) - 1)
    let search ← scanDown ts (fun t => !(t.isEndToken && (t.isBqEnd || t.isListEnd))) ((idx : Int) - 1)
    let keep :=
      match ts[idx + 1]? with
      | some nx => nx.isEndToken && nx.isListEnd
      | none => false
    if !keep then
      let stop ← bqEndCalc ts search idx
      pure (stop, stop, sc)
    else pure (stop, isLoose, sc)
  else pure (stop, isLoose, sc)

/-- `__calculate_list_looseness_for_containers` → (check_me, stack_count, stop_me, is_loose) -/
def forContainers (ts : List Tok) (cur : Tok) (sc : Int) (isLoose : Bool) (idx : Nat) :
    R (Bool × Int × Bool × Bool) :=
  if cur.isListStart then pure (sc == 0, sc + 1, false, isLoose)
  else if cur.isLi then pure (sc == 0, sc, false, isLoose)       -- `assert not current_token.is_block` always holds
  else if cur.isBqStart then pure (true, sc + 1, false, isLoose)
  else if cur.isBqEnd then do
    let (stop, lo, sc) ← handleBqEnd ts sc idx false isLoose
    pure (false, sc, stop, lo)
  else if cur.isListEnd then do
    let (stop, lo, sc) ← handleListEnd ts sc isLoose idx
    pure (false, sc, stop, lo)
  else do
    let prev ← pyGet ts ((idx : Int) - 1)
    if prev.isBlank then
      let c ← handleBlankLine ts cur sc idx
      pure (c, sc, false, isLoose)
    else pure (false, sc, false, isLoose)

/-- the `while True` loop of `calculate_list_looseness`; `rest` = `actual_tokens[idx:]`
(`actual_tokens[idx]` with `idx = len` raises IndexError). -/
def calcLoop (ts : List Tok) : List Tok → Nat → Int → Bool → R Bool
  | [], _, _, _ => .error .indexError
  | cur :: rest, idx, sc, isLoose =>
    match forContainers ts cur sc isLoose idx with
    | .error e => .error e
    | .ok (check, sc, stop, isLoose) =>
      if check then
        match isTokenLoose ts idx false with
        | .error e => .error e
        | .ok l => if l then .ok l else calcLoop ts rest (idx + 1) sc l
      else if stop then .ok isLoose
      else calcLoop ts rest (idx + 1) sc isLoose

/-- `calculate_list_looseness(actual_tokens, actual_token_index, next_token)` (the value; the caller stores it in
`St.loose` = `next_token.is_loose = is_loose`). -/
def calculateListLooseness (ts : List Tok) (i : Nat) : R Bool :=
  calcLoop ts (ts.drop (i + 1)) (i + 1) 0 false

/-- `__find_owning_list_start`, the loop: `k` = `current_index + 1`. -/
def findOwningLoop (ts : List Tok) : Nat → Nat → R Nat
  | 0, _ => .error .assertion                    -- "Must not go below 0."
  | c + 1, sc =>
    match ts[c]? with
    | none => .error .indexError
    | some t =>
      if t.isListStart then (if sc == 0 then .ok c else findOwningLoop ts c (sc - 1))
      else if t.isListEnd then findOwningLoop ts c (sc + 1)
      else findOwningLoop ts c sc

def findOwningListStart (ts : List Tok) (i : Nat) : R Nat :=
  match ts[i]? with
  | none => .error .indexError
  | some t => if t.isListStart then .error .assertion else findOwningLoop ts i 0

/-- the `while search_index < actual_tokens_size` loop of `reset_list_looseness`; `rest` = `actual_tokens[search:]`.
Result: `none` = ran to the end, `some j` = broke at list end `j`. -/
def resetScan : List Tok → Nat → Nat → Option Nat
  | [], _, _ => none
  | t :: rest, search, sc =>
    if t.isListStart then resetScan rest (search + 1) (sc + 1)
    else if t.isListEnd then (if sc == 0 then some search else resetScan rest (search + 1) (sc - 1))
    else resetScan rest (search + 1) sc

/-- `reset_list_looseness(actual_tokens, actual_token_index)` -/
def resetListLooseness (ts : List Tok) (st : St) (i : Nat) : R Bool :=
  match resetScan (ts.drop (i + 1)) (i + 1) 0 with
  | none => .ok true
  | some j => do
    let k ← findOwningListStart ts j
    pure (st.isLooseAt k)

/-! ## Helpers of the handlers -/

def lit (s : String) : Str := s.toList

/-- `ParserHelper.resolve_all_from_text` -/
def resolve (s : Str) : R Str :=
  match Codec.resolveAll s with
  | .ok r => .ok r
  | .error e => .error (.codec e)

/-- `s.split("\n")` -/
def splitNL : Str → List Str
  | [] => [[]]
  | c :: cs =>
    match splitNL cs with
    | [] => [[]]                                   -- unreachable
    | l :: ls => if c == NL then [] :: l :: ls else (c :: l) :: ls

/-- `"\n".join(parts)` -/
def joinNL : List Str → Str
  | [] => []
  | [l] => l
  | l :: ls => l ++ NL :: joinNL ls

/-- `s[a:b]` for Python ints (negative = from the end, clamped) -/
def pySlice (s : Str) (a b : Int) : Str :=
  let n : Int := s.length
  let norm (i : Int) : Nat := if i < 0 then (if n + i < 0 then 0 else (n + i).toNat) else (if i > n then s.length else i.toNat)
  let a' := norm a
  let b' := norm b
  (s.take b').drop a'

/-- `s.find("\a", start)` for `start ≥ 0`: −1 when absent -/
def findAL (s : Str) (start : Nat) : Int :=
  match Codec.findFrom Codec.AL s start with
  | some i => i
  | none => -1

/-- `collect_until_one_of_characters(s, start, "\a\n")`: `(index, s[start:index])`; `none` when `start` is not in
`0..len` (the `_verified` wrapper then fails its `assert`). -/
def collectUntil (s : Str) (start : Int) : Option (Nat × Str) :=
  if 0 ≤ start ∧ start ≤ s.length then
    let st := start.toNat
    let seg := (s.drop st).takeWhile fun c => !(c == Codec.AL || c == NL)
    some (st + seg.length, seg)
  else none

/-- the `while next_index < len(token_text)` loop of `__handle_text_token_normal_enhanced`.
State: `next_index`, `found_prefix`, `current_line`, `processed_lines` (reversed). -/
def enhLoop (tt : Str) : Nat → Nat → Str → Str → List Str → R (Str × List Str)
  | 0, _, _, _, _ => .error .hang
  | fuel + 1, next, pre, cur, lines =>
    if next < tt.length then
      let cur := cur ++ pre
      if tt[next]? == some Codec.AL then
        let middle := findAL tt (next + 1)
        let start := findAL tt (middle + 1).toNat
        let cur := cur ++ pySlice tt (middle + 1) start
        match collectUntil tt (start + 1) with
        | none => .error .assertion
        | some (n', p') => enhLoop tt fuel n' p' cur lines
      else
        match collectUntil tt ((next : Int) + 1) with
        | none => .error .assertion
        | some (n', p') => enhLoop tt fuel n' p' [] (cur :: lines)
    else .ok (cur ++ pre, lines)

/-- `__handle_text_token_normal_enhanced`: the list appended to `arrays_to_combine` -/
def textEnhanced (tt : Str) : R (List Str) :=
  if !tt.contains Codec.AL then .error .assertion
  else if tt.count Codec.AL % 3 != 0 then .error .assertion
  else
    match collectUntil tt 0 with
    | none => .error .assertion
    | some (n, p) =>
      match enhLoop tt (tt.length + 2) n p [] [] with
      | .error e => .error e
      | .ok (cur, lines) => if cur.isEmpty then .error .assertion else .ok (lines.reverse ++ [cur])

/-- the `for loop_index in range(len(a) * 2)` loop: `a[0]+b[0] \n a[1]+b[1] …` (`a`, `b` of equal length) -/
def zipLines : List Str → List Str → List Str
  | a :: as, b :: bs => (a ++ b) :: zipLines as bs
  | _, _ => []

/-- `__handle_text_token_normal`: the string appended for a text token outside code / html / setext -/
def textNormal (tokenText : Str) (endWs : Option Str) (adjusted : Str) : R Str :=
  match endWs with
  | none => .ok adjusted
  | some ew => do
    let rw ← resolve ew
    let first ← if adjusted.count NL == rw.count NL then pure (splitNL adjusted) else textEnhanced tokenText
    let second := splitNL rw
    if first.length != second.length then throw .assertion        -- "Items must have the same length."
    else pure (joinNL (zipLines first second))

def hexDigitU (n : Nat) : Char := if n < 10 then Char.ofNat (48 + n) else Char.ofNat (55 + n)

/-- `hex(n)[2:].upper()` -/
def hexUpper (n : Nat) : Str := (Nat.toDigits 16 n).map fun c => c.toUpper

def utf8Bytes (c : Char) : List Nat := (String.singleton c).toUTF8.toList.map (·.toNat)

/-- `InlineHelper.append_text("", s, map, add_text_signature=False)` -/
def escapeWith (amp lt gt quot : Bool) : Str → Str
  | [] => []
  | c :: cs =>
    (if c == '<' && lt then lit "&lt;" else if c == '>' && gt then lit "&gt;"
     else if c == '&' && amp then lit "&amp;" else if c == '"' && quot then lit "&quot;" else [c])
      ++ escapeWith amp lt gt quot cs

/-- default map `< > & "` -/
def htmlEscape (s : Str) : Str := escapeWith true true true true s
/-- the URI autolink map `< > &` -/
def uriPreEscape (s : Str) : Str := escapeWith true true true false s

def percentChars : Str := lit "\"%[\\]^`{}|"

/-- the percent-encoding loop of `__handle_uri_autolink` -/
def percentEncode : Str → Str
  | [] => []
  | c :: cs =>
    (if percentChars.contains c then '%' :: hexUpper c.toNat
     else if c.toNat ≥ 128 then (utf8Bytes c).flatMap fun b => '%' :: hexUpper b
     else [c]) ++ percentEncode cs

/-! ## The handlers.  Each returns the new state and the new `output_html`. -/

abbrev H := R (St × Out)

def optNL (b : Bool) : Out := if b then [.nl] else []

def hParaStart (st : St) (o : Out) : H :=
  pure (st, o ++ optNL (needsNL o) ++ (if st.inLoose then [.opn .p []] else []))

def hParaEnd (st : St) (o : Out) : H :=
  pure (st, if st.inLoose then o ++ [.cls .p, .nl] else o)

def hBlank (st : St) (o : Out) : H :=
  pure (st, if st.inHtml then o ++ [.nl] else o)

def hHardBreak (st : St) (o : Out) : H := pure (st, o ++ [.void .br [], .nl])

def hTbreak (st : St) (o : Out) : H := pure (st, o ++ optNL (needsNL o) ++ [.void .hr [], .nl])

def hNoOutput (st : St) (o : Out) : H := pure (st, o)

def hTaskList (st : St) (o : Out) (checked : Str) : H :=
  pure (st, o ++ [.void .input
    (if checked == [' '] then [⟨lit "type", lit "checkbox", .fixed⟩]
     else [⟨lit "checked", [], .fixed⟩, ⟨lit "type", lit "checkbox", .fixed⟩])])

def emphTag (ch : Str) (len : Nat) : Tag := if ch == ['~'] then .del else if len == 1 then .em else .strong

def hEmphStart (st : St) (o : Out) (ch : Str) (len : Nat) : H := pure (st, o ++ [.opn (emphTag ch len) []])

def hEmphEnd (ts : List Tok) (st : St) (o : Out) (ptr : Nat) : H :=
  match ts[ptr]? with
  | none => throw .dangling
  | some s =>
    match s.body with
    | .emphasis ch len => pure (st, o ++ [.cls (emphTag ch len)])
    | _ => throw .attributeError

def setextTag (ch : Str) : Tag := .h (if ch == ['='] then 1 else 2)

def hSetextStart (st : St) (o : Out) (ch : Str) : H :=
  pure ({ st with inSetext := true }, o ++ optNL (endsList o) ++ [.opn (setextTag ch) []])

def hSetextEnd (ts : List Tok) (st : St) (o : Out) : H := do
  let i ← scanDown ts (fun t => t.isKind .setext) ((st.idx : Int) - 1)
  let t ← pyGet ts i
  match t.body with
  | .setext ch => pure ({ st with inSetext := false }, o ++ [.cls (setextTag ch), .nl])
  | _ => throw .attributeError               -- unreachable: the scan stops on a setext token

def hAtxStart (ts : List Tok) (st : St) (o : Out) (n : Nat) : H := do
  let prev ← pyGet ts ((st.idx : Int) - 1)
  pure (st, o ++ optNL (endsList o || (prev.isParaEnd && !st.inLoose)) ++ [.opn (.h n) []])

def hAtxEnd (ts : List Tok) (st : St) (o : Out) : H := do
  let i ← scanDown ts (fun t => t.isKind .atx) ((st.idx : Int) - 1)
  let t ← pyGet ts i
  match t.body with
  | .atx n => pure (st, o ++ [.cls (.h n), .nl])
  | _ => throw .attributeError               -- unreachable

def codeAttrs (info : Str) : List Attr := if info.isEmpty then [] else [⟨lit "class", lit "language-" ++ info, .cls⟩]

def hFencedStart (st : St) (o : Out) (info : Str) : H :=
  pure ({ st with inCode := true, inFenced := true },
    o ++ optNL (endsList o || needsNL o) ++ [.opn .pre [], .opn .code (codeAttrs info)])

def hFencedEnd (ts : List Tok) (st : St) (o : Out) (forced : Bool) : H := do
  let i ← scanDown ts (fun t => t.isKind .fcode) ((st.idx : Int) - 1)
  let t ← pyGet ts i
  match t.body with
  | .fcode info =>
    let innerTag := (Chunk.opn .code (codeAttrs info)).flat
    let s := flat o
    let st' := { st with inCode := false, inFenced := false }
    let fin : Out := [.cls .code, .cls .pre, .nl]
    if !endsWith s innerTag then
      match s.getLast? with
      | none => throw .indexError              -- `output_html[-1]` on the empty string
      | some c =>
        if c != NL then pure (st', o ++ [.nl] ++ fin)
        else
          -- `elif output_html[-1] == "\n" and last_token and last_token.is_text`
          let extra : Bool :=
            match (if st.idx = 0 then none else ts[st.idx - 1]?) with
            | some ⟨_, .text tt _ _⟩ => !(forced && endsWith tt ['\n', '\x03'])
            | _ => false
          pure (st', o ++ optNL extra ++ fin)
    else
      -- `endswith(inner_tag)` holds: the output is not empty, its last character is `>`
      pure (st', o ++ fin)
  | _ => throw .attributeError               -- unreachable

def stackTopEndsLi (st : St) : Bool :=
  match st.stack with
  | [] => false
  | top :: _ => endsWith (flat top) "<li>".toList

def hIcodeStart (st : St) (o : Out) : H :=
  let st' := { st with inCode := true, inFenced := false }
  let pre : Out := [.opn .pre [], .opn .code []]
  if (flat o).isEmpty && stackTopEndsLi st then pure (st', [.nl] ++ pre)
  else pure (st', o ++ optNL (needsNL o) ++ pre)

def hIcodeEnd (st : St) (o : Out) : H :=
  pure ({ st with inCode := false }, o ++ [.nl, .cls .code, .cls .pre, .nl])

def hHtmlStart (ts : List Tok) (st : St) (o : Out) : H :=
  let st' := { st with inHtml := true }
  if (flat o).isEmpty && stackTopEndsLi st then pure (st', [.nl])
  else do
    let prev ← pyGet ts ((st.idx : Int) - 1)
    pure (st', o ++ optNL ((!prev.isListEnd && prev.isParaEnd && !st.inLoose) || prev.isListEnd))

def hHtmlEnd (st : St) (o : Out) : H := pure ({ st with inHtml := false }, o)

def hBqStart (st : St) (o : Out) : H :=
  pure ({ st with inLoose := true }, o ++ optNL (needsNL o) ++ [.opn .blockquote [], .nl])

def hBqEnd (ts : List Tok) (st : St) (o : Out) : H :=
  match (flat o).getLast? with
  | none => throw .indexError                  -- `output_html[-1]` on the empty string
  | some c => do
    let l ← resetListLooseness ts st st.idx
    pure ({ st with inLoose := l }, o ++ optNL (c != NL) ++ [.cls .blockquote, .nl])

def hListStart (ts : List Tok) (st : St) (o : Out) (ordered : Option Nat) : H := do
  let l ← calculateListLooseness ts st.idx
  let lead : Out :=
    match ordered with
    | some n =>
      [.opn .ol (if n != 1 then [⟨lit "start", (toString n).toList, .fixed⟩] else []), .nl, .opn .li []]
    | none => [.opn .ul [], .nl, .opn .li []]
  pure ({ st with inLoose := l, loose := (st.idx, l) :: st.loose, leading := some lead }, o)

def hListEnd (ts : List Tok) (st : St) (o : Out) (unordered : Bool) : H := do
  let l ← resetListLooseness ts st st.idx
  pure ({ st with inLoose := l, trailing := some [.cls .li, .nl, .cls (if unordered then .ul else .ol)] }, o)

def hLi (st : St) (o : Out) : H :=
  let s := flat o
  pure ({ st with trailing := some [.cls .li], leading := some [.opn .li []] },
    o ++ optNL (s.getLast? == some '>' && !endsWith s "</a>".toList))

def hText (st : St) (o : Out) (tt ws : Str) (ew : Option Str) : H := do
  let adjusted ← resolve tt
  if st.inCode then
    let lead ← resolve ws
    pure (st, o ++ [.payload .codeBlockText (lead ++ adjusted)])
  else if st.inHtml then
    let lead ← resolve ws
    pure (st, o ++ [.payload .htmlBlockText (lead ++ adjusted), .nl])
  else if st.inSetext then pure (st, o ++ [.payload .text adjusted])
  else do
    let s ← textNormal tt ew adjusted
    pure (st, o ++ [.payload .text s])

def hCodeSpan (st : St) (o : Out) (span : Str) : H := do
  let s ← resolve span
  pure (st, o ++ [.opn .code [], .payload .codeSpan s, .cls .code])

def hRawHtml (st : St) (o : Out) (tag : Str) : H := do
  let s ← resolve tag
  pure (st, o ++ [.payload .rawHtml ('<' :: (s ++ ['>']))])

def hUriAutolink (st : St) (o : Out) (text : Str) (http : Bool) : H :=
  pure (st, o ++ [.opn .a [⟨lit "href", (if http then lit "http://" else []) ++ percentEncode (uriPreEscape text), .href⟩],
    .payload .autolinkBody (htmlEscape text), .cls .a])

def hEmailAutolink (st : St) (o : Out) (text : Str) : H :=
  pure (st, o ++ [.opn .a [⟨lit "href", lit "mailto:" ++ text, .href⟩], .payload .emailBody text, .cls .a])

def hLinkStart (st : St) (o : Out) (uri title : Str) : H :=
  pure (st, o ++ [.opn .a ([⟨lit "href", uri, .href⟩] ++ (if title.isEmpty then [] else [⟨lit "title", title, .title⟩]))])

def hLinkEnd (st : St) (o : Out) : H := pure (st, o ++ [.cls .a])

def hImage (st : St) (o : Out) (uri alt title : Str) : H :=
  pure (st, o ++ [.void .img ([⟨lit "src", uri, .src⟩, ⟨lit "alt", alt, .alt⟩]
    ++ (if title.isEmpty then [] else [⟨lit "title", title, .title⟩]))])

/-- `apply_transformation`: every non-end token class has a start handler; an end token needs its `type_name` in the
end-handler table (`raise AssertionError` otherwise). -/
def applyTransformation (ts : List Tok) (st : St) (o : Out) (t : Tok) : H :=
  let st := { st with trailing := none, leading := none }
  match t.body with
  | .para => hParaStart st o
  | .blank => hBlank st o
  | .tbreak => hTbreak st o
  | .lrd | .eos | .pragma | .frontMatter => hNoOutput st o
  | .htmlBlock => hHtmlStart ts st o
  | .icode => hIcodeStart st o
  | .hardBreak => hHardBreak st o
  | .ulist => hListStart ts st o none
  | .olist n => hListStart ts st o (some n)
  | .li => hLi st o
  | .atx n => hAtxStart ts st o n
  | .setext ch => hSetextStart st o ch
  | .fcode info => hFencedStart st o info
  | .text tt ws ew => hText st o tt ws ew
  | .codeSpan s => hCodeSpan st o s
  | .uriAutolink s h => hUriAutolink st o s h
  | .emailAutolink s => hEmailAutolink st o s
  | .rawHtml s => hRawHtml st o s
  | .emphasis ch len => hEmphStart st o ch len
  | .link u ti => hLinkStart st o u ti
  | .image u a ti => hImage st o u a ti
  | .bquote _ => hBqStart st o
  | .taskList c => hTaskList st o c
  | .end_ k p forced =>
    match k with
    | .para => hParaEnd st o
    | .atx => hAtxEnd ts st o
    | .setext => hSetextEnd ts st o
    | .fcode => hFencedEnd ts st o forced
    | .icode => hIcodeEnd st o
    | .htmlBlock => hHtmlEnd st o
    | .emphasis => hEmphEnd ts st o p
    | .link => hLinkEnd st o
    | .bquote => hBqEnd ts st o
    | .ulist => hListEnd ts st o true
    | .olist => hListEnd ts st o false
    | _ => throw .assertion                      -- "Markdown token end type … not supported."

/-- `add_trailing_text_tokens` -/
def trailingTextTokens : List Str :=
  ["<hr />", "<p>", "<h1>", "<h2>", "<h3>", "<h4>", "<h5>", "<h6>", "<pre>", "<ul>", "<ol>", "<ol start=\""].map lit

/-- `__apply_trailing_text` -/
def applyTrailing (st : St) (o : Out) (trailing : Out) : H :=
  match st.stack with
  | [] => throw .indexError                      -- `transform_stack.pop()` on an empty list
  | top :: stack =>
    let s := flat o
    let first := trailingTextTokens.any fun p => startsWith s p
    let second := !first && endsWith (flat top) "<li>".toList && startsWith s "<blockquote>".toList
    pure ({ st with stack := stack },
      top ++ optNL first ++ optNL second ++ o ++ optNL (endsWith s "</ul>".toList || endsWith s "</ol>".toList) ++ trailing)

/-- `__apply_leading_text` -/
def applyLeading (st : St) (o : Out) (leading : Out) : St × Out :=
  ({ st with stack := (o ++ optNL (needsNL o) ++ leading) :: st.stack }, [])

/-- one iteration of the `for next_token in actual_tokens` loop -/
def stepTok (ts : List Tok) (acc : St × Out) (t : Tok) : H := do
  let (st, o) ← applyTransformation ts acc.1 acc.2 t
  let (st, o) ←
    match st.trailing with
    | some tr => applyTrailing st o tr
    | none => pure (st, o)
  let (st, o) :=
    match st.leading with
    | some ld => applyLeading st o ld
    | none => (st, o)
  pure ({ st with idx := st.idx + 1 }, o)

def runToks (ts : List Tok) : List Tok → St × Out → H
  | [], acc => pure acc
  | t :: rest, acc =>
    match stepTok ts acc t with
    | .error e => .error e
    | .ok acc' => runToks ts rest acc'

/-- the loop of `transform` over all tokens: final state and `output_html` before the final newline is cut -/
def transformRun (ts : List Tok) : H := runToks ts ts ({}, [])

/-- `output_html[:-1]` if it ends in a newline -/
def cutFinalNL (s : Str) : Str := if s.getLast? == some NL then s.dropLast else s

/-- `TransformToGfm.transform(actual_tokens)` -/
def transform (ts : List Tok) : R Str :=
  match transformRun ts with
  | .error e => .error e
  | .ok (_, o) => .ok (cutFinalNL (flat o))

/-- the `is_loose` attribute of every list token after `transform` (index, flag), in stream order -/
def looseFlags (ts : List Tok) (st : St) : List (Nat × Bool) :=
  (ts.zipIdx.filter fun x => x.1.isListStart).map fun x => (x.2, st.isLooseAt x.2)

end Verif.Model.GfmRender
