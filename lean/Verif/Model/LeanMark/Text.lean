/-
  LeanMark — Text.lean: entity and numeric character references, backslash unescaping,
  link-label normalisation, and the scanners for link labels, destinations and titles
  (shared by link reference definitions in the block phase and by links in the inline phase).
  All recursions are structural on the input list (a `skip` counter replaces jumps).
-/
import Verif.Model.LeanMark.Basic
import Verif.Gen.Entities
namespace Verif.Model.LeanMark

/-! ## entity and numeric character references (spec §6.2) -/
def cpChar (n : Nat) : Char :=
  if n == 0 || n > 0x10FFFF || (0xD800 ≤ n && n ≤ 0xDFFF) then Char.ofNat 0xFFFD else Char.ofNat n

def hexDigitVal (c : Char) : Nat :=
  if isDigit c then c.toNat - 48 else if 'a' ≤ c && c ≤ 'f' then c.toNat - 87 else c.toNat - 55

/-- `s` is the text after an `&`.  Returns the replacement and the number of characters of `s`
    consumed (up to and including the `;`). -/
def entityAt (s : List Char) : Option (List Char × Nat) :=
  match s with
  | '#' :: r =>
    match r with
    | x :: r2 =>
      if x == 'x' || x == 'X' then
        let ds := r2.takeWhile isHexDigit
        if 1 ≤ ds.length && ds.length ≤ 6 && (r2.drop ds.length).head? == some ';' then
          some ([cpChar (ds.foldl (fun a c => a * 16 + hexDigitVal c) 0)], ds.length + 3)
        else none
      else
        let ds := r.takeWhile isDigit
        if 1 ≤ ds.length && ds.length ≤ 7 && (r.drop ds.length).head? == some ';' then
          some ([cpChar (ds.foldl (fun a c => a * 10 + (c.toNat - 48)) 0)], ds.length + 2)
        else none
    | [] => none
  | _ =>
    let nm := s.takeWhile isAlnum
    if nm.isEmpty then none else
    if (s.drop nm.length).head? == some ';' then
      match Verif.Gen.Entities.lookup nm with
      | some cps => some (cps.map Char.ofNat, nm.length + 1)
      | none => none
    else none

/-- backslash-unescape and decode entities (`skip` characters are passed over first). -/
def unescapeGo : List Char → Nat → List Char
  | [], _ => []
  | c :: r, skip =>
    if skip > 0 then unescapeGo r (skip - 1) else
    if c == '\\' then
      match r with
      | d :: _ => if isAsciiPunct d then d :: unescapeGo r 1 else c :: unescapeGo r 0
      | [] => [c]
    else if c == '&' then
      match entityAt r with
      | some (rep, n) => rep ++ unescapeGo r n
      | none => c :: unescapeGo r 0
    else c :: unescapeGo r 0

def unescape (s : List Char) : List Char := unescapeGo s 0

/-! ## label normalisation (spec §4.7 / §6.3 "matches") -/
/-- Unicode case folding, exact on ASCII, Latin-1, Greek, Cyrillic and U+1E9E. -/
def foldChar (c : Char) : List Char :=
  let n := c.toNat
  if isUpper c then [Char.ofNat (n + 32)]
  else if n < 0xC0 then (if n == 0xB5 then [Char.ofNat 0x3BC] else [c])
  else if n == 0xDF || n == 0x1E9E then ['s', 's']
  else if 0xC0 ≤ n && n ≤ 0xDE && n != 0xD7 then [Char.ofNat (n + 32)]
  else if 0x391 ≤ n && n ≤ 0x3A9 && n != 0x3A2 then [Char.ofNat (n + 32)]
  else if n == 0x3C2 then [Char.ofNat 0x3C3]
  else if 0x410 ≤ n && n ≤ 0x42F then [Char.ofNat (n + 32)]
  else if 0x400 ≤ n && n ≤ 0x40F then [Char.ofNat (n + 80)]
  else [c]

/-- collapse runs of whitespace to one space; `pend` = a run is pending and output is non-empty. -/
def collapseWs : List Char → Bool → List Char
  | [], _ => []
  | c :: r, pend =>
    if isWsChar c then collapseWs r true
    else (if pend then [' '] else []) ++ foldChar c ++ collapseWs r false

def normLabel (s : List Char) : List Char :=
  collapseWs ((s.dropWhile isWsChar)) false

/-! ## link label, destination, title scanners
  Each takes the text *after* the opening character and returns the raw (still escaped) content
  and the number of characters consumed including the closing character. -/

/-- after `[`: content up to the first unescaped `]`; no unescaped `[`. -/
def scanLabelGo : List Char → List Char → Bool → Option (List Char × Nat)
  | [], _, _ => none
  | c :: r, acc, esc =>
    if esc then scanLabelGo r (c :: acc) false
    else if c == '\\' then scanLabelGo r (c :: acc) true
    else if c == '[' then none
    else if c == ']' then (if acc.length ≤ 999 then some (acc.reverse, acc.length + 1) else none)
    else scanLabelGo r (c :: acc) false

def scanLabel (s : List Char) : Option (List Char × Nat) := scanLabelGo s [] false

/-- after `<`: up to `>`; no line ending, no unescaped `<`. -/
def scanAngleGo : List Char → List Char → Bool → Option (List Char × Nat)
  | [], _, _ => none
  | c :: r, acc, esc =>
    if c == '\n' then none
    else if esc then scanAngleGo r (c :: acc) false
    else if c == '\\' then scanAngleGo r (c :: acc) true
    else if c == '<' then none
    else if c == '>' then some (acc.reverse, acc.length + 1)
    else scanAngleGo r (c :: acc) false

def isCtlOrSpace (c : Char) : Bool := c.toNat ≤ 32 || c.toNat == 127

/-- raw destination: stops before a space / control character or an unbalanced `)`.
    Returns the number of characters taken, `none` if parentheses are unbalanced. -/
def scanRawDestGo : List Char → Nat → Nat → Bool → Option Nat
  | [], n, depth, _ => if depth == 0 then some n else none
  | c :: r, n, depth, esc =>
    if esc then
      (if isAsciiPunct c then scanRawDestGo r (n + 1) depth false
       else if isCtlOrSpace c then (if depth == 0 then some n else none)
       else if c == '(' then scanRawDestGo r (n + 1) (depth + 1) false
       else if c == ')' then (if depth == 0 then some n else scanRawDestGo r (n + 1) (depth - 1) false)
       else scanRawDestGo r (n + 1) depth false)
    else if c == '\\' then scanRawDestGo r (n + 1) depth true
    else if isCtlOrSpace c then (if depth == 0 then some n else none)
    else if c == '(' then scanRawDestGo r (n + 1) (depth + 1) false
    else if c == ')' then (if depth == 0 then some n else scanRawDestGo r (n + 1) (depth - 1) false)
    else scanRawDestGo r (n + 1) depth false

/-- link destination at the head of `s`: (unescaped destination, characters consumed).
    The raw form may be empty (the caller decides whether that is acceptable). -/
def scanDest (s : List Char) : Option (List Char × Nat) :=
  match s with
  | '<' :: r =>
    match scanAngleGo r [] false with
    | some (raw, n) => some (unescape raw, n + 1)
    | none => none
  | _ =>
    match scanRawDestGo s 0 0 false with
    | some n => some (unescape (s.take n), n)
    | none => none

/-- after the opening quote `"`, `'` or `(`: up to the matching closer. -/
def scanTitleGo (close : Char) (noOpen : Bool) : List Char → List Char → Bool → Option (List Char × Nat)
  | [], _, _ => none
  | c :: r, acc, esc =>
    if esc then scanTitleGo close noOpen r (c :: acc) false
    else if c == '\\' then scanTitleGo close noOpen r (c :: acc) true
    else if c == close then some (acc.reverse, acc.length + 1)
    else if noOpen && c == '(' then none
    else scanTitleGo close noOpen r (c :: acc) false

/-- link title at the head of `s`: (unescaped title, characters consumed). -/
def scanTitle (s : List Char) : Option (List Char × Nat) :=
  match s with
  | c :: r =>
    if c == '"' || c == '\'' then
      match scanTitleGo c false r [] false with
      | some (raw, n) => some (unescape raw, n + 1)
      | none => none
    else if c == '(' then
      match scanTitleGo ')' true r [] false with
      | some (raw, n) => some (unescape raw, n + 1)
      | none => none
    else none
  | [] => none

/-- number of leading spaces/tabs/newlines with at most one newline; `none` if a second newline is met. -/
def spnlGo : List Char → Nat → Bool → Nat
  | [], n, _ => n
  | c :: r, n, seenNl =>
    if isSpTab c then spnlGo r (n + 1) seenNl
    else if c == '\n' then (if seenNl then n else spnlGo r (n + 1) true)
    else n

/-- spaces, tabs and at most one line ending. -/
def spnl (s : List Char) : Nat := spnlGo s 0 false

end Verif.Model.LeanMark
