/-
  LeanMark — Lrd.lean: link reference definitions (spec §4.7) at the head of a paragraph's text.
-/
import Verif.Model.LeanMark.Text
namespace Verif.Model.LeanMark

/-! ## link reference definitions (§4.7) -/
def hasNonWs (s : List Char) : Bool := s.any (fun c => !isWsChar c)

def atLineEnd (s : List Char) : Option Nat :=
  let n := countWhile isSpTab s
  match s.drop n with
  | [] => some n
  | c :: _ => if c == '\n' then some (n + 1) else none

/-- one definition at the head of `s`: (label, destination, title, characters consumed). -/
def parseLRD (s : List Char) : Option (List Char × List Char × Option (List Char) × Nat) :=
  match s with
  | '[' :: r =>
    match scanLabel r with
    | none => none
    | some (lab, n1) =>
      if !hasNonWs lab then none else
      match r.drop n1 with
      | ':' :: a2 =>
        let w := spnl a2
        let a3 := a2.drop w
        match scanDest a3 with
        | none => none
        | some (dest, nd) =>
          if nd == 0 then none else
          let a4 := a3.drop nd
          let base := 1 + n1 + 1 + w + nd
          let w2 := spnl a4
          let withTitle : Option (List Char × Nat) :=
            if w2 == 0 then none else
            match scanTitle (a4.drop w2) with
            | none => none
            | some (t, nt) =>
              match atLineEnd (a4.drop (w2 + nt)) with
              | some e => some (t, w2 + nt + e)
              | none => none
          match withTitle with
          | some (t, k) => some (lab, dest, some t, base + k)
          | none =>
            match atLineEnd a4 with
            | some e => some (lab, dest, none, base + e)
            | none => none
      | _ => none
  | _ => none

def joinLines : List (List Char) → List Char
  | [] => []
  | [l] => l
  | l :: rest => l ++ '\n' :: joinLines rest

/-- number of lines covered by the first `n` characters of the joined text. -/
def linesCovered (s : List Char) (n : Nat) : Nat :=
  let pre := s.take n
  let nl := (pre.filter (· == '\n')).length
  if pre.getLast? == some '\n' then nl else nl + 1

def lastLineOf (ls : List PLine) (dflt : Nat) : Nat :=
  match ls with
  | l :: _ => l.line
  | [] => dflt

end Verif.Model.LeanMark
