/-
  LeanMark — Inline.lean: inline structure (spec §6) of one leaf's text.
  Code spans, backslash escapes, entities, autolinks, raw HTML, links and images (inline, full,
  collapsed, shortcut reference), emphasis by the delimiter-stack algorithm of the spec's appendix,
  hard and soft line breaks.  Output: a flat, well-bracketed list of inline events with positions.

  Recursion: `scan` is structural on the text (jumps are replaced by a `skip` counter, so every
  character passes through `advance`, which keeps the (line, column) of the current character);
  `procEmph` carries fuel = Σ (1 + run length) over the items, which strictly decreases at every call.
-/
import Verif.Model.LeanMark.Block
namespace Verif.Model.LeanMark

inductive IEv where
  | text (s : List Char) (pos : Pos)
  | softbreak (pos : Pos)
  | hardbreak (pos : Pos)
  | code (s : List Char) (pos : Pos)
  | rawHtml (s : List Char) (pos : Pos)
  | autolink (dest text : List Char) (pos : Pos)
  | openEmph (pos : Pos) | closeEmph
  | openStrong (pos : Pos) | closeStrong
  | openLink (dest : List Char) (title : Option (List Char)) (pos : Pos) | closeLink
  | openImage (dest : List Char) (title : Option (List Char)) (pos : Pos) | closeImage
  deriving Repr, BEq

/-- normalised label ↦ (destination, title); the first definition of a label wins. -/
abbrev RefMap := List (List Char × List Char × Option (List Char))

def RefMap.find (m : RefMap) (label : List Char) : Option (List Char × Option (List Char)) :=
  let key := normLabel label
  if key.isEmpty then none else m.lookup key

def refMapOf : List Ev → RefMap
  | [] => []
  | .leaf (.lrd lab dest title) _ _ _ :: rest => (normLabel lab, dest, title) :: refMapOf rest
  | _ :: rest => refMapOf rest

/-! ## items on the working stack -/
inductive Item where
  | text (rev : List Char) (pos : Pos)
  | ev (es : List IEv)
  | delim (ch : Char) (n orig : Nat) (canOpen canClose : Bool) (pos : Pos)
  | bracket (image active bracketAfter : Bool) (pos : Pos) (srcAfter : List Char) (off : Nat)

structure ISt where
  acc : List Item          -- newest first
  skip : Nat
  prev : Option Char
  line : Nat
  col : Nat                -- 0-based visual column of the current character
  nexts : List PLine       -- the lines after the current one
  off : Nat

def ISt.pos (st : ISt) : Pos := ⟨st.line, st.col + 1⟩

def ISt.advance (st : ISt) (c : Char) : ISt :=
  if c == '\n' then
    match st.nexts with
    | l :: ls => { st with prev := some c, off := st.off + 1, line := l.line, col := l.col0, nexts := ls }
    | [] => { st with prev := some c, off := st.off + 1, line := st.line + 1, col := 0 }
  else if c == '\t' then { st with prev := some c, off := st.off + 1, col := st.col + (4 - st.col % 4) }
  else { st with prev := some c, off := st.off + 1, col := st.col + 1 }

def ISt.pushText (st : ISt) (s : List Char) : ISt :=
  match st.acc with
  | .text rev p :: rest => { st with acc := .text (s.reverse ++ rev) p :: rest }
  | acc => { st with acc := .text s.reverse st.pos :: acc }

def ISt.push (st : ISt) (it : Item) : ISt := { st with acc := it :: st.acc }

/-! ## code spans (§6.1) -/
/-- index of the start of the first backtick run of exactly `n` in the text. -/
def findTicks (n : Nat) : List Char → Nat → Nat → Option Nat
  | [], run, idx => if run == n then some (idx - n) else none
  | c :: r, run, idx =>
    if c == '`' then findTicks n r (run + 1) (idx + 1)
    else if run == n then some (idx - n)
    else findTicks n r 0 (idx + 1)

def codeContent (s : List Char) : List Char :=
  let s := s.map (fun c => if c == '\n' then ' ' else c)
  if s.head? == some ' ' && s.getLast? == some ' ' && s.any (· != ' ') then (s.drop 1).dropLast else s

/-! ## autolinks (§6.5) and raw HTML (§6.6) -/
def isSchemeChar (c : Char) : Bool := isAlnum c || c == '+' || c == '.' || c == '-'

def isUri (s : List Char) : Bool :=
  let sch := s.takeWhile isSchemeChar
  (match sch with | c :: _ => isAlpha c | [] => false) && 2 ≤ sch.length && sch.length ≤ 32 &&
  (s.drop sch.length).head? == some ':' &&
  (s.drop (sch.length + 1)).all (fun c => !(isCtlOrSpace c || c == '<' || c == '>'))

def isEmailLocalChar (c : Char) : Bool := isAlnum c || ".!#$%&'*+/=?^_`{|}~-".toList.contains c

def splitOn (sep : Char) : List Char → List Char → List (List Char)
  | [], acc => [acc.reverse]
  | c :: r, acc => if c == sep then acc.reverse :: splitOn sep r [] else splitOn sep r (c :: acc)

def isDomainLabel (l : List Char) : Bool :=
  1 ≤ l.length && l.length ≤ 63 && l.all (fun c => isAlnum c || c == '-') &&
  (match l.head? with | some c => isAlnum c | none => false) &&
  (match l.getLast? with | some c => isAlnum c | none => false)

def isEmail (s : List Char) : Bool :=
  let loc := s.takeWhile isEmailLocalChar
  !loc.isEmpty && (s.drop loc.length).head? == some '@' &&
  (splitOn '.' (s.drop (loc.length + 1)) []).all isDomainLabel

/-- `r` is the text after `<`.  Raw HTML: characters consumed after the `<`. -/
def scanRawHtml (r : List Char) : Option Nat :=
  match scanOpenTag r with
  | some n => some n
  | none =>
  match scanCloseTag r with
  | some n => some n
  | none =>
  if startsWith "!--".toList r then
    let body := r.drop 3
    if startsWith ">".toList body || startsWith "->".toList body then none else
    match findAfter "--".toList body 0 with
    | some k => if (body.drop k).head? == some '>' then some (3 + k + 1) else none
    | none => none
  else if startsWith "?".toList r then
    (findAfter "?>".toList (r.drop 1) 0).map (· + 1)
  else if startsWith "![CDATA[".toList r then
    (findAfter "]]>".toList (r.drop 8) 0).map (· + 8)
  else
    match r with
    | '!' :: c :: _ =>
      if isUpper c then
        let nm := (r.drop 1).takeWhile isUpper
        let after := r.drop (1 + nm.length)
        match after with
        | w :: _ => if isWsChar w then (findAfter ">".toList after 0).map (· + 1 + nm.length) else none
        | [] => none
      else none
    | _ => none

/-! ## emphasis (§6.2 + appendix "process emphasis") -/
def itemEvents : Item → List IEv
  | .text rev p => [.text rev.reverse p]
  | .ev es => es
  | .delim ch n _ _ _ p => if n == 0 then [] else [.text (List.replicate n ch) p]
  | .bracket image _ _ p _ _ => [.text (if image then ['!', '['] else ['[']) p]

/-- chronological flattening of items given newest first. -/
def flattenRev (items : List Item) : List IEv := items.reverse.flatMap itemEvents

/-- walk `left` (newest first) to the first delimiter that can open for the closer `(ch, orig, canOpen)`:
    (items after the opener, opener count, opener original count, opener canClose, opener pos, items before). -/
def findOpener (ch : Char) (corig : Nat) (cCanOpen : Bool) :
    List Item → List Item → Option (List Item × Nat × Nat × Bool × Bool × Pos × List Item)
  | [], _ => none
  | it :: rest, inner =>
    match it with
    | .delim ch' n orig canOpen canClose p =>
      let oddMatch := (canClose || cCanOpen) && (orig + corig) % 3 == 0 && !(orig % 3 == 0 && corig % 3 == 0)
      if ch' == ch && canOpen && !oddMatch && n > 0 then some (inner.reverse, n, orig, canOpen, canClose, p, rest)
      else findOpener ch corig cCanOpen rest (it :: inner)
    | _ => findOpener ch corig cCanOpen rest (it :: inner)

def emphFuel : List Item → Nat
  | [] => 1
  | .delim _ n _ _ _ _ :: r => n + 1 + emphFuel r
  | _ :: r => 1 + emphFuel r

/-- `left` newest first (already processed), `right` chronological (to do). -/
def procEmph : Nat → List Item → List Item → List Item
  | 0, left, right => right.reverse ++ left
  | _ + 1, left, [] => left
  | fuel + 1, left, it :: rest =>
    match it with
    | .delim ch n orig canOpen canClose pos =>
      if canClose && n > 0 then
        match findOpener ch orig canOpen left [] with
        | some (inner, on, oorig, oCanOpen, oCanClose, opos, older) =>
          let use := if n ≥ 2 && on ≥ 2 then 2 else 1
          let epos : Pos := ⟨opos.line, opos.col + (on - use)⟩
          let body := flattenRev inner
          let node : Item :=
            if use == 2 then .ev (.openStrong epos :: body ++ [.closeStrong])
            else .ev (.openEmph epos :: body ++ [.closeEmph])
          let older' := if on - use > 0 then .delim ch (on - use) oorig oCanOpen oCanClose opos :: older else older
          let left' := node :: older'
          if n - use > 0 then
            procEmph fuel left' (.delim ch (n - use) orig canOpen canClose ⟨pos.line, pos.col + use⟩ :: rest)
          else procEmph fuel left' rest
        | none =>
          procEmph fuel ((if canOpen then it else .delim ch n orig false false pos) :: left) rest
      else procEmph fuel (it :: left) rest
    | other => procEmph fuel (other :: left) rest

/-- resolve emphasis in a chronological item list. -/
def resolveEmph (items : List Item) : List IEv :=
  flattenRev (procEmph (emphFuel items) [] items)

/-! ## links and images (§6.3, §6.4) -/
/-- split the stack (newest first) at the nearest bracket: (newer items, bracket, older items). -/
def splitAtBracket : List Item → List Item → Option (List Item × Item × List Item)
  | [], _ => none
  | it :: rest, inner =>
    match it with
    | .bracket .. => some (inner, it, rest)
    | _ => splitAtBracket rest (it :: inner)

def deactivateLinks : List Item → List Item
  | [] => []
  | .bracket false _ ba p s o :: r => .bracket false false ba p s o :: deactivateLinks r
  | it :: r => it :: deactivateLinks r

def markBracketAfter : List Item → List Item
  | [] => []
  | .bracket im a _ p s o :: r => .bracket im a true p s o :: r
  | it :: r => it :: markBracketAfter r

/-- whitespace of an inline link: spaces, tabs and line endings. -/
def skipLinkWs (s : List Char) : Nat := countWhile isWsChar s

/-- `r` is the text after `]`.  Inline link tail `(dest "title")`: (dest, title, characters consumed). -/
def scanInlineTail (r : List Char) : Option (List Char × Option (List Char) × Nat) :=
  match r with
  | '(' :: a =>
    let w1 := skipLinkWs a
    let a1 := a.drop w1
    match scanDest a1 with
    | none => none
    | some (dest, nd) =>
      if nd == 0 && a1.head? != some ')' then none else
      let a2 := a1.drop nd
      let w2 := skipLinkWs a2
      let a3 := a2.drop w2
      let (title, nt) : Option (List Char) × Nat :=
        if w2 == 0 then (none, 0) else
        match scanTitle a3 with
        | some (t, n) => (some t, n)
        | none => (none, 0)
      let a4 := a3.drop nt
      let w3 := skipLinkWs a4
      if (a4.drop w3).head? == some ')' then some (dest, title, 1 + w1 + nd + w2 + nt + w3 + 1) else none
  | _ => none

/-- `r` = text after `]`, `inner` = source text between the brackets. Reference link: (dest, title, consumed). -/
def scanRefTail (refs : RefMap) (r : List Char) (inner : List Char) (bracketAfter : Bool) :
    Option (List Char × Option (List Char) × Nat) :=
  let second : Option (List Char × Nat) :=
    match r with
    | '[' :: a => scanLabel a
    | _ => none
  match second with
  | some (lab, n) =>
    if n > 1 then
      (refs.find lab).map (fun (d, t) => (d, t, n + 1))
    else if bracketAfter then none
    else (refs.find inner).map (fun (d, t) => (d, t, 2))
  | none =>
    if bracketAfter then none
    else (refs.find inner).map (fun (d, t) => (d, t, 0))

def closeBracket (refs : RefMap) (r : List Char) (st : ISt) : ISt :=
  match splitAtBracket st.acc [] with
  | none => st.pushText [']']
  | some (newerChron, br, older) =>
    match br with
    | .bracket image active bracketAfter bpos srcAfter boff =>
      let asText : Item := .text (if image then ['[', '!'] else ['[']) bpos
      let fail : ISt := ({ st with acc := newerChron.reverse ++ asText :: older } : ISt).pushText [']']
      if !active then fail else
      let inner := srcAfter.take (st.off - boff)
      let m := match scanInlineTail r with
        | some x => some x
        | none => scanRefTail refs r inner bracketAfter
      match m with
      | none => fail
      | some (dest, title, consumed) =>
        let body := resolveEmph newerChron
        let title := match title with
          | some [] => none
          | t => t
        let node : Item :=
          if image then .ev (.openImage dest title bpos :: body ++ [.closeImage])
          else .ev (.openLink dest title bpos :: body ++ [.closeLink])
        { st with acc := node :: (if image then older else deactivateLinks older), skip := consumed }
    | _ => st

/-! ## the scanner -/
def wsOrNone (c : Option Char) : Bool := match c with | none => true | some c => isUniWs c
def punctOpt (c : Option Char) : Bool := match c with | none => false | some c => isUniPunct c

/-- strip trailing spaces of the newest text item: (stack, number stripped). -/
def stripTrailingSpaces (acc : List Item) : List Item × Nat :=
  match acc with
  | .text rev p :: rest =>
    let n := countWhile (· == ' ') rev
    let rev' := rev.drop n
    (if rev'.isEmpty then rest else .text rev' p :: rest, n)
  | _ => (acc, 0)

/-- line ending: soft break, or hard break after two or more spaces. -/
def handleNewline (st : ISt) : ISt :=
  let res := stripTrailingSpaces st.acc
  let st1 : ISt := { st with acc := res.1 }
  if res.2 ≥ 2 then st1.push (.ev [.hardbreak ⟨st.line, st.col + 1 - res.2⟩]) else st1.push (.ev [.softbreak st.pos])

/-- backslash: escape of ASCII punctuation, hard break before a line ending, otherwise literal. -/
def handleBackslash (r : List Char) (st : ISt) : ISt :=
  match r with
  | d :: _ =>
    if d == '\n' then { st.push (.ev [.hardbreak st.pos]) with skip := 1 }
    else if isAsciiPunct d then { (st.pushText [d]) with skip := 1 }
    else st.pushText ['\\']
  | [] => st.pushText ['\\']

/-- backtick run: code span if a closing run of equal length exists. -/
def handleTick (r : List Char) (st : ISt) : ISt :=
  let n := 1 + countWhile (· == '`') r
  let after := r.drop (n - 1)
  match findTicks n after 0 0 with
  | some k => { st.push (.ev [.code (codeContent (after.take k)) st.pos]) with skip := n - 1 + k + n }
  | none => { st.pushText (List.replicate n '`') with skip := n - 1 }

/-- delimiter run of `*` or `_` with its flanking classification. -/
def handleDelim (c : Char) (r : List Char) (st : ISt) : ISt :=
  let n := 1 + countWhile (· == c) r
  let before := st.prev
  let after := (r.drop (n - 1)).head?
  let aWs := wsOrNone after
  let bWs := wsOrNone before
  let aP := punctOpt after
  let bP := punctOpt before
  let left := !aWs && (!aP || bWs || bP)
  let right := !bWs && (!bP || aWs || aP)
  let canOpen := if c == '*' then left else left && (!right || bP)
  let canClose := if c == '*' then right else right && (!left || aP)
  { st.push (.delim c n n canOpen canClose st.pos) with skip := n - 1 }

def handleOpenBracket (r : List Char) (st : ISt) : ISt :=
  ({ st with acc := markBracketAfter st.acc } : ISt).push (.bracket false true false st.pos r (st.off + 1))

def handleBang (r : List Char) (st : ISt) : ISt :=
  match r with
  | '[' :: r2 =>
    { ({ st with acc := markBracketAfter st.acc } : ISt).push (.bracket true true false st.pos r2 (st.off + 2))
      with skip := 1 }
  | _ => st.pushText ['!']

def handleAmp (r : List Char) (st : ISt) : ISt :=
  match entityAt r with
  | some (rep, n) => { st.pushText rep with skip := n }
  | none => st.pushText ['&']

/-- `<`: autolink, raw HTML, or literal. -/
def handleLt (r : List Char) (st : ISt) : ISt :=
  let body := r.takeWhile (fun x => x != '>' && x != '<' && !isCtlOrSpace x)
  let closed := (r.drop body.length).head? == some '>'
  if closed && isUri body then
    { st.push (.ev [.autolink body body st.pos]) with skip := body.length + 1 }
  else if closed && isEmail body then
    { st.push (.ev [.autolink ("mailto:".toList ++ body) body st.pos]) with skip := body.length + 1 }
  else
    match scanRawHtml r with
    | some n => { st.push (.ev [.rawHtml ('<' :: r.take n) st.pos]) with skip := n }
    | none => st.pushText ['<']

/-- handle the character `c` at the current position; `r` is the text after it. -/
def handle (refs : RefMap) (c : Char) (r : List Char) (st : ISt) : ISt :=
  if c == '\n' then handleNewline st
  else if c == '\\' then handleBackslash r st
  else if c == '`' then handleTick r st
  else if c == '*' || c == '_' then handleDelim c r st
  else if c == '[' then handleOpenBracket r st
  else if c == '!' then handleBang r st
  else if c == ']' then closeBracket refs r st
  else if c == '&' then handleAmp r st
  else if c == '<' then handleLt r st
  else st.pushText [c]

def scan (refs : RefMap) : List Char → ISt → ISt
  | [], st => st
  | c :: r, st =>
    let st' := if st.skip > 0 then { st with skip := st.skip - 1 } else handle refs c r st
    scan refs r (st'.advance c)

/-- merge adjacent text events. -/
def mergeText : List IEv → List IEv
  | .text a p :: rest =>
    match mergeText rest with
    | .text b _ :: rest' => .text (a ++ b) p :: rest'
    | rest' => .text a p :: rest'
  | e :: rest => e :: mergeText rest
  | [] => []

/-- inline events of a leaf's lines (leading white space of every line already removed). -/
def parseInlines (refs : RefMap) (lines : List PLine) : List IEv :=
  match lines with
  | [] => []
  | l0 :: rest =>
    let src := rstripWs (joinLines (lines.map (·.text)))
    let st : ISt := ⟨[], 0, none, l0.line, l0.col0, rest, 0⟩
    let st := scan refs src st
    mergeText (resolveEmph st.acc.reverse)

end Verif.Model.LeanMark
