/-
  LeanMark — HtmlTag.lean: scanners for HTML tags (spec §6.6 raw HTML), used by HTML block start
  condition 7 and by inline raw HTML.  Small automata, structural recursion on the input.
-/
import Verif.Model.LeanMark.Basic
namespace Verif.Model.LeanMark

inductive TagSt where
  | tagName | ws0 | attrName | wsAfterName | afterEq | unq | sq | dq | afterValue | slash
  deriving DecidableEq

def isAttrStart (c : Char) : Bool := isAlpha c || c == '_' || c == ':'
def isAttrChar (c : Char) : Bool := isAlnum c || c == '_' || c == '.' || c == ':' || c == '-'
def isUnqChar (c : Char) : Bool :=
  !(isWsChar c || c == '"' || c == '\'' || c == '=' || c == '<' || c == '>' || c == '`')

/-- automaton for an open tag, started after the first letter of the tag name;
    returns the number of characters consumed up to and including `>`. -/
def openTagGo : List Char → TagSt → Nat → Option Nat
  | [], _, _ => none
  | c :: r, st, n =>
    let ws := isWsChar c
    match st with
    | .tagName =>
      if isAlnum c || c == '-' then openTagGo r .tagName (n + 1)
      else if ws then openTagGo r .ws0 (n + 1)
      else if c == '/' then openTagGo r .slash (n + 1)
      else if c == '>' then some (n + 1) else none
    | .ws0 =>
      if ws then openTagGo r .ws0 (n + 1)
      else if isAttrStart c then openTagGo r .attrName (n + 1)
      else if c == '/' then openTagGo r .slash (n + 1)
      else if c == '>' then some (n + 1) else none
    | .attrName =>
      if isAttrChar c then openTagGo r .attrName (n + 1)
      else if ws then openTagGo r .wsAfterName (n + 1)
      else if c == '=' then openTagGo r .afterEq (n + 1)
      else if c == '/' then openTagGo r .slash (n + 1)
      else if c == '>' then some (n + 1) else none
    | .wsAfterName =>
      if ws then openTagGo r .wsAfterName (n + 1)
      else if c == '=' then openTagGo r .afterEq (n + 1)
      else if isAttrStart c then openTagGo r .attrName (n + 1)
      else if c == '/' then openTagGo r .slash (n + 1)
      else if c == '>' then some (n + 1) else none
    | .afterEq =>
      if ws then openTagGo r .afterEq (n + 1)
      else if c == '"' then openTagGo r .dq (n + 1)
      else if c == '\'' then openTagGo r .sq (n + 1)
      else if isUnqChar c then openTagGo r .unq (n + 1)
      else none
    | .unq =>
      if isUnqChar c then openTagGo r .unq (n + 1)
      else if ws then openTagGo r .ws0 (n + 1)
      else if c == '>' then some (n + 1) else none
    | .dq => if c == '"' then openTagGo r .afterValue (n + 1) else openTagGo r .dq (n + 1)
    | .sq => if c == '\'' then openTagGo r .afterValue (n + 1) else openTagGo r .sq (n + 1)
    | .afterValue =>
      if ws then openTagGo r .ws0 (n + 1)
      else if c == '/' then openTagGo r .slash (n + 1)
      else if c == '>' then some (n + 1) else none
    | .slash => if c == '>' then some (n + 1) else none

/-- `s` is the text after `<`.  Open tag: characters consumed (after the `<`). -/
def scanOpenTag (s : List Char) : Option Nat :=
  match s with
  | c :: r => if isAlpha c then openTagGo r .tagName 1 else none
  | [] => none

/-- after `</x`: tag-name characters, optional whitespace, `>`. -/
def closeTagGo : List Char → Bool → Nat → Option Nat
  | [], _, _ => none
  | c :: r, inWs, n =>
    if c == '>' then some (n + 1)
    else if isWsChar c then closeTagGo r true (n + 1)
    else if !inWs && (isAlnum c || c == '-') then closeTagGo r false (n + 1)
    else none

/-- `s` is the text after `<`.  Closing tag: characters consumed (after the `<`). -/
def scanCloseTag (s : List Char) : Option Nat :=
  match s with
  | '/' :: c :: r => if isAlpha c then closeTagGo r false 2 else none
  | _ => none

/-- tag name (lower-cased) at the head of `s`. -/
def tagNameOf (s : List Char) : List Char := (s.takeWhile (fun c => isAlnum c || c == '-')).map lowerAscii

/-- position just after the first occurrence of `pat` in `s` (number of characters consumed). -/
def findAfter (pat : List Char) : List Char → Nat → Option Nat
  | [], n => if pat.isEmpty then some n else none
  | c :: r, n => if startsWith pat (c :: r) then some (n + pat.length) else findAfter pat r (n + 1)

end Verif.Model.LeanMark
