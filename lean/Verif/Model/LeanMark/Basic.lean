/-
  LeanMark — reference model of CommonMark (written from the specification, not from pymarkdown).
  Basic.lean: characters, lines, the tab-stop cursor, events.
  Core Lean only.
-/
namespace Verif.Model.LeanMark

abbrev Line := List Char

/-! ## character classes (spec §2.1) -/
def isSpTab (c : Char) : Bool := c == ' ' || c == '\t'
def isDigit (c : Char) : Bool := '0' ≤ c && c ≤ '9'
def isUpper (c : Char) : Bool := 'A' ≤ c && c ≤ 'Z'
def isLower (c : Char) : Bool := 'a' ≤ c && c ≤ 'z'
def isAlpha (c : Char) : Bool := isUpper c || isLower c
def isAlnum (c : Char) : Bool := isAlpha c || isDigit c
def isHexDigit (c : Char) : Bool := isDigit c || ('a' ≤ c && c ≤ 'f') || ('A' ≤ c && c ≤ 'F')
def lowerAscii (c : Char) : Char := if isUpper c then Char.ofNat (c.toNat + 32) else c

/-- ASCII punctuation character (spec §2.1). -/
def isAsciiPunct (c : Char) : Bool :=
  let n := c.toNat
  (33 ≤ n && n ≤ 47) || (58 ≤ n && n ≤ 64) || (91 ≤ n && n ≤ 96) || (123 ≤ n && n ≤ 126)

/-- whitespace character of the spec: space, tab, newline, line tabulation, form feed, carriage return. -/
def isWsChar (c : Char) : Bool :=
  c == ' ' || c == '\t' || c == '\n' || c == '\x0b' || c == '\x0c' || c == '\r'

/-- Unicode whitespace (Zs + tab, CR, LF, FF). -/
def isUniWs (c : Char) : Bool :=
  let n := c.toNat
  isWsChar c || n == 0xA0 || n == 0x1680 || (0x2000 ≤ n && n ≤ 0x200A) || n == 0x202F || n == 0x205F || n == 0x3000

/-- Unicode punctuation (general categories P*), exact on the ranges admitted by `InScope`:
    ASCII, Latin-1, General Punctuation. -/
def isUniPunct (c : Char) : Bool :=
  let n := c.toNat
  isAsciiPunct c ||
  n == 0xA1 || n == 0xA7 || n == 0xAB || n == 0xB6 || n == 0xB7 || n == 0xBB || n == 0xBF ||
  (0x2010 ≤ n && n ≤ 0x2027) || (0x2030 ≤ n && n ≤ 0x2043) || (0x2045 ≤ n && n ≤ 0x2051) ||
  (0x2053 ≤ n && n ≤ 0x205E)

def isBlankChars : List Char → Bool
  | [] => true
  | c :: cs => isSpTab c && isBlankChars cs

def countWhile (p : Char → Bool) : List Char → Nat
  | c :: cs => if p c then 1 + countWhile p cs else 0
  | [] => 0

def rstripBy (p : Char → Bool) (l : List Char) : List Char := (l.reverse.dropWhile p).reverse
def rstripWs (l : List Char) : List Char := rstripBy isSpTab l
def lstripWs (l : List Char) : List Char := l.dropWhile isSpTab
def stripWs (l : List Char) : List Char := rstripWs (lstripWs l)

/-- `pre` is a prefix of `l`, comparing ASCII case-insensitively. -/
def startsWithCI : List Char → List Char → Bool
  | [], _ => true
  | _ :: _, [] => false
  | p :: ps, c :: cs => lowerAscii p == lowerAscii c && startsWithCI ps cs

def startsWith : List Char → List Char → Bool
  | [], _ => true
  | _ :: _, [] => false
  | p :: ps, c :: cs => p == c && startsWith ps cs

/-- does `pat` occur in `l` (case-insensitive when `ci`)? -/
def containsSub (ci : Bool) (pat : List Char) : List Char → Bool
  | [] => pat.isEmpty
  | c :: cs => (if ci then startsWithCI pat (c :: cs) else startsWith pat (c :: cs)) || containsSub ci pat cs

def natChars (n : Nat) : List Char := (toString n).toList

/-! ## cursor with tab stops
  `col` is the 0-based visual column of the next character; a tab that has been consumed only in part
  leaves `ptab` pending virtual spaces. -/
structure Cur where
  rest : List Char
  col : Nat
  ptab : Nat

def Cur.ofLine (l : Line) : Cur := ⟨l, 0, 0⟩

/-- number of columns of leading spaces / tabs starting at visual column `col`. -/
def wsCols : List Char → Nat → Nat
  | ' ' :: cs, col => 1 + wsCols cs (col + 1)
  | '\t' :: cs, col => let w := 4 - col % 4; w + wsCols cs (col + w)
  | _, _ => 0

def Cur.indent (c : Cur) : Nat := c.ptab + wsCols c.rest (c.col + c.ptab)
def Cur.blank (c : Cur) : Bool := isBlankChars c.rest

/-- consume up to `n` columns of white space. -/
def Cur.skipCols : Cur → Nat → Cur
  | c, 0 => c
  | c, n + 1 =>
    if c.ptab > 0 then Cur.skipCols ⟨c.rest, c.col + 1, c.ptab - 1⟩ n
    else match c.rest with
      | ' ' :: cs => Cur.skipCols ⟨cs, c.col + 1, 0⟩ n
      | '\t' :: cs => Cur.skipCols ⟨cs, c.col + 1, (4 - c.col % 4) - 1⟩ n
      | _ => c

/-- remaining text, pending virtual spaces materialised. -/
def Cur.text (c : Cur) : List Char := List.replicate c.ptab ' ' ++ c.rest
def Cur.skipWs (c : Cur) : Cur := c.skipCols c.indent
/-- advance over `n` non-tab characters. -/
def Cur.advance (c : Cur) (n : Nat) : Cur := ⟨c.rest.drop n, c.col + n, 0⟩

/-! ## events -/
/-- container kinds -/
inductive Kind where
  | quote
  | list (ordered : Bool) (delim : Char) (start : Nat)
  | item
  deriving Repr, DecidableEq, BEq

/-- a position: 1-based line, 1-based column in the tab-expanded line. -/
structure Pos where
  line : Nat
  col : Nat
  deriving Repr, DecidableEq, BEq

/-- one source line of a leaf: line number, 0-based visual column where `text` starts, text. -/
structure PLine where
  line : Nat
  col0 : Nat
  text : List Char
  deriving Repr, BEq

inductive LeafKind where
  | para
  | heading (lvl : Nat) (setext : Bool)
  | tbreak
  | fenced (info : List Char)
  | indented
  | html
  | lrd (label dest : List Char) (title : Option (List Char))
  deriving Repr, BEq

inductive Ev where
  | open (k : Kind) (pos : Pos)
  | close (k : Kind) (endLine : Nat)
  | leaf (k : LeafKind) (pos : Pos) (endLine : Nat) (payload : List PLine)
  deriving Repr

def Ev.line : Ev → Option Nat
  | .open _ p => some p.line
  | .close _ _ => none
  | .leaf _ p _ _ => some p.line

end Verif.Model.LeanMark
