/-
  LeanMark — Block.lean: block structure (spec §4, §5), line by line, following the spec's appendix
  "A parsing strategy": phase 1 match the open containers, phase 2 open new blocks, phase 3 add text.
  `step : BState → Line → BState`, `finish`, `events : List Line → List Ev`.
  The event stream, the container stack and the buffered leaf are written only through the primitives
  of `Core` (Core.lean), each of which re-establishes the stream invariants.
  Recursion: `openBlocks` carries explicit fuel = line length + 1 (each recursive call has consumed at
  least the one character `>` or a list marker, so the fuel is never exhausted); everything else is
  structural.
-/
import Verif.Model.LeanMark.Core
import Verif.Model.LeanMark.HtmlTag
namespace Verif.Model.LeanMark

/-! ## line recognisers (spec-shaped; `t` = text after ≤ 3 columns of indentation) -/

/-- thematic break (§4.1) -/
def isTBreak (t : List Char) : Bool :=
  match t with
  | c :: _ =>
    (c == '-' || c == '_' || c == '*') &&
    t.all (fun x => x == c || isSpTab x) &&
    (t.filter (· == c)).length ≥ 3
  | [] => false

/-- ATX heading (§4.2): level and raw content. -/
def atx? (t : List Char) : Option (Nat × List Char) :=
  let n := countWhile (· == '#') t
  if n == 0 || n > 6 then none else
  let r := t.drop n
  match r with
  | [] => some (n, [])
  | c :: _ =>
    if isSpTab c then
      let body := stripWs r
      let m := countWhile (· == '#') body.reverse
      let body' :=
        if m == 0 then body else
        let b := body.take (body.length - m)
        match b.reverse with
        | [] => []
        | x :: _ => if isSpTab x then rstripWs b else body
      some (n, body')
    else none

/-- opening code fence (§4.5): fence character, length, info string. -/
def fenceOpen? (t : List Char) : Option (Char × Nat × List Char) :=
  match t with
  | c :: _ =>
    if c == '`' || c == '~' then
      let n := countWhile (· == c) t
      if n < 3 then none else
      let info := stripWs (t.drop n)
      if c == '`' && info.contains '`' then none else some (c, n, info)
    else none
  | [] => none

/-- closing fence: at least `len` fence characters, followed only by spaces (0.29 wording). -/
def fenceClose (t : List Char) (ch : Char) (len : Nat) : Bool :=
  let n := countWhile (· == ch) t
  n ≥ len && (t.drop n).all (· == ' ')

/-- setext heading underline (§4.3) -/
def setextLevel? (t : List Char) : Option Nat :=
  match t with
  | c :: _ =>
    if c == '=' || c == '-' then
      let n := countWhile (· == c) t
      if isBlankChars (t.drop n) then some (if c == '=' then 1 else 2) else none
    else none
  | [] => none

/-- list marker (§5.2): (ordered, delimiter / bullet character, start number, marker width). -/
def listMarker? (t : List Char) : Option (Bool × Char × Nat × Nat) :=
  match t with
  | c :: r =>
    if c == '-' || c == '+' || c == '*' then
      match r with
      | [] => some (false, c, 0, 1)
      | x :: _ => if isSpTab x then some (false, c, 0, 1) else none
    else if isDigit c then
      let ds := t.takeWhile isDigit
      if ds.length > 9 then none else
      match t.drop ds.length with
      | d :: r2 =>
        if d == '.' || d == ')' then
          let ok := match r2 with
            | [] => true
            | x :: _ => isSpTab x
          if ok then some (true, d, ds.foldl (fun a ch => a * 10 + (ch.toNat - 48)) 0, ds.length + 1)
          else none
        else none
      | [] => none
    else none
  | [] => none

/-- block-level tag names of HTML block start condition 6 (CommonMark 0.29). -/
def blockTags : List String :=
  ["address", "article", "aside", "base", "basefont", "blockquote", "body", "caption", "center", "col",
   "colgroup", "dd", "details", "dialog", "dir", "div", "dl", "dt", "fieldset", "figcaption", "figure",
   "footer", "form", "frame", "frameset", "h1", "h2", "h3", "h4", "h5", "h6", "head", "header", "hr",
   "html", "iframe", "legend", "li", "link", "main", "menu", "menuitem", "nav", "noframes", "ol",
   "optgroup", "option", "p", "param", "section", "source", "summary", "table", "tbody", "td", "tfoot",
   "th", "thead", "title", "tr", "track", "ul"]

def tagEnd1 (r : List Char) : Bool :=
  match r with
  | [] => true
  | c :: _ => isSpTab c || c == '>'

/-- HTML block start condition (§4.6) met by `t` (which starts at the first non-space): 1 … 7. -/
def htmlStart? (t : List Char) : Option Nat :=
  match t with
  | '<' :: r =>
    let lit (s : String) : Bool := startsWithCI s.toList r
    if (lit "script" && tagEnd1 (r.drop 6)) || (lit "pre" && tagEnd1 (r.drop 3)) ||
       (lit "style" && tagEnd1 (r.drop 5)) then some 1
    else if startsWith "!--".toList r then some 2
    else if startsWith "?".toList r then some 3
    else if startsWith "![CDATA[".toList r then some 5
    else if (match r with | '!' :: c :: _ => isUpper c | _ => false) then some 4
    else
      let r' := match r with | '/' :: x => x | _ => r
      let nm := tagNameOf r'
      let after := r'.drop nm.length
      let endOk := match after with
        | [] => true
        | c :: rest => isSpTab c || c == '>' || (c == '/' && rest.head? == some '>')
      if !nm.isEmpty && blockTags.contains (String.ofList nm) && endOk then some 6
      else
        let tagLen := match scanOpenTag r with
          | some n => some n
          | none => scanCloseTag r
        match tagLen with
        | some n =>
          let name := tagNameOf r'
          if isBlankChars (r.drop n) && !(["script", "style", "pre"].contains (String.ofList name) && r.head? != some '/')
          then some 7 else none
        | none => none
  | _ => none

/-- HTML block end condition for kinds 1–5 met by the line. -/
def htmlEnd (kind : Nat) (l : List Char) : Bool :=
  match kind with
  | 1 => containsSub true "</script>".toList l || containsSub true "</pre>".toList l ||
         containsSub true "</style>".toList l
  | 2 => containsSub false "-->".toList l
  | 3 => containsSub false "?>".toList l
  | 4 => l.contains '>'
  | 5 => containsSub false "]]>".toList l
  | _ => false

/-! ## derived operations on the sink (compositions of primitives) -/
namespace Core
variable {n : Nat}

def closeTo : Nat → Core n → Nat → Core n
  | 0, c, _ => c
  | fuel + 1, c, depth => if c.depth > depth then closeTo fuel c.popC depth else c

/-- close containers until at most `depth` remain (fuel = current depth). -/
def closeToDepth (c : Core n) (depth : Nat) : Core n := closeTo c.depth c depth

/-- a list whose item has been closed cannot take any other child (the primitives that add a quote
    or a leaf close such a list themselves; `prep` does it before touching the containers). -/
def dropDanglingList (c : Core n) : Core n :=
  match c.stack with
  | t :: _ => if isListK t.k then c.popC else c
  | [] => c

/-- close what was not matched and make the innermost remaining container able to take a non-item block. -/
def prep (c : Core (n + 1)) (k : Nat) : Core (n + 1) := ((c.closeToDepth k).dropDanglingList).touchAll

end Core

/-! ## phase 1: match the open containers -/
/-- `stack` outermost first.  Returns the number matched and the cursor after their markers. -/
def matchConts : List OpenC → Cur → Nat × Cur
  | [], cur => (0, cur)
  | c :: cs, cur =>
    match c.k with
    | .quote =>
      let c1 := cur.skipWs
      if cur.indent ≤ 3 then
        match c1.rest with
        | '>' :: r =>
          let c2 : Cur := ⟨r, c1.col + 1, 0⟩
          let c3 := if c2.indent ≥ 1 then c2.skipCols 1 else c2
          let (n, cf) := matchConts cs c3
          (n + 1, cf)
        | _ => (0, cur)
      else (0, cur)
    | .list .. =>
      let (n, cf) := matchConts cs cur
      (n + 1, cf)
    | .item =>
      -- a white-space-only line that is indented enough loses exactly the item's indentation (what is left
      -- matters inside code blocks); a blank line that is not continues an item that already has a child
      if cur.blank && !c.m.hasChild then (0, cur)
      else if cur.indent ≥ c.m.contentIndent then
        let (n, cf) := matchConts cs (cur.skipCols c.m.contentIndent)
        (n + 1, cf)
      else if cur.blank then
        let (n, cf) := matchConts cs cur.skipWs
        (n + 1, cf)
      else (0, cur)

/-- index (from the outermost) just past the innermost block quote among the first `n` containers. -/
def quoteDepth : List OpenC → Nat → Nat → Nat → Nat
  | [], _, _, best => best
  | c :: cs, n, i, best =>
    if i < n then quoteDepth cs n (i + 1) (if c.k == .quote then i + 1 else best) else best

def isPara (l : OpenLeaf) : Bool := match l with | .para _ => true | _ => false

/-! ## the two readings of the specification
  On two points the specification's prose and its appendix "A parsing strategy" (= the reference
  implementations) assign different structures to the same document.  The model's default follows the
  appendix; the other reading of each point can be selected, so that a harness can tell on which documents
  the difference matters (a document is *unambiguous* iff all four readings produce the same stream). -/
structure Reading where
  /-- prose reading of laziness: a list marker that could not interrupt a paragraph (empty item, ordered
      start ≠ 1) is paragraph continuation text even on a line that does not match every open container
      (`> a` / `2) y`: appendix = new list after the quote, prose = lazy continuation). -/
  lazyList : Bool := false
  /-- prose reading of link reference definitions: buffered text that so far consists of complete
      definitions only is not a paragraph — it cannot be continued lazily and can be followed directly by
      any block start (`[r]: /u` / `2) y`: appendix = paragraph `2) y`, prose = ordered list). -/
  lrdNoPara : Bool := false
  deriving Repr, DecidableEq

/-- do the lines (chronological) consist of complete link reference definitions only? -/
def lrdOnlyGo : Nat → List PLine → Bool
  | 0, ls => ls.isEmpty
  | _ + 1, [] => true
  | fuel + 1, l0 :: tl =>
    if l0.text.head? != some '[' then false else
    let s := joinLines ((l0 :: tl).map (·.text))
    match parseLRD s with
    | none => false
    | some (_, _, _, nchars) => lrdOnlyGo fuel ((l0 :: tl).drop (linesCovered s nchars))

def lrdOnly (l : OpenLeaf) : Bool :=
  match l with
  | .para ls => lrdOnlyGo ls.length ls.reverse
  | _ => false

/-! ## phases 2 and 3 -/
/-- `k` = number of matched containers; `first` = no block has been opened on this line yet. -/
def openBlocks (rd : Reading) {n : Nat} : Nat → Core (n + 1) → Cur → Nat → Bool → Core (n + 1)
  | 0, s, _, _, _ => s
  | fuel + 1, s, cur, k, first =>
    let ind := cur.indent
    let indented : Bool := decide (ind ≥ 4)
    let c1 := cur.skipWs
    let t := c1.rest
    let allC := k == s.depth
    if cur.blank then
      if !first then s else
      let s := s.closeToDepth k
      let s := s.touch (quoteDepth s.stack.reverse k 0 0)
      s.closeLeaf
    else
    -- setext underline: the paragraph's link reference definitions are resolved first; if text
    -- remains the heading is emitted, otherwise the line is examined again with an empty buffer
    let isSetext := !indented && first && isPara s.leaf && allC && (setextLevel? t).isSome
    let s1 := if isSetext then s.closeSetext ((setextLevel? t).getD 1) else s
    let setextDone := isSetext && s1.lastIsSetextHeading
    if setextDone then s1.touch k else
    let s := s1
    let maybeLazy := first && isPara s.leaf && !(rd.lrdNoPara && lrdOnly s.leaf)
    let contIsPara := maybeLazy && (allC || rd.lazyList)
    if !indented && t.head? == some '>' then
      let s := (s.prep k).pushQuote c1.col
      let c2 : Cur := ⟨t.drop 1, c1.col + 1, 0⟩
      let c3 := if c2.indent ≥ 1 then c2.skipCols 1 else c2
      openBlocks rd fuel s c3 s.depth false
    else if let some (lvl, body) := (if indented then none else atx? t) then
      (s.prep k).emitLeaf (.heading lvl false) c1.col [(((c1.advance lvl).skipWs).col, body)]
    else if let some (ch, len, info) := (if indented then none else fenceOpen? t) then
      (s.prep k).startFenced c1.col ch len ind info
    else if let some kind := (if indented then none else match htmlStart? t with
        | some 7 => if maybeLazy then none else some 7
        | r => r) then
      let s := (s.prep k).startHtml cur.col kind cur.text
      if htmlEnd kind cur.text then s.closeLeaf else s
    else if !indented && isTBreak t then
      (s.prep k).emitLeaf .tbreak c1.col []
    else
    let lm := if !indented then listMarker? t else none
    let lm := match lm with
      | some (ord, delim, start, w) =>
        let after : Cur := ⟨t.drop w, c1.col + w, 0⟩
        if contIsPara && (after.blank || (ord && start != 1)) then none else some (ord, delim, start, w)
      | none => none
    match lm with
    | some (ord, delim, start, w) =>
      let after : Cur := ⟨t.drop w, c1.col + w, 0⟩
      let emptyItem := after.blank
      let spaces := after.indent
      let (pad, c4) :=
        if emptyItem then (1, after)
        else if spaces ≥ 5 then (1, after.skipCols 1)
        else (spaces, after.skipCols spaces)
      -- the item joins the innermost matched list when the types agree, else a new list is opened
      let s := ((s.closeToDepth k).pushItem ord delim start c1.col { contentIndent := ind + w + pad }).touchAll
      if emptyItem then s else openBlocks rd fuel s c4 s.depth false
    | none =>
    if indented && !maybeLazy then
      let c4 := cur.skipCols 4
      (s.prep k).startIndented c4.col c4.col c4.text
    else if maybeLazy then
      -- continuation (all matched) or lazy continuation (some container not matched)
      (s.addLine c1.col t).touchAll
    else (s.prep k).startPara c1.col t

/-! ## one line -/
/-- process one line in the sink that has already been advanced to it. -/
def stepLine (rd : Reading) {n : Nat} (s : Core (n + 1)) (l : Line) : Core (n + 1) :=
  let cur := Cur.ofLine l
  let (k, c1) := matchConts s.stack.reverse cur
  let allC := k == s.depth
  let general := fun (_ : Unit) => openBlocks rd (l.length + 1) s c1 k true
  if !allC then general () else
  match s.leaf with
  | .fenced _ ch len fi _ _ =>
    if c1.indent ≤ 3 && fenceClose c1.skipWs.rest ch len then s.touchAll.closeFence
    else
      let c2 := c1.skipCols fi
      (s.addLine c2.col c2.text).touchAll
  | .html _ kind _ =>
    if c1.blank && kind ≥ 6 then general ()
    else
      let s := (s.addLine c1.col c1.text).touchAll
      if htmlEnd kind c1.text then s.closeLeaf else s
  | .indented .. =>
    let c2 := c1.skipCols 4
    if c1.blank then s.addPending c2.col c2.text
    else if c1.indent ≥ 4 then (s.addLine c2.col c2.text).touchAll
    else general ()
  | _ => general ()

/-- parser state: the number of lines read and the sink at that line. -/
structure BState where
  n : Nat
  core : Core n

def BState.init : BState := ⟨0, Core.init⟩

def step (rd : Reading) (s : BState) (l : Line) : BState := ⟨s.n + 1, stepLine rd s.core.nextLine l⟩

def finish (s : BState) : BState := ⟨s.n, (s.core.closeToDepth 0).closeLeaf⟩

def splitLinesGo : List Char → List Char → List Line → List Line
  | [], acc, out => (acc.reverse :: out).reverse
  | c :: cs, acc, out =>
    if c == '\n' then splitLinesGo cs [] (acc.reverse :: out) else splitLinesGo cs (c :: acc) out

/-- lines of a document (line ending = LF); a final line ending does not start another line. -/
def docLines (doc : List Char) : List Line :=
  let ls := splitLinesGo doc [] []
  match ls.reverse with
  | [] :: r => r.reverse
  | _ => ls

def runR (rd : Reading) (ls : List Line) : BState := finish (ls.foldl (step rd) BState.init)

/-- the block event stream of a document given as lines, under a reading of the specification. -/
def eventsR (rd : Reading) (ls : List Line) : List Ev := (runR rd ls).core.out

def run (ls : List Line) : BState := runR {} ls

/-! ## documents that do not start at line 1, documents with gaps in the numbering -/
/-- the state before the first line of a document whose first line is numbered `start + 1`. -/
def BState.initAt (start : Nat) : BState := ⟨start, Core.initAt start⟩

def runFromR (rd : Reading) (start : Nat) (ls : List Line) : BState :=
  finish (ls.foldl (step rd) (BState.initAt start))

/-- the block event stream when the first line is numbered `start + 1` (`eventsR rd = eventsFromR rd 0`). -/
def eventsFromR (rd : Reading) (start : Nat) (ls : List Line) : List Ev := (runFromR rd start ls).core.out

/-- one explicitly numbered line.  Numbers are expected to increase strictly; a number that does not
    exceed the previous one is read as "previous + 1" (the effective number is `max p.1 (s.n + 1)`). -/
def stepNum (rd : Reading) (s : BState) (p : Nat × Line) : BState :=
  let d := p.1 - (s.n + 1)
  ⟨s.n + d + 1, stepLine rd (s.core.skip d).nextLine p.2⟩

def runNumR (rd : Reading) (start : Nat) (nls : List (Nat × Line)) : BState :=
  finish (nls.foldl (stepNum rd) (BState.initAt start))

/-- the block event stream of explicitly numbered lines (all numbers `> start`, strictly increasing):
    what the parser produces when some physical lines (pragmas, front matter) are withheld from it. -/
def eventsNumR (rd : Reading) (start : Nat) (nls : List (Nat × Line)) : List Ev := (runNumR rd start nls).core.out

/-- the block event stream of a document given as lines (default reading: the appendix's strategy). -/
def events (ls : List Line) : List Ev := eventsR {} ls

end Verif.Model.LeanMark
