/-
  LeanMark — Core.lean: the event sink of the block phase.

  `Core n` is the sink while (or after) line `n` is being processed.  It owns the event stream `out`,
  the stack of open containers, and the one buffered open leaf, and it carries — as a field — the proof
  of the invariant `Inv n`:
    * `bal`  the stream replays to the stack under the rules of `stepEv`: every `close` matches the
             innermost open container (well-nestedness), an `item` is opened exactly inside a `list` and
             nothing else is ever opened directly inside a `list` (classes),
    * `rng`  every event has 1 ≤ line ≤ n, column ≥ 1, end line ≤ n, payload lines in 1..n,
    * `mono` start lines of events never decrease,
    * the facts about the buffered leaf and the stack that make the above inductive.
  The only functions that build a `Core` are `Core.init`, `nextLine` and the primitives below; each
  re-establishes `Inv` locally.  The block parser (Block.lean) is written against this interface only,
  so whatever it decides it cannot produce an ill-nested, out-of-range or non-monotone stream: the
  theorems `L_balanced`, `L_classes`, `L_pos_range`, `L_lines_mono` never look at the parser's decisions
  (pattern of the prototype `run_wellNested`).  Primitives that stamp the *current* line exist only on
  `Core (n+1)`, so nothing can be emitted before the first line.
-/
import Verif.Model.LeanMark.Lrd
namespace Verif.Model.LeanMark

/-- mutable facts about an open container (never its kind). -/
structure Meta where
  contentIndent : Nat := 0   -- items: marker offset + padding
  lastLine : Nat := 0        -- last line that belongs to the container
  hasChild : Bool := false   -- items: some block has been added
  deriving Repr

structure OpenC where
  k : Kind
  m : Meta
  deriving Repr

/-- the buffered open leaf; line lists are newest first. -/
inductive OpenLeaf where
  | none
  | para (lines : List PLine)
  | fenced (pos : Pos) (ch : Char) (len ind : Nat) (info : List Char) (lines : List PLine)
  | indented (pos : Pos) (lines : List PLine) (pending : List PLine)
  | html (pos : Pos) (kind : Nat) (lines : List PLine)

/-! ## well-formedness of a stream -/
def isListK : Kind → Bool
  | .list .. => true
  | _ => false

def isItemK : Kind → Bool
  | .item => true
  | _ => false

def topIsList : List Kind → Bool
  | k :: _ => isListK k
  | [] => false

/-- nesting only: every `close` matches the innermost open container. -/
def stepNest (st : List Kind) : Ev → Option (List Kind)
  | .open k _ => some (k :: st)
  | .close k _ =>
    match st with
    | t :: r => if t = k then some r else none
    | [] => none
  | .leaf .. => some st

/-- nesting and classes: an `item` is opened exactly inside a `list`; a `list` contains nothing but
    items (so block quotes, lists and leaves are opened only at the top level, in a quote or in an item). -/
def stepEv (st : List Kind) : Ev → Option (List Kind)
  | .open k _ => if isItemK k == topIsList st then some (k :: st) else none
  | .close k _ =>
    match st with
    | t :: r => if t = k then some r else none
    | [] => none
  | .leaf .. => if topIsList st then none else some st

/-- chronological replay of a stream; `some st` = the containers still open, innermost first. -/
def replay (es : List Ev) : Option (List Kind) := es.foldlM stepEv []

/-- well nested and class-correct. -/
def WellFormed (es : List Ev) : Prop := replay es = some []

def WellNested (es : List Ev) : Prop := es.foldlM stepNest [] = some []

theorem stepEv_nest {st st' : List Kind} {e : Ev} (h : stepEv st e = some st') : stepNest st e = some st' := by
  cases e with
  | «open» k p =>
    simp only [stepEv] at h
    split at h
    · simpa [stepNest] using h
    · simp at h
  | close k x => simpa [stepEv, stepNest] using h
  | leaf k p x pl =>
    simp only [stepEv] at h
    split at h
    · simp at h
    · simpa [stepNest] using h

theorem foldl_nest : ∀ (es : List Ev) (st st' : List Kind),
    es.foldlM stepEv st = some st' → es.foldlM stepNest st = some st'
  | [], _, _, h => h
  | e :: es, st, st', h => by
    simp only [List.foldlM_cons, Option.bind_eq_bind] at h ⊢
    cases hs : stepEv st e with
    | none => simp [hs] at h
    | some s1 =>
      rw [hs] at h
      simp only [Option.bind_some] at h
      rw [stepEv_nest hs]
      simp only [Option.bind_some]
      exact foldl_nest es s1 st' h

theorem WellFormed.wellNested {es : List Ev} (h : WellFormed es) : WellNested es := foldl_nest es [] [] h

def kinds (st : List OpenC) : List Kind := st.map (·.k)

theorem replay_snoc (es : List Ev) (e : Ev) :
    replay (es ++ [e]) = (replay es).bind (fun st => stepEv st e) := by
  simp [replay, List.foldlM_append]

/-- no list directly inside a list. -/
def StackOK : List Kind → Prop
  | a :: b :: r => (isListK a = true → isListK b = false) ∧ StackOK (b :: r)
  | _ => True

theorem StackOK.tail {a : Kind} {r : List Kind} (h : StackOK (a :: r)) : StackOK r := by
  cases r with
  | nil => trivial
  | cons b r => exact h.2

theorem StackOK.push {k : Kind} {st : List Kind} (h : StackOK st)
    (hk : isListK k = true → topIsList st = false) : StackOK (k :: st) := by
  cases st with
  | nil => trivial
  | cons b r => exact ⟨hk, h⟩

/-! ## positions -/
def LineOK (n : Nat) (l : PLine) : Prop := 1 ≤ l.line ∧ l.line ≤ n

/-- range condition of one event when `n` lines have been read. -/
def EvOK (n : Nat) : Ev → Prop
  | .open _ p => 1 ≤ p.line ∧ p.line ≤ n ∧ 1 ≤ p.col
  | .close _ e => e ≤ n
  | .leaf _ p e pl => 1 ≤ p.line ∧ p.line ≤ n ∧ 1 ≤ p.col ∧ e ≤ n ∧ ∀ l ∈ pl, LineOK n l

/-- every start line in `es` is at most `b`. -/
def Bound (b : Nat) (es : List Ev) : Prop := ∀ e ∈ es, ∀ l, e.line = some l → l ≤ b

/-- start lines do not decrease along the stream (`es` newest first). -/
def MonoRev : List Ev → Prop
  | [] => True
  | e :: r => MonoRev r ∧ ∀ l, e.line = some l → Bound l r

def Chron (ls : List PLine) : Prop := ls.Pairwise (fun a b => a.line ≤ b.line)

structure RawCore where
  outRev : List Ev        -- newest first
  stack : List OpenC      -- innermost first
  leaf : OpenLeaf
  last : Nat              -- start line of the newest positioned event (0 if none)

def LeafOK (n last : Nat) : OpenLeaf → Prop
  | .none => True
  | .para ls => (∀ l ∈ ls, LineOK n l ∧ last ≤ l.line) ∧ Chron ls.reverse
  | .fenced p _ _ _ _ ls => 1 ≤ p.line ∧ p.line ≤ n ∧ 1 ≤ p.col ∧ last ≤ p.line ∧ ∀ l ∈ ls, LineOK n l
  | .indented p ls pend =>
    1 ≤ p.line ∧ p.line ≤ n ∧ 1 ≤ p.col ∧ last ≤ p.line ∧ (∀ l ∈ ls, LineOK n l) ∧ ∀ l ∈ pend, LineOK n l
  | .html p _ ls => 1 ≤ p.line ∧ p.line ≤ n ∧ 1 ≤ p.col ∧ last ≤ p.line ∧ ∀ l ∈ ls, LineOK n l

structure Inv (n : Nat) (r : RawCore) : Prop where
  bal : replay r.outRev.reverse = some (kinds r.stack)
  rng : ∀ e ∈ r.outRev, EvOK n e
  stk : ∀ o ∈ r.stack, o.m.lastLine ≤ n
  lf : LeafOK n r.last r.leaf
  mono : MonoRev r.outRev
  bnd : Bound r.last r.outRev
  lastLe : r.last ≤ n
  sok : StackOK (kinds r.stack)
  ltop : r.leaf = .none ∨ topIsList (kinds r.stack) = false

/-! ### monotonicity of the conditions in `n` -/
theorem LineOK.mono {n m : Nat} (h : n ≤ m) {l : PLine} (hl : LineOK n l) : LineOK m l :=
  ⟨hl.1, Nat.le_trans hl.2 h⟩

theorem EvOK.mono {n m : Nat} (h : n ≤ m) : ∀ {e : Ev}, EvOK n e → EvOK m e
  | .open _ _, he => ⟨he.1, Nat.le_trans he.2.1 h, he.2.2⟩
  | .close _ _, he => Nat.le_trans he h
  | .leaf _ _ _ _, he =>
    ⟨he.1, Nat.le_trans he.2.1 h, he.2.2.1, Nat.le_trans he.2.2.2.1 h, fun l hl => (he.2.2.2.2 l hl).mono h⟩

theorem LeafOK.mono {n m last : Nat} (h : n ≤ m) : ∀ {lf : OpenLeaf}, LeafOK n last lf → LeafOK m last lf
  | .none, _ => trivial
  | .para _, hl => ⟨fun l hm => ⟨(hl.1 l hm).1.mono h, (hl.1 l hm).2⟩, hl.2⟩
  | .fenced .., hl => ⟨hl.1, Nat.le_trans hl.2.1 h, hl.2.2.1, hl.2.2.2.1, fun l hm => (hl.2.2.2.2 l hm).mono h⟩
  | .indented .., hl =>
    ⟨hl.1, Nat.le_trans hl.2.1 h, hl.2.2.1, hl.2.2.2.1, fun l hm => (hl.2.2.2.2.1 l hm).mono h,
     fun l hm => (hl.2.2.2.2.2 l hm).mono h⟩
  | .html .., hl => ⟨hl.1, Nat.le_trans hl.2.1 h, hl.2.2.1, hl.2.2.2.1, fun l hm => (hl.2.2.2.2 l hm).mono h⟩

theorem Bound.mono {a b : Nat} (h : a ≤ b) {es : List Ev} (hb : Bound a es) : Bound b es :=
  fun e he l hl => Nat.le_trans (hb e he l hl) h

theorem Inv.weaken {n m : Nat} (h : n ≤ m) {r : RawCore} (hi : Inv n r) : Inv m r :=
  ⟨hi.bal, fun e he => (hi.rng e he).mono h, fun o ho => Nat.le_trans (hi.stk o ho) h, hi.lf.mono h,
   hi.mono, hi.bnd, Nat.le_trans hi.lastLe h, hi.sok, hi.ltop⟩

/-! ## raw operations and their preservation lemmas -/
/-- append event `e`, replace the stack by `st` and the leaf by `lf`. -/
def RawCore.emit (r : RawCore) (e : Ev) (st : List OpenC) (lf : OpenLeaf) : RawCore :=
  ⟨e :: r.outRev, st, lf, (e.line).getD r.last⟩

theorem Inv.emit {n : Nat} {r : RawCore} (h : Inv n r) (e : Ev) (st : List OpenC) (lf : OpenLeaf)
    (hs : stepEv (kinds r.stack) e = some (kinds st))
    (hst : ∀ o ∈ st, o.m.lastLine ≤ n)
    (he : EvOK n e)
    (hl : ∀ l, e.line = some l → r.last ≤ l)
    (hlf : LeafOK n ((e.line).getD r.last) lf)
    (hsok : StackOK (kinds st)) (hlt : lf = .none ∨ topIsList (kinds st) = false) : Inv n (r.emit e st lf) := by
  refine ⟨?_, ?_, hst, hlf, ?_, ?_, ?_, hsok, hlt⟩
  · show replay (e :: r.outRev).reverse = some (kinds st)
    simp only [List.reverse_cons, replay_snoc, h.bal, Option.bind_some, hs]
  · intro x hx
    rcases List.mem_cons.mp hx with rfl | hx
    · exact he
    · exact h.rng x hx
  · exact ⟨h.mono, fun l hlx => (h.bnd).mono (hl l hlx)⟩
  · intro x hx l hlx
    show l ≤ (e.line).getD r.last
    rcases List.mem_cons.mp hx with rfl | hx
    · simp [hlx]
    · cases hel : e.line with
      | none => simpa using h.bnd x hx l hlx
      | some l' => simpa using Nat.le_trans (h.bnd x hx l hlx) (hl l' hel)
  · show (e.line).getD r.last ≤ n
    cases hel : e.line with
    | none => simpa using h.lastLe
    | some l' =>
      simp only [Option.getD_some]
      cases e with
      | «open» k p => simp [Ev.line] at hel; subst hel; exact he.2.1
      | close k x => simp [Ev.line] at hel
      | leaf k p x pl => simp [Ev.line] at hel; subst hel; exact he.2.1

/-- leaf event with no effect on the stack, leaf buffer cleared. -/
def RawCore.emitLeaf (r : RawCore) (k : LeafKind) (p : Pos) (e : Nat) (pl : List PLine) : RawCore :=
  r.emit (.leaf k p e pl) r.stack .none

theorem Inv.emitLeaf {n : Nat} {r : RawCore} (h : Inv n r) (k : LeafKind) (p : Pos) (e : Nat) (pl : List PLine)
    (hp1 : 1 ≤ p.line) (hp2 : p.line ≤ n) (hc : 1 ≤ p.col) (he : e ≤ n) (hpl : ∀ l ∈ pl, LineOK n l)
    (hl : r.last ≤ p.line) (htop : topIsList (kinds r.stack) = false) : Inv n (r.emitLeaf k p e pl) :=
  h.emit _ _ _ (by simp [stepEv, htop]) h.stk ⟨hp1, hp2, hc, he, hpl⟩
    (by intro l hlx; simp [Ev.line] at hlx; subst hlx; exact hl) trivial h.sok (Or.inl rfl)

theorem lastLineOf_le {n : Nat} (ls : List PLine) (d : Nat) (hd : d ≤ n) (h : ∀ l ∈ ls, LineOK n l) :
    lastLineOf ls d ≤ n := by
  cases ls with
  | nil => exact hd
  | cons a t => exact (h a (List.mem_cons_self)).2

/-- peel link reference definitions off the front of paragraph lines (`ls` chronological), emitting one
    `lrd` leaf per definition; returns the remaining lines.  Fuel = number of lines (a definition
    covers at least one line, so the fuel is never exhausted before the lines are). -/
def peelEmit : Nat → RawCore → List PLine → RawCore × List PLine
  | 0, r, ls => (r, ls)
  | fuel + 1, r, ls =>
    match ls with
    | [] => (r, [])
    | l0 :: tl =>
      if l0.text.head? != some '[' then (r, l0 :: tl) else
      let s := joinLines ((l0 :: tl).map (·.text))
      match parseLRD s with
      | none => (r, l0 :: tl)
      | some (lab, dest, title, nchars) =>
        let k := linesCovered s nchars
        let grp := (l0 :: tl).take k
        peelEmit fuel (r.emitLeaf (.lrd lab dest title) ⟨l0.line, l0.col0 + 1⟩ (lastLineOf grp.reverse l0.line) grp)
          ((l0 :: tl).drop k)

theorem peelEmit_inv {n : Nat} : ∀ (fuel : Nat) (r : RawCore) (ls : List PLine),
    Inv n r → r.leaf = .none → (∀ l ∈ ls, LineOK n l ∧ r.last ≤ l.line) → Chron ls →
    topIsList (kinds r.stack) = false →
    Inv n (peelEmit fuel r ls).1 ∧ (peelEmit fuel r ls).1.leaf = .none ∧
    (peelEmit fuel r ls).1.stack = r.stack ∧
    (∀ l ∈ (peelEmit fuel r ls).2, LineOK n l ∧ (peelEmit fuel r ls).1.last ≤ l.line)
  | 0, r, ls, h, hn, hls, _, _ => ⟨h, hn, rfl, hls⟩
  | fuel + 1, r, ls, h, hn, hls, hc, htop => by
    unfold peelEmit
    split
    · exact ⟨h, hn, rfl, by simp⟩
    · next l0 tl =>
      split
      · exact ⟨h, hn, rfl, hls⟩
      · simp only
        split
        · exact ⟨h, hn, rfl, hls⟩
        · next lab dest title nchars _ =>
          have h0 := hls l0 List.mem_cons_self
          have hsub : ∀ k, ∀ l ∈ (l0 :: tl).take k, LineOK n l :=
            fun k l hl => (hls l (List.mem_of_mem_take hl)).1
          have hge : ∀ l ∈ l0 :: tl, l0.line ≤ l.line := by
            intro l hl
            rcases List.mem_cons.mp hl with rfl | hl
            · exact Nat.le_refl _
            · exact (List.pairwise_cons.mp hc).1 l hl
          have hinv := h.emitLeaf (.lrd lab dest title) ⟨l0.line, l0.col0 + 1⟩
            (lastLineOf ((l0 :: tl).take (linesCovered (joinLines ((l0 :: tl).map (·.text))) nchars)).reverse l0.line)
            ((l0 :: tl).take (linesCovered (joinLines ((l0 :: tl).map (·.text))) nchars))
            h0.1.1 h0.1.2 (by simp) (lastLineOf_le _ _ h0.1.2 (fun l hl => hsub _ l (List.mem_reverse.mp hl)))
            (hsub _) h0.2 htop
          have ih := peelEmit_inv fuel _ ((l0 :: tl).drop (linesCovered (joinLines ((l0 :: tl).map (·.text))) nchars))
            hinv rfl
            (fun l hl => ⟨(hls l (List.mem_of_mem_drop hl)).1, by
              show l0.line ≤ l.line
              exact hge l (List.mem_of_mem_drop hl)⟩)
            (hc.sublist (List.drop_sublist _ _)) htop
          exact ⟨ih.1, ih.2.1, ih.2.2.1, ih.2.2.2⟩

/-- close the buffered leaf.  `fenceEnd` = end line of a fenced block closed by its fence;
    `setext` = (level, underline's line): the paragraph becomes a setext heading (if text remains). -/
def RawCore.closeLeaf (r : RawCore) (fenceEnd : Option Nat) (setext : Option (Nat × Nat)) : RawCore :=
  match r.leaf with
  | .none => r
  | .para ls =>
    let (r1, rest) := peelEmit ls.length { r with leaf := .none } ls.reverse
    match rest with
    | [] => r1
    | p0 :: _ =>
      match setext with
      | some (lvl, e) => r1.emitLeaf (.heading lvl true) ⟨p0.line, p0.col0 + 1⟩ e rest
      | none => r1.emitLeaf .para ⟨p0.line, p0.col0 + 1⟩ (lastLineOf ls p0.line) rest
  | .fenced pos _ _ _ info ls =>
    r.emitLeaf (.fenced info) pos (fenceEnd.getD (lastLineOf ls pos.line)) ls.reverse
  | .indented pos ls _ => r.emitLeaf .indented pos (lastLineOf ls pos.line) ls.reverse
  | .html pos _ ls => r.emitLeaf .html pos (lastLineOf ls pos.line) ls.reverse

theorem Inv.clearLeaf {n : Nat} {r : RawCore} (h : Inv n r) : Inv n { r with leaf := .none } :=
  ⟨h.bal, h.rng, h.stk, trivial, h.mono, h.bnd, h.lastLe, h.sok, Or.inl rfl⟩

theorem Inv.closeLeaf {n : Nat} {r : RawCore} (h : Inv n r) (fe : Option Nat) (sx : Option (Nat × Nat))
    (hfe : ∀ e, fe = some e → e ≤ n) (hsx : ∀ l e, sx = some (l, e) → e ≤ n) :
    Inv n (r.closeLeaf fe sx) ∧ (r.closeLeaf fe sx).leaf = .none ∧ (r.closeLeaf fe sx).stack = r.stack := by
  unfold RawCore.closeLeaf
  split
  · next hlf => exact ⟨h, hlf, rfl⟩
  · next ls hlf =>
    have hL := h.lf
    rw [hlf] at hL
    have htop : topIsList (kinds r.stack) = false := by
      rcases h.ltop with hx | hx
      · rw [hlf] at hx; cases hx
      · exact hx
    have hp := peelEmit_inv (n := n) ls.length { r with leaf := .none } ls.reverse h.clearLeaf rfl
      (fun l hl => hL.1 l (List.mem_reverse.mp hl)) hL.2 htop
    have htop1 : ∀ r1 : RawCore, r1.stack = r.stack → topIsList (kinds r1.stack) = false := by
      intro r1 h1; rw [h1]; exact htop
    generalize peelEmit ls.length { r with leaf := .none } ls.reverse = res at hp
    obtain ⟨r1, rest⟩ := res
    simp only at hp ⊢
    split
    · exact ⟨hp.1, hp.2.1, hp.2.2.1⟩
    · next p0 tl =>
      have h0 := hp.2.2.2 p0 List.mem_cons_self
      split
      · next lvl e =>
        exact ⟨hp.1.emitLeaf _ _ _ _ h0.1.1 h0.1.2 (by simp) (hsx lvl e rfl) (fun l hl => (hp.2.2.2 l hl).1) h0.2
                 (htop1 _ hp.2.2.1),
               rfl, hp.2.2.1⟩
      · exact ⟨hp.1.emitLeaf _ _ _ _ h0.1.1 h0.1.2 (by simp)
                 (lastLineOf_le _ _ h0.1.2 (fun l hl => (hL.1 l hl).1)) (fun l hl => (hp.2.2.2 l hl).1) h0.2
                 (htop1 _ hp.2.2.1),
               rfl, hp.2.2.1⟩
  · next pos ch len ind info ls hlf =>
    have hL := h.lf
    rw [hlf] at hL
    have htop : topIsList (kinds r.stack) = false := by
      rcases h.ltop with hx | hx
      · rw [hlf] at hx; cases hx
      · exact hx
    refine ⟨h.emitLeaf _ _ _ _ hL.1 hL.2.1 hL.2.2.1 ?_ (fun l hl => hL.2.2.2.2 l (List.mem_reverse.mp hl)) hL.2.2.2.1
              htop, rfl, rfl⟩
    cases fe with
    | none => exact lastLineOf_le _ _ hL.2.1 hL.2.2.2.2
    | some e => exact hfe e rfl
  · next pos ls pend hlf =>
    have hL := h.lf
    rw [hlf] at hL
    have htop : topIsList (kinds r.stack) = false := by
      rcases h.ltop with hx | hx
      · rw [hlf] at hx; cases hx
      · exact hx
    exact ⟨h.emitLeaf _ _ _ _ hL.1 hL.2.1 hL.2.2.1 (lastLineOf_le _ _ hL.2.1 hL.2.2.2.2.1)
             (fun l hl => hL.2.2.2.2.1 l (List.mem_reverse.mp hl)) hL.2.2.2.1 htop, rfl, rfl⟩
  · next pos kind ls hlf =>
    have hL := h.lf
    rw [hlf] at hL
    have htop : topIsList (kinds r.stack) = false := by
      rcases h.ltop with hx | hx
      · rw [hlf] at hx; cases hx
      · exact hx
    exact ⟨h.emitLeaf _ _ _ _ hL.1 hL.2.1 hL.2.2.1 (lastLineOf_le _ _ hL.2.1 hL.2.2.2.2)
             (fun l hl => hL.2.2.2.2 l (List.mem_reverse.mp hl)) hL.2.2.2.1 htop, rfl, rfl⟩

/-- rewrite the `Meta` of every open container (index counted from the outermost). -/
def mapMetaGo (f : Nat → OpenC → Meta) : List OpenC → List OpenC
  | [] => []
  | o :: r => ⟨o.k, f r.length o⟩ :: mapMetaGo f r

theorem kinds_mapMetaGo (f : Nat → OpenC → Meta) : ∀ l, kinds (mapMetaGo f l) = kinds l
  | [] => rfl
  | o :: r => by
    have ih := kinds_mapMetaGo f r
    unfold kinds at *
    simp [mapMetaGo, ih]

theorem length_mapMetaGo (f : Nat → OpenC → Meta) : ∀ l, (mapMetaGo f l).length = l.length
  | [] => rfl
  | _ :: r => by simp [mapMetaGo, length_mapMetaGo f r]

theorem mapMetaGo_lastLine (f : Nat → OpenC → Meta) (n : Nat)
    (hf : ∀ i o, o.m.lastLine ≤ n → (f i o).lastLine ≤ n) :
    ∀ l : List OpenC, (∀ o ∈ l, o.m.lastLine ≤ n) → ∀ o ∈ mapMetaGo f l, o.m.lastLine ≤ n
  | [], _, o, ho => by simp [mapMetaGo] at ho
  | a :: r, h, o, ho => by
    simp only [mapMetaGo, List.mem_cons] at ho
    rcases ho with rfl | ho
    · exact hf _ _ (h a List.mem_cons_self)
    · exact mapMetaGo_lastLine f n hf r (fun o ho => h o (List.mem_cons_of_mem _ ho)) o ho

def RawCore.mapMeta (r : RawCore) (f : Nat → OpenC → Meta) : RawCore := { r with stack := mapMetaGo f r.stack }

theorem Inv.mapMeta {n : Nat} {r : RawCore} (h : Inv n r) (f : Nat → OpenC → Meta)
    (hf : ∀ i o, o.m.lastLine ≤ n → (f i o).lastLine ≤ n) : Inv n (r.mapMeta f) :=
  ⟨by show replay r.outRev.reverse = some (kinds (mapMetaGo f r.stack)); rw [kinds_mapMetaGo]; exact h.bal,
   h.rng, mapMetaGo_lastLine f n hf r.stack h.stk, h.lf, h.mono, h.bnd, h.lastLe,
   by show StackOK (kinds (mapMetaGo f r.stack)); rw [kinds_mapMetaGo]; exact h.sok,
   by show r.leaf = .none ∨ topIsList (kinds (mapMetaGo f r.stack)) = false; rw [kinds_mapMetaGo]; exact h.ltop⟩

/-- the innermost open container now has a child block. -/
def RawCore.markChild (r : RawCore) : RawCore :=
  r.mapMeta (fun i o => if i + 1 == r.stack.length then { o.m with hasChild := true } else o.m)

theorem Inv.markChild {n : Nat} {r : RawCore} (h : Inv n r) : Inv n r.markChild :=
  h.mapMeta _ (by intro i o ho; split <;> simpa using ho)

/-- a list whose item has been closed cannot take any other child: close it. -/
def RawCore.dropList (r : RawCore) : RawCore :=
  match r.stack with
  | t :: rest => if isListK t.k then r.emit (.close t.k t.m.lastLine) rest .none else r
  | [] => r

theorem Inv.dropList {n : Nat} {r : RawCore} (h : Inv n r) (hlf : r.leaf = .none) :
    Inv n r.dropList ∧ r.dropList.leaf = .none ∧ topIsList (kinds r.dropList.stack) = false := by
  unfold RawCore.dropList
  split
  · next t rest hst =>
    have hsok := h.sok
    rw [hst] at hsok
    split
    · next hl =>
      refine ⟨h.emit _ _ _ (by simp [stepEv, kinds, hst])
          (fun o ho => h.stk o (by rw [hst]; exact List.mem_cons_of_mem _ ho))
          (by show t.m.lastLine ≤ n; exact h.stk t (by rw [hst]; exact List.mem_cons_self))
          (by intro l hl; simp [Ev.line] at hl) trivial (by simpa [kinds] using hsok.tail) (Or.inl rfl), rfl, ?_⟩
      show topIsList (kinds rest) = false
      cases rest with
      | nil => rfl
      | cons b r' =>
        simp only [kinds, List.map_cons] at hsok
        simpa [kinds, topIsList] using hsok.1 hl
    · next hl =>
      refine ⟨h, hlf, ?_⟩
      rw [hst]
      simpa [kinds, topIsList] using hl
  · next hst =>
    refine ⟨h, hlf, ?_⟩
    rw [hst]; rfl

/-- close the buffered leaf and a dangling list, mark the innermost container as having a child:
    the state in which a quote, a list or a leaf may be added. -/
def RawCore.ready (r : RawCore) : RawCore := ((r.closeLeaf none none).dropList).markChild

theorem Inv.ready {n : Nat} {r : RawCore} (h : Inv n r) :
    Inv n r.ready ∧ r.ready.leaf = .none ∧ topIsList (kinds r.ready.stack) = false := by
  have h1 := h.closeLeaf none none (by simp) (by simp)
  have h2 := h1.1.dropList h1.2.1
  refine ⟨h2.1.markChild, h2.2.1, ?_⟩
  show topIsList (kinds (mapMetaGo _ _)) = false
  rw [kinds_mapMetaGo]
  exact h2.2.2

/-! ## the sink and its primitives -/
structure Core (n : Nat) where
  raw : RawCore
  inv : Inv n raw

namespace Core
variable {n : Nat}

def init : Core 0 :=
  ⟨⟨[], [], .none, 0⟩, ⟨by simp [replay, kinds], by simp, by simp, trivial, trivial, by simp [Bound], Nat.le_refl _,
    trivial, Or.inl rfl⟩⟩

/-- the empty sink of a document whose first line is numbered `k + 1` (`k` lines precede it and are
    not seen).  `init` is the case `k = 0`.  The ghost field `last` starts at `k`. -/
def initAt (k : Nat) : Core k :=
  ⟨⟨[], [], .none, k⟩, ⟨by simp [replay, kinds], by simp, by simp, trivial, trivial, by simp [Bound], Nat.le_refl _,
    trivial, Or.inl rfl⟩⟩

def stack (c : Core n) : List OpenC := c.raw.stack
def out (c : Core n) : List Ev := c.raw.outRev.reverse
def depth (c : Core n) : Nat := c.raw.stack.length
def leaf (c : Core n) : OpenLeaf := c.raw.leaf

/-- start reading the next line. -/
def nextLine (c : Core n) : Core (n + 1) :=
  ⟨c.raw, ⟨c.inv.bal, fun e he => (c.inv.rng e he).mono (Nat.le_succ n),
           fun o ho => Nat.le_succ_of_le (c.inv.stk o ho), c.inv.lf.mono (Nat.le_succ n),
           c.inv.mono, c.inv.bnd, Nat.le_succ_of_le c.inv.lastLe, c.inv.sok, c.inv.ltop⟩⟩

/-- skip `d` line numbers (lines that exist in the file but are not shown to the parser). -/
def skip (c : Core n) (d : Nat) : Core (n + d) := ⟨c.raw, c.inv.weaken (Nat.le_add_right n d)⟩

/-- close the buffered leaf (no-op if there is none). -/
def closeLeaf (c : Core n) : Core n :=
  ⟨c.raw.closeLeaf none none, (c.inv.closeLeaf none none (by simp) (by simp)).1⟩

/-- close a fenced code block by its closing fence on the current line. -/
def closeFence (c : Core (n + 1)) : Core (n + 1) :=
  ⟨c.raw.closeLeaf (some (n + 1)) none,
   (c.inv.closeLeaf _ none (by intro e he; simp at he; omega) (by simp)).1⟩

/-- the buffered paragraph becomes a setext heading underlined on the current line; if only link
    reference definitions were buffered they are emitted and the buffer is left empty. -/
def closeSetext (c : Core (n + 1)) (lvl : Nat) : Core (n + 1) :=
  ⟨c.raw.closeLeaf none (some (lvl, n + 1)),
   (c.inv.closeLeaf none _ (by simp) (by intro l e he; simp at he; omega)).1⟩

/-- is the newest event a setext heading?  (After `closeSetext` this says whether text remained: the
    heading is then the newest event, otherwise the newest event is a link reference definition.) -/
def lastIsSetextHeading (c : Core n) : Bool :=
  match c.raw.outRev with
  | .leaf (.heading _ true) _ _ _ :: _ => true
  | _ => false

theorem stepEv_open_nonitem {st : List Kind} {k : Kind} {p : Pos} (hk : isItemK k = false)
    (ht : topIsList st = false) : stepEv st (.open k p) = some (k :: st) := by simp [stepEv, hk, ht]

theorem stepEv_open_item {st : List Kind} {p : Pos} (ht : topIsList st = true) :
    stepEv st (.open .item p) = some (.item :: st) := by simp [stepEv, isItemK, ht]

theorem evOK_open (k : Kind) (col0 : Nat) : EvOK (n + 1) (.open k ⟨n + 1, col0 + 1⟩) :=
  ⟨by simp, by simp, by simp⟩

/-- open a block quote at the current line, 0-based column `col0` (a dangling list is closed first). -/
def pushQuote (c : Core (n + 1)) (col0 : Nat) : Core (n + 1) :=
  have hr := c.inv.ready
  ⟨c.raw.ready.emit (.open .quote ⟨n + 1, col0 + 1⟩) (⟨.quote, { lastLine := n + 1 }⟩ :: c.raw.ready.stack) .none,
   hr.1.emit _ _ _ (stepEv_open_nonitem rfl hr.2.2)
     (by intro o ho
         rcases List.mem_cons.mp ho with rfl | ho
         · exact Nat.le_refl _
         · exact hr.1.stk o ho)
     (evOK_open _ _)
     (by intro l hl; simp [Ev.line] at hl; subst hl; exact hr.1.lastLe) trivial
     (by simpa [kinds] using hr.1.sok.push (k := .quote) (by simp [isListK]))
     (Or.inl rfl)⟩

/-- does the innermost open container continue a list of this type? -/
def sameListTop (st : List OpenC) (ord : Bool) (delim : Char) : Bool :=
  match st with
  | top :: _ =>
    (match top.k with
     | .list o d _ => o == ord && d == delim
     | _ => false)
  | [] => false

theorem sameListTop_isList {st : List OpenC} {ord : Bool} {delim : Char} (h : sameListTop st ord delim = true) :
    topIsList (kinds st) = true := by
  unfold sameListTop at h
  split at h
  · next top rest =>
    split at h
    · next o d s hk => simp [kinds, topIsList, hk, isListK]
    · simp at h
  · simp at h

/-- open a list item at the current line.  If the innermost open container is a list of the same type
    the item joins it; otherwise a new list is opened first (after closing a dangling list). -/
def pushItem (c : Core (n + 1)) (ord : Bool) (delim : Char) (start : Nat) (col0 : Nat) (m : Meta) : Core (n + 1) :=
  let h1 := c.inv.closeLeaf none none (by simp) (by simp)
  let r0 := c.raw.closeLeaf none none
  if hsame : sameListTop r0.stack ord delim then
    ⟨r0.emit (.open .item ⟨n + 1, col0 + 1⟩) (⟨.item, { m with lastLine := n + 1 }⟩ :: r0.stack) .none,
     h1.1.emit _ _ _ (stepEv_open_item (sameListTop_isList hsame))
       (by intro o ho
           rcases List.mem_cons.mp ho with rfl | ho
           · exact Nat.le_refl _
           · exact h1.1.stk o ho)
       (evOK_open _ _)
       (by intro l hl; simp [Ev.line] at hl; subst hl; exact h1.1.lastLe) trivial
       (by simpa [kinds] using h1.1.sok.push (k := .item) (by simp [isListK]))
       (Or.inl rfl)⟩
  else
    have hr := c.inv.ready
    let lk : Kind := .list ord delim start
    let r2 := c.raw.ready.emit (.open lk ⟨n + 1, col0 + 1⟩) (⟨lk, { lastLine := n + 1 }⟩ :: c.raw.ready.stack) .none
    have h2 : Inv (n + 1) r2 :=
      hr.1.emit _ _ _ (stepEv_open_nonitem rfl hr.2.2)
        (by intro o ho
            rcases List.mem_cons.mp ho with rfl | ho
            · exact Nat.le_refl _
            · exact hr.1.stk o ho)
        (evOK_open _ _)
        (by intro l hl; simp [Ev.line] at hl; subst hl; exact hr.1.lastLe) trivial
        (by simpa [kinds] using hr.1.sok.push (k := lk) (fun _ => hr.2.2))
        (Or.inl rfl)
    ⟨r2.emit (.open .item ⟨n + 1, col0 + 1⟩) (⟨.item, { m with lastLine := n + 1 }⟩ :: r2.stack) .none,
     h2.emit _ _ _ (stepEv_open_item (by rfl))
       (by intro o ho
           rcases List.mem_cons.mp ho with rfl | ho
           · exact Nat.le_refl _
           · exact h2.stk o ho)
       (evOK_open _ _)
       (by intro l hl; simp [Ev.line] at hl; subst hl; exact h2.lastLe) trivial
       (by simpa [kinds] using h2.sok.push (k := .item) (by simp [isListK]))
       (Or.inl rfl)⟩

/-- close the innermost container (no-op on the empty stack). -/
def popC (c : Core n) : Core n :=
  let h1 := c.inv.closeLeaf none none (by simp) (by simp)
  match hst : (c.raw.closeLeaf none none).stack with
  | [] => ⟨c.raw.closeLeaf none none, h1.1⟩
  | t :: rest =>
    ⟨(c.raw.closeLeaf none none).emit (.close t.k t.m.lastLine) rest .none,
     h1.1.emit _ _ _ (by simp [stepEv, kinds, hst])
       (by intro o ho; exact h1.1.stk o (by rw [hst]; exact List.mem_cons_of_mem _ ho))
       (by show t.m.lastLine ≤ n; exact h1.1.stk t (by rw [hst]; exact List.mem_cons_self))
       (by intro l hl; simp [Ev.line] at hl) trivial
       (by have := h1.1.sok; rw [hst] at this; simpa [kinds] using this.tail)
       (Or.inl rfl)⟩

/-- a leaf block that occupies exactly the current line (ATX heading, thematic break). -/
def emitLeaf (c : Core (n + 1)) (k : LeafKind) (col0 : Nat) (payload : List (Nat × List Char)) : Core (n + 1) :=
  have hr := c.inv.ready
  ⟨c.raw.ready.emitLeaf k ⟨n + 1, col0 + 1⟩ (n + 1) (payload.map fun (c0, t) => ⟨n + 1, c0, t⟩),
   hr.1.emitLeaf _ _ _ _ (by simp) (by simp) (by simp) (Nat.le_refl _)
     (by intro l hl
         simp only [List.mem_map] at hl
         obtain ⟨a, _, rfl⟩ := hl
         exact ⟨by simp, by simp⟩)
     hr.1.lastLe hr.2.2⟩

/-- helper: install a fresh leaf buffer after closing the old one (and a dangling list). -/
def startWith (c : Core (n + 1)) (lf : OpenLeaf)
    (hlf : ∀ last, last ≤ n + 1 → LeafOK (n + 1) last lf) : Core (n + 1) :=
  have hr := c.inv.ready
  ⟨{ c.raw.ready with leaf := lf },
   ⟨hr.1.bal, hr.1.rng, hr.1.stk, hlf _ hr.1.lastLe, hr.1.mono, hr.1.bnd, hr.1.lastLe, hr.1.sok, Or.inr hr.2.2⟩⟩

/-- start a paragraph with the text of the current line. -/
def startPara (c : Core (n + 1)) (col0 : Nat) (text : List Char) : Core (n + 1) :=
  c.startWith (.para [⟨n + 1, col0, text⟩]) (by
    intro last hl
    refine ⟨?_, by simp [Chron]⟩
    intro l hm
    simp only [List.mem_singleton] at hm
    subst hm
    exact ⟨⟨by simp, by simp⟩, hl⟩)

def startFenced (c : Core (n + 1)) (col0 : Nat) (ch : Char) (len ind : Nat) (info : List Char) : Core (n + 1) :=
  c.startWith (.fenced ⟨n + 1, col0 + 1⟩ ch len ind info []) (by
    intro last hl; exact ⟨by simp, by simp, by simp, hl, by simp⟩)

def startIndented (c : Core (n + 1)) (col0 : Nat) (tcol0 : Nat) (text : List Char) : Core (n + 1) :=
  c.startWith (.indented ⟨n + 1, col0 + 1⟩ [⟨n + 1, tcol0, text⟩] []) (by
    intro last hl
    refine ⟨by simp, by simp, by simp, hl, ?_, by simp⟩
    intro l hm
    simp only [List.mem_singleton] at hm
    subst hm
    exact ⟨by simp, by simp⟩)

def startHtml (c : Core (n + 1)) (col0 : Nat) (kind : Nat) (text : List Char) : Core (n + 1) :=
  c.startWith (.html ⟨n + 1, col0 + 1⟩ kind [⟨n + 1, col0, text⟩]) (by
    intro last hl
    refine ⟨by simp, by simp, by simp, hl, ?_⟩
    intro l hm
    simp only [List.mem_singleton] at hm
    subst hm
    exact ⟨by simp, by simp⟩)

theorem lineOK_cur (c0 : Nat) (t : List Char) : LineOK (n + 1) ⟨n + 1, c0, t⟩ := ⟨by simp, by simp⟩

/-- replace the leaf buffer by one that satisfies the leaf invariant; nothing else changes. -/
def setLeaf (c : Core n) (lf : OpenLeaf) (h : LeafOK n c.raw.last lf) (hne : c.raw.leaf = .none → lf = .none) :
    Core n :=
  ⟨{ c.raw with leaf := lf },
   ⟨c.inv.bal, c.inv.rng, c.inv.stk, h, c.inv.mono, c.inv.bnd, c.inv.lastLe, c.inv.sok, by
      rcases c.inv.ltop with hx | hx
      · exact Or.inl (hne hx)
      · exact Or.inr hx⟩⟩

/-- add the current line's text to the buffered leaf (no-op without one). -/
def addLine (c : Core (n + 1)) (col0 : Nat) (text : List Char) : Core (n + 1) :=
  let p : PLine := ⟨n + 1, col0, text⟩
  match hlf : c.raw.leaf with
  | .none => c
  | .para ls =>
    c.setLeaf (.para (p :: ls)) (by
      have hL := c.inv.lf
      rw [hlf] at hL
      refine ⟨?_, ?_⟩
      · intro l hm
        rcases List.mem_cons.mp hm with rfl | hm
        · exact ⟨lineOK_cur _ _, c.inv.lastLe⟩
        · exact hL.1 l hm
      · show Chron (p :: ls).reverse
        simp only [List.reverse_cons, Chron, List.pairwise_append]
        refine ⟨hL.2, by simp, ?_⟩
        intro a ha b hb
        simp only [List.mem_singleton] at hb
        subst hb
        exact (hL.1 a (List.mem_reverse.mp ha)).1.2) (by intro hx; rw [hlf] at hx; cases hx)
  | .fenced pos ch len ind info ls =>
    c.setLeaf (.fenced pos ch len ind info (p :: ls)) (by
      have hL := c.inv.lf
      rw [hlf] at hL
      refine ⟨hL.1, hL.2.1, hL.2.2.1, hL.2.2.2.1, ?_⟩
      intro l hm
      rcases List.mem_cons.mp hm with rfl | hm
      · exact lineOK_cur _ _
      · exact hL.2.2.2.2 l hm) (by intro hx; rw [hlf] at hx; cases hx)
  | .indented pos ls pend =>
    c.setLeaf (.indented pos (p :: (pend ++ ls)) []) (by
      have hL := c.inv.lf
      rw [hlf] at hL
      refine ⟨hL.1, hL.2.1, hL.2.2.1, hL.2.2.2.1, ?_, by simp⟩
      intro l hm
      rcases List.mem_cons.mp hm with rfl | hm
      · exact lineOK_cur _ _
      · rcases List.mem_append.mp hm with hm | hm
        · exact hL.2.2.2.2.2 l hm
        · exact hL.2.2.2.2.1 l hm) (by intro hx; rw [hlf] at hx; cases hx)
  | .html pos kind ls =>
    c.setLeaf (.html pos kind (p :: ls)) (by
      have hL := c.inv.lf
      rw [hlf] at hL
      refine ⟨hL.1, hL.2.1, hL.2.2.1, hL.2.2.2.1, ?_⟩
      intro l hm
      rcases List.mem_cons.mp hm with rfl | hm
      · exact lineOK_cur _ _
      · exact hL.2.2.2.2 l hm) (by intro hx; rw [hlf] at hx; cases hx)

/-- a blank line inside an indented code block: kept pending until a non-blank line follows. -/
def addPending (c : Core (n + 1)) (col0 : Nat) (text : List Char) : Core (n + 1) :=
  let p : PLine := ⟨n + 1, col0, text⟩
  match hlf : c.raw.leaf with
  | .indented pos ls pend =>
    c.setLeaf (.indented pos ls (p :: pend)) (by
      have hL := c.inv.lf
      rw [hlf] at hL
      refine ⟨hL.1, hL.2.1, hL.2.2.1, hL.2.2.2.1, hL.2.2.2.2.1, ?_⟩
      intro l hm
      rcases List.mem_cons.mp hm with rfl | hm
      · exact lineOK_cur _ _
      · exact hL.2.2.2.2.2 l hm) (by intro hx; rw [hlf] at hx; cases hx)
  | _ => c

/-- the outermost `k` containers own the current line. -/
def touch (c : Core (n + 1)) (k : Nat) : Core (n + 1) :=
  ⟨c.raw.mapMeta (fun i o => if i < k then { o.m with lastLine := n + 1 } else o.m),
   c.inv.mapMeta _ (by intro i o ho; split <;> simp [ho])⟩

def touchAll (c : Core (n + 1)) : Core (n + 1) := c.touch c.depth

end Core

end Verif.Model.LeanMark
