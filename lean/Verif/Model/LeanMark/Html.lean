/-
  LeanMark — Html.lean: HTML renderer (as the spec's reference implementations render), the
  tight/loose decision (spec §5.3: a list is loose iff two of its items, or two block children of one
  of its items, are separated by a blank line — decided over the event stream by line gaps), escaping,
  URL percent-encoding, and `InScope`.  All recursion structural on the event list.
-/
import Verif.Model.LeanMark.Inline
namespace Verif.Model.LeanMark

/-! ## escaping -/
def escHtml (s : List Char) : List Char :=
  s.flatMap (fun c => match c with
    | '<' => "&lt;".toList | '>' => "&gt;".toList | '&' => "&amp;".toList | '"' => "&quot;".toList
    | c => [c])

def hexUpper (n : Nat) : Char := if n < 10 then Char.ofNat (48 + n) else Char.ofNat (55 + n)
def pctByte (b : Nat) : List Char := ['%', hexUpper (b / 16), hexUpper (b % 16)]

def utf8Bytes (c : Char) : List Nat :=
  let n := c.toNat
  if n < 0x80 then [n]
  else if n < 0x800 then [0xC0 + n / 64, 0x80 + n % 64]
  else if n < 0x10000 then [0xE0 + n / 4096, 0x80 + (n / 64) % 64, 0x80 + n % 64]
  else [0xF0 + n / 262144, 0x80 + (n / 4096) % 64, 0x80 + (n / 64) % 64, 0x80 + n % 64]

def isUrlSafe (c : Char) : Bool := isAlnum c || ";/?:@&=+$,-_.!~*'()#".toList.contains c

/-- percent-encode a link destination; an existing `%XX` is kept. -/
def escHref : List Char → List Char
  | [] => []
  | c :: r =>
    if c == '%' then
      match r with
      | a :: b :: _ => if isHexDigit a && isHexDigit b then c :: escHref r else "%25".toList ++ escHref r
      | _ => "%25".toList ++ escHref r
    else if isUrlSafe c then c :: escHref r
    else (utf8Bytes c).flatMap pctByte ++ escHref r

/-! ## tight / loose -/
structure LFrame where
  isList : Bool
  isItem : Bool
  id : Nat
  prevEnd : Option Nat
  loose : Bool
  pend : Bool := false   -- the last child is known to be followed by a blank line

def gapBefore (f : LFrame) (line : Nat) : Bool :=
  (f.isList || f.isItem) &&
  (f.pend || match f.prevEnd with
    | some e => line > e + 1
    | none => false)

/-- a child starting at `line` is added to the innermost frame. -/
def noteChild (st : List LFrame) (line : Nat) : List LFrame :=
  match st with
  | f :: rest =>
    if gapBefore f line then
      if f.isList then { f with loose := true } :: rest
      else match rest with
        | l :: rest' => f :: { l with loose := true } :: rest'
        | [] => st
    else st
  | [] => st

def setPrevEnd (st : List LFrame) (e : Nat) : List LFrame :=
  match st with
  | f :: rest => { f with prevEnd := some e, pend := false } :: rest
  | [] => []

/-- a link reference definition is not a block of the document tree: a blank line before it still
    separates the previous block from whatever follows, a blank line after it separates nothing. -/
def noteLrd (st : List LFrame) (line : Nat) : List LFrame :=
  match st with
  | f :: rest => { f with pend := gapBefore f line, prevEnd := none } :: rest
  | [] => []

/-- an item that ends with a blank line passes that fact to its list. -/
def closeFrame (f : LFrame) (rest : List LFrame) (e : Nat) : List LFrame :=
  match setPrevEnd rest e with
  | l :: rest' => { l with pend := f.isItem && f.pend } :: rest'
  | [] => []

/-- looseness of every list, keyed by the ordinal of its `open` event. -/
def looseness : List Ev → List LFrame → Nat → List (Nat × Bool)
  | [], _, _ => []
  | .open k pos :: es, st, next =>
    let st := noteChild st pos.line
    match k with
    | .list .. => looseness es (⟨true, false, next, none, false, false⟩ :: st) (next + 1)
    | .item => looseness es (⟨false, true, 0, none, false, false⟩ :: st) next
    | .quote => looseness es (⟨false, false, 0, none, false, false⟩ :: st) next
  | .close _ e :: es, st, next =>
    match st with
    | f :: rest => (if f.isList then [(f.id, f.loose)] else []) ++ looseness es (closeFrame f rest e) next
    | [] => looseness es [] next
  | .leaf k pos e _ :: es, st, next =>
    match k with
    | .lrd .. => looseness es (noteLrd st pos.line) next
    | _ => looseness es (setPrevEnd (noteChild st pos.line) e) next

/-! ## inline rendering -/
structure ROut where
  rev : List Char
  img : Nat                       -- image nesting depth (alt text mode)
  imgTitle : Option (List Char)

def ROut.lit (o : ROut) (s : List Char) : ROut := { o with rev := s.reverse ++ o.rev }
def ROut.str (o : ROut) (s : String) : ROut := o.lit s.toList
def ROut.cr (o : ROut) : ROut :=
  match o.rev with
  | [] => o
  | c :: _ => if c == '\n' then o else { o with rev := '\n' :: o.rev }

/-- an HTML attribute ` name="value"`; the value is escaped.  Every attribute the renderer writes — `href`,
    `src`, `title`, `class`, `start` — is written through this function; the only other attribute, `alt`, is
    written piecewise while an image description is rendered (`ROut.img > 0`), every piece escaped. -/
def attr (name : String) (value : List Char) : List Char :=
  ' ' :: name.toList ++ "=\"".toList ++ escHtml value ++ ['"']

def titleAttr (t : Option (List Char)) : List Char :=
  match t with
  | some t => attr "title" t
  | none => []

def renderInline (o : ROut) : IEv → ROut
  | .text s _ => o.lit (escHtml s)
  | .softbreak _ => o.lit ['\n']
  | .hardbreak _ => if o.img > 0 then o.cr else o.str "<br />\n"
  | .code s _ => if o.img > 0 then o.lit (escHtml s) else ((o.str "<code>").lit (escHtml s)).str "</code>"
  | .rawHtml s _ => if o.img > 0 then o.lit (escHtml s) else o.lit s
  | .autolink d t _ =>
    if o.img > 0 then o.lit (escHtml t)
    else ((((o.str "<a").lit (attr "href" (escHref d))).str ">").lit (escHtml t)).str "</a>"
  | .openEmph _ => if o.img > 0 then o else o.str "<em>"
  | .closeEmph => if o.img > 0 then o else o.str "</em>"
  | .openStrong _ => if o.img > 0 then o else o.str "<strong>"
  | .closeStrong => if o.img > 0 then o else o.str "</strong>"
  | .openLink d t _ =>
    if o.img > 0 then o
    else (((o.str "<a").lit (attr "href" (escHref d))).lit (titleAttr t)).str ">"
  | .closeLink => if o.img > 0 then o else o.str "</a>"
  | .openImage d t _ =>
    if o.img > 0 then { o with img := o.img + 1 }
    else { ((o.str "<img").lit (attr "src" (escHref d))).str " alt=\"" with img := 1, imgTitle := t }
  | .closeImage =>
    if o.img > 1 then { o with img := o.img - 1 }
    else if o.img == 1 then { ((o.str "\"").lit (titleAttr o.imgTitle)).str " />" with img := 0, imgTitle := none }
    else o

def renderInlines (o : ROut) (es : List IEv) : ROut := es.foldl renderInline o

/-! ## block rendering -/
structure RFrame where
  tightItem : Bool     -- an item of a tight list
  listTight : Bool     -- a tight list

def codeLines (ls : List PLine) : List Char := ls.flatMap (fun l => escHtml l.text ++ ['\n'])

def renderBlocks (refs : RefMap) (loose : List (Nat × Bool)) : List Ev → List RFrame → Nat → ROut → ROut
  | [], _, _, o => o
  | .open k _ :: es, st, next, o =>
    match k with
    | .quote => renderBlocks refs loose es (⟨false, false⟩ :: st) next ((o.cr.str "<blockquote>").cr)
    | .list ord _ start =>
      let tight := !((loose.lookup next).getD false)
      let o := o.cr
      let o := if ord then
          (if start == 1 then o.str "<ol>" else ((o.str "<ol").lit (attr "start" (natChars start))).str ">")
        else o.str "<ul>"
      renderBlocks refs loose es (⟨false, tight⟩ :: st) (next + 1) o.cr
    | .item =>
      let tight := match st with | f :: _ => f.listTight | [] => false
      renderBlocks refs loose es (⟨tight, false⟩ :: st) next (o.str "<li>")
  | .close k _ :: es, st, next, o =>
    let st' := st.drop 1
    match k with
    | .quote => renderBlocks refs loose es st' next ((o.cr.str "</blockquote>").cr)
    | .list ord _ _ => renderBlocks refs loose es st' next ((o.cr.str (if ord then "</ol>" else "</ul>")).cr)
    | .item => renderBlocks refs loose es st' next ((o.str "</li>").cr)
  | .leaf k _ _ payload :: es, st, next, o =>
    let inTight := match st with | f :: _ => f.tightItem | [] => false
    let o := match k with
      | .para =>
        if inTight then renderInlines o (parseInlines refs payload)
        else ((renderInlines (o.cr.str "<p>") (parseInlines refs payload)).str "</p>").cr
      | .heading lvl _ =>
        let o := ((o.cr.str "<h").lit (natChars lvl)).str ">"
        (((renderInlines o (parseInlines refs payload)).str "</h").lit (natChars lvl)).str ">" |>.cr
      | .tbreak => (o.cr.str "<hr />").cr
      | .fenced info =>
        let word := (unescape info).takeWhile (fun c => !isWsChar c)
        let o := o.cr.str "<pre><code"
        let o := if word.isEmpty then o else o.lit (attr "class" ("language-".toList ++ word))
        (((o.str ">").lit (codeLines payload)).str "</code></pre>").cr
      | .indented => ((o.cr.str "<pre><code>").lit (codeLines payload)).str "</code></pre>" |>.cr
      | .html => (o.cr.lit (joinLines (payload.map (·.text)))).cr
      | .lrd .. => o
    renderBlocks refs loose es st next o

def renderDoc (evs : List Ev) : List Char :=
  let refs := refMapOf evs
  let loose := looseness evs [] 0
  (renderBlocks refs loose evs [] 0 ⟨[], 0, none⟩).rev.reverse

/-- HTML of a document under a reading of the specification. -/
def htmlR (rd : Reading) (doc : List Char) : List Char := renderDoc (eventsR rd (docLines doc))

/-- HTML of a document. -/
def html (doc : List Char) : List Char := htmlR {} doc

/-! ## scope of the current stage -/
/-- characters for which the model's tables (white space, punctuation, case folding) are exact
    and which pymarkdown does not reserve for its own in-band markers. -/
def charInScope (c : Char) : Bool :=
  let n := c.toNat
  c == '\n' || c == '\t' || (0x20 ≤ n && n ≤ 0x7E) ||
  (0xA0 ≤ n && n ≤ 0xFF) ||                                         -- Latin-1
  (0x391 ≤ n && n ≤ 0x3A9 && n != 0x3A2) || (0x3B1 ≤ n && n ≤ 0x3C9) ||   -- basic Greek letters
  (0x400 ≤ n && n ≤ 0x45F) ||                                       -- basic Cyrillic letters
  (0x2000 ≤ n && n ≤ 0x206F) ||                                     -- general punctuation, spaces
  n == 0x1E9E || n == 0x2122 ||                                     -- ẞ, ™
  (0x20A0 ≤ n && n ≤ 0x20BF) || (0x2190 ≤ n && n ≤ 0x21FF)          -- currency signs, arrows

/-- Stage 2 = every block and inline construct of CommonMark (0.29 wording where 0.29 and 0.31 differ:
    closing fence followed by spaces only, HTML block condition 4 needs an upper-case letter, 0.29 block
    tag list, 0.29 HTML comment rule, punctuation = Unicode P* categories), extensions off.
    Nothing structural is excluded; a document is in scope iff every character is. -/
def InScope (doc : List Char) : Bool := doc.all charInScope

end Verif.Model.LeanMark
