import Verif.Model.Recognisers
/-
  Faithful model of block-quote marker counting (core Lean only).

  Source: pymarkdown/block_quotes/block_quote_count_helper.py
    count_block_quote_starts (l.58-146), __handle_bq_whitespace (l.148-152), __xx (l.154-185), __should_continue_processing (l.189-272),
    __xx_part_one (l.274-305), __xx_part_two (l.307-362), __is_special_double_block_case (l.364-409),
    __find_double_block_case_index (l.411-426); is_block_quote_start is `Recognisers.isBlockQuoteStart`.

  `Recognisers.countBqStarts` is the special case `stack_count = 0`, nothing open.  Here the function is modelled for an arbitrary
  `block_quote_data.stack_count`, both flags, and an arbitrary token stack summarised by what the function asks of each stack token
  (`is_block_quote`, `is_list` + `indent_level`, `is_fenced_code_block`).  The branches that need a list on the stack
  (`__xx_part_two`, reached when the token after the counted block quote is not a block quote) are marked **[list branch]**.

  Python integers that can be `-1` (`last_block_quote_index`, `start_index` after the early exit) are `Int`.
  The `while True` loop is a recursion on fuel; `countBqStarts` supplies `len(line) + 2`, proved sufficient whenever the loop ends at
  all (Props/BqCount.lean: `loop_fuel_mono`, `count_never_fuel`); outside the line (`start_index >= len(line)`) the Python loop does
  not end, and the model answers `Err.diverges` (`count_diverges`).
  The one side effect, `weird_kludge_seven = True` on the markdown token of a stack entry, is returned as the list of stack indices.
-/
namespace Verif.Model.BqCount
open Verif.Model.Recognisers

/-- a stack token, by what `count_block_quote_starts` asks of it -/
inductive STok where
  | doc
  | bq
  | list (indent : Nat)     -- ListStackToken.indent_level
  | fenced
  | html
  | other                   -- paragraph, indented code, link definition, …
  deriving Repr, DecidableEq

def STok.isBq : STok → Bool | .bq => true | _ => false
def STok.isList : STok → Bool | .list _ => true | _ => false
def STok.isFenced : STok → Bool | .fenced => true | _ => false

/-- what the function reads besides the line -/
structure Cfg where
  stack : List STok          -- parser_state.token_stack, bottom (document) first
  stackCount : Nat           -- block_quote_data.stack_count
  curIn : Nat                -- block_quote_data.current_count (only returned, by the early exit)
  fenced : Bool              -- is_top_of_stack_fenced_code_block
  html : Bool                -- is_top_of_stack_is_html_block
  orig : Str                 -- parser_state.original_line_to_parse (read by the list branches)
  deriving Repr, DecidableEq

structure St where
  start : Nat
  cur : Nat
  last : Int
  avoid : Bool
  k7 : List Nat              -- stack indices whose markdown token got `weird_kludge_seven = True`
  deriving Repr, DecidableEq

structure Result where
  count : Nat                -- BlockQuoteData.current_count
  start : Int                -- start_index
  last : Int                 -- last_block_quote_index
  avoid : Bool               -- avoid_block_starts
  k7 : List Nat
  deriving Repr, DecidableEq

/-- index of the first `>` of a string -/
def idxGt : Str → Option Nat
  | [] => none
  | c :: r => if c == '>' then some 0 else (idxGt r).map (· + 1)

/-- `line.find(">", start)` (`start <= len(line)`) -/
def findGt (s : Str) (start : Nat) : Option Nat := (idxGt (s.drop start)).map (start + ·)

/-- index of the `n`-th (1-based) block quote of the stack -/
def nthBq : List STok → Nat → Nat → Option Nat
  | [], _, _ => none
  | t :: rest, n, i =>
    if t.isBq then (if n = 1 then some i else nthBq rest (n - 1) (i + 1))
    else nthBq rest n (i + 1)

/-- `__find_double_block_case_index`: the index of the `current_count`-th block quote; `AssertionError` when there is none -/
def findDoubleIndex (stack : List STok) (cur : Nat) : Except Err Nat :=
  if cur = 0 then .error .assertion
  else match nthBq stack cur 0 with
    | some i => .ok i
    | none => .error .assertion

/-- `__is_special_double_block_case` → `(continue_processing, start_index, kludge-seven index)` -/
def specialDouble (c : Cfg) (line : Str) (start cur : Nat) : Except Err (Bool × Nat × Option Nat) :=
  if cur < c.stackCount then
    match findDoubleIndex c.stack cur with
    | .error e => .error e
    | .ok fi =>
      match c.stack[fi + 1]? with
      | none => .error .index                                  -- `token_stack[final_stack_index + 1]`
      | some nxt =>
        if nxt.isBq then
          match findGt line start with
          | none => .ok (false, start, none)
          | some nb =>
            if nb - start ≤ 3 then
              match collectWhileSpaces line start with
              | .error e => .error e
              | .ok none => .ok (false, start, some fi)          -- `final_index` is `None`: not equal to `next_bq_index`
              | .ok (some (fin, _)) => if fin = nb then .ok (true, nb, none) else .ok (false, start, some fi)
            else .ok (false, start, none)
        else .ok (false, start, none)
  else .ok (false, start, none)

/-- number of `>` in a string -/
def countGt (s : Str) : Nat := s.count '>'

/-- `__xx_part_one` → `(continue_proc, stack_token_index)` -/
def partOne (c : Cfg) (start cur : Nat) : Except Err (Bool × Nat) :=
  match c.stack.getLast? with
  | none => .error .index                                        -- `token_stack[-1]`
  | some top =>
    if top.isFenced then .ok (false, 0)
    else
      let n := countGt (c.orig.take start)
      if n > cur then .ok (false, 0)
      else match nthBq c.stack n 0 with
        | none => .error .assertion                              -- `assert found_index != -2`
        | some fi =>
          match c.stack[fi + 1]? with
          | none => .error .index                                -- `token_stack[found_index]` after `found_index += 1`
          | some nxt => .ok (!nxt.isBq, fi + 1)

/-- `while parser_state.token_stack[stack_index].is_list: stack_index += 1` on `stack[i:]` -/
def skipLists : List STok → Nat → Except Err Nat
  | [], _ => .error .index
  | t :: rest, i => if t.isList then skipLists rest (i + 1) else .ok i

/-- `str.isspace()` on the Basic Multilingual Plane -/
def pySpace (c : Char) : Bool :=
  asciiWs.contains c || (c.toNat ≥ 0x1c && c.toNat ≤ 0x1f) || c.toNat == 0x85 || c.toNat == 0xa0 || c.toNat == 0x1680 ||
    (c.toNat ≥ 0x2000 && c.toNat ≤ 0x200a) || c.toNat == 0x2028 || c.toNat == 0x2029 || c.toNat == 0x202f ||
    c.toNat == 0x205f || c.toNat == 0x3000

/-- **[list branch]** `__xx_part_two` → `(current_count, start_index, last_block_quote_index)` -/
def partTwo (c : Cfg) (stackIndex start cur : Nat) (last : Int) : Except Err (Nat × Nat × Int) :=
  match c.stack[stackIndex]? with
  | none => .error .index
  | some t =>
    if !t.isList then .error .assertion                         -- "If not bq, must be a list."
    else
      match skipLists (c.stack.drop stackIndex) stackIndex with
      | .error e => .error e
      | .ok i =>
        match c.stack[i - 1]? with
        | some (.list indent) =>
          if indent ≥ c.orig.length || !((slice c.orig start indent).all pySpace) then .ok (cur, start, last)
          else match charAt c.orig indent with                   -- `original_line_to_parse[indent_level]`, guarded by the first test
          | .error e => .error e
          | .ok ch =>
          if ch != '>' then .ok (cur, start, last)
          else
            let cur1 := cur + 1
            let l1 := indent + 1
            let l2 := if isCharAt c.orig l1 ' ' then l1 + 1 else l1
            if cur1 < c.stackCount && isCharAt c.orig l2 '>' then
              let l3 := l2 + 1
              let l4 := if isCharAt c.orig l3 ' ' then l3 + 1 else l3
              .ok (cur1 + 1, l4, l4)
            else .ok (cur1, l2, l2)
        | _ => .error .assertion                                 -- unreachable: `i - 1` is the last list of the run

/-- `__xx` → `(continue_processing, current_count, start_index, last_block_quote_index, kludge)` -/
def xx (c : Cfg) (line : Str) (start cur : Nat) (last : Int) : Except Err (Bool × Nat × Nat × Int × Option Nat) :=
  match specialDouble c line start cur with
  | .error e => .error e
  | .ok (cont, start1, k) =>
    if !cont && cur < c.stackCount then
      match partOne c start1 cur with
      | .error e => .error e
      | .ok (proc, idx) =>
        if proc then
          match partTwo c idx start1 cur last with
          | .error e => .error e
          | .ok (cur2, start2, last2) => .ok (cont, cur2, start2, last2, k)
        else .ok (cont, cur, start1, last, k)
    else .ok (cont, cur, start1, last, k)

/-- `__handle_bq_whitespace` -/
def wsStep (line : Str) (start : Nat) : Nat := if isWsAt line start then start + 1 else start

/-- the html-block clause of `__should_continue_processing` (l.211-239): `some s'` = the loop stops in state `s'` -/
def htmlClause (c : Cfg) (line : Str) (osi : Nat) (s : St) : Option St :=
  if c.html && s.cur ≥ c.stackCount then
    if s.cur == c.stackCount then some { s with avoid := isCharAt line s.start '>' }
    else some { s with start := osi, last := -1, avoid := true, cur := c.stackCount }
  else none

/-- `__handle_bq_whitespace` then `__should_continue_processing` → `(continue_processing, state)`;
`osi` = the start index the function was called with -/
def iter (c : Cfg) (line : Str) (osi : Nat) (s0 : St) : Except Err (Bool × St) :=
  let s : St := { s0 with start := wsStep line s0.start }
  match htmlClause c line osi s with
  | some s' => .ok (false, s')
  | none =>
    if c.fenced && s.cur ≥ c.stackCount then .ok (false, s)                       -- "out of stack"
    else if s.start == line.length then .ok (false, s)                            -- "ran out of line"
    else if isCharAtNot line s.start '>' then
      match xx c line s.start s.cur s.last with
      | .error e => .error e
      | .ok (cont, cur, start, last, k) =>
        .ok (cont, { s with cur := cur, start := start, last := last, k7 := match k with | some i => s.k7 ++ [i] | none => s.k7 })
    else .ok (true, s)

/-- the `while True` loop -/
def loop (c : Cfg) (line : Str) (osi : Nat) : Nat → St → Except Err St
  | 0, _ => .error .fuel
  | fuel + 1, s =>
    match iter c line osi s with
    | .error e => .error e
    | .ok (false, s1) => .ok s1
    | .ok (true, s1) =>
      loop c line osi fuel { s1 with cur := s1.cur + 1, start := s1.start + 1, last := (s1.start + 1 : Nat) }

/-- `count_block_quote_starts(parser_state, line, start_index, block_quote_data, fenced, html)` -/
def countBqStarts (c : Cfg) (line : Str) (osi : Nat) : Except Err Result :=
  if c.stackCount == 0 && c.fenced then
    .ok ⟨c.curIn, (osi : Int) - 1, -1, false, []⟩
  else
    match loop c line osi (line.length + 2) ⟨osi + 1, 1, (osi + 1 : Nat), false, []⟩ with
    | .error .fuel => .error .diverges
    | .error e => .error e
    | .ok s => .ok ⟨s.cur, s.start, s.last, s.avoid, s.k7⟩

/-! ## The specification: block-quote markers per CommonMark 5.1

  A block-quote marker is 0-3 spaces of indentation, `>`, and an optional following space (or tab).  `specGo` reads the line
  right behind a marker character and counts the markers that follow: `opt` = has the optional space behind the last `>` been used,
  `k` = columns of indentation seen since, `cur` = markers counted so far.  The parameter `stack` limits WHERE indentation is
  accepted: a marker may be indented only while fewer than `stack` markers have been counted.  CommonMark is `stack = ∞`
  (`specCM`); `stack = 0` is the tight reading (`>`, optional space, `>` …).
-/

def specGo (stack : Nat) : Str → Bool → Nat → Nat → Nat
  | [], _, _, _ => 0
  | c :: r, opt, k, cur =>
    if c == '>' then 1 + specGo stack r false 0 (cur + 1)
    else if isWsChar c then
      if !opt then specGo stack r true 0 cur
      else if k < 3 && cur < stack then specGo stack r true (k + 1) cur
      else 0
    else 0

/-- markers per CommonMark on `line` from the marker character at `osi` -/
def specCM (line : Str) (osi : Nat) : Nat := 1 + specGo (line.length + 1) (line.drop (osi + 1)) false 0 1

/-- markers when only the first `stack` may be followed by an indented one -/
def specStack (stack : Nat) (line : Str) (osi : Nat) : Nat := 1 + specGo stack (line.drop (osi + 1)) false 0 1

end Verif.Model.BqCount
