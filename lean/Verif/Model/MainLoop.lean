/-
  Control model of the block pass of the parser (core Lean only).

  Faithful model of
    pymarkdown/general/tokenized_markdown.py
      `__parse_blocks_pass`            (the `while keep_on_going` loop)
      `__parse_blocks_pass_next_line`  (one iteration)
      `__main_pass_did_start_close`    (closing iteration: asserts, `del lines_to_requeue[0]`, `line_number -= 1`)
      `__handle_parse_increment_line`  (`line_number -= len(lines) - 1`, `requeue.insert(0, i)` per line, ignore flag)
      `__determine_next_line_to_process` (requeue first, then `did_started_close`, then the source provider)

  Everything below one iteration (container / leaf / link-reference-definition handling) is an
  abstract per-line **oracle** whose answer is an `Answer`:
    * `requeue`  = the `RequeueLineInfo` returned (lines_to_requeue in the code's order, i.e. the
                   current line first, and `force_ignore_first_as_lrd`), or `none`;
    * `hold`     = after this line the top of the token stack is a pending (paused) link reference
                   definition that now contains the current line;
    * `fresh`    = a definition that was pending before this line was closed (completed) while the line was
                   processed, so that the definition held afterwards, if any, starts with this line;
    * `depth`    = `len(token_stack)` after the iteration.
  There are two sources of `RequeueLineInfo` in the code base:
    (1) an abandoned or partly abandoned link reference definition (below), and
    (2) pymarkdown/block_quotes/block_quote_processor.py `__check_if_really_start_list`: a block quote starts at an
        index left of the innermost open list; the lists are closed (`close_open_blocks_fn`, the stack shrinks) and the
        *current line alone* is handed back with `force_ignore_first_as_lrd = False`.
  The oracle is constrained by the protocol `Legal`, read off
    pymarkdown/links/link_reference_definition_helper.py
      `process_link_reference_definition`, `__process_lrd_hard_failure` (lines are peeled off the *end*
      of the pending definition, the current line first, until a shorter prefix parses),
    pymarkdown/links/link_reference_definition_continuation_helper.py
      `__stop_lrd_continuation` (`force_ignore_first_as_lrd = True` when nothing parsed, i.e. when the whole
      set is handed back),
      `handle_link_reference_definition_leaf_block` (`not ignore_link_definition_start` guards the start).

  `pending` mirrors `LinkDefinitionStackToken.unmodified_lines` (real parser state, recorded by the
  trace harness); `committed` is a ghost field used only by the theorems.
-/
namespace Verif.Model.MainLoop

abbrev Line := List Char

/-- The assertions of the main loop itself (each is an `assert` in the Python code that raises
`AssertionError` → `BadTokenizationError`). -/
inductive Err where
  | lrdNotStarted     -- "LRD parsing must not have been started."  (closing requeue without a pending definition)
  | requeueHead       -- "Cannot handling requeing"                 (closing requeue whose first line is not the empty closing line)
  | noLine            -- "If not closing, must have a next line to process."
  deriving Repr, DecidableEq

/-- `RequeueLineInfo(lines_to_requeue, force_ignore_first_as_lrd)`. -/
structure Requeue where
  lines : List Line
  force : Bool
  deriving Repr, DecidableEq

structure Answer where
  requeue : Option Requeue
  hold : Bool
  fresh : Bool := false
  depth : Nat := 1
  deriving Repr, DecidableEq

structure State where
  /-- lines the source provider has not handed out yet -/
  src : List Line
  /-- `requeue` -/
  requeue : List Line
  /-- `line_number` (Python int: may in principle go negative, hence `Int`) -/
  lineNo : Int
  /-- `next_line_in_document` -/
  cur : Option Line
  /-- `ignore_link_definition_start` -/
  ignore : Bool
  /-- `did_start_close` -/
  startClose : Bool
  /-- `did_started_close` -/
  startedClose : Bool
  /-- `keep_on_going` -/
  running : Bool
  /-- `unmodified_lines` of the `LinkDefinitionStackToken` on top of the stack (`[]` = none pending) -/
  pending : List Line
  /-- ghost: lines that can never be requeued again -/
  committed : List Line
  /-- `len(token_stack)` -/
  depth : Nat := 1
  /-- ghost: the document as the parser currently sees it (a block-quote restart hands the current line back in the
  form the container processor works on — `position_marker.text_to_parse`, tabs expanded — and that text is what is
  parsed from then on) -/
  doc : List Line := []
  deriving Repr, DecidableEq

/-- update of the ghost document -/
def State.setDoc (s : State) (d : List Line) : State := { s with doc := d }

/-- State on entry to the `while` loop (no front-matter extension: `requeue = []`).
`first_line_in_document = get_next_line()`, `line_number = 1`, `did_start_close = first_line is None`. -/
def init (doc : List Line) : State :=
  { src := doc.tail, requeue := [], lineNo := 1, cur := doc.head?, ignore := false,
    startClose := doc.isEmpty, startedClose := false, running := true, pending := [], committed := [], doc := doc }

/-- `__handle_parse_increment_line` followed by `__determine_next_line_to_process`. -/
def keepOnGoing (s : State) (lineNo : Int) (rq : Option Requeue) (startClose startedClose : Bool)
    (pending committed : List Line) : State :=
  -- __handle_parse_increment_line
  let (lineNo', requeue', ignore') :=
    match rq with
    | some r => (lineNo - ((r.lines.length : Int) - 1), r.lines.reverse ++ s.requeue, r.force)
    | none => (lineNo + 1, s.requeue, false)
  -- __determine_next_line_to_process
  match requeue' with
  | l :: rest =>
    { s with lineNo := lineNo', requeue := rest, cur := some l, ignore := ignore', startClose := startClose,
             startedClose := startedClose, pending := pending, committed := committed }
  | [] =>
    if startedClose then
      { s with lineNo := lineNo', requeue := [], cur := none, ignore := ignore', startClose := true,
               startedClose := startedClose, pending := pending, committed := committed }
    else
      match s.src with
      | l :: rest =>
        { s with src := rest, lineNo := lineNo', requeue := [], cur := some l, ignore := ignore',
                 startClose := startClose, startedClose := startedClose, pending := pending, committed := committed }
      | [] =>
        { s with lineNo := lineNo', requeue := [], cur := none, ignore := ignore', startClose := true,
                 startedClose := startedClose, pending := pending, committed := committed }

/-- One iteration of the `while keep_on_going` loop (`__parse_blocks_pass_next_line`), control variables only. -/
def stepCore (s : State) (a : Answer) : Except Err State :=
  if s.startClose then
    -- __main_pass_did_start_close
    match a.requeue with
    | some ⟨l :: ls, force⟩ =>
      -- keep_on_going = True
      if s.pending.isEmpty then .error .lrdNotStarted
      else if !l.isEmpty then .error .requeueHead
      else
        -- del lines_to_requeue[0]; line_number -= 1; did_start_close = False; did_started_close = True
        .ok (keepOnGoing s (s.lineNo - 1) (some ⟨ls, force⟩) false true []
               (s.committed ++ s.pending.take (s.pending.length - ls.length)))
    | _ =>
      -- keep_on_going = False: the loop ends, everything is closed
      .ok { s with running := false, startClose := true, startedClose := true, pending := [],
                   committed := s.committed ++ s.pending }
  else
    match s.cur with
    | none => .error .noLine
    | some l =>
      match a.requeue with
      | some r =>
        -- ghost: the current line comes back in the spelling the machinery hands back (see `Legal`)
        let doc' := match r.lines with
          | l' :: _ => s.committed ++ s.pending ++ l' :: (s.requeue ++ s.src)
          | [] => s.doc
        .ok ((keepOnGoing s s.lineNo (some r) s.startClose s.startedClose []
               (s.committed ++ (s.pending ++ [l]).take (s.pending.length + 1 - r.lines.length))).setDoc doc')
      | none =>
        if a.hold then
          if a.fresh then
            .ok (keepOnGoing s s.lineNo none s.startClose s.startedClose [l] (s.committed ++ s.pending))
          else
            .ok (keepOnGoing s s.lineNo none s.startClose s.startedClose (s.pending ++ [l]) s.committed)
        else
          .ok (keepOnGoing s s.lineNo none s.startClose s.startedClose [] (s.committed ++ s.pending ++ [l]))

/-- One iteration, with the stack depth the oracle reports. -/
def step (s : State) (a : Answer) : Except Err State :=
  match stepCore s a with
  | .ok s' => .ok { s' with depth := a.depth }
  | .error e => .error e

/-- The protocol the per-line machinery obeys towards the main loop. -/
def LegalRq (s : State) (hold : Bool) (depth : Nat) : Option Requeue → Prop
  | none =>
    if s.startClose then hold = false
    else (hold = true → s.pending = [] → s.ignore = false)         -- a step taken with the ignore flag never starts a definition
  | some r =>
    hold = false ∧
    (r.lines = [] → s.startClose = true) ∧                         -- an empty `lines_to_requeue` is only ever seen when closing
    (r.lines ≠ [] →
      -- `lines_to_requeue` = the current line first, then lines of the pending definition, last one first: the earlier
      -- lines are a suffix of what the definition holds (they are kept verbatim in `unmodified_lines`); the current line
      -- comes back as the machinery saw it: verbatim, or `""` for a blank line met while a definition was pending (the
      -- blank-line handler closes the definition with an empty position marker), or tab-expanded (restart).
      r.lines.tail.reverse <:+ s.pending ∧
      -- when closing, the "current line" is the empty closing line (the code's assert)
      (s.startClose = true → r.lines.head? = some []) ∧
      -- (1) handed back by a pending definition: whole set handed back ⇒ ignore flag
      (s.pending ≠ [] → r.lines.length = s.pending.length + 1 → r.force = true) ∧
      -- (2) nothing pending: the block-quote restart; never with the ignore flag, never when closing, and the stack shrinks
      (s.pending = [] → s.startClose = false ∧ s.ignore = false ∧ r.force = false ∧ depth < s.depth))

def Legal (s : State) (a : Answer) : Prop := LegalRq s a.hold a.depth a.requeue

instance (s : State) (h : Bool) (d : Nat) (o : Option Requeue) : Decidable (LegalRq s h d o) := by
  cases o <;> simp only [LegalRq] <;> infer_instance

instance (s : State) (a : Answer) : Decidable (Legal s a) := by
  unfold Legal; infer_instance

/-- A run of the loop: the oracle's answers, one per iteration, all legal, none after the loop has ended. -/
inductive LegalRun : State → List Answer → State → Prop where
  | nil (s) : LegalRun s [] s
  | cons {s s' t a as} : s.running = true → Legal s a → step s a = .ok s' → LegalRun s' as t → LegalRun s (a :: as) t

/-- Executable replay: `(final state, number of iterations done)` or the first offending iteration. -/
inductive ReplayErr where
  | illegal (i : Nat)
  | assertion (i : Nat) (e : Err)
  | afterEnd (i : Nat)
  deriving Repr, DecidableEq

def replay : State → List Answer → Nat → Except ReplayErr State
  | s, [], _ => .ok s
  | s, a :: as, i =>
    if !s.running then .error (.afterEnd i)
    else if ¬ Legal s a then .error (.illegal i)
    else match step s a with
      | .error e => .error (.assertion i e)
      | .ok s' => replay s' as (i + 1)

/-- the block-quote restart: a requeue while no definition is pending -/
def isSelfRequeue (s : State) (a : Answer) : Bool := a.requeue.isSome && s.pending.isEmpty && !s.startClose

/-- number of block-quote restarts in a run -/
def selfSteps : State → List Answer → Nat
  | _, [] => 0
  | s, a :: as =>
    (if isSelfRequeue s a then 1 else 0) +
      match step s a with
      | .ok s' => selfSteps s' as
      | .error _ => 0

/-- the current line is handed back verbatim (or nothing is handed back) -/
def exactStep (s : State) (a : Answer) : Bool :=
  s.startClose ||
    (match s.cur, a.requeue with
     | some l, some r => (match r.lines with | l' :: _ => l' == l | [] => true)
     | _, _ => true)

/-- every requeue of the run hands the current line back verbatim -/
def allExact : State → List Answer → Bool
  | _, [] => true
  | s, a :: as =>
    exactStep s a &&
      match step s a with
      | .ok s' => allExact s' as
      | .error _ => true

/-- `replay` as a test: the run is accepted and the final state satisfies `p`. -/
def replayOk (s : State) (as : List Answer) (p : State → Bool) : Bool :=
  match replay s as 0 with
  | .ok t => p t
  | .error _ => false

/-- the error `replay` stops with, if any -/
def replayErr (s : State) (as : List Answer) : Option ReplayErr :=
  match replay s as 0 with
  | .ok _ => none
  | .error e => some e

/-- The step bound: `(n+1)(n+2)/2 + n`, as a recurrence (`T 0 = 1`, `T (r+1) = T r + r + 3`). -/
def T : Nat → Nat
  | 0 => 1
  | r + 1 => T r + r + 3

/-- Lines not yet committed. -/
def State.uncommitted (s : State) : Nat :=
  s.pending.length + s.cur.toList.length + s.requeue.length + s.src.length

/-- Potential: an upper bound on the number of iterations still to come. -/
def State.potential (s : State) : Nat :=
  if s.running then
    if s.ignore && 0 < s.uncommitted then T (s.uncommitted - 1) + 1
    else T s.uncommitted - s.pending.length
  else 0

end Verif.Model.MainLoop
