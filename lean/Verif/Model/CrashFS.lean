/-
  What a reader finds in the target file if the process is killed during write-back.
  Two protocols: the one the code uses (`shutil.copyfile`: open-truncate, copy chunks, close) and
  the atomic alternative (write a sibling temp file, then rename over the target).
-/
namespace Verif.Model.CrashFS

/-- Content of the target as a later reader sees it. -/
inductive Target | old | partialNew (chunks : Nat) | new
  deriving DecidableEq, Repr

inductive Step
  | openTrunc            -- open(target, "wb"): the old content is gone
  | writeChunk           -- one sendfile/write of the next chunk into the target
  | close
  | writeSibling         -- write (a chunk of) the new content into a temp file next to the target
  | rename               -- os.replace(temp, target)
  deriving DecidableEq, Repr

/-- `total`: number of chunks of the new content. -/
def apply (total : Nat) : Target → Step → Target
  | _, .openTrunc => if total = 0 then .new else .partialNew 0
  | .partialNew n, .writeChunk => if n + 1 ≥ total then .new else .partialNew (n + 1)
  | t, .writeChunk => t
  | t, .close => t
  | t, .writeSibling => t
  | _, .rename => .new

def copyProtocol (total : Nat) : List Step := [.openTrunc] ++ List.replicate total .writeChunk ++ [.close]
def renameProtocol (total : Nat) : List Step := List.replicate total .writeSibling ++ [.rename]

/-- Target content if the process dies after `k` steps. -/
def crashAt (total k : Nat) (proto : List Step) : Target := (proto.take k).foldl (apply total) .old

def Intact : Target → Prop
  | .old => True | .new => True | .partialNew _ => False

/-- Classify an observed syscall sequence on the target (from `strace`). -/
inductive Sys | openTruncTarget | writeTarget | renameOntoTarget | other
  deriving DecidableEq, Repr

def usesTruncate (obs : List Sys) : Bool := obs.contains .openTruncTarget
def usesRename (obs : List Sys) : Bool := obs.contains .renameOntoTarget && !obs.contains .openTruncTarget

end Verif.Model.CrashFS
