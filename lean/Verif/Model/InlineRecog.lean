/-
  Faithful index-loop models of the INLINE recognisers other than links (core Lean only).

  Conventions as in `Verif.Model.Recognisers` (reused): `s[i]` is `charAt` and fails with `Err.index` where
  Python raises `IndexError`; `…_verified` helpers fail with `Err.assertion`; `chr(n)` out of range is
  `IErr.value` (ValueError); a Python loop that provably never ends is `IErr.hang`; loops whose variant needs
  an argument take fuel and answer `Err.fuel` when it runs out (proved unreachable).  Nothing is totalised by
  a default value.

  Sources:
    pymarkdown/general/parser_helper.py           collect_until_character(_verified), collect_until_one_of_characters(_verified),
                                                  extract_ascii_whitespace_verified, index_any_of, calculate_deltas
    pymarkdown/html/html_raw_helper.py            parse_raw_html (para_owner = None, disallow-raw-html off), __parse_raw_open_tag,
                                                  __parse_raw_close_tag, __process_raw_special, __parse_raw_declaration,
                                                  __parse_raw_tag_name, __parse_tag_attributes
    pymarkdown/html/html_helper.py                is_valid_tag_name, extract_html_attribute_name, extract_optional_attribute_value,
                                                  is_complete_html_end_tag, is_complete_html_start_tag
    pymarkdown/inline/inline_autolink_helper.py   handle_angle_brackets, __parse_valid_uri_autolink, __parse_valid_email_autolink
    pymarkdown/inline/inline_character_reference_helper.py   handle_character_reference and its five private helpers
    pymarkdown/inline/inline_backslash_helper.py  handle_inline_backslash, handle_backslashes
    pymarkdown/inline/inline_backtick_helper.py   handle_inline_backtick, __build_backtick_response,
                                                  __calculate_backtick_between_text (tabified_text = None), __adjust_for_injected_noops
    pymarkdown/inline/inline_helper.py            append_text (default escape map)
-/
import Verif.Model.Recognisers
import Verif.Model.Codec
import Verif.Gen.Entities
namespace Verif.Model.InlineRecog
open Verif.Model.Recognisers

/-- outcomes of the top-level handlers that are not a return value -/
inductive IErr where
  | index        -- IndexError
  | assertion    -- AssertionError
  | value        -- ValueError (`chr()` out of range, `str.index` without a hit)
  | fuel         -- model fuel exhausted (proved unreachable)
  | hang         -- the Python loop provably never ends on this input
  deriving Repr, DecidableEq

def IErr.ofR : Err → IErr
  | .index => .index | .assertion => .assertion | .fuel => .fuel | .diverges => .hang

def IErr.ofC : Codec.Err → IErr
  | .valueError => .value | .assertion => .assertion | .hang => .hang

def liftR {α : Type} : Except Err α → Except IErr α
  | .ok a => .ok a
  | .error e => .error (.ofR e)

def liftC {α : Type} : Except Codec.Err α → Except IErr α
  | .ok a => .ok a
  | .error e => .error (.ofC e)

/-! ## character sets (`string.ascii_lowercase` … are the code-point ranges, in order) -/

def rangeChars (a n : Nat) : Str := (List.range n).map fun i => Char.ofNat (a + i)

/-- `string.ascii_lowercase` -/
def asciiLower : Str := rangeChars 97 26
/-- `string.ascii_uppercase` -/
def asciiUpper : Str := rangeChars 65 26
/-- `string.ascii_letters` -/
def asciiLetters : Str := asciiLower ++ asciiUpper
/-- `string.digits` -/
def digitChars : Str := rangeChars 48 10
/-- `string.hexdigits` = `0123456789abcdefABCDEF` -/
def hexDigitChars : Str := digitChars ++ rangeChars 97 6 ++ rangeChars 65 6

/-- `HtmlRawHelper.__valid_tag_name_start` -/
def tagNameStart : Str := asciiLetters
/-- `HtmlRawHelper.__valid_tag_name_characters` -/
def tagNameChars : Str := asciiLetters ++ digitChars ++ ['-']
/-- `HtmlRawHelper.__tag_attribute_name_start` -/
def attrNameStart : Str := asciiLetters ++ ['_', ':']
/-- `HtmlRawHelper.__tag_attribute_name_characters` -/
def attrNameChars : Str := asciiLetters ++ digitChars ++ ['_', '.', ':', '-']
/-- `HtmlRawHelper.__unquoted_attribute_value_stop` = `"'=<>` + backtick + `Constants.ascii_whitespace` -/
def unqStop : Str := ['"', '\'', '=', '<', '>', '`'] ++ asciiWs

/-! ## more `ParserHelper` scans -/

/-- a guarded forward index loop `while index < size and p(s[index]): index += 1`. -/
def pLoop (s : Str) (p : Char → Bool) (size i : Nat) : Except Err Nat :=
  if i < size then
    match charAt s i with
    | .error e => .error e
    | .ok d => if p d then pLoop s p size (i + 1) else .ok i
  else .ok i
termination_by size - i

/-- the guarded test `i < len(s) and p(s[i])` (the bound test guards the access; the access is still `charAt`). -/
def guardedIs (s : Str) (i : Nat) (p : Char → Bool) : Except Err Bool :=
  if i < s.length then
    match charAt s i with
    | .error e => .error e
    | .ok c => .ok (p c)
  else .ok false

/-- `extract_ascii_whitespace_verified`. -/
def extractAsciiWsVerified (s : Str) (start : Nat) : Except Err (Nat × Str) :=
  match extractAsciiWs s start with
  | some r => .ok r
  | none => .error .assertion

/-- `collect_until_character(s, start, c)`. -/
def collectUntilChar (s : Str) (start : Nat) (c : Char) : Except Err (Option (Nat × Str)) :=
  if start ≤ s.length then
    match pLoop s (· != c) s.length start with
    | .error e => .error e
    | .ok j => .ok (some (j, slice s start j))
  else .ok none

def collectUntilCharVerified (s : Str) (start : Nat) (c : Char) : Except Err (Nat × Str) :=
  match collectUntilChar s start c with
  | .error e => .error e
  | .ok (some r) => .ok r
  | .ok none => .error .assertion

/-- `collect_until_one_of_characters(s, start, cs)`. -/
def collectUntilOneOf (s : Str) (start : Nat) (cs : Str) : Except Err (Option (Nat × Str)) :=
  if start ≤ s.length then
    match pLoop s (fun d => !cs.contains d) s.length start with
    | .error e => .error e
    | .ok j => .ok (some (j, slice s start j))
  else .ok none

def collectUntilOneOfVerified (s : Str) (start : Nat) (cs : Str) : Except Err (Nat × Str) :=
  match collectUntilOneOf s start cs with
  | .error e => .error e
  | .ok (some r) => .ok r
  | .ok none => .error .assertion

/-- offset of the first occurrence of `pat` in `l` (`str.find` from 0; CPython builtin, taken as given). -/
def findSub (pat : Str) : Str → Option Nat
  | [] => if pat.isEmpty then some 0 else none
  | c :: r => if pat.isPrefixOf (c :: r) then some 0 else (findSub pat r).map (· + 1)

/-- `s.find(pat, start)` for `start ≥ 0` (`none` = −1). -/
def pyFind (s pat : Str) (start : Nat) : Option Nat :=
  if start ≤ s.length then (findSub pat (s.drop start)).map (· + start) else none

/-- `pat in s`. -/
def containsSubstr (s pat : Str) : Bool := (findSub pat s).isSome

/-- `s[i]` for a Python integer index (negative indices wrap once). -/
def pyIndex (s : Str) (i : Int) : Except Err Char :=
  if 0 ≤ i then charAt s i.toNat
  else if -(s.length : Int) ≤ i then charAt s (s.length - (-i).toNat)
  else .error .index

/-- `ParserHelper.index_any_of(s, find_any, start)`: the `for` loop over `find_any` (with its early `break`). -/
def indexAnyOfLoop (s : Str) (start : Nat) : Str → Option Nat → Option Nat
  | [], first => first
  | c :: cs, first =>
    match pyFind s [c] start with
    | none => indexAnyOfLoop s start cs first
    | some f =>
      let first' := match first with | none => f | some g => min g f
      if first' == 0 then some first' else indexAnyOfLoop s start cs (some first')

def indexAnyOf (s : Str) (findAny : Str) (start : Nat) : Option Nat := indexAnyOfLoop s start findAny none

/-! ## `ParserHelper.calculate_deltas` -/

/-- `s.split("\n")` -/
def splitNl : Str → Str → List Str
  | [], acc => [acc.reverse]
  | c :: r, acc => if c == '\n' then acc.reverse :: splitNl r [] else splitNl r (c :: acc)

/-- `ParserHelper.calculate_deltas(text)` → `(delta_line_number, delta_column_number)`. -/
def calculateDeltas (text : Str) : Except IErr (Nat × Int) :=
  if text.contains '\n' then
    let parts := splitNl text []
    match liftC (Codec.resolveReplacementMarkers (parts.getLast?.getD [])) with
    | .error e => .error e
    | .ok a =>
      match liftC (Codec.resolveEscapes a) with
      | .error e => .error e
      | .ok b => .ok (parts.length - 1, -((b.length : Int) + 1))
  else .ok (0, (text.length : Int))

/-! ## `HtmlRawHelper` — inline raw HTML -/

/-- `__parse_raw_tag_name(text, start)`. -/
def parseRawTagName (s : Str) (start : Nat) : Except Err Str :=
  if isCharAtOneOf s start tagNameStart then
    match collectWhileOneOf s (start + 1) tagNameChars with
    | .error e => .error e
    | .ok none => .ok s                                  -- `text_to_parse[:None]`
    | .ok (some (index, _)) => .ok (s.take index)
  else .ok []

/-- the quoted-value branch of `__parse_tag_attributes`: index after the closing quote, `none` = `return None, None`. -/
def quotedValueEnd (s : Str) (valueStart : Nat) (q : Char) : Except Err (Option Nat) :=
  match collectUntilCharVerified s (valueStart + 1) q with
  | .error e => .error e
  | .ok (valueEnd, _) => if !isCharAt s valueEnd q then .ok none else .ok (some (valueEnd + 1))

/-- the three value forms of `__parse_tag_attributes`: index after the value, `none` = `return None, None`. -/
def attrValueEnd (s : Str) (valueStart : Nat) : Except Err (Option Nat) :=
  if isCharAtOneOf s valueStart ['\''] then quotedValueEnd s valueStart '\''
  else if isCharAtOneOf s valueStart ['"'] then quotedValueEnd s valueStart '"'
  else
    match collectUntilOneOfVerified s valueStart unqStop with
    | .error e => .error e
    | .ok (ve, _) => .ok (some ve)

/-- `__parse_tag_attributes(text, start)` → `(end_name_index, extracted_whitespace)` or `(None, None)`. -/
def parseTagAttributes (s : Str) (start : Nat) : Except Err (Option (Nat × Str)) :=
  match collectWhileOneOfVerified s start attrNameChars with
  | .error e => .error e
  | .ok (parseIndex, _) =>
    match extractAsciiWsVerified s parseIndex with
    | .error e => .error e
    | .ok (endName, ws) =>
      if isCharAt s endName '=' then
        match extractAsciiWsVerified s (endName + 1) with
        | .error e => .error e
        | .ok (valueStart, _) =>
          match attrValueEnd s valueStart with
          | .error e => .error e
          | .ok none => .ok none
          | .ok (some ve) =>
            match extractAsciiWsVerified s ve with
            | .error e => .error e
            | .ok r => .ok (some r)
      else .ok (some (endName, ws))

/-- the `while extracted_whitespace and is_character_at_index_one_of(…attribute_name_start)` loop of
`__parse_raw_open_tag`; `none` = `return None, -1`. -/
def attrLoop (s : Str) : Nat → Nat → Str → Except Err (Option Nat)
  | 0, _, _ => .error .fuel
  | fuel + 1, i, ws =>
    if !ws.isEmpty && isCharAtOneOf s i attrNameStart then
      match parseTagAttributes s i with
      | .error e => .error e
      | .ok none => .ok none
      | .ok (some (j, ws')) => attrLoop s fuel j ws'
    else .ok (some i)

/-- `__parse_raw_open_tag(text)` → `(valid_raw_html, end_parse_index)`; `none` = `(None, -1)`. -/
def parseRawOpenTag (s : Str) : Except Err (Option (Str × Nat)) :=
  match parseRawTagName s 0 with
  | .error e => .error e
  | .ok tagName =>
    if tagName.isEmpty then .ok none
    else
      match extractAsciiWsVerified s tagName.length with
      | .error e => .error e
      | .ok (pi, ws) =>
        match attrLoop s (s.length + 1) pi ws with
        | .error e => .error e
        | .ok none => .ok none
        | .ok (some pi) =>
          let pi := if isCharAt s pi '/' then pi + 1 else pi
          if isCharAt s pi '>' then .ok (some (s.take pi, pi + 1)) else .ok none

/-- `if parse_index != size: parse_index, _ = extract_spaces_verified(text, parse_index)` -/
def closeTagWs (s : Str) (pi : Nat) : Except Err Nat :=
  if pi != s.length then
    match extractSpacesVerified s pi with
    | .error e => .error e
    | .ok (j, _) => .ok j
  else .ok pi

/-- `__parse_raw_close_tag(text)` (`text` = the characters up to the first `>`). -/
def parseRawCloseTag (s : Str) : Except Err (Option Str) :=
  if isCharAt s 0 '/' then
    match parseRawTagName s 1 with
    | .error e => .error e
    | .ok tagName =>
      if tagName.isEmpty then .ok none
      else
        match closeTagWs s tagName.length with
        | .error e => .error e
        | .ok pi => if pi == s.length then .ok (some s) else .ok none
  else .ok none

/-- `__process_raw_special(remaining_line, special_start, special_end, do_extra_check)` →
`(valid_raw_html, parse_index)`. -/
def processRawSpecial (rem start end_ : Str) (extra : Bool) : Except Err (Option Str × Int) :=
  if start.isPrefixOf rem then
    let rem1 := rem.drop start.length
    match findSub end_ rem1 with
    | none => .ok (none, -1)
    | some p =>
      let text := rem1.take p
      let pi : Int := ((p + start.length + end_.length : Nat) : Int)
      let valid : Str := start ++ text ++ end_.dropLast
      if !extra then .ok (some valid, pi)
      else
        match charAt text 0 with                                      -- `remaining_line[0]`
        | .error e => .error e
        | .ok c0 =>
          if c0 == '>' then .ok (none, pi)
          else if ['-', '>'].isPrefixOf text then .ok (none, pi)
          else
            match text.getLast? with                                  -- `remaining_line[-1]`
            | none => .error .index
            | some cl =>
              if cl == '-' then .ok (none, pi)
              else if containsSubstr text ['-', '-'] then .ok (none, pi)
              else .ok (some valid, pi)
  else .ok (none, -1)

/-- `__parse_raw_declaration(text)`. -/
def parseRawDeclaration (s : Str) : Except Err (Option Str) :=
  if isCharAtOneOf s 0 ['!'] then
    match collectWhileOneOfVerified s 1 asciiUpper with
    | .error e => .error e
    | .ok (pi, name) =>
      if !name.isEmpty then
        match collectWhileChar s pi ' ' with
        | .error e => .error e
        | .ok none => .ok none                                        -- `whitespace_count` is `None`: falsy
        | .ok (some (cnt, _)) => if cnt != 0 then .ok (some s) else .ok none
      else .ok none
  else .ok none

/-- Python truthiness of `Optional[str]`. -/
def truthy : Option Str → Bool
  | none => false
  | some s => !s.isEmpty

def CDATA_START : Str := ['!', '[', 'C', 'D', 'A', 'T', 'A', '[']

/-- `if not valid_raw_html: (valid_raw_html, remaining_line_parse_index) = f()` -/
def orTry (st : Option Str × Int) (f : Except Err (Option Str × Int)) : Except Err (Option Str × Int) :=
  if !truthy st.1 then f else .ok st

/-- `if not valid_raw_html: valid_raw_html = f()` (the index is kept) -/
def orTryKeep (st : Option Str × Int) (f : Except Err (Option Str)) : Except Err (Option Str × Int) :=
  if !truthy st.1 then
    match f with
    | .error e => .error e
    | .ok v => .ok (v, st.2)
  else .ok st

/-- the pair `(valid_raw_html, remaining_line_parse_index)` after `__parse_raw_open_tag` -/
def openSt : Option (Str × Nat) → Option Str × Int
  | some (v, e) => (some v, (e : Int))
  | none => (none, -1)

/-- the attempts of `parse_raw_html` after the closing tag: comment, processing instruction, CDATA, declaration -/
def rawChain (between remaining : Str) (st1 : Option Str × Int) : Except Err (Option (Str × Int)) :=
  match orTry st1 (processRawSpecial remaining ['!', '-', '-'] ['-', '-', '>'] true) with
  | .error e => .error e
  | .ok st2 =>
    match orTry st2 (processRawSpecial remaining ['?'] ['?', '>'] false) with
    | .error e => .error e
    | .ok st3 =>
      match orTry st3 (processRawSpecial remaining CDATA_START [']', ']', '>'] false) with
      | .error e => .error e
      | .ok st4 =>
        match orTryKeep st4 (parseRawDeclaration between) with
        | .error e => .error e
        | .ok st5 => if truthy st5.1 then .ok (st5.1.map fun v => (v, st5.2)) else .ok none

/-- `parse_raw_html(only_between_angles, remaining_line, …)` with `para_owner = None` and the disallow-raw-html
extension off → `(raw_tag, remaining_line_parse_index)`; `none` = `(None, -1)`.  The index is `-1` for a closing tag
and a declaration (they are decided on `only_between_angles`). -/
def parseRawHtml (between remaining : Str) : Except Err (Option (Str × Int)) :=
  match parseRawOpenTag remaining with
  | .error e => .error e
  | .ok r0 =>
    match orTryKeep (openSt r0) (parseRawCloseTag between) with
    | .error e => .error e
    | .ok st1 => rawChain between remaining st1

/-! ## `InlineAutoLinkHelper` -/

/-- `InlineAutoLinkHelper.__valid_scheme_characters` -/
def schemeChars : Str := asciiLetters ++ digitChars ++ ['.', '-', '+']

/-- `__parse_valid_uri_autolink(text)`: is a token returned? -/
def parseValidUriAutolink (s : Str) : Except Err Bool :=
  if !s.contains '<' then
    match charAt s 0 with                                            -- `text_to_parse[0]`
    | .error e => .error e
    | .ok c0 =>
      if asciiLetters.contains c0 then
        match collectWhileOneOfVerified s 1 schemeChars with
        | .error e => .error e
        | .ok (pathIndex, scheme) =>
          let schemeLen := 1 + scheme.length
          if 2 ≤ schemeLen && schemeLen ≤ 32 && pathIndex < s.length then
            match charAt s pathIndex with
            | .error e => .error e
            | .ok c =>
              if c == ':' then
                match pLoop s (fun d => d.toNat > 32) s.length (pathIndex + 1) with
                | .error e => .error e
                | .ok j => .ok (j == s.length)
              else .ok false
          else .ok false
      else .ok false
  else .ok false

/-- the class `[a-zA-Z0-9.!#$%&'*+/=?^_`{|}~-]` of the e-mail regex -/
def emailLocalChars : Str :=
  asciiLower ++ asciiUpper ++ digitChars ++
    ['.', '!', '#', '$', '%', '&', '\'', '*', '+', '/', '=', '?', '^', '_', '`', '{', '|', '}', '~', '-']
/-- `[a-zA-Z0-9]` -/
def alnumChars : Str := asciiLower ++ asciiUpper ++ digitChars
/-- `[a-zA-Z0-9-]` -/
def alnumDashChars : Str := asciiLower ++ asciiUpper ++ digitChars ++ ['-']

/-- `[a-zA-Z0-9](?:[a-zA-Z0-9-]{0,61}[a-zA-Z0-9])?` matches the whole of `l`. -/
def labelOk (l : Str) : Bool :=
  1 ≤ l.length && l.length ≤ 63 && l.all alnumDashChars.contains &&
  (match l.head? with | some c => alnumChars.contains c | none => false) &&
  (match l.getLast? with | some c => alnumChars.contains c | none => false)

def splitOnChar (sep : Char) : Str → Str → List Str
  | [], acc => [acc.reverse]
  | c :: r, acc => if c == sep then acc.reverse :: splitOnChar sep r [] else splitOnChar sep r (c :: acc)

/-- the language of the e-mail regex between `^` and `$`. -/
def emailCore (s : Str) : Bool :=
  let loc := s.takeWhile emailLocalChars.contains
  !loc.isEmpty && (s.drop loc.length).head? == some '@' &&
  (splitOnChar '.' (s.drop (loc.length + 1)) []).all labelOk

/-- `re.match(__valid_email_regex, text)`: `$` also matches just before a newline that ends the string. -/
def parseValidEmailAutolink (s : Str) : Bool :=
  emailCore s || (s.getLast? == some '\n' && emailCore s.dropLast)

/-! ### the regular expression itself (`InlineAutoLinkHelper.__valid_email_regex`), as parsed by `re._parser`

`tools/inlinerecoglib.py` serialises `re._parser.parse(pattern)` of the REAL pattern and compares it with `emailPatternSer`
(driver op `emailre`): the regex the theorems speak about is the regex of the source.  Its language is proved to be
`parseValidEmailAutolink` (Lemmas/InlineRecogRegex.lean). -/

inductive Re where
  | set (rs : List (Nat × Nat))                   -- `IN [...]` / `LITERAL c`: code-point ranges
  | seq (a b : Re)
  | rep (lo : Nat) (hi : Option Nat) (r : Re)     -- `MAX_REPEAT (lo, hi, r)`; `none` = MAXREPEAT
  deriving Repr

def Re.ser : Re → String
  | .set rs => "set[" ++ ",".intercalate (rs.map fun p => toString p.1 ++ "-" ++ toString p.2) ++ "]"
  | .seq a b => a.ser ++ " " ++ b.ser
  | .rep lo hi r => "rep{" ++ toString lo ++ "," ++ (match hi with | some h => toString h | none => "inf") ++ "}(" ++ r.ser ++ ")"

def ALNUM_SET : List (Nat × Nat) := [(97, 122), (65, 90), (48, 57)]
def ALNUMDASH_SET : List (Nat × Nat) := [(97, 122), (65, 90), (48, 57), (45, 45)]
def LOCAL_SET : List (Nat × Nat) :=
  [(97, 122), (65, 90), (48, 57), (46, 46), (33, 33), (35, 35), (36, 36), (37, 37), (38, 38), (39, 39), (42, 42), (43, 43),
   (47, 47), (61, 61), (63, 63), (94, 94), (95, 95), (96, 96), (123, 123), (124, 124), (125, 125), (126, 126), (45, 45)]

/-- `[a-zA-Z0-9](?:[a-zA-Z0-9-]{0,61}[a-zA-Z0-9])?` -/
def labelRe : Re := .seq (.set ALNUM_SET) (.rep 0 (some 1) (.seq (.rep 0 (some 61) (.set ALNUMDASH_SET)) (.set ALNUM_SET)))

/-- the pattern between `^` and `$` -/
def emailBody : Re :=
  .seq (.rep 1 none (.set LOCAL_SET)) (.seq (.set [(64, 64)]) (.seq labelRe (.rep 0 none (.seq (.set [(46, 46)]) labelRe))))

def emailPatternSer : String := "at:AT_BEGINNING " ++ emailBody.ser ++ " at:AT_END"

structure AngleRes where
  kind : Nat                -- 0 no token, 1 uri autolink, 2 e-mail autolink, 3 raw html
  tokenText : Str           -- autolink_text / raw_tag
  newString : Str
  newIndex : Nat
  dLine : Nat
  dCol : Int
  deriving Repr, DecidableEq

/-- the three attempts of `handle_angle_brackets` → `(kind, between_brackets, closing_angle_index)`. -/
def angleFind (src : Str) (next : Nat) : Except IErr (Option (Nat × Str × Nat)) :=
  match pyFind src ['>'] next with
  | none => .ok none
  | some c =>
    if c == next + 1 then .ok none
    else
      let between := slice src (next + 1) c
      let remaining := src.drop (next + 1)
      match liftR (parseValidUriAutolink between) with
      | .error e => .error e
      | .ok true => .ok (some (1, between, c + 1))
      | .ok false =>
        if parseValidEmailAutolink between then .ok (some (2, between, c + 1))
        else
          match liftR (parseRawHtml between remaining) with
          | .error e => .error e
          | .ok none => .ok none
          | .ok (some (tag, after)) =>
            if after != -1 then .ok (some (3, tag, (after + (next : Int) + 1).toNat))
            else .ok (some (3, tag, c + 1))

/-- `handle_angle_brackets` on `(source_text, next_index)`. -/
def handleAngleBrackets (src : Str) (next : Nat) : Except IErr AngleRes :=
  match angleFind src next with
  | .error e => .error e
  | .ok none =>
    match calculateDeltas ['<'] with
    | .error e => .error e
    | .ok (dl, dc) => .ok ⟨0, [], ['<'], next + 1, dl, dc⟩
  | .ok (some (kind, between, ci)) =>
    match calculateDeltas ('<' :: between ++ ['>']) with
    | .error e => .error e
    | .ok (dl, dc) => .ok ⟨kind, between, [], ci, dl, dc⟩

/-! ## `InlineCharacterReferenceHelper` -/

structure CharRefRes where
  newCps : List Nat           -- `new_string` as code points (a Python str can hold a lone surrogate, `Char` cannot)
  newIndex : Nat
  original : Option Str       -- `original_string`
  unresolved : Option Str     -- `new_string_unresolved`
  deriving Repr, DecidableEq

def cps (s : Str) : List Nat := s.map Char.toNat

def hexVal (c : Char) : Nat :=
  if '0' ≤ c && c ≤ '9' then c.toNat - 48
  else if 'a' ≤ c && c ≤ 'f' then c.toNat - 87
  else c.toNat - 55

/-- `int(s, 16)` on a string of `string.hexdigits` -/
def parseHex (s : Str) : Nat := s.foldl (fun a c => a * 16 + hexVal c) 0
/-- `int(s)` on a string of `string.digits` -/
def parseDec (s : Str) : Nat := s.foldl (fun a c => a * 10 + (c.toNat - 48)) 0

/-- `__handle_numeric_character_reference_hex` → `(new_string, new_index, translated_reference)`; `ni` = index of `x`. -/
def numericHex (src : Str) (ni : Nat) : Except Err (Str × Nat × Int) :=
  match charAt src ni with
  | .error e => .error e
  | .ok hexChar =>
    match collectWhileOneOfVerified src (ni + 1) hexDigitChars with
    | .error e => .error e
    | .ok (endIndex, collected) =>
      let delta := endIndex - (ni + 1)
      let tr : Int := if 1 ≤ delta && delta ≤ 6 then (parseHex collected : Int) else -1
      .ok ('&' :: '#' :: hexChar :: collected, endIndex, tr)

/-- `__handle_numeric_character_reference_decimal`. -/
def numericDec (src : Str) (ni : Nat) : Except Err (Str × Nat × Int) :=
  match collectWhileOneOfVerified src ni digitChars with
  | .error e => .error e
  | .ok (endIndex, collected) =>
    let delta := endIndex - ni
    let tr : Int := if 1 ≤ delta && delta ≤ 7 then (parseDec collected : Int) else -1
    .ok ('&' :: '#' :: collected, endIndex, tr)

/-- the tail of `__handle_numeric_character_reference_inner`: the `;` and the replacement character. -/
def numericFinish (src : Str) (newString : Str) (newIndex : Nat) (tr : Int) : Except IErr (List Nat × Nat × Option Str) :=
  match liftR (guardedIs src newIndex (· == ';')) with
  | .error e => .error e
  | .ok semi =>
    if 0 ≤ tr && semi then
      if tr == 0 then .ok ([0xFFFD], newIndex + 1, some (newString ++ [';']))
      else if tr.toNat > 0x10FFFF then .error .value                  -- `chr()` arg not in range(0x110000)
      else .ok ([tr.toNat], newIndex + 1, some (newString ++ [';']))
    else .ok (cps newString, newIndex, none)

/-- `__handle_numeric_character_reference_inner(source_text, new_index)` (`new_index` = index of `#`) →
`(new_string, new_index, original_reference)`. -/
def numericInner (src : Str) (hashIndex : Nat) : Except IErr (List Nat × Nat × Option Str) :=
  let ni := hashIndex + 1
  match liftR (guardedIs src ni ['x', 'X'].contains) with
  | .error e => .error e
  | .ok hex =>
    match liftR (if hex then numericHex src ni else numericDec src ni) with
    | .error e => .error e
    | .ok (newString, newIndex, tr) => numericFinish src newString newIndex tr

/-- `__handle_non_numeric_character_reference`. -/
def namedReference (src : Str) (ni : Nat) : Except IErr CharRefRes :=
  match liftR (collectWhileOneOf src ni (asciiLetters ++ digitChars)) with
  | .error e => .error e
  | .ok none => .ok ⟨['&'.toNat], ni, none, none⟩                    -- `collected_string` is `None`: falsy
  | .ok (some (endIndex, collected)) =>
    if collected.isEmpty then .ok ⟨['&'.toNat], ni, none, none⟩
    else
      let withAmp := '&' :: collected
      match liftR (guardedIs src endIndex (· == ';')) with
      | .error e => .error e
      | .ok false => .ok ⟨cps withAmp, endIndex, none, none⟩
      | .ok true =>
        let full := withAmp ++ [';']
        match Verif.Gen.Entities.lookup collected with
        | some cp => .ok ⟨cp, endIndex + 1, some full, some full⟩
        | none => .ok ⟨cps full, endIndex + 1, none, none⟩

/-- `handle_character_reference` on `(source_text, next_index)`. -/
def handleCharacterReference (src : Str) (next : Nat) : Except IErr CharRefRes :=
  let ni := next + 1
  match liftR (guardedIs src ni (· == '#')) with
  | .error e => .error e
  | .ok true =>
    match numericInner src ni with
    | .error e => .error e
    | .ok (newCps, newIndex, orig) => .ok ⟨newCps, newIndex, orig, some ('&' :: slice src ni newIndex)⟩
  | .ok false => namedReference src ni

/-! ## `InlineBackslashHelper` -/

/-- `InlineBackslashHelper.__backslash_punctuation` -/
def backslashPunct : Str :=
  ['!', '"', '#', '$', '%', '&', '\'', '(', ')', '*', '+', ',', '-', '.', '/', ':', ';', '<', '=', '>', '?', '@',
   '[', ']', '^', '_', '`', '{', '|', '}', '~', '\\']

structure BackslashRes where
  newString : Str
  unresolved : Str
  newIndex : Nat
  deriving Repr, DecidableEq

/-- `handle_inline_backslash` on `(source_text, next_index, add_text_signature)`. -/
def handleInlineBackslash (src : Str) (next : Nat) (sig : Bool) : Except Err BackslashRes :=
  let ni := next + 1
  if ni ≥ src.length then .ok ⟨['\\'], [], ni⟩
  else
    match charAt src ni with
    | .error e => .error e
    | .ok c =>
      if c == '\n' then .ok ⟨['\\'], [], ni⟩
      else if backslashPunct.contains c then
        let ns := (if sig then ['\\', Codec.BS] else []) ++ [c]
        .ok ⟨ns, '\\' :: ns, ni + 1⟩
      else .ok ⟨['\\', c], ['\\', c], ni + 1⟩

/-- one element of `handle_backslashes`: the handler chosen by the character at `ni` → `(new_string, new_index)`. -/
def backslashesStep (src : Str) (ni : Nat) : Except IErr (List Nat × Nat) :=
  match liftR (charAt src ni) with
  | .error e => .error e
  | .ok cur =>
    if cur == '\\' then
      match liftR (handleInlineBackslash src ni false) with
      | .error e => .error e
      | .ok b => .ok (cps b.newString, b.newIndex)
    else if cur == '&' then
      match handleCharacterReference src ni with
      | .error e => .error e
      | .ok c => .ok (c.newCps, c.newIndex)
    else .error .assertion

/-- the `while next_index != -1` loop of `handle_backslashes`; parts are code points. -/
def backslashesLoop (src : Str) : Nat → Nat → Option Nat → List Nat → Except IErr (List Nat)
  | _, start, none, acc => .ok (if start < src.length then acc ++ cps (src.drop start) else acc)
  | 0, _, some _, _ => .error .fuel
  | fuel + 1, start, some ni, acc =>
    match backslashesStep src ni with
    | .error e => .error e
    | .ok (ns, newIndex) =>
      backslashesLoop src fuel newIndex (indexAnyOf src ['\\', '&'] newIndex) (acc ++ cps (slice src start ni) ++ ns)

/-- `handle_backslashes(source_text)`. -/
def handleBackslashes (src : Str) : Except IErr (List Nat) :=
  backslashesLoop src (src.length + 1) 0 (indexAnyOf src ['\\', '&'] 0) []

/-! ## `InlineBacktickHelper` (no tabified text) -/

/-- `s[a:b]` with a Python integer `b` (`-1` = "all but the last"). -/
def pySliceTo (s : Str) (a : Nat) (b : Option Nat) : Str :=
  match b with
  | some b => slice s a b
  | none => slice s a (s.length - 1)

def NOOP_PREFIX : Str := [Codec.ESC, Codec.AL, Codec.ESC, Codec.NOOP, Codec.ESC, Codec.AL]
def NOOP_SUFFIX : Str := [Codec.ESC, Codec.AL]

/-- the `while search_index != -1` loop of `__adjust_for_injected_noops`.  When the suffix is not found Python goes on with
`end_index = -1`: `start_index` becomes 1 and the search resumes from there.  Between two such events `start_index` strictly
increases; the control state after such an event is always `(1, find(prefix, 1))`, so a SECOND event means the loop repeats
for ever (`wrapped` remembers the first). -/
def noopLoop (t : Str) : Nat → Bool → Nat → Option Nat → Str → Except IErr Str
  | _, _, start, none, acc => .ok (if start != t.length then acc ++ t.drop start else acc)
  | 0, _, _, some _, _ => .error .fuel
  | fuel + 1, wrapped, start, some search, acc =>
    let acc1 := acc ++ slice t start search
    let search1 := search + NOOP_PREFIX.length
    match pyFind t NOOP_SUFFIX search1 with
    | some e =>
      let acc2 := acc1 ++ Codec.replacementMarkers [Codec.NOOP] (slice t search1 e)
      noopLoop t fuel wrapped (e + 2) (pyFind t NOOP_PREFIX (e + 2)) acc2
    | none =>
      if wrapped then .error .hang
      else
        let acc2 := acc1 ++ Codec.replacementMarkers [Codec.NOOP] (pySliceTo t search1 none)
        noopLoop t fuel true 1 (pyFind t NOOP_PREFIX 1) acc2

/-- `__adjust_for_injected_noops(between_text)`. -/
def adjustForInjectedNoops (t : Str) : Except IErr Str :=
  match pyFind t NOOP_PREFIX 0 with
  | none => .ok t
  | some i => noopLoop t (2 * t.length + 3) false 0 (some i) []

/-- `s.replace("\n", "\a\n\a \a")` -/
def replaceNewlines (s : Str) : Str :=
  s.flatMap fun c => if c == '\n' then Codec.replacementMarkers ['\n'] [' '] else [c]

/-- `InlineHelper.append_text("", s)` with the default HTML escape map. -/
def appendTextEscape (s : Str) : Str :=
  s.flatMap fun c =>
    if c == '<' then Codec.replacementMarkers [c] ['&', 'l', 't', ';']
    else if c == '>' then Codec.replacementMarkers [c] ['&', 'g', 't', ';']
    else if c == '&' then Codec.replacementMarkers [c] ['&', 'a', 'm', 'p', ';']
    else if c == '"' then Codec.replacementMarkers [c] ['&', 'q', 'u', 'o', 't', ';']
    else [c]

/-- `s.strip(" ")` -/
def stripSpaces (s : Str) : Str := ((s.dropWhile (· == ' ')).reverse.dropWhile (· == ' ')).reverse

def isSpNl (c : Option Char) : Bool := c == some ' ' || c == some '\n'

/-- the test of `__calculate_backtick_between_text`: longer than 2, a space or newline at both ends, and
`between_text[1:-1].strip(" ")` not empty -/
def tickStrip (between : Str) : Bool :=
  between.length > 2 && isSpNl between.head? && isSpNl between.getLast? &&
    (stripSpaces (between.drop 1).dropLast).length != 0

/-- `(leading_whitespace, between_text, trailing_whitespace)` before they are encoded -/
def tickParts (between : Str) : Str × Str × Str :=
  if tickStrip between then
    (between.take 1, (between.drop 1).dropLast, match between.getLast? with | some c => [c] | none => [])
  else ([], between, [])

/-- `__calculate_backtick_between_text` without tabified text →
`(between_text, original_between_text, leading_whitespace, trailing_whitespace)`. -/
def backtickBetween (src : Str) (newIndex endStart : Nat) : Except IErr (Str × Str × Str × Str) :=
  let between := slice src newIndex endStart
  match adjustForInjectedNoops (Codec.escapeSpecial (tickParts between).2.1) with
  | .error e => .error e
  | .ok b => .ok (replaceNewlines b, between, replaceNewlines (tickParts between).1, replaceNewlines (tickParts between).2.2)

/-- the `while end_backtick_start_index != -1` loop of `handle_inline_backtick`. -/
def tickCloseLoop (src ticks : Str) : Nat → Option Nat → Except Err (Option Nat)
  | _, none => .ok none
  | 0, some _ => .error .fuel
  | fuel + 1, some e =>
    match collectWhileOneOfVerified src e ['`'] with
    | .error err => .error err
    | .ok (ei, attempt) =>
      if attempt.length == ticks.length then .ok (some e)
      else tickCloseLoop src ticks fuel (pyFind src ticks ei)

structure TickRes where
  span : Option (Str × Str × Str × Str)   -- (span_text, extracted_start_backticks, leading_whitespace, trailing_whitespace)
  newString : Str
  newIndex : Nat
  dLine : Nat
  dCol : Int
  deriving Repr, DecidableEq

/-- `handle_inline_backtick` on `(source_text, next_index)` with `tabified_text = None`. -/
def handleInlineBacktick (src : Str) (next : Nat) : Except IErr TickRes :=
  match liftR (collectWhileOneOfVerified src next ['`']) with
  | .error e => .error e
  | .ok (newIndex, ticks) =>
    match liftR (tickCloseLoop src ticks (src.length + 1) (pyFind src ticks newIndex)) with
    | .error e => .error e
    | .ok none => .ok ⟨none, ticks, newIndex, 0, (newIndex : Int) - (next : Int)⟩
    | .ok (some e) =>
      match backtickBetween src newIndex e with
      | .error err => .error err
      | .ok (text, orig, lead, trail) =>
        let ni := e + ticks.length
        let spanText := appendTextEscape text
        if orig.contains '\n' then
          match calculateDeltas (orig ++ ticks) with
          | .error err => .error err
          | .ok (dl, dc) => .ok ⟨some (spanText, ticks, lead, trail), [], ni, dl, dc⟩
        else .ok ⟨some (spanText, ticks, lead, trail), [], ni, 0, (ni : Int) - (next : Int)⟩

/-! ## `HtmlHelper` — the tag scanners of HTML block start condition 7 -/

def KELVIN : Char := Char.ofNat 0x212A

/-- `is_valid_tag_name(tag_name)`: every character of `tag_name.lower()` is an ASCII letter, digit or `-`.
`str.lower` maps exactly one non-ASCII character into that set: U+212A KELVIN SIGN ↦ `k`. -/
def isValidTagName (t : Str) : Bool :=
  !t.isEmpty && t.all fun c => tagNameChars.contains c || c == KELVIN

/-- `HtmlHelper.__attribute_start_characters` -/
def hAttrStart : Str := asciiLower ++ ['1', '2', '3', '4', '5', '6', '7', '8', '9', '0', ':', '_']
/-- `HtmlHelper.__attribute_other_characters` -/
def hAttrOther : Str := hAttrStart ++ ['.', '-']

/-- `extract_html_attribute_name(s, index)` → index or `-1`. -/
def extractHtmlAttributeName (s : Str) (i : Nat) : Except Err Int :=
  match guardedIs s i hAttrStart.contains with
  | .error e => .error e
  | .ok false => .ok (-1)
  | .ok true =>
    match collectWhileOneOfVerified s (i + 1) hAttrOther with
    | .error e => .error e
    | .ok (j, _) =>
      match guardedIs s j ['=', ' ', '/', '>'].contains with
      | .error e => .error e
      | .ok true => .ok (j : Int)
      | .ok false => .ok (-1)

/-- `HtmlHelper.__html_tag_attribute_value_terminators` -/
def hValueTerminators : Str := [' ', '"', '\'', '=', '<', '>', '`']

/-- the value after `=` in `extract_optional_attribute_value`; `nw2` = index after the white space after `=`. -/
def optionalValueEnd (s : Str) (nw2 : Nat) : Except Err Int :=
  if nw2 < s.length then
    match charAt s nw2 with
    | .error e => .error e
    | .ok first =>
      if first == '"' || first == '\'' then
        match collectUntilCharVerified s (nw2 + 1) first with
        | .error e => .error e
        | .ok (j, _) => if j == s.length then .ok (-1) else .ok ((j : Int) + 1)
      else
        match collectUntilOneOfVerified s nw2 hValueTerminators with
        | .error e => .error e
        | .ok (j, text) => if text.isEmpty then .ok (-1) else .ok (j : Int)
  else .ok (-1)

/-- `extract_optional_attribute_value(line, value_index)` → index or `-1`. -/
def extractOptionalAttributeValue (s : Str) (vi : Nat) : Except Err Int :=
  match extractSpacesVerified s vi with
  | .error e => .error e
  | .ok (nw, _) =>
    match guardedIs s nw (· != '=') with
    | .error e => .error e
    | .ok notEq =>
      if notEq || nw ≥ s.length then .ok (nw : Int)
      else
        match extractSpacesVerified s (nw + 1) with
        | .error e => .error e
        | .ok (nw2, _) => optionalValueEnd s nw2

/-- `is_complete_html_end_tag(tag_name, line, next_char_index)` → `(is_valid, index)`. -/
def isCompleteHtmlEndTag (tag line : Str) (next : Nat) : Except Err (Bool × Nat) :=
  match extractSpacesVerified line next with
  | .error e => .error e
  | .ok (nw, _) =>
    if isValidTagName tag && nw < line.length then
      match charAt line nw with
      | .error e => .error e
      | .ok c => .ok (c == '>', nw + 1)
    else .ok (false, nw + 1)

structure StartLoopSt where
  nw : Int
  ws : Str
  attrsValid : Bool

/-- one turn of the loop body of `is_complete_html_start_tag`: `none` = `break` with `are_attributes_valid = False`. -/
def startTagBody (line : Str) (nw : Nat) : Except Err (Option (Nat × Str)) :=
  match extractHtmlAttributeName line nw with
  | .error e => .error e
  | .ok a =>
    if a == -1 then .ok none
    else
      match extractOptionalAttributeValue line a.toNat with
      | .error e => .error e
      | .ok v =>
        if v == -1 then .ok none
        else
          match extractSpacesVerified line v.toNat with
          | .error e => .error e
          | .ok r => .ok (some r)

/-- the `while` loop of `is_complete_html_start_tag`. -/
def startTagLoop (line : Str) (tagValid : Bool) : Nat → StartLoopSt → Except Err StartLoopSt
  | 0, _ => .error .fuel
  | fuel + 1, st =>
    match guardedIs line st.nw.toNat (fun c => !['>', '/'].contains c) with
    | .error e => .error e
    | .ok g =>
      if tagValid && !st.ws.isEmpty && st.attrsValid && 0 ≤ st.nw && g then
        match startTagBody line st.nw.toNat with
        | .error e => .error e
        | .ok none => .ok { st with nw := -1, attrsValid := false }
        | .ok (some (nw, ws)) => startTagLoop line tagValid fuel { st with nw := nw, ws := ws }
      else .ok st

/-- the end of `is_complete_html_start_tag`: the optional `/`, the `>` → `(index, is_end_of_tag_present)`. -/
def startTagTail (line : Str) (nw : Int) : Except Err (Int × Bool) :=
  if nw < line.length then
    match pyIndex line nw with
    | .error e => .error e
    | .ok c =>
      let nw1 := if c == '/' then nw + 1 else nw
      match pyIndex line nw1 with
      | .error e => .error e
      | .ok c2 => if c2 == '>' then .ok (nw1 + 1, true) else .ok (nw1, false)
  else .ok (nw, false)

def block1Names : List Str := [['s', 'c', 'r', 'i', 'p', 't'], ['p', 'r', 'e'], ['s', 't', 'y', 'l', 'e']]

/-- `is_complete_html_start_tag(tag_name, line, next_char_index)` → `(is_complete, index or None)`. -/
def isCompleteHtmlStartTag (tag line : Str) (next : Nat) : Except Err (Bool × Option Nat) :=
  let tagValid := isValidTagName tag && !block1Names.contains tag
  let size := line.length
  match extractSpacesVerified line next with
  | .error e => .error e
  | .ok (nw0, ws0) =>
    match startTagLoop line tagValid (size + 1) ⟨nw0, ws0, true⟩ with
    | .error e => .error e
    | .ok st =>
      match startTagTail line st.nw with
      | .error e => .error e
      | .ok (nw, isEnd) =>
        let x : Option Nat := if 0 ≤ nw then (extractSpaces line nw.toNat).map (·.1) else none
        .ok (tagValid && isEnd && x == some size && st.attrsValid, x)

end Verif.Model.InlineRecog
