/-
  Faithful model of pymarkdown's layered configuration and rule selection.

  Code modelled
  * `application_configuration_helper.py :: apply_configuration_layers`
      pyproject.toml  <  .pymarkdown / .pymarkdown.yaml / .pymarkdown.yml  <  --config  <  --set
    every layer is flattened (`application_properties.__scan_map`: keys lower-cased and
    joined by ".") and written key by key into ONE flat dictionary, later writes overwrite.
  * `application_properties.get_property` (typed getter with `default_value`,
    `valid_value_fn`, strict / lenient), `set_manual_property` (`$!`, `$#`, `$$` typing of --set).
  * `plugin_manager.py :: __register_plugins / __handle_command_line_settings /
    __find_configuration_for_plugin / __determine_if_plugin_enabled / __apply_configuration`.

  Abstractions (stated, and exercised by the correspondence harness)
  * a flattened key `a.b.c` is the list of its segments `["a","b","c"]`.  Keys never contain a
    "." inside a segment (`__scan_map` rejects them for `ApplicationProperties()` as pymarkdown
    constructs it), so `key.startswith("plugins.<i>.")` is exactly "segments start with
    `plugins`, `<i>` and there is at least one more segment".
  * a Python exception is an explicit `Except Err _` result, never a default.
  * file parsing (json / yaml / tomli) is outside the model: a layer is the parsed dictionary.
-/
namespace Verif.Model.Config

/-- A configuration value after parsing.  `other` = anything that is not bool / int / str
(lists, floats, null …). -/
inductive Value
  | bool (b : Bool) | int (i : Int) | str (s : String) | other
  deriving DecidableEq, Repr, Inhabited

inductive Ty | bool | int | str
  deriving DecidableEq, Repr, Inhabited

/-- `isinstance(found_value, property_type)` with the `bool`-is-not-`int` exclusion of
`__get_present_property_value`. -/
def Value.hasType : Value → Ty → Bool
  | .bool _, .bool => true
  | .int _, .int => true
  | .str _, .str => true
  | _, _ => false

abbrev Key := List String
/-- One configuration source after flattening: bindings in file order. -/
abbrev Layer := List (Key × Value)
/-- `ApplicationProperties.__flat_property_map`. -/
abbrev PMap := List (Key × Value)

inductive Err
  | wrongType (k : Key)     -- "The value for property '…' must be of type '…'."
  | invalid (k : Key)       -- "The value for property '…' is not valid: …"
  | badManual               -- "Manual property value '…' cannot be translated into an integer."
  | rejected (k : Key)      -- the rule's own `initialize_from_config` raises on a value the getter accepted
  deriving DecidableEq, Repr, Inhabited

instance {ε α : Type} [DecidableEq ε] [DecidableEq α] : DecidableEq (Except ε α) := fun a b =>
  match a, b with
  | .ok x, .ok y => if h : x = y then isTrue (by rw [h]) else isFalse (by intro e; cases e; exact h rfl)
  | .error x, .error y => if h : x = y then isTrue (by rw [h]) else isFalse (by intro e; cases e; exact h rfl)
  | .ok _, .error _ => isFalse (by intro e; cases e)
  | .error _, .ok _ => isFalse (by intro e; cases e)

/-! ### the flat map -/

/-- `d[k] = v` -/
def PMap.insert : PMap → Key → Value → PMap
  | [], k, v => [(k, v)]
  | (k', v') :: t, k, v => if k' = k then (k, v) :: t else (k', v') :: PMap.insert t k v

/-- `d.get(k)` -/
def PMap.get? : PMap → Key → Option Value
  | [], _ => none
  | (k', v') :: t, k => if k' = k then some v' else PMap.get? t k

/-- `load_from_dict(layer, clear_map=False)`: every binding is written in order. -/
def applyLayer (m : PMap) (l : Layer) : PMap := l.foldl (fun m kv => m.insert kv.1 kv.2) m

/-- All layers applied in the order given (least specific first). -/
def merge (ls : List Layer) : PMap := ls.foldl applyLayer []

/-- What a single source says about a key (a later binding in the same file overwrites). -/
def Layer.get? (l : Layer) (k : Key) : Option Value := (applyLayer [] l).get? k

/-- The four configuration sources of `apply_configuration_layers`. -/
structure Layers where
  pyproject : Layer   -- `[tool.pymarkdown]` of ./pyproject.toml
  dflt      : Layer   -- ./.pymarkdown (JSON), else ./.pymarkdown.yaml, else ./.pymarkdown.yml
  config    : Layer   -- --config FILE
  set       : Layer   -- --set k=v … (after `manualValue`)
  deriving Repr

/-- `__process_default_configuration_files`: `.pymarkdown`, `.pymarkdown.yaml`, `.pymarkdown.yml` are
tried in that order and the first one that is present AND non-empty is the default-file layer; the
others are not read (`did_apply_map` is false for an absent file and for an empty dictionary). -/
def pickDefault : List Layer → Layer
  | [] => []
  | l :: rest => if l.isEmpty then pickDefault rest else l

/-- Load order = the order of the calls in `apply_configuration_layers`. -/
def Layers.toList (L : Layers) : List Layer := [L.pyproject, L.dflt, L.config, L.set]

def Layers.merged (L : Layers) : PMap := merge L.toList

/-- Names of the six layers of the documentation, least specific first. -/
inductive LayerName | defaultValue | pyproject | defaultFile | configFile | setArg | cmdLine
  deriving DecidableEq, Repr, Inhabited

/-- The order the model implements. -/
def layerOrder : List LayerName :=
  [.defaultValue, .pyproject, .defaultFile, .configFile, .setArg, .cmdLine]

/-! ### `--set key=value` typing (`set_manual_property` / `__adjust_property_type`) -/

def isDigit (c : Char) : Bool := '0' ≤ c && c ≤ '9'

def digitsVal (cs : List Char) : Nat := cs.foldl (fun a c => a * 10 + (c.toNat - 48)) 0

/-- `int(s)` restricted to `[+-]?[0-9]+` (the harness only sends such literals or
obviously non-numeric ones); anything else is the ValueError. -/
def parseInt (cs : List Char) : Option Int :=
  let body (ds : List Char) : Option Nat := if !ds.isEmpty && ds.all isDigit then some (digitsVal ds) else none
  match cs with
  | '-' :: ds => (body ds).map fun n => - (Int.ofNat n)
  | '+' :: ds => (body ds).map Int.ofNat
  | ds => (body ds).map Int.ofNat

def lowerAscii (cs : List Char) : List Char := cs.map Char.toLower

/-- The value stored for `--set key=<raw>`. -/
def manualValue (raw : List Char) : Except Err Value :=
  match raw with
  | '$' :: t :: rest =>
    if t = '$' then .ok (.str (String.ofList rest))
    else if t = '#' then
      match parseInt rest with
      | some i => .ok (.int i)
      | none => .error .badManual
    else if t = '!' then .ok (.bool (lowerAscii rest == "true".toList))
    else .ok (.str (String.ofList (t :: rest)))
  | _ => .ok (.str (String.ofList raw))

/-- All `--set` arguments in command-line order; the first untranslatable one raises. -/
def parseSet : List (Key × List Char) → Except Err Layer
  | [] => .ok []
  | (k, raw) :: t =>
    match manualValue raw with
    | .error e => .error e
    | .ok v => match parseSet t with
      | .error e => .error e
      | .ok l => .ok ((k, v) :: l)

/-- A flattened key as written in a file or after `--set` → segments: `.lower()`, split at ".". -/
def normKey (raw : List Char) : Key :=
  let (cur, acc) := (lowerAscii raw).foldl (fun (p : List Char × List (List Char)) c =>
      if c = '.' then ([], p.1.reverse :: p.2) else (c :: p.1, p.2)) ([], [])
  ((cur.reverse :: acc).reverse).map String.ofList

/-! ### typed getter -/

/-- `__get_present_property` on the value found for key `k` (`none` = key absent):
`dflt` when absent; when present with the wrong type or rejected by `valid`, `dflt` in lenient
mode and an error in strict mode. -/
def typed (found : Option Value) (strict : Bool) (k : Key) (ty : Ty) (valid : Value → Bool)
    (dflt : Option Value) : Except Err (Option Value) :=
  match found with
  | none => .ok dflt
  | some v =>
    if !v.hasType ty then (if strict then .error (.wrongType k) else .ok dflt)
    else if !valid v then (if strict then .error (.invalid k) else .ok dflt)
    else .ok (some v)

/-- `ApplicationProperties.get_property(k, ty, default_value=dflt, valid_value_fn=valid,
strict_mode=strict)`. -/
def getProp (m : PMap) (strict : Bool) (k : Key) (ty : Ty) (valid : Value → Bool)
    (dflt : Option Value) : Except Err (Option Value) :=
  typed (m.get? k) strict k ty valid dflt

/-- `get_boolean_property(k, default_value=None)` on the value found. -/
def typedBool (found : Option Value) (strict : Bool) (k : Key) : Except Err (Option Bool) :=
  match found with
  | none => .ok none
  | some (.bool b) => .ok (some b)
  | some _ => if strict then .error (.wrongType k) else .ok none

/-- `get_boolean_property(k, default_value=None)` as a Bool option. -/
def getBool (m : PMap) (strict : Bool) (k : Key) : Except Err (Option Bool) :=
  typedBool (m.get? k) strict k

/-- `args.strict_configuration or properties.get_boolean_property("mode.strict-config",
strict_mode=True)` — the getter is only evaluated when the flag is off, and it is itself
strict: a wrongly typed `mode.strict-config` always stops the run. -/
def strictMode (m : PMap) (flag : Bool) : Except Err Bool :=
  if flag then .ok true
  else match getBool m true ["mode", "strict-config"] with
    | .error e => .error e
    | .ok none => .ok false      -- Python: `None` is falsy
    | .ok (some b) => .ok b

/-! ### rule selection -/

structure Rule where
  id : String                -- lower-cased, stripped
  names : List String        -- lower-cased, stripped, in declaration order
  enabledByDefault : Bool
  deriving DecidableEq, Repr, Inhabited

/-- `FoundPlugin.plugin_identifiers`: the id first, then the names in order. -/
def Rule.identifiers (r : Rule) : List String := r.id :: r.names

def isSpace (c : Char) : Bool := c = ' ' || c = '\t' || c = '\n' || c = '\r' || c = '\x0b' || c = '\x0c'

def stripL (cs : List Char) : List Char := cs.dropWhile isSpace
def strip (cs : List Char) : List Char := (stripL (stripL cs).reverse).reverse

/-- `s.split(",")` -/
def splitComma (cs : List Char) : List (List Char) :=
  let (cur, acc) := cs.foldl (fun (p : List Char × List (List Char)) c =>
      if c = ',' then ([], p.1.reverse :: p.2) else (c :: p.1, p.2)) ([], [])
  (cur.reverse :: acc).reverse

/-- The identifier set built by `__register_plugins` from the text after `-e` / `-d`:
empty text gives the empty set; otherwise lower-case, split at ",", strip each. -/
def normIds (raw : List Char) : List String :=
  if raw.isEmpty then [] else (splitComma (lowerAscii raw)).map fun p => String.ofList (strip p)

/-- The command line as far as rule selection is concerned (identifier sets already
normalised by `normIds`). -/
structure CmdLine where
  enable : List String
  disable : List String
  deriving Repr

def wildcard : String := "*"

/-- `__handle_command_line_settings`. -/
def cmdSetting (r : Rule) (c : CmdLine) : Option Bool :=
  if c.disable.contains wildcard || r.identifiers.any (fun i => c.disable.contains i) then some false
  else if r.identifiers.any (fun i => c.enable.contains i) then some true
  else none

/-- `key.startswith("plugins.<i>.")` for a key that is listed by `property_names`
(keys beginning with "." — the `--set` shadow entries — are not). -/
def isSectionKey (i : String) : Key → Bool
  | a :: b :: _ :: _ => a == "plugins" && b == i
  | _ => false

/-- `ApplicationPropertiesFacade(properties, "plugins.<i>.").property_names` is non-empty. -/
def hasSection (m : PMap) (i : String) : Bool := m.any fun kv => isSectionKey i kv.1

/-- `__find_configuration_for_plugin`: the first identifier whose section has ANY key. -/
def findSection (r : Rule) (m : PMap) : Option String := r.identifiers.find? (hasSection m)

def enabledKey (i : String) : Key := ["plugins", i, "enabled"]
def itemKey (i : String) (item : String) : Key := ["plugins", i, item]

/-- `__determine_if_plugin_enabled` on an already merged map. -/
def enabledIn (r : Rule) (m : PMap) (strict : Bool) (c : CmdLine) : Except Err Bool :=
  match cmdSetting r c with
  | some b => .ok b
  | none =>
    match findSection r m with
    | none => .ok r.enabledByDefault
    | some i =>
      match getBool m strict (enabledKey i) with
      | .error e => .error e
      | .ok none => .ok r.enabledByDefault
      | .ok (some b) => .ok b

/-- Whether rule `r` runs: layers are merged, strict mode is determined, then the rule's
state is decided.  An error is the run stopping with a configuration error (exit 1). -/
def enabled (r : Rule) (L : Layers) (strictFlag : Bool) (c : CmdLine) : Except Err Bool :=
  match strictMode L.merged strictFlag with
  | .error e => .error e
  | .ok s => enabledIn r L.merged s c

/-- The section a rule reads its settings from (`always_return_facade=True`: the id's own
section when no identifier has one). -/
def settingsSection (r : Rule) (m : PMap) : String :=
  match findSection r m with
  | some i => i
  | none => r.id

/-- A configuration item read in `initialize_from_config` through the rule's facade. -/
def setting (r : Rule) (m : PMap) (strict : Bool) (item : String) (ty : Ty)
    (valid : Value → Bool) (dflt : Option Value) : Except Err (Option Value) :=
  getProp m strict (itemKey (settingsSection r m) item) ty valid dflt

/-- `initialize_from_config` of the rules that parse an accepted string themselves and raise
`ValueError` on a malformed one, whatever the strict mode (md033 `allowed_elements`, md044
`names`, pml100 `change_tag_names`): `post` is the rule's own acceptance test, applied to the
value the getter returned (which may be the default). -/
def settingChecked (r : Rule) (m : PMap) (strict : Bool) (item : String) (ty : Ty)
    (valid : Value → Bool) (dflt : Option Value) (post : Option Value → Bool) :
    Except Err (Option Value) :=
  match setting r m strict item ty valid dflt with
  | .error e => .error e
  | .ok v => if post v then .ok v else .error (.rejected (itemKey (settingsSection r m) item))

end Verif.Model.Config
