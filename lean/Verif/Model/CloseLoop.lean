/-
  Control skeleton of the list-closing loop that runs after a new list start has been recognised
  (core Lean only).

  Faithful model of pymarkdown/list_blocks/list_block_create_new_handler.py
      `__close_required_lists_after_start`   (the `while repeat_check` loop)
      `__close_next_level_of_lists`          (one iteration)
      `__are_list_starts_equal`, `__implement_based_on_equality`, `__process_eligible_list_start`
      `__close_next_level_of_lists_do_not_emit`, `__close_next_level_of_lists_do_not_emit_cleanup`
      `__close_next_level_of_lists_do_emit`
  and of the parts of the token stack they read: for every stack token its kind and, for list tokens,
  `indent_level`, `list_character`, `ws_before_marker`, `ws_after_marker`, `start_index`,
  `last_new_list_token.indent_level`.  `close_open_blocks_fn(until_this_index, include_lists,
  include_block_quotes)` is modelled by `closeUntil` (tokenized_markdown.py `__close_open_blocks` /
  `__can_close_continue`) for a stack without a pending link reference definition.
  `ListBlockCanCloseHelper.close_required_lists` (only reached with more than one current container block)
  is a parameter.

  **The natural definition of the loop is rejected by Lean**: in the `do_not_emit` branch nothing that the
  loop condition depends on is guaranteed to change, so there is no decreasing measure.  The loop therefore
  takes fuel, and `Err.fuel` is the model of "does not terminate".
-/
namespace Verif.Model.CloseLoop

inductive Kind where
  | document | ulist | olist | blockQuote | other
  deriving Repr, DecidableEq

structure Entry where
  kind : Kind
  indent : Nat := 0
  listChar : List Char := []
  wsBefore : Nat := 0
  wsAfter : Nat := 0
  startIndex : Nat := 0
  lastNewIndent : Option Nat := none
  deriving Repr, DecidableEq

def Entry.isList (e : Entry) : Bool := e.kind == .ulist || e.kind == .olist

/-- `StackToken.__eq__`: `type_name` and `extra_data` (which does not include `last_new_list_token`). -/
def Entry.same (a b : Entry) : Bool :=
  a.kind == b.kind && a.indent == b.indent && a.listChar == b.listChar && a.wsBefore == b.wsBefore &&
    a.wsAfter == b.wsAfter && a.startIndex == b.startIndex

/-- what one iteration can raise -/
inductive Err where
  | index | assertion
  deriving Repr, DecidableEq

/-- what the loop can do besides returning: raise, or run out of fuel (= never end) -/
inductive LoopErr where
  | iter (e : Err)
  | fuel
  deriving Repr, DecidableEq

/-- the stack, bottom (document) first -/
abbrev Stack := List Entry

def stackAt (st : Stack) (i : Nat) : Except Err Entry :=
  match st[i]? with
  | some e => .ok e
  | none => .error .index

/-- `__close_open_blocks(parser_state, until_this_index=u, include_lists, include_block_quotes)`;
`n` bounds the `while not token_stack[-1].is_document` loop by the stack size. -/
def closeUntilAux (u : Nat) (inclLists inclBq : Bool) : Nat → Stack → Except Err Stack
  | 0, st => .ok st
  | n + 1, st =>
    match st.getLast? with
    | none => .error .index
    | some top =>
      if top.kind == .document then .ok st
      else if !inclBq && top.kind == .blockQuote then .ok st
      else if !inclLists && top.isList then .ok st
      else if u ≥ st.length then .ok st
      else closeUntilAux u inclLists inclBq n st.dropLast

def closeUntil (st : Stack) (u : Nat) (inclLists inclBq : Bool) : Except Err Stack :=
  closeUntilAux u inclLists inclBq st.length st

/-- `LeafBlockProcessorParagraph.check_for_list_in_process`: index of the last list on the stack. -/
def findLastList : Stack → Option Nat
  | [] => none
  | e :: rest =>
    match findLastList rest with
    | some j => some (j + 1)
    | none => if e.isList then some 0 else none

/-- everything the loop reads that does not change while it runs -/
structure Ctx where
  /-- `new_stack` -/
  newStack : Entry
  /-- `new_token.column_number` -/
  newColumn : Nat
  /-- `position_marker.index_number` -/
  posIndex : Nat
  /-- `indent_level` of the last list token in `token_document` (`none`: the assert "List token must be found") -/
  docListIndent : Option Nat
  /-- `container_depth` -/
  containerDepth : Nat
  /-- `len(current_container_blocks) > 1` -/
  ccbMany : Bool
  /-- `parser_state.original_line_to_parse` -/
  line : List Char
  /-- `ListBlockCanCloseHelper.close_required_lists` as a stack transformer -/
  closeRequired : Stack → Stack

def lastChar (s : List Char) : Except Err Char :=
  match s.getLast? with
  | some c => .ok c
  | none => .error .index

/-- `__are_list_starts_equal` → `(do_not_emit, emit_li_token_instead_of_list_start_token, stack)` -/
def areListStartsEqual (ctx : Ctx) (st : Stack) (lli : Nat) : Except Err (Bool × Bool × Stack) := do
  let last ← stackAt st lli
  if last.same ctx.newStack then
    let st' ← closeUntil st lli false true
    return (true, true, st')
  let oldStart ← match ctx.docListIndent with
    | some i => pure i
    | none => throw Err.assertion
  let oldMarker ← lastChar last.listChar
  let currentStart := ctx.newStack.wsBefore
  -- __implement_based_on_equality
  let lastListIndent := last.lastNewIndent.getD last.indent
  let isIndentedEnough := ctx.posIndex ≥ lastListIndent
  let newMarker ← lastChar ctx.newStack.listChar
  if isIndentedEnough || (oldMarker == newMarker && last.kind == ctx.newStack.kind) then
    -- __process_eligible_list_start
    if currentStart ≥ lastListIndent then return (true, false, st)
    let st' := if ctx.ccbMany then ctx.closeRequired st else st
    return (true, true, st')
  return (currentStart ≥ oldStart, false, st)

/-- one iteration: `__close_next_level_of_lists` → `(repeat_check, emit_li…, last_list_index, stack)` -/
def closeNextLevel (ctx : Ctx) (st : Stack) (lli : Nat) : Except Err (Bool × Bool × Nat × Stack) := do
  let (doNotEmit, emitLi, st1) ← areListStartsEqual ctx st lli
  if doNotEmit then
    -- __close_next_level_of_lists_do_not_emit
    let lli' ← match findLastList st1 with
      | some j => pure j
      | none => throw Err.assertion                    -- "List must exist on the stack."
    let lastTok ← stackAt st1 lli'
    let repeatCheck := !(lastTok.kind == ctx.newStack.kind || ctx.newStack.startIndex > lastTok.startIndex)
    if !repeatCheck && !emitLi then
      -- __close_next_level_of_lists_do_not_emit_cleanup
      let between := (ctx.line.take (ctx.newColumn - 1)).drop lastTok.indent
      if !between.contains '>' then
        let st2 ← closeUntil st1 lli' false true
        if st2.length ≠ st1.length && ctx.containerDepth ≠ 0 then throw Err.assertion
        return (repeatCheck, emitLi, lli', st2)
      return (repeatCheck, emitLi, lli', st1)
    return (repeatCheck, emitLi, lli', st1)
  else
    -- __close_next_level_of_lists_do_emit
    let st2 ← closeUntil st1 lli true true
    match findLastList st2 with
    | none => return (false, emitLi, 0, st2)
    | some j =>
      let lastTok ← stackAt st2 j
      return (ctx.newColumn ≤ lastTok.indent, emitLi, j, st2)

/-- `while repeat_check:` with fuel → final stack and `emit_li_token_instead_of_list_start_token`. -/
def closeLoop (ctx : Ctx) : Nat → Stack → Nat → Except LoopErr (Stack × Bool)
  | 0, _, _ => .error .fuel
  | fuel + 1, st, lli =>
    match closeNextLevel ctx st lli with
    | .error e => .error (.iter e)
    | .ok (rep, emitLi, lli', st') => if rep then closeLoop ctx fuel st' lli' else .ok (st', emitLi)

/-! ## the hanging shape `'  - a\n- 1)'`

State recorded from the real parser at the second list start of line 2 (the `1)` inside the new `- ` item):
stack `[document, ulist(indent 4, "-", ws_before 2, ws_after 1, start_index 2, last new item at indent 2)]`,
`new_stack = olist(indent 5, "1)", 2, 1, 2)`, `last_list_index = 1`, `container_depth = 1`,
last list token of the document = the `- ` item just emitted (indent 2), `position_marker.index_number = 2`. -/

def hangStack : Stack :=
  [{ kind := .document },
   { kind := .ulist, indent := 4, listChar := ['-'], wsBefore := 2, wsAfter := 1, startIndex := 2, lastNewIndent := some 2 }]

def hangCtx : Ctx :=
  { newStack := { kind := .olist, indent := 5, listChar := ['1', ')'], wsBefore := 2, wsAfter := 1, startIndex := 2 },
    newColumn := 3, posIndex := 2, docListIndent := some 2, containerDepth := 1, ccbMany := false,
    line := ['-', ' ', '1', ')'], closeRequired := id }

end Verif.Model.CloseLoop
