/-
  Faithful model of fix mode: `FileScanHelper.__process_file_fix`, `__process_file_fix_next_level`,
  `__process_file_fix_pass`, `__process_file_fix_tokens`, `__process_file_fix_lines`,
  `PluginManager.next_line / completed_file` with the `context_map` filtering and the re-binding
  of the loop variable `context`, `__next_line_fix_mode_end`, `__completed_file_fix_mode_end`,
  and the file operations of one pass.

  Rules are abstract line-level fixers (token-level fix requests are a Boolean observation of the
  pass: the regenerator is not modelled here).  Core Lean only.
-/
namespace Verif.Model.FixSched

/-- A rule as fix mode sees it. -/
structure XRule where
  id       : String
  level    : Nat
  fixes    : Bool                               -- plugin_supports_fix
  hasStart : Bool
  hasToken : Bool
  hasLine  : Bool
  hasDone  : Bool
  tokTrig  : String → Bool                      -- would report on this token (its text) when collecting
  lineTrig : String → Bool                      -- would report on this line when collecting
  lineFix  : String → Option String             -- fix mode: `set_current_fix_line`
  doneFix  : Option String → Option String      -- fix mode completion, given `last_line_fixed`

/-- Which scan context a rule is bound to by `context_map`. -/
inductive Bind | fix | report
  deriving DecidableEq, Repr

/-- Calls as a recording plug-in observes them: (line number on *its* context, fix mode?). -/
inductive Call
  | start
  | token (t : String)
  | line (ctxLine : Int) (text : String) (fixMode : Bool)
  | done (ctxLine : Int) (fixMode : Bool)
  deriving DecidableEq, Repr

abbrev Log := List (String × Call)

/-- `context_map` of a pass at level `k`: fix list ↦ fix context, collect list ↦ report context;
rules that do not support fixing are not in the map. -/
def bindOf (k : Nat) (r : XRule) : Option Bind :=
  if !r.fixes then none
  else if r.level = k then some .fix
  else if r.level > k then some .report
  else none

def fixList (k : Nat) (rs : List XRule) : List XRule := rs.filter fun r => r.fixes && r.level == k
def collectList (k : Nat) (rs : List XRule) : List XRule := rs.filter fun r => r.fixes && decide (r.level > k)

/-- `starting_new_file(constraint_id_list=ids)`: an empty list is falsy — no constraint at all. -/
def starts (rs : List XRule) (constraint : List XRule) : Log :=
  (rs.filter fun r => r.hasStart && (constraint.isEmpty || constraint.any (·.id == r.id))).map fun r => (r.id, .start)

/-- Collect-list rules that report on some token: what the report context of a phase gathers from
the token callbacks. -/
def tokenTrigs (k : Nat) (rs : List XRule) (toks : List String) : List String :=
  (rs.filter fun r => r.hasToken && bindOf k r == some .report && toks.any r.tokTrig).map (·.id)

/-- `next_token` for every token, every mapped rule that overrides it. -/
def tokenCalls (k : Nat) (rs : List XRule) (toks : List String) : Log :=
  toks.flatMap fun t => (rs.filter fun r => r.hasToken && (bindOf k r).isSome).map fun r => (r.id, .token t)

/-! ### The line loop of `PluginManager.next_line` in fix mode -/

structure LineSt where
  line    : String        -- the (possibly rewritten) text of the current line
  ctxFix  : Bool          -- `context.in_fix_mode` of the context the loop variable is bound to NOW
  records : Nat           -- fix line records added on the fix context
  trig    : List String   -- ids collected on the report context
  log     : Log
  deriving Repr

/-- One iteration for one plug-in. `n` is the real line number; the fix context carries it, the
report context still has its initial 0. -/
def lineStep (k : Nat) (n : Nat) (st : LineSt) (r : XRule) : LineSt :=
  if !r.hasLine then st else
  match bindOf k r with
  | none => st                                         -- `continue`: not in the map, context NOT re-bound
  | some .fix =>
    let st := { st with ctxFix := true, log := st.log ++ [(r.id, .line n st.line true)] }
    match r.lineFix st.line with
    | some l' => { st with line := l', records := st.records + 1 }
    | none => st
  | some .report =>
    let st := { st with ctxFix := false, log := st.log ++ [(r.id, .line 0 st.line false)] }
    if r.lineTrig st.line then { st with trig := st.trig ++ [r.id] } else st

structure Out where
  written    : String         -- what has been written to the temporary output so far
  lastFixed  : Option String  -- `context.last_line_fixed` (of the fix context)
  records    : Nat
  trig       : List String
  log        : Log
  deriving Repr

/-- `__next_line_fix_mode_end` — executed only if the context the loop ended on is in fix mode. -/
def lineEnd (o : Out) (line : String) (isLast : Bool) (ctxFix : Bool) : Out :=
  if !ctxFix then o else
  if isLast then
    let wasModified := match o.lastFixed with | some s => s.endsWith "\n" | none => false
    let wasLineFixed := !(line.isEmpty && wasModified)
    { o with written := o.written ++ line, lastFixed := if wasLineFixed then some line else o.lastFixed }
  else
    { o with written := o.written ++ line ++ "\n", lastFixed := some (line ++ "\n") }

/-- `rebind = true` is the code as pinned (finding F-ENG): the loop variable `context` itself was
re-bound to the mapped context, so the code after the loop ran against the context of the last mapped
plug-in.  `rebind = false` is the repaired code: a per-plug-in variable, `context` stays the fix context. -/
def nextLineG (rebind : Bool) (k : Nat) (rs : List XRule) (o : Out) (n : Nat) (line : String) (isLast : Bool) : Out :=
  let st := rs.foldl (lineStep k n) ⟨line, true, 0, [], []⟩
  lineEnd { o with records := o.records + st.records, trig := o.trig ++ st.trig, log := o.log ++ st.log }
    st.line isLast (if rebind then st.ctxFix else true)

def linesLoopG (rebind : Bool) (k : Nat) (rs : List XRule) : Out → Nat → List String → Out
  | o, _, [] => o
  | o, n, [l] => nextLineG rebind k rs o n l true
  | o, n, l :: ls => linesLoopG rebind k rs (nextLineG rebind k rs o n l false) (n + 1) ls

/-- The current code. -/
abbrev nextLine := nextLineG false
abbrev linesLoop := linesLoopG false

/-- `completed_file` in the line phase: same re-binding; at most one rule may append. -/
structure DoneSt where
  ctxFix : Bool
  append : Option String
  log    : Log
  deriving Repr

def doneStep (k : Nat) (n : Int) (last : Option String) (st : DoneSt) (r : XRule) : DoneSt :=
  if !r.hasDone then st else
  match bindOf k r with
  | none => st
  | some .fix =>
    let st := { st with ctxFix := true, log := st.log ++ [(r.id, .done n true)] }
    match r.doneFix last with
    | some a => { st with append := some a }
    | none => st
  | some .report => { st with ctxFix := false, log := st.log ++ [(r.id, .done 0 false)] }

def completedG (rebind : Bool) (k : Nat) (rs : List XRule) (o : Out) (n : Int) : Out :=
  let st := rs.foldl (doneStep k n o.lastFixed) ⟨true, none, []⟩
  let o := { o with log := o.log ++ st.log }
  if (if rebind then st.ctxFix else true) then
    match st.append with
    | some a => { o with written := o.written ++ a, records := o.records + 1 }
    | none => o
  else o

abbrev completed := completedG false

/-! ### One pass, all passes -/

/-- File operations of one pass, temporary files named by role. -/
inductive Op
  | read (target : Bool)          -- open for reading: the target file (true) or the token-phase temp (false)
  | createTok | writeTok          -- temp file holding the regenerated Markdown
  | createLine | writeLine        -- temp file the line phase writes
  | copyBack                      -- shutil.copyfile(line temp, target)
  | removeLine | removeTok
  deriving DecidableEq, Repr

/-- Where a pass may be cut short by an exception. -/
inductive Fault | tokenPhase | apply | rescan | linePhase
  deriving DecidableEq, Repr

structure PassOut where
  content  : String      -- the target file after the pass
  changed  : Bool        -- did_anything_get_fixed_this_time
  trig     : List String
  log      : Log
  ops      : List Op
  deriving Repr

def splitLines (s : String) : List String := s.splitOn "\n"

/-- A fault-free pass at level `k` over a document whose token fixes (if any) are `tokFixed`:
`none` = no token fix requested, `some d'` = the regenerated document. -/
def passG (rebind : Bool) (k : Nat) (rs : List XRule) (toks : String → List String) (doc : String)
    (tokFixed : Option String) : PassOut :=
  -- token phase
  let log₁ := starts rs (fixList k rs) ++ starts rs (collectList k rs) ++ tokenCalls k rs (toks doc)
  let doneTok : Log := (rs.filter fun r => r.hasDone && (bindOf k r).isSome).map fun r =>
    (r.id, match bindOf k r with | some .fix => Call.done (-1) true | _ => Call.done 0 false)
  let doc₁ := tokFixed.getD doc
  let opsTok := if tokFixed.isSome then [Op.read true, .createTok, .writeTok, .read false] else [Op.read true]
  -- line phase: every start plug-in (no constraint), then the collect list again
  let log₂ := starts rs [] ++ starts rs (collectList k rs) ++ tokenCalls k rs (toks doc₁)
  let ls := splitLines doc₁
  let o := linesLoopG rebind k rs ⟨"", none, 0, [], []⟩ 1 ls
  let o := completedG rebind k rs o (ls.length + 1)
  let changed := tokFixed.isSome || o.records > 0
  { content := if changed then o.written else doc,
    changed := changed,
    -- `collected_token_triggers | collected_line_triggers`: the token phase's report context, and the line phase's
    -- (which saw the tokens of the possibly regenerated document and the lines)
    trig := tokenTrigs k rs (toks doc) ++ tokenTrigs k rs (toks doc₁) ++ o.trig,
    log := log₁ ++ doneTok ++ log₂ ++ o.log,
    ops := opsTok ++ [.read (!tokFixed.isSome), .createLine, .writeLine] ++ (if changed then [.copyBack] else [])
           ++ [.removeLine] ++ (if tokFixed.isSome then [.removeTok] else []) }

abbrev pass := passG false

def levelOf (rs : List XRule) (id : String) : Option Nat := (rs.find? (·.id == id)).map (·.level)

def minOpt : List Nat → Option Nat
  | [] => none
  | x :: xs => match minOpt xs with | none => some x | some m => some (min x m)

structure FixOut where
  content : String
  fixed   : Bool
  levels  : List Nat     -- levels visited, in order
  log     : Log
  ops     : List Op
  deriving Repr

/-- `__process_file_fix`: passes at increasing levels while the collect rules keep triggering.
`tokFix k d` is the (abstract) outcome of the token-level fixers of level `k` on `d`. -/
def fixLoop (rs : List XRule) (toks : String → List String) (tokFix : Nat → String → Option String) :
    Nat → Nat → String → FixOut
  | 0, k, d => ⟨d, false, [k], [], []⟩      -- fuel exhausted (never reached, see `passes_le_levels`)
  | fuel + 1, k, d =>
    let p := pass k rs toks d (tokFix k d)
    let next := minOpt ((p.trig.filterMap (levelOf rs)).filter (· > k))
    match next with
    | none => ⟨p.content, p.changed, [k], p.log, p.ops⟩
    | some k' =>
      let r := fixLoop rs toks tokFix fuel k' p.content
      ⟨r.content, p.changed || r.fixed, k :: r.levels, p.log ++ r.log, p.ops ++ r.ops⟩

def fixFile (rs : List XRule) (toks : String → List String) (tokFix : Nat → String → Option String)
    (doc : String) : Option FixOut :=
  match minOpt ((rs.filter (·.fixes)).map (·.level)) with
  | none => none      -- `min()` of an empty sequence: ValueError
  | some k => some (fixLoop rs toks tokFix (rs.length + 1) k doc)

/-! ### File operations under faults (C10 / C15) -/

/-- Operations performed by a pass that is cut short at `f` (`none`: runs to completion). -/
def passOps (tokFix lineFix : Bool) (f : Option Fault) : List Op :=
  match f with
  | some .tokenPhase => [.read true]
  | some .apply => [.read true]
  | some .rescan => if tokFix then [.read true, .createTok, .writeTok, .read false] else [.read true]
  | some .linePhase =>
    (if tokFix then [.read true, .createTok, .writeTok, .read false] else [.read true]) ++ [.read (!tokFix), .createLine]
  | none =>
    (if tokFix then [.read true, .createTok, .writeTok, .read false] else [.read true])
    ++ [.read (!tokFix), .createLine, .writeLine] ++ (if tokFix || lineFix then [.copyBack] else [])
    ++ [.removeLine] ++ (if tokFix then [.removeTok] else [])

/-- Temporary files alive after a list of operations. -/
def tempsLeft (ops : List Op) : Nat × Nat :=
  ops.foldl (fun (a, b) op => match op with
    | .createTok => (a + 1, b) | .removeTok => (a - 1, b)
    | .createLine => (a, b + 1) | .removeLine => (a, b - 1)
    | _ => (a, b)) (0, 0)

def targetWritten (ops : List Op) : Bool := ops.contains .copyBack

/-! ### Completion-line conflict

`PluginManager.__completed_file_fix_mode_middle` raises `BadPluginError` ("attempted to rewrite a completion line") when a
SECOND fix-bound rule sets a completion line in the same pass.  `completedG` above describes the passes in which at most one
rule does (the later appender would win); the functions below say exactly when the real pass ends in that error instead, so that
the model's domain is a computed predicate and not an assumption (found by the thorough fix-mode correspondence: two probe rules
that both add the final newline). -/

/-- Number of fix-bound rules whose `completed_file` sets a completion line, given `last_line_fixed`. -/
def appenders (k : Nat) (rs : List XRule) (last : Option String) : Nat :=
  (rs.filter fun r => r.hasDone && bindOf k r == some .fix && (r.doneFix last).isSome).length

/-- Does the pass at level `k` end in the completion-line error? -/
def passConflict (k : Nat) (rs : List XRule) (doc : String) (tokFixed : Option String) : Bool :=
  let o := linesLoop k rs ⟨"", none, 0, [], []⟩ 1 (splitLines (tokFixed.getD doc))
  decide (2 ≤ appenders k rs o.lastFixed)

/-- First pass of `fixLoop` that ends in the error: its level and the content of the target before that pass (earlier passes
have completed and written back). -/
def fixConflict (rs : List XRule) (toks : String → List String) (tokFix : Nat → String → Option String) :
    Nat → Nat → String → Option (Nat × String)
  | 0, _, _ => none
  | fuel + 1, k, d =>
    if passConflict k rs d (tokFix k d) then some (k, d) else
    let p := pass k rs toks d (tokFix k d)
    match minOpt ((p.trig.filterMap (levelOf rs)).filter (· > k)) with
    | none => none
    | some k' => fixConflict rs toks tokFix fuel k' p.content

def fileConflict (rs : List XRule) (toks : String → List String) (tokFix : Nat → String → Option String)
    (doc : String) : Option (Nat × String) :=
  match minOpt ((rs.filter (·.fixes)).map (·.level)) with
  | none => none
  | some k => fixConflict rs toks tokFix (rs.length + 1) k doc

end Verif.Model.FixSched
