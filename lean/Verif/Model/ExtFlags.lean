/-
  Types of the generated extension-flag table (`Verif/Gen/ExtFlags.lean`, written by
  tools/translate/ext_flags.py from the AST of /repo) and the model of the two tables the flags
  feed at `InlineProcessor.initialize` time (core Lean only):

  * `InlineHandlerHelper.__inline_character_handlers` / `valid_inline_text_block_sequence_starts`
    (built by the sequence of `register_handlers` calls in `InlineHandlerHelper.initialize`),
  * `EmphasisHelper.__inline_emphasis` (built by `EmphasisHelper.initialize`).
-/
namespace Verif.Model.ExtFlags

/-- The six extensions that own an `is_*_enabled` flag. -/
inductive Ext where
  | frontMatter | pragmas | disallowRawHtml | taskListItems | strikeThrough | extendedAutolinks
  deriving DecidableEq, Repr

def Ext.all : List Ext :=
  [.frontMatter, .pragmas, .disallowRawHtml, .taskListItems, .strikeThrough, .extendedAutolinks]

/-- One run's extension switches. -/
structure Flags where
  frontMatter : Bool
  pragmas : Bool
  disallowRawHtml : Bool
  taskListItems : Bool
  strikeThrough : Bool
  extendedAutolinks : Bool
  deriving DecidableEq, Repr

def Flags.get (f : Flags) : Ext → Bool
  | .frontMatter => f.frontMatter
  | .pragmas => f.pragmas
  | .disallowRawHtml => f.disallowRawHtml
  | .taskListItems => f.taskListItems
  | .strikeThrough => f.strikeThrough
  | .extendedAutolinks => f.extendedAutolinks

def Flags.allOff : Flags := ⟨false, false, false, false, false, false⟩

/-- How a flag travels from the configuration to its readers. -/
structure Wire where
  /-- extension whose identifier is tested in `ExtensionManager.apply_configuration` -/
  ext : Ext
  cls : String
  ident : String
  enabledByDefault : Bool
  /-- private field assigned from that test, and the extension its name stands for -/
  field : String
  fieldExt : Ext
  /-- public property returning the field, and the extension its name stands for -/
  prop : String
  propExt : Ext
  /-- `ParseBlockPassProperties`: (property name, extension its name stands for, extension of the
  manager property it is copied from); `none` for flags not copied (strikethrough, autolinks) -/
  props : Option (String × Ext × Ext)
  deriving DecidableEq, Repr

/-- The names along the wire all stand for the extension whose identifier is tested. -/
def Wire.straight (w : Wire) : Bool :=
  w.fieldExt == w.ext && w.propExt == w.ext &&
    (match w.props with
     | none => true
     | some (_, nameExt, srcExt) => nameExt == w.ext && srcExt == w.ext)

inductive Role where
  | guard   -- read inside the test of an if / elif / conditional expression / assert
  | copy    -- copied into ParseBlockPassProperties.__init__
  | log     -- argument of a logging call
  deriving DecidableEq, Repr

/-- One read of a flag property outside the class that defines it. -/
structure FlagRead where
  file : String
  func : String
  line : Nat
  flag : Ext
  role : Role
  deriving DecidableEq, Repr

/-- One place where extension code is entered / an extension object is created / an extension
character or handler is registered.  `guards` = the flags known to be ON whenever control reaches
the site (enclosing if-tests, earlier `if not flag: return`, left operands of `and`, conditional
expressions — asserts do not count — and, for private helpers without a local guard, the guards
common to all call sites in the same file). -/
structure Hook where
  file : String
  func : String
  line : Nat
  what : String
  owner : Ext
  guards : List Ext
  viaCaller : Bool
  deriving DecidableEq, Repr

/-- One `InlineHandlerHelper.register_handlers(chars, handler, is_simple_handler)` (loops expanded). -/
structure Reg where
  chars : List Char
  owner : Option Ext
  handler : String
  simple : Bool
  deriving DecidableEq, Repr

/-- One contribution to `EmphasisHelper.__inline_emphasis`. -/
structure Emph where
  chars : List Char
  owner : Option Ext
  deriving DecidableEq, Repr

def ownerOn (f : Flags) : Option Ext → Bool
  | none => true
  | some e => f.get e

def activeRegs (regs : List Reg) (f : Flags) : List Reg := regs.filter (fun r => ownerOn f r.owner)

/-- `valid_inline_text_block_sequence_starts` without its leading newline: characters in
registration order (duplicates kept, as `+=` keeps them). -/
def handlerChars (regs : List Reg) (f : Flags) : List Char := (activeRegs regs f).flatMap (·.chars)

/-- `__valid_inline_simple_text_block_sequence_starts` without its leading newline. -/
def simpleChars (regs : List Reg) (f : Flags) : List Char :=
  ((activeRegs regs f).filter (·.simple)).flatMap (·.chars)

/-- `__inline_character_handlers[c]`: the last active registration wins. -/
def handlerOf (regs : List Reg) (f : Flags) (c : Char) : Option String :=
  ((activeRegs regs f).reverse.find? (fun r => r.chars.contains c)).map (·.handler)

/-- `EmphasisHelper.get_inline_emphasis()`. -/
def emphChars (emph : List Emph) (f : Flags) : List Char :=
  (emph.filter (fun e => ownerOn f e.owner)).flatMap (·.chars)

/-- Characters some registration owned by extension `e` introduces. -/
def extChars (regs : List Reg) (e : Ext) : List Char :=
  (regs.filter (fun r => r.owner == some e)).flatMap (·.chars)

end Verif.Model.ExtFlags
