/-
  Shape of the table of PARSER / application-shell statics that
  `tools/translate/parser_statics.py` regenerates from the sources on every run
  (`Verif/Gen/ParserStatics.lean`), and the committed, reviewed baseline it is compared with.

  A row is one piece of state that lives longer than one document inside one process:
  a class-level or module-level binding that is mutable or written by some function, or an
  instance attribute of a long-lived object (tokenizer, parse properties, plug-in manager,
  extension manager, file-scan helper, application object, API object, parser loggers, …).
-/
namespace Verif.Model.ParserStaticsTable

structure Row where
  owner          : String        -- class name, or module path below `pymarkdown.` for module globals
  name           : String        -- attribute / global name as written in the source (`__x` unmangled)
  kind           : String        -- "class" | "module" | "instance"
  value          : String        -- shape of the binding: list, dict, set, object:<ctor>, logger, const, attr …
  writers        : List String   -- functions (other than the constructor / import-time code) that write it
  docWriters     : List String   -- the writers reachable from the per-document roots in the call graph
  resetOnDocPath : Bool          -- re-bound as a whole, unconditionally, at the start of every per-document entry
                                 -- function before anything else on that path touches it
  constant       : Bool          -- never written after import / configuration (docWriters = [])
  deriving Repr, DecidableEq

/-- The identity of a row together with its writer set (an exception is reviewed for a given set of
writers: a new writer, or a writer that disappears, needs a new review). -/
abbrev Key := String × String × List String

def Row.key (r : Row) : Key := (r.owner, r.name, r.writers)
def Row.id (r : Row) : String × String := (r.owner, r.name)

/-- A row needs a reviewed argument when it is written while documents are processed and is not
re-initialised at the start of each document. -/
def Row.needsException (r : Row) : Bool := !r.constant && !r.resetOnDocPath

/-- Written only by configuration-time code (never on the per-document path). -/
def Row.configWritten (r : Row) : Bool := r.constant && !r.writers.isEmpty

def exceptionKeys (rows : List Row) : List Key := (rows.filter Row.needsException).map Row.key
def configKeys (rows : List Row) : List Key := (rows.filter Row.configWritten).map Row.key
def resetIds (rows : List Row) : List (String × String) := (rows.filter (·.resetOnDocPath)).map Row.id
def owners (rows : List Row) : List String := rows.map (·.owner)

/-- Internal consistency of a generated table. -/
def Row.wellFormed (r : Row) : Bool :=
  (r.constant == r.docWriters.isEmpty) && r.docWriters.all (r.writers.contains ·) &&
  (r.kind == "class" || r.kind == "module" || r.kind == "instance")

/-! ### Baseline of the pinned tree (committed; reviewed by hand)

A change to the parser or the shell that adds a piece of long-lived state, drops a per-document
reset, moves a reset behind a condition, or adds / removes a writer of one of the rows below makes
the regenerated table differ from this baseline, and the theorems in `Props/C13` stop checking. -/
namespace Baseline

/-- Statics that are written while documents are processed and are NOT re-initialised per document,
with the argument why no document's result can depend on them. -/
def exceptions : List Key :=
  [ -- epoch counter: only ever compared for (in)equality with the loggers' cached copy to make them
    -- re-read the logging level; bumped by `TokenizedMarkdown.transform` (test entry point), never by the
    -- application path; influences log output only
    ("ParserLogger", "__global_count", ["ParserLogger.sync_on_next_call"]),
    -- per-logger caches of `isEnabledFor(INFO/DEBUG)` and of the epoch; recomputed from the logging
    -- module whenever the epoch differs (written before read); decide only whether a log line is emitted
    ("ParserLogger", "__is_debug_enabled", ["ParserLogger.__reset_cache"]),
    ("ParserLogger", "__is_info_enabled", ["ParserLogger.__reset_cache"]),
    ("ParserLogger", "__local_count", ["ParserLogger.__reset_cache"]),
    -- per-RUN accumulators: zeroed in `PluginManager.initialize` (once per invocation, and the manager is
    -- constructed anew by every `PyMarkdownLint`), incremented per reported failure, read only after the
    -- last file to choose the return code (`__scan_files_if_no_errors`); no per-file output reads them
    ("PluginManager", "number_of_pragma_failures", ["PluginManager.initialize", "PluginManager.log_pragma_failure"]),
    ("PluginManager", "number_of_scan_failures", ["PluginManager.initialize", "PluginManager.log_scan_failure"]) ]

/-- Statics that ARE re-bound at the start of every per-document entry function (`TokenizedMarkdown.transform_from_provider`
/ `transform` → `__transform` → `InlineProcessor.initialize`, `LinkParseHelper.initialize`, start of `__parse_blocks_pass`;
`PluginManager.starting_new_file`).  Pinned so that a reset that is dropped, moved behind a condition or behind the first
use changes this list whatever else happens to the row. -/
def resetOnDocPath : List (String × String) :=
  [ ("EmphasisHelper", "__inline_emphasis"),
    ("InlineHandlerHelper", "__inline_character_handlers"),
    ("InlineHandlerHelper", "__inline_processing_needed"),
    ("InlineHandlerHelper", "__inline_simple_character_handlers"),
    ("InlineHandlerHelper", "__valid_inline_simple_text_block_sequence_starts"),
    ("InlineHandlerHelper", "valid_inline_text_block_sequence_starts"),
    ("LinkParseHelper", "__link_definitions"),
    ("ParseBlockPassProperties", "pragma_lines"),
    ("PluginManager", "__document_pragma_ranges"),
    ("PluginManager", "__document_pragmas"),
    ("TokenizedMarkdown", "__source_provider"),
    ("TokenizedMarkdown", "__token_stack"),
    ("TokenizedMarkdown", "__tokenized_document") ]

/-- Statics written by configuration-time code only (constant while documents are processed).
Each group: who writes it and why that is before the first document. -/
def configurationWritten : List Key :=
  [ -- argparse sub-parsers, stored while the command line is being built (`__parse_arguments`)
    ("ExtensionManager", "__argparse_subparser", ["ExtensionManager.add_argparse_subparser"]),
    -- entity table, loaded from resources/entities.json by the tokenizer's constructor (same file every time)
    ("InlineCharacterReferenceHelper", "__entity_map", ["InlineCharacterReferenceHelper.initialize"]),
    ("PluginManager", "__argparse_subparser", ["PluginManager.add_argparse_subparser"]),
    -- thread-local return-code scheme: deleted by `reset`, set from args/properties in `set_initial_state`,
    -- both called from `__initialize_subsystems` before any file is looked at
    ("ReturnCodeHelper", "__helper_name", ["ReturnCodeHelper.reset", "ReturnCodeHelper.set_initial_state"]),
    -- logging set-up / tear-down of one invocation (`main`: initialize … finally terminate)
    ("ApplicationLogging", "__new_handler", ["ApplicationLogging.initialize", "ApplicationLogging.terminate"]),
    ("ApplicationLogging", "__show_stack_trace", ["ApplicationLogging.pre_initialize"]),
    -- extension manager: `initialize` / `apply_configuration`, called from `__initialize_extensions`
    ("ExtensionManager", "__enabled_extensions", ["ExtensionManager.apply_configuration"]),
    ("ExtensionManager", "__extension_details", ["ExtensionManager.initialize"]),
    ("ExtensionManager", "__extension_objects", ["ExtensionManager.initialize"]),
    ("ExtensionManager", "__is_disallow_raw_html_enabled", ["ExtensionManager.apply_configuration"]),
    ("ExtensionManager", "__is_extended_autolinks_enabled", ["ExtensionManager.apply_configuration"]),
    ("ExtensionManager", "__is_front_matter_enabled", ["ExtensionManager.apply_configuration"]),
    ("ExtensionManager", "__is_linter_pragmas_enabled", ["ExtensionManager.apply_configuration"]),
    ("ExtensionManager", "__is_strike_through_enabled", ["ExtensionManager.apply_configuration"]),
    ("ExtensionManager", "__is_task_list_items_enabled", ["ExtensionManager.apply_configuration"]),
    ("ExtensionManager", "__properties", ["ExtensionManager.initialize"]),
    -- the `--continue-on-error` flag, copied from args before the loop over the files
    ("FileScanHelper", "__continue_on_error", ["FileScanHelper.process_files_to_scan"]),
    -- extension settings, read from the configuration in `apply_configuration`
    ("FrontMatterExtension", "__allow_blank_lines", ["FrontMatterExtension.apply_configuration"]),
    ("MarkdownDisallowRawHtmlExtension", "__disallowed_tag_names", ["MarkdownDisallowRawHtmlExtension.apply_configuration"]),
    -- plug-in manager: loading / registering / enabling plug-ins (`initialize`, `apply_configuration`)
    ("PluginManager", "__all_ids", ["PluginManager.__register_plugin_id", "PluginManager.__register_plugin_names", "PluginManager.__register_plugins"]),
    ("PluginManager", "__enabled_plugins", ["PluginManager.__register_individual_plugin", "PluginManager.__register_plugins"]),
    ("PluginManager", "__enabled_plugins_for_completed_file", ["PluginManager.__apply_configuration", "PluginManager.apply_configuration"]),
    ("PluginManager", "__enabled_plugins_for_next_line", ["PluginManager.__apply_configuration", "PluginManager.apply_configuration"]),
    ("PluginManager", "__enabled_plugins_for_next_token", ["PluginManager.__apply_configuration", "PluginManager.apply_configuration"]),
    ("PluginManager", "__enabled_plugins_for_starting_new_file", ["PluginManager.__apply_configuration", "PluginManager.apply_configuration"]),
    ("PluginManager", "__loaded_classes", ["PluginManager.__attempt_to_load_plugin", "PluginManager.initialize"]),
    ("PluginManager", "__properties", ["PluginManager.initialize"]),
    ("PluginManager", "__registered_plugins", ["PluginManager.__register_individual_plugin", "PluginManager.__register_plugins"]),
    ("PluginManager", "__show_fix_debug", ["PluginManager.initialize"]),
    ("PluginManager", "__show_stack_trace", ["PluginManager.initialize"]),
    -- API object: builder methods called by the user between scans; a scan itself never writes them
    ("PyMarkdownApi", "__configuration_path", ["PyMarkdownApi.configuration_file_path"]),
    ("PyMarkdownApi", "__disable_rule_identifiers", ["PyMarkdownApi.disable_rule_by_identifier"]),
    ("PyMarkdownApi", "__enable_rule_identifiers", ["PyMarkdownApi.enable_rule_by_identifier"]),
    ("PyMarkdownApi", "__enable_stack_trace", ["PyMarkdownApi.enable_stack_trace"]),
    ("PyMarkdownApi", "__enable_strict_configuration", ["PyMarkdownApi.enable_strict_configuration"]),
    ("PyMarkdownApi", "__log_file_path", ["PyMarkdownApi.log_to_file"]),
    ("PyMarkdownApi", "__log_level", ["PyMarkdownApi.log"]),
    ("PyMarkdownApi", "__plugin_paths_to_add", ["PyMarkdownApi.add_plugin_path"]),
    ("PyMarkdownApi", "__set_properties", ["PyMarkdownApi.set_boolean_property", "PyMarkdownApi.set_integer_property", "PyMarkdownApi.set_property", "PyMarkdownApi.set_string_property"]),
    -- application object: `main` before / after the file loop
    ("PyMarkdownLint", "__logging", ["PyMarkdownLint.main"]),
    ("PyMarkdownLint", "__show_stack_trace", ["PyMarkdownLint.__initialize_subsystems"]),
    ("PyMarkdownLint", "__tokenizer", ["PyMarkdownLint.__initialize_parser"]),
    -- tokenizer: `apply_configuration`, called once from `__initialize_parser`
    ("TokenizedMarkdown", "__extension_manager", ["TokenizedMarkdown.apply_configuration"]),
    ("TokenizedMarkdown", "__parse_properties", ["TokenizedMarkdown.apply_configuration"]) ]

/-- Owners that must be present in any table (a translator that silently loses a file is an error). -/
def keyOwners : List String :=
  [ "TokenizedMarkdown", "ParseBlockPassProperties", "PluginManager", "ExtensionManager", "FileScanHelper",
    "PyMarkdownLint", "PyMarkdownApi", "ParserLogger", "LinkParseHelper", "InlineHandlerHelper", "EmphasisHelper",
    "InlineCharacterReferenceHelper", "ReturnCodeHelper", "ApplicationLogging" ]

/-- The call sites through which the application reaches the per-document entry functions. -/
def entryCallers : List String :=
  [ "FileScanHelper.__scan_file -> PluginManager.starting_new_file",
    "FileScanHelper.__scan_file -> TokenizedMarkdown.transform_from_provider",
    "FileScanHelper.__process_file_fix_tokens -> PluginManager.starting_new_file",
    "FileScanHelper.__process_file_fix_tokens -> TokenizedMarkdown.transform_from_provider",
    "FileScanHelper.__process_file_fix_lines -> PluginManager.starting_new_file",
    "FileScanHelper.__process_file_fix_rescan -> TokenizedMarkdown.transform_from_provider" ]

end Baseline
end Verif.Model.ParserStaticsTable
