import Verif.Model.ScanRules2.Basic
/-
  MD013 line-length and MD011 no-reversed-links — faithful models of pymarkdown/plugins/rule_md_013.py and rule_md_011.py:
  `initialize_from_config`, `starting_new_file`, `next_token` (collect the leaf-class and blank-line tokens), `next_line`
  (advance the leaf index by AT MOST ONE when the next collected token starts on this line; decide on the line).
  A collected token is read for `line_number` and for its class only: the state keeps `(line_number, kind)`.
-/
namespace Verif.Model.ScanRules2

/-- `__leaf_tokens`, `__line_index`, `__leaf_token_index` (both rules have the same three fields) -/
structure LeafSt where
  leafs : List (Int × K) := []
  lineIndex : Int := 0
  leafIdx : Nat := 0
  deriving DecidableEq, Repr

def LeafSt.start : LeafSt := { leafs := [], lineIndex := 1, leafIdx := 0 }

/-- `next_token` of both rules: `if token.is_blank_line or token.is_leaf: self.__leaf_tokens.append(token)` -/
def leafNext (s : LeafSt) (t : Tk) : LeafSt :=
  if t.kind.isLeaf then { s with leafs := s.leafs ++ [(t.line, t.kind)] } else s

/-- the first statement of both `next_line`s -/
def leafAdvance (s : LeafSt) : Nat :=
  match s.leafs[s.leafIdx + 1]? with
  | some (ln, _) => if s.lineIndex = ln then s.leafIdx + 1 else s.leafIdx
  | none => s.leafIdx

/-! ## MD013 -/
structure C013 where
  lineLength : Int := 80
  codeLength : Int := 80
  headingLength : Int := 80
  minimum : Int := 80
  codeBlocks : Bool := true
  headings : Bool := true
  strict : Bool := false
  stern : Bool := false
  deriving DecidableEq, Repr

/-- `initialize_from_config` (`__validate_minimum`: at least 1) -/
def init013 (ll cbll hll cb h strict stern : CVal) : C013 :=
  let a := getInt ll 80 (fun i => decide (1 ≤ i))
  let b := getInt cbll 80 (fun i => decide (1 ≤ i))
  let d := getInt hll 80 (fun i => decide (1 ≤ i))
  { lineLength := a, codeLength := b, headingLength := d, minimum := min a (min b d),
    codeBlocks := getBool cb true, headings := getBool h true, strict := getBool strict false, stern := getBool stern false }

/-- `RuleMd013.__maximum_line_length` -/
def max013 : Int := 99999

/-- the length a line under a collected token of kind `k` is compared with (`__is_really_longer`) -/
def compare013 (c : C013) (k : K) : Int :=
  if k.isCode then (if c.codeBlocks then c.codeLength else max013)
  else if k == .atx || k == .setext then (if c.headings then c.headingLength else max013)
  else c.lineLength

/-- `ParserHelper.extract_until_spaces(line, start)[0]` for `0 ≤ start ≤ len(line)`: the first index ≥ start of a space or tab,
    else the length -/
def untilSpace (l : Str) (start : Nat) : Nat :=
  start + ((l.drop start).takeWhile (fun ch => !(ch == ' ' || ch == '\t'))).length

/-- the decision once the line is known to be longer than `cmp` (`strict`, `stern`, the "no white space beyond" exemption) -/
def trigger013 (c : C013) (l : Str) (cmp : Int) : Bool :=
  if c.strict then true
  else
    let nsi := untilSpace l cmp.toNat
    if c.stern then l.length == nsi else l.length != nsi

def extra013 (cmp : Int) (len : Nat) : Str :=
  "Expected: ".toList ++ pyStr cmp ++ ", Actual: ".toList ++ pyStr len

def line013 (c : C013) (s : LeafSt) (n : Int) (l : Str) : Except Err (LeafSt × List Report) :=
  let idx := leafAdvance s
  let s' := { s with leafIdx := idx, lineIndex := s.lineIndex + 1 }
  if (l.length : Int) > c.minimum then
    match s.leafs[idx]? with
    | none => .error .indexError
    | some (_, k) =>
      let cmp := compare013 c k
      if (l.length : Int) > cmp ∧ trigger013 c l cmp then .ok (s', [repLine n 1 (some (extra013 cmp l.length))])
      else .ok (s', [])
  else .ok (s', [])

def md013 : Rule2 C013 LeafSt :=
  { fresh := {}, start := fun _ _ => LeafSt.start, next := fun _ s t => .ok (leafNext s t, []), line := line013 }

/-! ## MD011: `re.compile(r"\(.*\)\[\s*[^\^].*\s*]").search(line)` on a line without a newline character

  The search in closed form (the tie compares `search011` with CPython's `re` on every string ≤ 7 over an 8-letter alphabet
  and the regex AST `re011` with `re._parser`): the match starts at the FIRST `(`, and exists iff behind it there is a
  `)[` followed by a character other than `^` and, later, a `]`; it ends at the LAST `]` of the line (every `.*` is greedy
  and the `\s*` cannot change the end). -/

/-- `)[x…]…` with `x ≠ ^` starts here -/
def okClose011 : Str → Bool
  | ')' :: '[' :: x :: rest => x != '^' && rest.contains ']'
  | _ => false

/-- some suffix starting at index ≥ 0 satisfies `okClose011` -/
def anyClose011 : Str → Bool
  | [] => false
  | c :: cs => okClose011 (c :: cs) || anyClose011 cs

/-- `search(line).span()` -/
def search011 (l : Str) : Option (Nat × Nat) :=
  match findIdx1 (· == '(') l with
  | none => none
  | some i =>
    if anyClose011 (l.drop (i + 1)) then
      match rfindIdx1 (· == ']') l with
      | some j => some (i, j + 1)
      | none => none
    else none

/-- the regular expression as `re._parser` parses it -/
inductive Re where
  | lit (c : Nat)
  | anyChar                     -- `.` (no newline)
  | space                       -- category `\s`
  | notLit (c : Nat)            -- `[^c]`
  | star (r : Re)               -- greedy `*`
  deriving Repr

def Re.ser : Re → String
  | .lit c => s!"lit{c}"
  | .anyChar => "any"
  | .space => "space"
  | .notLit c => s!"not{c}"
  | .star r => "star(" ++ r.ser ++ ")"

/-- `\(.*\)\[\s*[^\^].*\s*]` -/
def re011 : List Re :=
  [.lit 40, .star .anyChar, .lit 41, .lit 91, .star .space, .notLit 94, .star .anyChar, .star .space, .lit 93]

def line011 (s : LeafSt) (n : Int) (l : Str) : Except Err (LeafSt × List Report) :=
  let idx := leafAdvance s
  let s' := { s with leafIdx := idx, lineIndex := s.lineIndex + 1 }
  match s.leafs[idx]? with
  | none => .error .indexError
  | some (_, k) =>
    if !k.isCode && !(k == .html) && !l.isEmpty && l.contains '(' && l.contains '[' then
      match search011 l with
      | some (a, b) => .ok (s', [repLine n (a + 1) (some ((l.take b).drop a))])
      | none => .ok (s', [])
    else .ok (s', [])

def md011 : Rule2 Unit LeafSt :=
  { fresh := {}, start := fun _ _ => LeafSt.start, next := fun _ s t => .ok (leafNext s t, []), line := fun _ => line011 }

end Verif.Model.ScanRules2
