import Verif.Model.ScanRules2.Product
/-
  The conditions the `mdX_scan_iff` theorems are stated with: no rule object, no state — sentences over the token stream
  (what stands before a token) and over the lines.
-/
namespace Verif.Model.ScanRules2

/-- the last token of `seen` whose kind satisfies `rel` -/
def lastRel (rel : K → Bool) (seen : List Tk) : Option Tk := (seen.filter (fun t => rel t.kind)).getLast?

/-- "inside X": the last start-or-end token of X before here is a start -/
def inside (isStart isEnd : K → Bool) (seen : List Tk) : Bool :=
  match lastRel (fun k => isStart k || isEnd k) seen with
  | some t => isStart t.kind
  | none => false

/-! ## MD013 / MD011: which collected token governs a line -/
/-- the leaf-class and blank-line tokens of the stream: (line number, kind) -/
def leafsOf (toks : List Tk) : List (Int × K) := (toks.filter (fun t => t.kind.isLeaf)).map (fun t => (t.line, t.kind))

/-- the tokens after the first start on increasing lines, none before line 1 — true of every parsed stream (checked by the tie) -/
def Increasing : List (Int × K) → Prop
  | [] => True
  | [p] => 1 ≤ p.1
  | p :: q :: r => 1 ≤ p.1 ∧ p.1 < q.1 ∧ Increasing (q :: r)

instance : (l : List (Int × K)) → Decidable (Increasing l)
  | [] => isTrue trivial
  | [p] => inferInstanceAs (Decidable (1 ≤ p.1))
  | p :: q :: r => by
    have := instDecidableIncreasing (q :: r)
    exact inferInstanceAs (Decidable (1 ≤ p.1 ∧ p.1 < q.1 ∧ Increasing (q :: r)))

/-- the kind of the collected token that governs line `n`: the LAST one that starts at or before line `n`
    (the first collected token when none does) -/
def govKind (first : Int × K) (tail : List (Int × K)) (n : Int) : K :=
  ((tail.takeWhile (fun p => p.1 ≤ n)).getLast?.getD first).2

/-- MD013: is a line under a token of kind `k` reported -/
def long013 (c : C013) (k : K) (l : Str) : Bool :=
  decide ((l.length : Int) > c.minimum) && decide ((l.length : Int) > compare013 c k) && trigger013 c l (compare013 c k)

def spec013 (c : C013) (f : File) : List Report :=
  match leafsOf f.toks with
  | [] => []
  | first :: tail =>
    byLine (fun n l =>
      let k := govKind first tail n
      if long013 c k l then [repLine n 1 (some (extra013 (compare013 c k) l.length))] else []) 1 f.lines

/-- MD011: the report of a line under a token of kind `k` -/
def hit011 (k : K) (n : Int) (l : Str) : List Report :=
  if k.isCode || k == .html || l.isEmpty || !l.contains '(' || !l.contains '[' then []
  else match search011 l with
    | some (a, b) => [repLine n (a + 1) (some ((l.take b).drop a))]
    | none => []

def spec011 (f : File) : List Report :=
  match leafsOf f.toks with
  | [] => []
  | first :: tail => byLine (fun n l => hit011 (govKind first tail n) n l) 1 f.lines

/-! ## MD014: a text token inside a code block, every line of which starts (after spaces) with a dollar sign -/
def cond014 (seen : List Tk) (t : Tk) : List Report :=
  if inside K.isCode K.isCodeEnd seen && t.kind == .text && allDollar t.text then [repTok t] else []

/-! ## MD034: the bare URLs of a text token outside code blocks, HTML blocks and links -/
def cond034 (seen : List Tk) (t : Tk) : List Report :=
  if t.kind == .text && !inside K.isCode K.isCodeEnd seen && !inside (· == .html) (· == .htmlEnd) seen &&
     !inside (· == .link) (· == .linkEnd) seen then reports034 t else []

/-! ## MD033 -/
/-- this token is the text of an HTML block's first line: going back over text (and raw HTML) tokens one meets an HTML block start -/
def afterHtmlStart (seen : List Tk) : Bool :=
  ((seen.reverse.dropWhile (fun t => t.kind == .text || t.kind == .rawHtml)).head?.map (·.kind)) == some K.html

/-- the HTML block we are in is the first token of the document (and no raw HTML came since) -/
def firstBlock033 : List Tk → Bool
  | [] => false
  | h :: rest => h.kind == .html && rest.all (fun t => !(t.kind == .html || t.kind == .rawHtml))

def lookReps (c : C033) (first : Bool) (t : Tk) (tag : Str) : List Report :=
  match look033 c first t tag with
  | .ok rs => rs
  | .error _ => []

def cond033 (c : C033) (seen : List Tk) (t : Tk) : List Report :=
  if t.kind == .rawHtml then lookReps c false t t.text
  else if t.kind == .text && afterHtmlStart seen then lookReps c (firstBlock033 seen) t (t.text.drop 1)
  else []

/-! ## MD028: blank lines between two block quotes.  The three phases of the rule as a function of what stands before. -/
/-- 0 = looking for the end of a quote, 1 = a quote just ended, 2 = blank lines followed (with their positions) -/
def step028 (s : S028) (t : Tk) : S028 :=
  match next028 s t with
  | .ok (s', _) => s'
  | .error _ => s

def phase028 (seen : List Tk) : S028 := seen.foldl step028 {}

/-- "a quote ended, then only further quote ends, then one or more blank lines up to here" when the walk started in phase 0 -/
def cond028 (seen : List Tk) (t : Tk) : List Report :=
  let s := phase028 seen
  if s.cur = 2 && t.kind == .bquote then s.found.map (fun p => repAt p.1 p.2 0 0) else []

end Verif.Model.ScanRules2
