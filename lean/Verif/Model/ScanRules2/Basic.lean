import Verif.Model.ScanRules.Basic
/-
  ScanRules2.Basic — the shared part of the FAITHFUL models of nine more scan-only rules
  (MD011 MD013 MD014 MD018 MD020 MD028 MD032 MD033 MD034), two of which (MD011, MD013) also listen to `next_line`.

  Reused from `ScanRules.Basic`: `Str`, `Report`, `Err`, `CVal`, `getStr` `getInt` `getBool`, `stripBy`, `lowerAscii`, `pyStr`.
  New here: the token abstraction `Tk` (the partition of the token classes the nine rules' `is_…` predicates induce and exactly
  the fields they read), a rule with BOTH callbacks (`Rule2`: `next_token` and `next_line`), a file = token stream + lines,
  the scan as `FileScanHelper.__process_file_scan` runs it (all tokens, then all lines, line numbers from 1), and
  `report_next_token_error` / `report_next_line_error`.

  A rule object's state holds only what the Python READS of the objects it remembers (a remembered token = the fields read of it).
  Core Lean only.
-/
namespace Verif.Model.ScanRules2
open Verif.Model.ScanRules (Str Report Err CVal getStr getInt getBool stripBy lowerAscii pyStr)
export Verif.Model.ScanRules (Str Report Err CVal getStr getInt getBool stripBy lowerAscii pyStr)

/-- the token classes, as far as the nine rules can tell them apart.  `leafOther` = any other token of class LEAF_BLOCK
    (front matter, table); `otherEnd` = any other end token; `other` = anything else (pragma …). -/
inductive K where
  | para | paraEnd | text | blank
  | atx | atxEnd | setext | setextEnd
  | fence | fenceEnd | icode | icodeEnd | html | htmlEnd
  | tbreak | lrd | leafOther
  | bquote | bquoteEnd | listStart | listEnd | newItem | eos
  | codeSpan | rawHtml | link | linkEnd | image | hardBreak | emph | emphEnd | autolink | taskList
  | otherEnd | other
  deriving DecidableEq, Repr

structure Tk where
  kind : K
  /-- `line_number`, `column_number` -/
  line : Int := 0
  col : Int := 0
  /-- `token_text` (text), `raw_tag` (raw HTML), `text_from_blocks` (link, image), `extracted_whitespace` (paragraph) -/
  text : Str := []
  /-- `label_type` of a link / image: 0 = `inline`, 1 = `full`, anything else = another type -/
  label : Nat := 0
  /-- code span: `leading_whitespace`, `span_text`, `trailing_whitespace`;
      link / image: `before_link_whitespace`, `before_title_whitespace`, `after_title_whitespace`, `active_link_title`, `ex_label`
      (`none` = Python `None`) -/
  aux : List (Option Str) := []
  deriving DecidableEq, Repr

/-! ## token predicates (`MarkdownToken.is_…`) -/
/-- `token.is_blank_line or token.is_leaf` -/
def K.isLeaf : K → Bool
  | .para | .blank | .atx | .setext | .fence | .icode | .html | .tbreak | .lrd | .leafOther => true
  | _ => false
/-- `is_code_block` -/
def K.isCode : K → Bool
  | .fence | .icode => true
  | _ => false
/-- `is_code_block_end` -/
def K.isCodeEnd : K → Bool
  | .fenceEnd | .icodeEnd => true
  | _ => false
/-- `is_end_token` (the end-of-stream token's name starts with `end-`) -/
def K.isEnd : K → Bool
  | .paraEnd | .atxEnd | .setextEnd | .fenceEnd | .icodeEnd | .htmlEnd | .bquoteEnd | .listEnd | .linkEnd | .emphEnd | .eos
  | .otherEnd => true
  | _ => false

/-! ## reports -/
/-- `report_next_token_error(context, token, line_number_delta=dl, column_number_delta=dc)` from the position `(line, col)` -/
def repAt (line col dl dc : Int) (extra : Option Str := none) : Report :=
  ⟨line + dl, if dc ≥ 0 then col + dc else -dc, extra, 0⟩

def repTok (t : Tk) (dl dc : Int := 0) (extra : Option Str := none) : Report := repAt t.line t.col dl dc extra

/-- `report_next_line_error(context, column)`: the line is `context.line_number` -/
def repLine (n : Int) (col : Int) (extra : Option Str := none) : Report := ⟨n, col, extra, 0⟩

/-! ## small Python helpers -/
/-- `s.count("\n")` -/
def countNl (s : Str) : Nat := s.count '\n'

/-- `s.split("\n")`: never empty -/
def splitNl : Str → List Str
  | [] => [[]]
  | c :: cs =>
    if c == '\n' then [] :: splitNl cs
    else match splitNl cs with
      | [] => [[c]]
      | l :: ls => (c :: l) :: ls

/-- `s.endswith(p)` -/
def endsWith (p s : Str) : Bool := p.reverse.isPrefixOf s.reverse

/-- `s.rstrip(" ")` -/
def rstripSp (s : Str) : Str := (s.reverse.dropWhile (· == ' ')).reverse

/-- index of the first element satisfying `p` (`str.find` of one character) -/
def findIdx1 (p : Char → Bool) : Str → Option Nat
  | [] => none
  | c :: cs => if p c then some 0 else (findIdx1 p cs).map (· + 1)

/-- index of the last element satisfying `p` (`str.rfind`) -/
def rfindIdx1 (p : Char → Bool) (s : Str) : Option Nat :=
  (findIdx1 p s.reverse).map (fun i => s.length - 1 - i)

/-! ## a rule with both callbacks and its runs -/
structure File where
  toks : List Tk
  lines : List Str
  deriving Repr

structure Rule2 (Cfg St : Type) where
  /-- the field values `__init__` leaves -/
  fresh : St
  /-- `starting_new_file` -/
  start : Cfg → St → St
  /-- `next_token(context, token)` in scan mode -/
  next : Cfg → St → Tk → Except Err (St × List Report)
  /-- `next_line(context, line)` with `context.line_number = n` (a rule without `next_line`: no change, no report) -/
  line : Cfg → St → Int → Str → Except Err (St × List Report) := fun _ s _ _ => .ok (s, [])

variable {Cfg St : Type}

/-- the `next_token` loop: final state and the reports in order, or the first exception -/
def runToks (r : Rule2 Cfg St) (c : Cfg) : St → List Tk → Except Err (St × List Report)
  | s, [] => .ok (s, [])
  | s, t :: ts =>
    match r.next c s t with
    | .error e => .error e
    | .ok (s', rp) =>
      match runToks r c s' ts with
      | .error e => .error e
      | .ok (s'', rps) => .ok (s'', rp ++ rps)

/-- the `next_line` loop of `__process_lines_in_file` from line number `n` -/
def runLines (r : Rule2 Cfg St) (c : Cfg) : St → Int → List Str → Except Err (St × List Report)
  | s, _, [] => .ok (s, [])
  | s, n, l :: ls =>
    match r.line c s n l with
    | .error e => .error e
    | .ok (s', rp) =>
      match runLines r c s' (n + 1) ls with
      | .error e => .error e
      | .ok (s'', rps) => .ok (s'', rp ++ rps)

/-- one file from a given state: every token, then every line -/
def runFile (r : Rule2 Cfg St) (c : Cfg) (s : St) (f : File) : Except Err (St × List Report) :=
  match runToks r c s f.toks with
  | .error e => .error e
  | .ok (s', rp) =>
    match runLines r c s' 1 f.lines with
    | .error e => .error e
    | .ok (s'', rps) => .ok (s'', rp ++ rps)

def reportsOf {α : Type} : Except Err (α × List Report) → Except Err (List Report)
  | .ok (_, rs) => .ok rs
  | .error e => .error e

/-- one file, scanned by a rule object that has scanned nothing before -/
def scan (r : Rule2 Cfg St) (c : Cfg) (f : File) : Except Err (List Report) :=
  reportsOf (runFile r c (r.start c r.fresh) f)

/-- the states a rule object can be in when the scan of a file ended (normally or with an exception anywhere): EVERY state —
    `mdX_state_reset` is proved for an arbitrary earlier state, which covers whatever file A (and an exception in it) left -/
def scanFromState (r : Rule2 Cfg St) (c : Cfg) (s : St) (f : File) : Except Err (List Report) :=
  reportsOf (runFile r c (r.start c s) f)

/-- the state the scan of file `a` leaves (on an exception: the state before the failing call) -/
def stateToks (r : Rule2 Cfg St) (c : Cfg) : St → List Tk → St × Bool
  | s, [] => (s, true)
  | s, t :: ts =>
    match r.next c s t with
    | .error _ => (s, false)
    | .ok (s', _) => stateToks r c s' ts

def stateLines (r : Rule2 Cfg St) (c : Cfg) : St → Int → List Str → St
  | s, _, [] => s
  | s, n, l :: ls =>
    match r.line c s n l with
    | .error _ => s
    | .ok (s', _) => stateLines r c s' (n + 1) ls

def stateAfter (r : Rule2 Cfg St) (c : Cfg) (a : File) : St :=
  match stateToks r c (r.start c r.fresh) a.toks with
  | (s, false) => s
  | (s, true) => stateLines r c s 1 a.lines

/-- file `b`, scanned by the rule object that scanned file `a` before (the same `PluginManager`) -/
def scanAfter (r : Rule2 Cfg St) (c : Cfg) (a b : File) : Except Err (List Report) :=
  scanFromState r c (stateAfter r c a) b

/-- a token rule whose state is a function of nothing: one decision per token -/
def tokenOnly (fresh : St) (start : Cfg → St → St) (next : Cfg → St → Tk → Except Err (St × List Report)) : Rule2 Cfg St :=
  { fresh := fresh, start := start, next := next }

/-! ## the shape of the `mdX_scan_iff` statements -/
/-- every token of a stream with the tokens before it -/
def splits : List Tk → List Tk → List (List Tk × Tk)
  | _, [] => []
  | seen, t :: ts => (seen, t) :: splits (seen ++ [t]) ts

/-- at every token, `f (tokens before it) token`; in stream order -/
def byPrefix (f : List Tk → Tk → List Report) (seen ts : List Tk) : List Report :=
  (splits seen ts).flatMap (fun p => f p.1 p.2)

/-- at every line, `f (line number) line` -/
def byLine (f : Int → Str → List Report) : Int → List Str → List Report
  | _, [] => []
  | n, l :: ls => f n l ++ byLine f (n + 1) ls

end Verif.Model.ScanRules2
