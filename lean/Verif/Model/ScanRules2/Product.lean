import Verif.Model.ScanRules2.Lines
import Verif.Model.ScanRules2.Tokens
import Verif.Model.ScanRules2.Para
/-
  Several rules in one pass — PluginManager.next_token / next_line: every enabled plug-in, in plug-in order, gets the token
  (the line); the first exception ends the pass; the reports of all rules go to ONE list, in the order they are made.
-/
namespace Verif.Model.ScanRules2

def tagReps (id : Nat) : Except Err (α × List Report) → Except Err (α × List Report)
  | .error e => .error e
  | .ok (s, rp) => .ok (s, rp.map (fun x => { x with rule := id }))

def Rule2.tag {C S : Type} (id : Nat) (r : Rule2 C S) : Rule2 C S :=
  { fresh := r.fresh, start := r.start,
    next := fun c s t => tagReps id (r.next c s t),
    line := fun c s n l => tagReps id (r.line c s n l) }

def both {S1 S2 : Type} (a : Except Err (S1 × List Report)) (b : Except Err (S2 × List Report)) :
    Except Err ((S1 × S2) × List Report) :=
  match a with
  | .error e => .error e
  | .ok (s1, rp1) =>
    match b with
    | .error e => .error e
    | .ok (s2, rp2) => .ok ((s1, s2), rp1 ++ rp2)

def Rule2.prod {C1 S1 C2 S2 : Type} (r1 : Rule2 C1 S1) (r2 : Rule2 C2 S2) : Rule2 (C1 × C2) (S1 × S2) :=
  { fresh := (r1.fresh, r2.fresh),
    start := fun c s => (r1.start c.1 s.1, r2.start c.2 s.2),
    next := fun c s t => both (r1.next c.1 s.1 t) (r2.next c.2 s.2 t),
    line := fun c s n l => both (r1.line c.1 s.1 n l) (r2.line c.2 s.2 n l) }

infixr:70 " ⊗ " => Rule2.prod

/-- the nine rules enabled together, in plug-in order -/
def allNine :=
  md011.tag 11 ⊗ md013.tag 13 ⊗ md014.tag 14 ⊗ md018.tag 18 ⊗ md020.tag 20 ⊗ md028.tag 28 ⊗ md032.tag 32 ⊗ md033.tag 33 ⊗
  md034.tag 34

end Verif.Model.ScanRules2
