import Verif.Model.ScanRules2.Basic
/-
  MD018 no-missing-space-atx and MD020 no-missing-space-closed-atx — faithful models of pymarkdown/plugins/rule_md_018.py
  (`StartOfLineTokenParser`: `starting_new_file`, `next_token`, `__next_token_paragraph_start/_end`,
  `__next_token_paragraph_non_text_inline(_image)`, `__next_token_paragraph_text_inline`; `MyStartOfLineTokenParser.check_start_of_line`)
  and rule_md_020.py (`check_start_of_line`, `RuleMd020.next_token`).

  The three regular expressions, on a string without a newline character (`combined_text` is made of pieces of
  `split("\n")`), in closed form — the tie compares each with CPython's `re` on every string ≤ 7 over `{' ', '#', 'a', '\t'}`:
    `^[ ]{0,3}#{1,6}[^ ]`        `startHash`   ≤ 3 spaces, then two hashes, or one hash and a further character that is not a space
    `#[ ]*$`                     `endHash`     the text without its trailing spaces ends with a hash
    `^[ ]{0,3}#{1,6}.*#+[ ]*$`   `closedHash`  ≤ 3 spaces, a hash, and what follows it, without trailing spaces, ends with a hash
-/
namespace Verif.Model.ScanRules2

def leadSp (s : Str) : Nat := (s.takeWhile (· == ' ')).length

/-- `re.search(r"^[ ]{0,3}#{1,6}[^ ]", s)` -/
def startHash (s : Str) : Bool :=
  leadSp s ≤ 3 &&
  (match s.drop (leadSp s) with
   | '#' :: '#' :: _ => true
   | '#' :: x :: _ => x != ' '
   | _ => false)

/-- `re.search(r"#[ ]*$", s)` -/
def endHash (s : Str) : Bool := (rstripSp s).getLast? == some '#'

/-- `re.search(r"^[ ]{0,3}#{1,6}.*#+[ ]*$", s)` -/
def closedHash (s : Str) : Bool :=
  leadSp s ≤ 3 &&
  (match s.drop (leadSp s) with
   | '#' :: rest => endHash rest
   | _ => false)

def check018 (s : Str) : Bool := startHash s && !endHash s
def check020 (s : Str) : Bool := closedHash s

/-- `__delayed_line`: combined text, the text token's position, line delta, column delta -/
structure Delayed where
  text : Str
  line : Int
  col : Int
  dl : Int
  dc : Int
  /-- the tuple also holds the `context` it was made under: after `starting_new_file` that is the PREVIOUS file's context —
      a report made from such a tuple goes to a list nobody reads any more -/
  stale : Bool := false
  deriving DecidableEq, Repr

/-- the fields of `StartOfLineTokenParser`; of `__last_paragraph_token` the rule reads `extracted_whitespace` (split at newlines) -/
structure PSt where
  para : Option (List Str) := none
  pidx : Int := -1
  firstAfterOther : Bool := false
  pcol : Int := 0
  insideLink : Bool := false
  afterHardBreak : Bool := false
  delayed : Option Delayed := none
  deriving DecidableEq, Repr

/-- `StartOfLineTokenParser.starting_new_file`: FOUR of the seven fields (a delayed line that is still there now belongs to the
    previous file's context) -/
def PSt.start (s : PSt) : PSt :=
  { s with para := none, pidx := -1, firstAfterOther := false, pcol := 0,
           delayed := s.delayed.map (fun d => { d with stale := true }) }

/-- `check_start_of_line(...)` of the subclass: the report -/
def checkRep (chk : Str → Bool) (d : Delayed) : List Report :=
  if !d.stale && chk d.text then [repAt d.line d.col d.dl d.dc] else []

/-- `split_whitespace[i]` with Python's index rules -/
def wsAt (ws : List Str) (i : Int) : Option Str :=
  if 0 ≤ i then ws[i.toNat]? else if -(ws.length : Int) ≤ i then ws[(i + ws.length).toNat]? else none

/-- the `for split_index, next_text in enumerate(split_text)` loop of `__next_token_paragraph_text_inline` -/
def textLoop (chk : Str → Bool) (ws : List Str) (pidx pcol : Int) (t : Tk) :
    Nat → Bool → Bool → Option Delayed → List Str → Except Err (Bool × Bool × Option Delayed × List Report)
  | _, fao, fhb, d, [] => .ok (fao, fhb, d, [])
  | k, fao, fhb, d, x :: xs =>
    match wsAt ws ((k : Int) + pidx) with
    | none => .error .indexError
    | some w =>
      let line : Delayed := ⟨w ++ x, t.line, t.col, k, -(if fao then pcol else pcol + w.length), false⟩
      let now : Option Delayed × List Report :=
        if fhb || fao || k != 0 then (if xs.isEmpty then (some line, []) else (d, checkRep chk line)) else (d, [])
      match textLoop chk ws pidx pcol t (k + 1) false false now.1 xs with
      | .error e => .error e
      | .ok (a, b, d', rs) => .ok (a, b, d', now.2 ++ rs)

def auxAt (t : Tk) (i : Nat) : Option Str := (t.aux[i]?).getD none

/-- the newline count of three / four optional strings; `none` = one of them is `None` -/
def sumNl : List (Option Str) → Option Nat
  | [] => some 0
  | none :: _ => none
  | some s :: r => (sumNl r).map (· + countNl s)

/-- `__next_token_paragraph_non_text_inline`: the increment of `__paragraph_index`, the hard-break flag -/
def nonText (s : PSt) (t : Tk) : Except Err PSt :=
  let fin (s : PSt) : Except Err PSt := .ok { s with delayed := none }
  match t.kind with
  | .codeSpan =>
    match sumNl [auxAt t 0, auxAt t 1, auxAt t 2] with
    | some n => fin { s with pidx := s.pidx + n }
    | none => .error .attributeError
  | .rawHtml => fin { s with pidx := s.pidx + countNl t.text }
  | .image | .link =>
    let a := countNl t.text
    let b : Option Nat :=
      if t.label = 0 then sumNl [auxAt t 0, auxAt t 1, auxAt t 2, auxAt t 3] else some 0
    let e : Option Nat := if t.label = 1 then sumNl [auxAt t 4] else some 0
    match b, e with
    | some b, some e => fin { s with pidx := s.pidx + a + b + e, insideLink := t.kind == .link }
    | _, _ => .error .assertion
  | .hardBreak => fin { s with pidx := s.pidx + 1, afterHardBreak := true }
  | .emph | .emphEnd | .autolink | .taskList => fin s
  | _ => .error .assertion

/-- `StartOfLineTokenParser.next_token` with the subclass's check `chk` -/
def pnext (chk : Str → Bool) (s : PSt) (t : Tk) : Except Err (PSt × List Report) :=
  if t.kind == .para then
    .ok ({ para := some (splitNl t.text), pidx := 0, firstAfterOther := true, afterHardBreak := false, insideLink := false,
           pcol := t.col, delayed := none }, [])
  else if t.kind == .paraEnd then
    .ok ({ s with delayed := none, para := none }, match s.delayed with | some d => checkRep chk d | none => [])
  else
    match s.para with
    | none => .ok (s, [])
    | some ws =>
      if s.insideLink then .ok (if t.kind == .linkEnd then { s with insideLink := false } else s, [])
      else if t.kind == .text then
        match textLoop chk ws s.pidx s.pcol t 0 s.firstAfterOther s.afterHardBreak s.delayed (splitNl t.text) with
        | .error e => .error e
        | .ok (a, b, d, rs) =>
          .ok ({ s with firstAfterOther := a, afterHardBreak := b, delayed := d, pidx := s.pidx + countNl t.text }, rs)
      else
        match nonText s t with
        | .error e => .error e
        | .ok s' => .ok (s', [])

def md018 : Rule2 Unit PSt := { fresh := {}, start := fun _ s => s.start, next := fun _ => pnext check018 }

/-! ## MD020: the parser above with `check020`, and the closing hashes of a normal ATX heading -/
structure S020 where
  p : PSt := {}
  inAtx : Bool := false
  /-- `__last_atx_token`: is it a text token, its text, its position -/
  lastAtx : Option (Bool × Str × Int × Int) := none
  deriving DecidableEq, Repr

/-- number of `#` at the end -/
def trailingHashes (s : Str) : Nat := (s.reverse.takeWhile (· == '#')).length

def atxEnd020 (s : S020) : Except Err (List Report) :=
  match s.lastAtx with
  | none => .error .assertion
  | some (isText, text, line, col) =>
    if s.inAtx && isText && endsWith ['#'] text && !endsWith ['\\', '\x08', '#'] text then
      .ok [repAt line col 0 ((text.length : Int) - trailingHashes text)]
    else .ok []

def next020 (s : S020) (t : Tk) : Except Err (S020 × List Report) :=
  match pnext check020 s.p t with
  | .error e => .error e
  | .ok (p', r1) =>
    let last := if !(t.kind == .atxEnd) && s.inAtx
                then some (if t.kind == .text then (true, t.text, t.line, t.col) else (false, [], 0, 0)) else s.lastAtx
    let s1 : S020 := { p := p', inAtx := s.inAtx, lastAtx := last }
    if t.kind == .atx then .ok ({ s1 with inAtx := true }, r1)
    else if t.kind == .atxEnd then
      match atxEnd020 s1 with
      | .error e => .error e
      | .ok r2 => .ok ({ s1 with inAtx := false }, r1 ++ r2)
    else .ok (s1, r1)

def md020 : Rule2 Unit S020 :=
  { fresh := {}, start := fun _ s => { p := s.p.start, inAtx := false, lastAtx := none }, next := fun _ => next020 }

end Verif.Model.ScanRules2
