import Verif.Model.ScanRules2.Basic
/-
  MD014 commands-show-output, MD028 no-blanks-blockquote, MD032 blanks-around-lists, MD033 no-inline-html, MD034 no-bare-urls —
  faithful models of pymarkdown/plugins/rule_md_014.py, rule_md_028.py, rule_md_032.py, rule_md_033.py, rule_md_034.py
  (`initialize_from_config`, `starting_new_file`, `next_token` and their private helpers).
-/
namespace Verif.Model.ScanRules2

/-! ## MD014 — state `__in_code_block` -/
/-- `all(next_line.strip(" ").startswith("$") for next_line in token_text.split("\n"))` -/
def allDollar (s : Str) : Bool := (splitNl s).all (fun l => (stripBy (· == ' ') l).head? == some '$')

def next014 (inCode : Bool) (t : Tk) : Except Err (Bool × List Report) :=
  if t.kind.isCode then .ok (true, [])
  else if t.kind.isCodeEnd then .ok (false, [])
  else if inCode && t.kind == .text then .ok (inCode, if allDollar t.text then [repTok t] else [])
  else .ok (inCode, [])

def md014 : Rule2 Unit Bool := { fresh := false, start := fun _ _ => false, next := fun _ => next014 }

/-! ## MD028 — state `__current_state` (0 end of quote, 1 blank lines, 2 start of quote), `__found_blank_lines` (positions) -/
structure S028 where
  cur : Nat := 0
  found : List (Int × Int) := []
  deriving DecidableEq, Repr

def next028 (s : S028) (t : Tk) : Except Err (S028 × List Report) :=
  if s.cur = 0 then
    if t.kind == .bquoteEnd then .ok ({ cur := 1, found := [] }, []) else .ok (s, [])
  else if s.cur = 1 then
    if t.kind == .blank then .ok ({ cur := 2, found := s.found ++ [(t.line, t.col)] }, [])
    else if t.kind != .bquoteEnd then .ok ({ s with cur := 0 }, [])
    else .ok (s, [])
  else if s.cur = 2 then
    if t.kind == .bquote then .ok ({ s with cur := 0 }, s.found.map (fun p => repAt p.1 p.2 0 0))
    else if t.kind == .blank then .ok ({ s with found := s.found ++ [(t.line, t.col)] }, [])
    else .ok ({ s with cur := 0 }, [])
  else .error .assertion

def md028 : Rule2 Unit S028 := { fresh := {}, start := fun _ _ => {}, next := fun _ => next028 }

/-! ## MD032 — state `__last_non_end_token` (read: is it a blank line), `__container_token_stack` (read: list start?, line),
    `__end_list_end_token` (read: set or not) -/
structure S032 where
  /-- `none` = `None`; `some b` = a token, `b` = `is_blank_line` -/
  last : Option Bool := none
  /-- top of the stack first: (is_list_start, line_number) -/
  stack : List (Bool × Int) := []
  endList : Bool := false
  deriving DecidableEq, Repr

/-- the first `if` of `next_token`: a list ended at the previous token, not after a blank line -/
def after032 (s : S032) (t : Tk) : List Report :=
  if s.endList &&
     !(t.kind == .blank || t.kind == .newItem || t.kind == .listEnd || t.kind == .bquoteEnd || t.kind == .eos)
  then [repTok t (-1) 0] else []

/-- `__next_token_list_start`: the report -/
def before032 (s : S032) (t : Tk) : List Report :=
  if s.last == some false &&
     !(match s.stack with
       | [] => false
       | (isList, ln) :: _ => isList || ln = t.line)
  then [repTok t] else []

/-- the container part of `next_token` -/
def containers032 (s : S032) (t : Tk) : Except Err (S032 × List Report) :=
  match t.kind with
  | .bquote => .ok ({ s with stack := (false, t.line) :: s.stack }, [])
  | .bquoteEnd =>
    match s.stack with
    | [] => .error .indexError
    | _ :: st => .ok ({ s with stack := st }, [])
  | .listStart => .ok ({ s with stack := (true, t.line) :: s.stack }, before032 s t)
  | .listEnd =>
    match s.last with
    | none => .error .assertion
    | some true => .ok (s, [])                       -- after a blank line: nothing is popped
    | some false =>
      match s.stack with
      | [] => .error .indexError
      | _ :: st => .ok ({ s with stack := st, endList := true }, [])
  | _ => .ok (s, [])

def next032 (s : S032) (t : Tk) : Except Err (S032 × List Report) :=
  let r1 := after032 s t
  match containers032 { s with endList := false } t with
  | .error e => .error e
  | .ok (s', r2) =>
    let s'' := if !t.kind.isEnd && !(t.kind == .bquote) && !(t.kind == .listStart)
               then { s' with last := some (t.kind == .blank) } else s'
    .ok (s'', r1 ++ r2)

def md032 : Rule2 Unit S032 := { fresh := {}, start := fun _ _ => {}, next := fun _ => next032 }

/-! ## MD033 -/
structure C033 where
  allowed : List Str := ["!--".toList, "![CDATA[".toList, "!DOCTYPE".toList]
  allowFirstImage : Bool := true
  deriving DecidableEq, Repr

/-- `s.split(",")` -/
def splitComma : Str → List Str
  | [] => [[]]
  | c :: cs =>
    if c == ',' then [] :: splitComma cs
    else match splitComma cs with
      | [] => [[c]]
      | l :: ls => (c :: l) :: ls

/-- `initialize_from_config`; `none` = the `ValueError` ("Elements in the comma-separated list cannot be empty.") -/
def init033 (allowed first : CVal) : Option C033 :=
  let a := stripBy (· == ' ') (getStr allowed "!--,![CDATA[,!DOCTYPE".toList)
  let fi := getBool first true
  if a.isEmpty then some { allowed := [], allowFirstImage := fi }
  else
    let parts := (splitComma a).map (stripBy (· == ' '))
    if parts.any (·.isEmpty) then none else some { allowed := parts, allowFirstImage := fi }

structure S033 where
  nextHtmlStart : Bool := false
  firstElement : Bool := false
  firstHtmlBlock : Bool := false
  deriving DecidableEq, Repr

/-- the element name `__look_for_html_start` reports -/
def tagName033 (tag : Str) : Str :=
  if "![CDATA[".toList.isPrefixOf tag then "![CDATA[".toList
  else if "!--".toList.isPrefixOf tag then "!--".toList
  else if "!DOCTYPE".toList.isPrefixOf tag then "!DOCTYPE".toList
  else tag.takeWhile (fun ch => !(ch == ' ' || ch == '\n' || ch == '\t' || ch == '/' || ch == '>'))

/-- the `<h1><img …></h1>` exemption on the lower-cased tag text that ends with `</h1>`; `none` = the `assert` fails -/
def firstImage033 (full : Str) : Option Bool :=
  let f1 := full.take (full.length - 5)
  match findIdx1 (· == '>') f1 with
  | none => none
  | some i =>
    let f2 := f1.drop (i + 1)
    some ("<img".toList.isPrefixOf f2 &&
      ((match findIdx1 (· == '>') f2 with | some j => (j : Int) | none => -1) == (f2.length : Int) - 1))

/-- `__look_for_html_start` -/
def look033 (c : C033) (firstHtmlBlock : Bool) (t : Tk) (tag : Str) : Except Err (List Report) :=
  if tag.head? == some '/' then .ok []
  else
    let full := lowerAscii tag
    let name := tagName033 tag
    let fi : Option Bool :=
      if firstHtmlBlock && c.allowFirstImage && lowerAscii name == "h1".toList then
        (if endsWith "</h1>".toList full then firstImage033 full else some false)
      else some false
    match fi with
    | none => .error .assertion
    | some b =>
      if !b && !c.allowed.contains name then .ok [repTok t 0 0 (some ("Element: ".toList ++ name))] else .ok []

def next033 (c : C033) (s : S033) (t : Tk) : Except Err (S033 × List Report) :=
  if t.kind == .rawHtml then
    match look033 c false t t.text with
    | .error e => .error e
    | .ok rs => .ok ({ s with firstHtmlBlock := false, firstElement := false }, rs)
  else if t.kind == .html then
    .ok ({ nextHtmlStart := true, firstHtmlBlock := s.firstElement, firstElement := false }, [])
  else if t.kind == .text && s.nextHtmlStart then
    match look033 c s.firstHtmlBlock t (t.text.drop 1) with
    | .error e => .error e
    | .ok rs => .ok ({ s with firstElement := false }, rs)
  else .ok ({ s with nextHtmlStart := false, firstElement := false }, [])

def md033 : Rule2 C033 S033 :=
  { fresh := {}, start := fun _ _ => { nextHtmlStart := false, firstHtmlBlock := false, firstElement := true }, next := next033 }

/-! ## MD034 — state `__in_code_block`, `__in_html_block`, `__in_link` -/
structure S034 where
  inCode : Bool := false
  inHtml : Bool := false
  inLink : Bool := false
  deriving DecidableEq, Repr

def prefixes034 : List Str := ["http:".toList, "https:".toList, "ftp:".toList, "ftps:".toList]

/-- the `while found_index != -1` loop: the start indices `text.find(prefix, start)` visits (`skip` = positions still covered by
    the previous occurrence) -/
def occs (p : Str) : Nat → Nat → Str → List Nat
  | _, _, [] => []
  | skip, i, c :: cs =>
    if skip = 0 ∧ p.isPrefixOf (c :: cs) then i :: occs p (p.length - 1) (i + 1) cs
    else occs p (skip - 1) (i + 1) cs

/-- `ParserHelper.adjust_for_newlines(text, 0, found)` = (column delta, line delta) -/
def adjust034 (text : Str) (found : Nat) : Int × Int :=
  let before := text.take found
  match rfindIdx1 (· == '\n') before with
  | none => ((found : Int), 0)
  | some nl => (-((found : Int) - nl), (countNl before : Int))

/-- the conditions of `__evaluate_possible_url` at an occurrence of `p` at index `i` -/
def bare034 (text p : Str) (i : Nat) : Bool :=
  (i == 0 || (match text[i - 1]? with | some ch => ch == ' ' || ch == '\n' | none => false)) &&
  (let rest := text.drop (i + p.length)
   decide (rest.length ≥ 3) && "//".toList.isPrefixOf rest &&
   (match rest[2]? with | some ch => !(ch == ' ' || ch == '\n') | none => false))

def reports034 (t : Tk) : List Report :=
  prefixes034.flatMap (fun p =>
    ((occs p 0 0 t.text).filter (bare034 t.text p)).map (fun i =>
      let d := adjust034 t.text i
      repTok t d.2 d.1))

def next034 (s : S034) (t : Tk) : Except Err (S034 × List Report) :=
  if t.kind == .text && !s.inCode && !s.inHtml && !s.inLink then .ok (s, reports034 t)
  else if t.kind.isCode then .ok ({ s with inCode := true }, [])
  else if t.kind.isCodeEnd then .ok ({ s with inCode := false }, [])
  else if t.kind == .html then .ok ({ s with inHtml := true }, [])
  else if t.kind == .htmlEnd then .ok ({ s with inHtml := false }, [])
  else if t.kind == .link then .ok ({ s with inLink := true }, [])
  else if t.kind == .linkEnd then .ok ({ s with inLink := false }, [])
  else .ok (s, [])

def md034 : Rule2 Unit S034 := { fresh := {}, start := fun _ _ => {}, next := fun _ => next034 }

end Verif.Model.ScanRules2
