/-
  Line splitting, newline translation, the two source providers, the stdin / API
  spool, and the argument assembly of the Python API (core Lean only).

  Faithful models of
    * pymarkdown/general/source_providers.py  (`FileSourceProvider`, `InMemorySourceProvider`)
    * pymarkdown/file_scan_helper.py::__scan_from_stdin  (text-mode temp file)
    * pymarkdown/api.py::__build_common_arguments  and the part of
      pymarkdown/main.py::__parse_arguments / plugin_manager.py::__register_plugins,
      __handle_command_line_settings that consumes those arguments.

  Strings are `List Char` (`Str`); conversion happens in the driver only.
  The providers are also the source of the line stream delivered to the rules
  (`fspStream`), reused by C14.
-/
namespace Verif.Model.Lines

abbrev Str := List Char

def NL : Char := '\n'
def CR : Char := '\r'

/-! ## Splitting and joining -/

/-- `(first piece, remaining pieces)` of `s` split at every `sep`. -/
def splitAux (sep : Char) : Str → Str × List Str
  | [] => ([], [])
  | c :: cs =>
    let r := splitAux sep cs
    if c = sep then ([], r.1 :: r.2) else (c :: r.1, r.2)

/-- Python `s.split(sep)` for a one-character separator: never empty, `"" ↦ [""]`. -/
def splitOn (sep : Char) (s : Str) : List Str := (splitAux sep s).1 :: (splitAux sep s).2

/-- Python `sep.join(ls)`. -/
def joinOn (sep : Char) : List Str → Str
  | [] => []
  | [l] => l
  | l :: ls => l ++ sep :: joinOn sep ls

def splitNL (s : Str) : List Str := splitOn NL s
def joinNL (ls : List Str) : Str := joinOn NL ls

/-- Python universal-newlines translation on read (`newline=None`):
`\r\n` and a lone `\r` both become `\n`. -/
def univNL : Str → Str
  | [] => []
  | [c] => if c = CR then [NL] else [c]
  | c :: d :: rest =>
    if c = CR then
      if d = NL then NL :: univNL rest else NL :: univNL (d :: rest)
    else c :: univNL (d :: rest)

/-- `'\r'` does not occur. -/
def noCR (s : Str) : Prop := CR ∉ s

/-! ## `FileSourceProvider` -/

/-- `file.readlines()` on already translated text (= `str.splitlines(keepends=True)` restricted
to `\n`): every piece but possibly the last ends in `\n`; no piece is empty. -/
def readlines : Str → List Str
  | [] => []
  | c :: cs =>
    if c = NL then [NL] :: readlines cs
    else match readlines cs with
      | [] => [[c]]
      | l :: ls => (c :: l) :: ls

/-- `next_line.endswith("\n")`. -/
def endsNL (l : Str) : Bool := l.getLast? == some NL

/-- `next_line[:-1]`. -/
def dropLastChar (l : Str) : Str := l.dropLast

/-- State of a `FileSourceProvider` after `__init__`. -/
structure Fsp where
  lines : List Str
  /-- `did_final_line_end_with_newline` -/
  finalNL : Bool
  deriving Repr, DecidableEq

/-- The `for next_line in file_as_lines` loop: `(read_lines, did_line_end_in_newline)`. -/
def fspLoop : List Str → List Str → Bool → List Str × Bool
  | [], acc, flag => (acc, flag)
  | l :: ls, acc, _ =>
    let e := endsNL l
    fspLoop ls (acc ++ [if e then dropLastChar l else l]) e

/-- `FileSourceProvider.__init__` given the lines returned by `readlines()`.
Note the initial `did_line_end_in_newline = True`: an empty file yields `[""]` and `finalNL = true`. -/
def fspOfReadlines (fileAsLines : List Str) : Fsp :=
  let r := fspLoop fileAsLines [] true
  ⟨if r.2 then r.1 ++ [[]] else r.1, r.2⟩

/-- `FileSourceProvider(path)` where the decoded content of the file is `raw`
(`open(..., encoding="utf-8")` = text mode with universal newlines). -/
def fspRead (raw : Str) : Fsp := fspOfReadlines (readlines (univNL raw))

def fspLines (raw : Str) : List Str := (fspRead raw).lines
def fspFinalNL (raw : Str) : Bool := (fspRead raw).finalNL

/-- One delivery of `__process_lines_in_file`: 1-based line number, text, and the value of
`is_at_end_of_file` *after* the line has been fetched. -/
structure Delivery where
  number : Nat
  text : Str
  atEnd : Bool
  deriving Repr, DecidableEq

/-- `get_next_line` loop over `read_lines` with `read_index` starting at `idx`. -/
def deliverFrom (total : Nat) : Nat → List Str → List Delivery
  | _, [] => []
  | idx, l :: ls => ⟨idx + 1, l, decide (idx + 1 ≥ total)⟩ :: deliverFrom total (idx + 1) ls

/-- The line stream `plugins.next_line` receives for a file with content `raw`. -/
def fspStream (raw : Str) : List Delivery :=
  let ls := fspLines raw
  deliverFrom ls.length 0 ls

/-! ## `InMemorySourceProvider` -/

/-- Python `s.split("\n", 1)`: one or two pieces. -/
inductive Tup where
  | nil                      -- `[]`  (provider exhausted)
  | one (a : Str)            -- `[a]`
  | two (a rest : Str)       -- `[a, rest]`
  deriving Repr, DecidableEq

/-- `(before first NL, some after)` or `(s, none)`. -/
def split1Aux : Str → Str × Option Str
  | [] => ([], none)
  | c :: cs =>
    if c = NL then ([], some cs)
    else let r := split1Aux cs; (c :: r.1, r.2)

def split1 (s : Str) : Tup :=
  match split1Aux s with
  | (a, none) => .one a
  | (a, some r) => .two a r

theorem split1Aux_rest_length (s : Str) : ∀ r, (split1Aux s).2 = some r → r.length < s.length := by
  induction s with
  | nil => intro r h; simp [split1Aux] at h
  | cons c cs ih =>
    intro r h
    unfold split1Aux at h
    split at h
    · simp at h; subst h; simp
    · simp at h; have := ih r h; simp; omega

set_option linter.unusedVariables false in
/-- Repeated `get_next_line()` until `is_at_end_of_file`, from the text still to be split. -/
def memDrain (s : Str) : List Str :=
  match h : split1Aux s with
  | (a, none) => [a]
  | (a, some r) => a :: memDrain r
termination_by s.length
decreasing_by
  have := split1Aux_rest_length s r (by rw [h])
  exact this

/-- All lines an `InMemorySourceProvider(source_text)` hands out. -/
def memLines (s : Str) : List Str := memDrain s

/-- Deliveries with the `is_at_end_of_file` flag as seen after each `get_next_line`. -/
def memStream (s : Str) : List Delivery :=
  let ls := memLines s
  deliverFrom ls.length 0 ls

/-! ## stdin / API spool (`__scan_from_stdin`) -/

/-- `os.linesep` of the platform the temp file is written on. -/
inductive LineSep where
  | lf | crlf
  deriving Repr, DecidableEq

/-- Text-mode write with `newline=None`: every `\n` becomes `os.linesep`, nothing else changes. -/
def writeText (sep : LineSep) : Str → Str
  | [] => []
  | c :: cs =>
    if c = NL then
      (match sep with | .lf => [NL] | .crlf => [CR, NL]) ++ writeText sep cs
    else c :: writeText sep cs

/-- `for line in sys.stdin: outfile.write(line)`; `stdinBytes` is the decoded stdin content;
`sys.stdin` is a text stream with universal newlines. -/
def spoolStdin (sep : LineSep) (stdinText : Str) : Str :=
  writeText sep (readlines (univNL stdinText)).flatten

/-- `outfile.write(string_to_scan)` (API `scan_string`). -/
def spoolString (sep : LineSep) (s : Str) : Str := writeText sep s

/-! ## API argument assembly -/

structure ApiCfg where
  inheritLogging : Bool
  logLevel : Str
  logFile : Option Str
  stackTrace : Bool
  strict : Bool
  pluginPaths : List Str
  config : Option Str
  enable : List Str
  disable : List Str
  sets : List Str
  deriving Repr, DecidableEq

def lit (x : String) : Str := x.toList

/-- Python truthiness of `Optional[str]`. -/
def truthy : Option Str → Option Str
  | some (c :: cs) => some (c :: cs)
  | _ => none

/-- `"".join(f",{i}" for i in ids)` -/
def commaPrefixed (ids : List Str) : Str := (ids.map fun i => ',' :: i).flatten

/-- `if flag_value: args.append(flag)` -/
def flagArg (flag : Str) (b : Bool) : List Str := if b then [flag] else []

/-- `if value: args.extend((flag, value))` (value already reduced by `truthy`) -/
def optArg (flag : Str) : Option Str → List Str
  | some p => [flag, p]
  | none => []

/-- `for v in values: args.extend((flag, v))` -/
def listArg (flag : Str) (vs : List Str) : List Str := (vs.map fun v => [flag, v]).flatten

/-- `if ids: args.extend((flag, join(ids)))` -/
def idsArg (flag : Str) (join : List Str → Str) (ids : List Str) : List Str :=
  if ids = [] then [] else [flag, join ids]

/-- the two log options, absent in log-inheritance mode -/
def logArgs (c : ApiCfg) : List Str :=
  if c.inheritLogging then [] else optArg (lit "--log-file") (truthy c.logFile) ++ [lit "--log-level", c.logLevel]

/-- `PyMarkdownApi.__build_common_arguments(action)`. -/
def apiArgs (c : ApiCfg) (action : Str) : List Str :=
  flagArg (lit "--stack-trace") c.stackTrace ++
  flagArg (lit "--strict-config") c.strict ++
  logArgs c ++
  optArg (lit "--config") (truthy c.config) ++
  listArg (lit "--set") c.sets ++
  listArg (lit "--add-plugin") c.pluginPaths ++
  idsArg (lit "--enable-rules") commaPrefixed c.enable ++
  idsArg (lit "--disable-rules") commaPrefixed c.disable ++
  [action]

/-- The command line a user would type for the same selection (user guide form: short options,
comma separated lists, configuration first, logging last). -/
def cliArgs (c : ApiCfg) (action : Str) : List Str :=
  optArg (lit "-c") (truthy c.config) ++
  idsArg (lit "-d") (joinOn ',') c.disable ++
  idsArg (lit "-e") (joinOn ',') c.enable ++
  flagArg (lit "--strict-config") c.strict ++
  listArg (lit "--add-plugin") c.pluginPaths ++
  listArg (lit "-s") c.sets ++
  (if c.inheritLogging then [] else
    [lit "--log-level", c.logLevel] ++ optArg (lit "--log-file") (truthy c.logFile)) ++
  flagArg (lit "--stack-trace") c.stackTrace ++
  [action]

/-- The `argparse.Namespace` fields of the main parser that the arguments above can set. -/
structure Parsed where
  enable : Str            -- dest enable_rules, default ""
  disable : Str           -- dest disable_rules, default ""
  addPlugin : List Str    -- dest add_plugin (append)
  config : Option Str     -- dest configuration_file
  sets : List Str         -- dest set_configuration (append)
  strict : Bool
  stackTrace : Bool
  continueOnError : Bool
  logLevel : Option Str
  logFile : Option Str
  sub : Str               -- primary_subparser
  rest : List Str         -- arguments of the sub-command (not interpreted here)
  deriving Repr, DecidableEq

def Parsed.empty : Parsed := ⟨[], [], [], none, [], false, false, false, none, none, [], []⟩

inductive ParseErr where
  | missingValue (opt : Str)
  | unknownOption (opt : Str)
  | badChoice (v : Str)
  | noSubcommand
  deriving Repr, DecidableEq

def logLevels : List Str := [lit "CRITICAL", lit "ERROR", lit "WARNING", lit "INFO", lit "DEBUG"]

/-- argparse treats a token starting with `-` as an option, never as a value (approximation of
`_parse_optional`: negative-number-like and space-containing tokens are not modelled). -/
def looksLikeOption : Str → Bool
  | '-' :: _ => true
  | _ => false

/-- Options of the main parser that take one value. -/
inductive ValOpt where
  | enable | disable | addPlugin | config | set | logLevel | logFile
  deriving Repr, DecidableEq

def valOpt (t : Str) : Option ValOpt :=
  if t = lit "-e" ∨ t = lit "--enable-rules" then some .enable
  else if t = lit "-d" ∨ t = lit "--disable-rules" then some .disable
  else if t = lit "--add-plugin" then some .addPlugin
  else if t = lit "-c" ∨ t = lit "--config" then some .config
  else if t = lit "-s" ∨ t = lit "--set" then some .set
  else if t = lit "--log-level" then some .logLevel
  else if t = lit "--log-file" then some .logFile
  else none

def applyVal (p : Parsed) (o : ValOpt) (v : Str) : Except ParseErr Parsed :=
  match o with
  | .enable => .ok { p with enable := v }
  | .disable => .ok { p with disable := v }
  | .addPlugin => .ok { p with addPlugin := p.addPlugin ++ [v] }
  | .config => .ok { p with config := some v }
  | .set => .ok { p with sets := p.sets ++ [v] }
  | .logLevel => if v ∈ logLevels then .ok { p with logLevel := some v } else .error (.badChoice v)
  | .logFile => .ok { p with logFile := some v }

/-- The option loop of the main parser up to the sub-command. -/
def parseFrom (p : Parsed) : List Str → Except ParseErr Parsed
  | [] => .error .noSubcommand
  | t :: ts =>
    match valOpt t with
    | some o =>
      match ts with
      | [] => .error (.missingValue t)
      | v :: ts' =>
        if looksLikeOption v then .error (.missingValue t)
        else match applyVal p o v with
          | .ok p' => parseFrom p' ts'
          | .error e => .error e
    | none =>
      if t = lit "--strict-config" then parseFrom { p with strict := true } ts
      else if t = lit "--stack-trace" then parseFrom { p with stackTrace := true } ts
      else if t = lit "--continue-on-error" then parseFrom { p with continueOnError := true } ts
      else if looksLikeOption t then .error (.unknownOption t)
      else .ok { p with sub := t, rest := ts }

def parseArgs (argv : List Str) : Except ParseErr Parsed := parseFrom Parsed.empty argv

/-! ### what the scan reads from the parsed arguments -/

/-- Code points for which Python's `str.isspace()` holds (what `str.strip()` removes). -/
def isPyWs (c : Char) : Bool :=
  let n := c.toNat
  (0x09 ≤ n && n ≤ 0x0d) || (0x1c ≤ n && n ≤ 0x20) || n == 0x85 || n == 0xa0 || n == 0x1680 ||
  (0x2000 ≤ n && n ≤ 0x200a) || n == 0x2028 || n == 0x2029 || n == 0x202f || n == 0x205f || n == 0x3000

def strip (s : Str) : Str := ((s.dropWhile isPyWs).reverse.dropWhile isPyWs).reverse

/-- `str.lower()` on ASCII (the identifiers of rules are ASCII). -/
def lowerAscii (s : Str) : Str := s.map fun c => if 'A' ≤ c ∧ c ≤ 'Z' then Char.ofNat (c.toNat + 32) else c

/-- `__register_plugins`: the set built from `--enable-rules` / `--disable-rules`
(`if value: for i in value.lower().split(","): set.add(i.strip())`). -/
def idSet (v : Str) : List Str :=
  if v = [] then [] else (splitOn ',' (lowerAscii v)).map strip

/-- `__handle_command_line_settings` for a plug-in with identifiers `ids`. -/
def cmdLineState (ids : List Str) (enabled disabled : List Str) : Option Bool :=
  let d : Option Bool :=
    if disabled = [] then none
    else if lit "*" ∈ disabled then some false
    else if ids.any (fun i => decide (i ∈ disabled)) then some false else none
  match d with
  | some b => some b
  | none =>
    if enabled = [] then none
    else if ids.any (fun i => decide (i ∈ enabled)) then some true else none

/-- Everything the scan / fix (rule selection, configuration, plug-ins, action) reads from the
parsed arguments; the log fields (`logLevel`, `logFile`, `stackTrace`) are not part of it. -/
structure ScanInputs where
  enable : Str
  disable : Str
  addPlugin : List Str
  config : Option Str
  sets : List Str
  strict : Bool
  continueOnError : Bool
  sub : Str
  rest : List Str
  deriving Repr, DecidableEq

def Parsed.scanInputs (p : Parsed) : ScanInputs :=
  ⟨p.enable, p.disable, p.addPlugin, p.config, p.sets, p.strict, p.continueOnError, p.sub, p.rest⟩

end Verif.Model.Lines
