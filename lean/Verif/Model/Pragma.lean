/-
  Faithful model of pragma recognition and compilation
  (`PragmaExtension.look_for_pragmas`, `compile_single_pragma`, `__handle_disable_next_line`,
  `__handle_disable_num_lines(_parse)`), over `List Char`.

  Case folding is ASCII only (Python's `str.lower` agrees on ASCII; the few non-ASCII code
  points that lower-case to ASCII letters are outside every explored alphabet).
-/
namespace Verif.Model.Pragma

abbrev Str := List Char

/-- `ParserHelper.__normal_whitespace` -/
def isWs (c : Char) : Bool := c == ' ' || c == '\t'
/-- `Constants.ascii_whitespace` -/
def isAsciiWs (c : Char) : Bool :=
  c == ' ' || c == '\t' || c == '\n' || c == '\x0b' || c == '\x0c' || c == '\r'

def lower (s : Str) : Str := s.map Char.toLower
def rstrip (p : Char → Bool) (s : Str) : Str := (s.reverse.dropWhile p).reverse
def lstrip (p : Char → Bool) (s : Str) : Str := s.dropWhile p
def startsWith (s pre : Str) : Bool := pre.isPrefixOf s
def endsWith (s suf : Str) : Bool := suf.reverse.isPrefixOf s.reverse

def prefix4 : Str := "<!--".toList
def prefix5 : Str := "<!---".toList
def title : Str := "pyml ".toList
def suffix : Str := "-->".toList

/-- `look_for_pragmas` at container depth 0: `none` = not a pragma line, `some ext` = pragma
line (`ext`: the alternate `<!---` prefix, recorded under the negated line number). -/
def isPragma (l : Str) : Option Bool :=
  if startsWith l prefix4 then
    let ext := startsWith l prefix5
    let rest := lower (rstrip isAsciiWs (lstrip isWs (l.drop (if ext then 5 else 4))))
    if startsWith rest title && endsWith rest suffix then some ext else none
  else none

inductive Failure
  | noCommand | unknownCommand (c : Str) | blankId | unknownId (id : Str)
  | noCount | badCount (n : Str) | noIds
  deriving DecidableEq, Repr

/-- Result of compiling one pragma line. -/
structure Compiled where
  next     : Option (Nat × List Str)         -- (target line, ids)
  range    : Option (Nat × Nat × List Str)   -- (first, last, ids)
  failures : List Failure
  deriving Repr

/-- split on a character (Python `str.split(c)`: always at least one piece) -/
def splitOn (c : Char) : Str → List Str
  | [] => [[]]
  | x :: xs =>
    match splitOn c xs with
    | [] => [[]]   -- unreachable
    | p :: ps => if x == c then [] :: p :: ps else (x :: p) :: ps

def strip (p : Char → Bool) (s : Str) : Str := rstrip p (lstrip p s)

/-- Python `int(s)` for ASCII input: optional sign, decimal digits, single underscores
between digits; surrounding whitespace cannot occur here. `none` = ValueError. -/
def parseDigits : Str → Bool → Option Nat → Option Nat
  | [], lastUnderscore, acc => if lastUnderscore then none else acc
  | c :: cs, lastUnderscore, acc =>
    if c.isDigit then parseDigits cs false (some ((acc.getD 0) * 10 + (c.toNat - 48)))
    else if c == '_' then
      (if lastUnderscore || acc.isNone then none else parseDigits cs true acc)
    else none

def parseInt (s : Str) : Option Int :=
  match s with
  | '-' :: r => (parseDigits r false none).map fun n => - Int.ofNat n
  | '+' :: r => (parseDigits r false none).map Int.ofNat
  | r => (parseDigits r false none).map Int.ofNat

/-- The id loop shared by both commands: `allIds` maps every id / alias (lower case) to the
plug-in id. -/
def resolveIds (allIds : List (Str × Str)) : List Str → List Str × List Failure
  | [] => ([], [])
  | raw :: rest =>
    let id := lower (strip (· == ' ') raw)
    let (ids, fs) := resolveIds allIds rest
    if id.isEmpty then (ids, .blankId :: fs)
    else match allIds.lookup id with
      | some pid => (pid :: ids, fs)
      | none => (ids, .unknownId id :: fs)

/-- `line_after_prefix[after 'pyml ' and blanks : -3]` — the text between the title and the suffix. -/
def commandData (ext : Bool) (l : Str) : Str :=
  let after := l.drop (if ext then 5 else 4)
  let i1 := (after.takeWhile isWs).length
  let rest2 := (after.drop (i1 + 5)).dropWhile isWs
  rest2.take (rest2.length - 3)

/-- `__handle_disable_next_line` -/
def compileNextLine (allIds : List (Str × Str)) (n : Nat) (afterCmd : Str) : Compiled :=
  let r := resolveIds allIds (splitOn ',' afterCmd)
  ⟨if r.1.isEmpty then none else some (n + 1, r.1), none, r.2⟩

/-- `__handle_disable_num_lines` (+ `_parse`) -/
def compileNumLines (allIds : List (Str × Str)) (n : Nat) (afterCmd : Str) : Compiled :=
  let a1 := afterCmd.dropWhile isWs
  if a1.isEmpty then ⟨none, none, [.noCount]⟩
  else
    let num := a1.takeWhile (fun c => !isWs c)
    let count : Int := (parseInt num).getD (-1)
    if count < 1 then ⟨none, none, [.badCount num]⟩
    else
      let a2 := (a1.drop num.length).dropWhile isWs
      if a2.isEmpty then ⟨none, none, [.noIds]⟩
      else
        let r := resolveIds allIds (splitOn ',' a2)
        ⟨none, if r.1.isEmpty then none else some (n + 1, n + count.toNat, r.1), r.2⟩

/-- `compile_single_pragma` for the pragma text `l` found on line `n`. -/
def compile (allIds : List (Str × Str)) (n : Nat) (ext : Bool) (l : Str) : Compiled :=
  let cmdData := commandData ext l
  let command := lower (cmdData.takeWhile (fun c => !isWs c))
  let afterCmd := cmdData.drop command.length
  if command.isEmpty then ⟨none, none, [.noCommand]⟩
  else if command == "disable-next-line".toList then compileNextLine allIds n afterCmd
  else if command == "disable-num-lines".toList then compileNumLines allIds n afterCmd
  else ⟨none, none, [.unknownCommand command]⟩

/-- All pragma lines of a document with their (1-based) line numbers. -/
def pragmaLines : Nat → List Str → List (Nat × Bool × Str)
  | _, [] => []
  | n, l :: ls =>
    match isPragma l with
    | some ext => (n, ext, l) :: pragmaLines (n + 1) ls
    | none => pragmaLines (n + 1) ls

/-- The document without its pragma lines (what the block parser sees). -/
def stripPragmas (ls : List Str) : List Str := ls.filter fun l => (isPragma l).isNone

structure Table where
  next     : List (Nat × List Str)
  ranges   : List (Nat × Nat × List Str)
  failures : List (Nat × Failure)
  deriving Repr

/-- `PluginManager.compile_pragmas`: in line order.  Targets of `disable-next-line` are distinct
(line + 1 of distinct pragma lines), so the dict `document_pragmas` never overwrites an entry. -/
def compileAll (allIds : List (Str × Str)) : List (Nat × Bool × Str) → Table
  | [] => ⟨[], [], []⟩
  | (n, ext, l) :: rest =>
    let t := compileAll allIds rest
    let c := compile allIds n ext l
    ⟨(match c.next with | some e => e :: t.next | none => t.next),
     (match c.range with | some e => e :: t.ranges | none => t.ranges),
     c.failures.map (n, ·) ++ t.failures⟩

/-- Is a failure of rule `rid` (lower case) on line `line` swallowed? (`log_scan_failure`) -/
def Table.suppressed (t : Table) (line : Nat) (rid : Str) : Bool :=
  (match t.next.lookup line with
   | some ids => ids.contains rid
   | none => false)
  || t.ranges.any fun (i, j, k) => i ≤ line && line ≤ j && k.contains rid

end Verif.Model.Pragma
