/-
  Shape of the per-rule state-field table that `tools/translate/rule_fields.py` regenerates
  from the rule sources on every run, and the committed baseline it is compared with.
-/
namespace Verif.Model.RuleTable

structure Row where
  id            : String
  isRule        : Bool          -- a registered rule class (not a helper class)
  hasStart      : Bool          -- overrides starting_new_file
  written       : List String   -- self.<field>s written outside __init__/initialize_from_config/starting_new_file
  reset         : List String   -- self.<field>s written inside starting_new_file
  resetNonConst : List String   -- state fields read by a right-hand side of starting_new_file
  nonSelf       : List String   -- writes rooted at a parameter other than self; `global`
  classMut      : List String   -- class-/module-level bindings to mutable literals
  deriving Repr, DecidableEq

/-- Fields written but not re-assigned by `starting_new_file`. -/
def Row.unreset (r : Row) : List String := r.written.filter fun f => !r.reset.contains f

def unresetPairs (rows : List Row) : List (String × String) :=
  rows.flatMap fun r => r.unreset.map fun f => (r.id, f)

def isRule (r : Row) : Bool := r.isRule

/-! ### Baseline of the pinned tree (committed; reviewed by hand)

Each exception is written-before-read within one file, so it cannot carry information into the
next file; the argument is recorded next to it.  A change to any rule that adds an unreset
field, removes a reset, introduces a write through a parameter or a class-level mutable makes the
regenerated table differ from this baseline and the theorems in `Props/C12`, `Props/C13` stop
checking. -/
namespace Baseline

/-- (rule, field) pairs that are written during a file but not re-assigned in `starting_new_file`. -/
def resetExceptions : List (String × String) :=
  [ -- helper object of md018: a fresh `StartOfLineTokenParser` is constructed in starting_new_file
    ("md018/StartOfLineTokenParser", "__delayed_line"),
    ("md018/StartOfLineTokenParser", "__first_line_after_hard_break"),
    ("md018/StartOfLineTokenParser", "__inside_of_link"),
    -- assigned when a heading starts, read only while `__did_heading_end` bookkeeping (reset) is live
    ("md022", "__start_heading_blank_line_count"),
    -- fix-mode list, cleared when a block quote token is completed; only read after being assigned
    ("md027", "__delayed_bleading_fixes"),
    -- md031: read only behind `__last_token` (reset); fix bookkeeping emptied at completed_file
    ("md031", "__fix_requests"),
    ("md031", "__last_end_container_tokens"),
    ("md031", "__second_last_token"),
    ("md037", "__pending_fixes"),
    ("md044", "__replacement_items"),
    ("md046", "__token_before_start_fix_token"),
    -- helper classes in plugins/utils keep state; they are instantiated anew per file by their rule
    ("utils/container_token_manager:ContainerTokenManager", "bq_line_index"),
    ("utils/container_token_manager:ContainerTokenManager", "container_token_stack"),
    ("utils/container_token_manager:ContainerTokenManager", "last_leaf_token"),
    ("utils/container_token_manager:ContainerTokenManager", "list_adjust_map"),
    ("utils/leading_space_index_tracker:LeadingSpaceIndexTracker", "__closed_container_adjustments"),
    ("utils/leading_space_index_tracker:LeadingSpaceIndexTracker", "__container_token_stack"),
    ("utils/leading_space_index_tracker:LeadingSpaceIndexTracker", "__end_tokens"),
    ("utils/leading_space_index_tracker:LeadingSpaceIndexTracker", "__real_end_tokens"),
    ("utils/leading_space_index_tracker:LeadingSpaceIndexTracker", "__since_last_non_end_token") ]

/-- Writes through a parameter: all are appends/pops on lists the caller created locally. -/
def localWrites : List String :=
  [ "RuleMd023.__handle_text_split: call new_end_parts.append",
    "RuleMd023.__handle_text_split: call new_text_parts.append",
    "RuleMd023.__handle_text_split_end: call new_end_parts.append",
    "RuleMd031.__process_pending_container_end_adjustment: store next_container_adjustment_list[i]",
    "RuleMd031.__xxabc: call split_spaces.append",
    "RuleMd031.__xxabc: call split_spaces.pop" ]

/-- Class-level mutable bindings: all are constant lookup tables (never written). -/
def classLevel : List String :=
  [ "RuleMd003.__simple_styles", "RuleMd003.__valid_styles", "RuleMd004.__valid_styles",
    "RuleMd029.__valid_styles", "RuleMd034.__valid_uri_types", "RuleMd046.__valid_styles",
    "RuleMd048.__valid_styles" ]

end Baseline
end Verif.Model.RuleTable
