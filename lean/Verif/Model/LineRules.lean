/-
  LineRules — FAITHFUL models (code-shaped, defects included) of the scan condition and the fix of the
  rules whose logic is local to one line once the token-derived context of that line is given:
    pymarkdown/plugins/rule_md_009.py   (next_line, __next_line_check_for_error, __report_fix)
    pymarkdown/plugins/rule_md_010.py   (next_line, TabHelper.detabify_string)
    pymarkdown/plugins/rule_md_012.py   (next_token / completed_file, scan only)
    pymarkdown/plugins/rule_md_047.py   (next_line / completed_file) together with the write-out of
                                        plugin_manager.py::__next_line_fix_mode_end
  Core Lean only.  Lines are the pieces between newline characters (what `next_line` is called with:
  a document with n newline characters is delivered as n + 1 lines, the last one possibly empty).
-/
namespace Verif.Model.LineRules

abbrev Line := List Char

/-- what the rules read off the token stream for one line -/
structure LCtx where
  /-- MD009: `self.__leaf_tokens[self.__leaf_token_index].is_code_block` -/
  inCodeBlock : Bool := false
  /-- MD010: `__is_line_inside_of_fenced_code_block()` — strictly between the fences -/
  inFencedInterior : Bool := false
  /-- MD009: `indent_level` of the list token owning the current leaf token (`None` outside lists) -/
  listIndent : Option Nat := none
  /-- MD009 fix: the current leaf token is an Atx heading -/
  isAtx : Bool := false
  deriving Repr

/-- `ParserHelper.__normal_whitespace` -/
def isWs (c : Char) : Bool := c == ' ' || c == '\t'

def countWhile (p : Char → Bool) : List Char → Nat
  | c :: cs => if p c then 1 + countWhile p cs else 0
  | [] => 0

/-- length of the white space `ParserHelper.extract_spaces_from_end` extracts -/
def wsLen (l : Line) : Nat := countWhile isWs l.reverse
/-- its first component: index of the first character of the trailing white space -/
def wsIdx (l : Line) : Nat := l.length - wsLen l

/-! ## MD009 -/
structure C009 where
  /-- the configured value (`initialize_from_config` turns a value below 2 into 0: `effBr`) -/
  brSpaces : Nat := 2
  strict : Bool := false
  listItemEmptyLines : Bool := false
  deriving Repr

def effBr (c : C009) : Nat := if c.brSpaces < 2 then 0 else c.brSpaces

/-- `(is_within_list, new_list_indent)` of `__next_line_check_for_error` -/
def listPart (c : C009) (x : LCtx) (l : Line) : Bool × Option Nat :=
  if c.listItemEmptyLines && wsIdx l == 0 then
    match x.listIndent with
    | some ind => (true, if wsLen l != ind + effBr c then some (ind + effBr c) else none)
    | none => (false, none)
  else (false, none)

/-- the line makes MD009 act (report in scan mode, rewrite in fix mode) -/
def trig009 (c : C009) (x : LCtx) (l : Line) : Bool :=
  !x.inCodeBlock && l.getLast? == some ' ' &&
  ((!(listPart c x l).1 && (wsLen l != effBr c || c.strict)) || (listPart c x l).2.isSome)

/-- scan: the reported column (`first_non_whitespace_index + 1`) -/
def scan009Line (c : C009) (x : LCtx) (l : Line) : Option Nat :=
  if trig009 c x l then some (wsIdx l + 1) else none

/-- fix: `__report_fix` -/
def fix009Line (c : C009) (x : LCtx) (l : Line) : Line :=
  if trig009 c x l then
    match (listPart c x l).2 with
    | some n => List.replicate n ' '
    | none =>
      if wsLen l < effBr c || x.isAtx || c.strict then l.take (wsIdx l)
      else l.take (wsIdx l + effBr c)
  else l

/-! ## MD010 -/
structure C010 where
  codeBlocks : Bool := true
  deriving Repr

/-- `TabHelper.detabify_string`: every tab becomes the spaces up to the next multiple of 4
    (`col` = length of the text rebuilt so far; the Python code works white space section by section,
    `calculate_length` advancing `int((n + 4) / 4) * 4` per tab — the same function). -/
def detabGo : Nat → List Char → List Char
  | _, [] => []
  | col, c :: cs =>
    if c == '\t' then List.replicate (4 - col % 4) ' ' ++ detabGo (col + (4 - col % 4)) cs
    else c :: detabGo (col + 1) cs

def detab (l : Line) : Line := detabGo 0 l

/-- `do_process` -/
def trig010 (c : C010) (x : LCtx) (l : Line) : Bool :=
  l.contains '\t' && (c.codeBlocks || !x.inFencedInterior)

/-- indices of the tab characters (`line.find("\t", next_index + 1)` loop); `k` = index of the head -/
def tabIdx : List Char → Nat → List Nat
  | [], _ => []
  | c :: cs, k => if c == '\t' then k :: tabIdx cs (k + 1) else tabIdx cs (k + 1)

/-- scan: one report per tab, column = `len(detabify(line[:index])) + 1` -/
def scan010Line (c : C010) (x : LCtx) (l : Line) : List Nat :=
  if trig010 c x l then (tabIdx l 0).map (fun k => (detab (l.take k)).length + 1) else []

def fix010Line (c : C010) (x : LCtx) (l : Line) : Line :=
  if trig010 c x l then detab l else l

/-! ## MD047 (with the write-out of the last line) -/
/-- scan: `completed_file` reports (at column `len(last_line)`, the line counter minus one) iff the last
    line delivered is not empty.  Result: (line, column). -/
def scan047 (ls : List Line) : Option (Nat × Nat) :=
  match ls.getLast? with
  | some l => if l.isEmpty then none else some (ls.length, l.length)
  | none => none

/-- fix: `"\n"` is appended iff `context.last_line_fixed` does not end with a newline.  Every line but
    the last is written with its newline; for the last line `last_line_fixed` keeps the previous value
    when the line is empty and a previous line exists.  So a newline is appended iff the last line is
    not empty — or the document is EMPTY (one empty line, no previous line: `last_line_fixed = ""`). -/
def fix047 (ls : List Line) : List Line :=
  match ls with
  | [] => []
  | [[]] => [[], []]
  | _ =>
    match ls.getLast? with
    | some l => if l.isEmpty then ls else ls ++ [[]]
    | none => ls

/-! ## whole documents -/
def numberedFrom {α : Type} : Nat → List α → List (Nat × α)
  | _, [] => []
  | n, x :: xs => (n, x) :: numberedFrom (n + 1) xs

def scan009 (c : C009) (ctx : Nat → LCtx) (ls : List Line) : List (Nat × Nat) :=
  (numberedFrom 1 ls).flatMap (fun p => match scan009Line c (ctx p.1) p.2 with
    | some col => [(p.1, col)]
    | none => [])

def fix009 (c : C009) (ctx : Nat → LCtx) (ls : List Line) : List Line :=
  (numberedFrom 1 ls).map (fun p => fix009Line c (ctx p.1) p.2)

def scan010 (c : C010) (ctx : Nat → LCtx) (ls : List Line) : List (Nat × Nat) :=
  (numberedFrom 1 ls).flatMap (fun p => (scan010Line c (ctx p.1) p.2).map (fun col => (p.1, col)))

def fix010 (c : C010) (ctx : Nat → LCtx) (ls : List Line) : List Line :=
  (numberedFrom 1 ls).map (fun p => fix010Line c (ctx p.1) p.2)

/-! ## MD012 (scan) — over the token stream reduced to what the rule reads -/
inductive Tok where
  /-- a blank-line token with its line number -/
  | blank (line : Nat)
  /-- any other token -/
  | other
  deriving Repr, DecidableEq

structure St012 where
  count : Nat := 0
  last : Option Nat := none
  out : List Nat := []

/-- `__check_for_excess_blank_lines` (scan mode): report at `__last_blank_line` -/
def check012 (max : Nat) (s : St012) : St012 :=
  if s.count > max then
    match s.last with
    | some n => { s with out := s.out ++ [n] }
    | none => s
  else s

/-- `next_token` -/
def step012 (max : Nat) (s : St012) : Tok → St012
  | .blank n =>
    let s := match s.last with
      | some m => if n != m + 1 then { check012 max s with count := 0 } else s
      | none => s
    { s with last := some n, count := s.count + 1 }
  | .other =>
    let s := if s.count != 0 then check012 max s else s
    { s with count := 0 }

/-- `next_token` for every token, then `completed_file` -/
def scan012 (max : Nat) (toks : List Tok) : List Nat :=
  (check012 max (toks.foldl (step012 max) {})).out

/-- the token stream of a document whose lines are blank (`true`) or not (`false`), as MD012 reads it:
    one blank-line token per blank line, one other token per other line; `n` = number of the first line -/
def toks012 : Nat → List Bool → List Tok
  | _, [] => []
  | n, true :: fs => .blank n :: toks012 (n + 1) fs
  | n, false :: fs => .other :: toks012 (n + 1) fs

/-- the documented reading: for every maximal run of blank lines longer than `max`, its last line -/
def runs012 (max : Nat) : Nat → List Bool → List Nat
  | _, [] => []
  | n, false :: fs => runs012 max (n + 1) fs
  | n, true :: fs =>
    let k := (fs.takeWhile id).length
    (if k + 1 > max then [n + k] else []) ++ runs012 max (n + k + 1) (fs.drop k)
termination_by _ fs => fs.length
decreasing_by
  · simp
  · simp; omega

end Verif.Model.LineRules
