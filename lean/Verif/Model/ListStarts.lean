import Verif.Model.Recognisers
/-
  Faithful model of list-item start recognition with an ARBITRARY token stack (core Lean only).

  Sources (pinned tree):
    pymarkdown/list_blocks/list_block_starts_helper.py
        is_ulist_start, is_olist_start, __adjust_whitespace_for_nested_lists, __determine_child_and_parent_tokens,
        __is_start_phase_one, __is_start_phase_two, __calculate_starts_within_paragraph
        (__is_start_ulist / __is_start_olist are `Recognisers.isStartUlist` / `isStartOlist`)
    pymarkdown/list_blocks/list_block_pre_list_helper.py
        pre_list, __calculate_whitespace_values, __calculate_indents, __check_for_list_nesting, __handle_list_nesting,
        __handle_list_nesting_all_conditionals
    pymarkdown/list_blocks/list_block_can_close_helper.py
        calculate_can_remove_list, close_required_lists, __close_required_lists_calc
    collaborators modelled with them:
        LeafBlockProcessorParagraph.check_for_list_in_process, ParserState.find_last_block_quote_on_stack,
        TokenizedMarkdown.__close_open_blocks (until_this_index, include_lists = include_block_quotes = True, no pending link
        reference definition on the stack), BlockQuoteMarkdownToken.remove_last_bleading_space / add_bleading_spaces,
        MarkdownToken.column_number of the new list token (`index_number + index_indent + 1`)

  `Recognisers.isUlistStart` / `isOlistStart` are the special case "no list on the stack".  Here the stack is a list of `Entry`
  (bottom = document first, exactly Python's `parser_state.token_stack`), each entry summarised by what these functions read.
  `token_stack[-k]` is `negAt st k` and fails with `Err.index` where Python raises `IndexError` (no default value);
  `list_character[-1]` of an empty string likewise.  Every `assert` is an explicit `Err.assertion`, a `None.attr` an `Err.attribute`.
-/
namespace Verif.Model.ListStarts
open Verif.Model.Recognisers (Str charAt slice isCharAtOneOf isWsAt extractSpacesVerified calcLength lenLe isStartUlist isStartOlist SP TAB)

inductive Err where
  | index        -- IndexError
  | assertion    -- AssertionError
  | attribute    -- AttributeError ('NoneType' object has no attribute …)
  | fuel         -- the model's loop ran out of fuel (proved unreachable: `can_close_terminates`)
  deriving Repr, DecidableEq

def ofR : Recognisers.Err → Err
  | .index => .index
  | .assertion => .assertion
  | .fuel => .fuel
  | .diverges => .fuel

def liftR {α : Type} : Except Recognisers.Err α → Except Err α
  | .ok a => .ok a
  | .error e => .error (ofR e)

inductive Kind where
  | document | ulist | olist | blockQuote | paragraph | fenced | html | other
  deriving Repr, DecidableEq

/-- a stack token, by what the three helpers read of it -/
structure Entry where
  kind : Kind
  /-- `ListStackToken.indent_level` -/
  indent : Nat := 0
  /-- `ListStackToken.list_character` (`"-"`, `"12."`) -/
  listChar : Str := []
  wsBefore : Nat := 0
  wsAfter : Nat := 0
  /-- `ListStackToken.last_new_list_token.indent_level` -/
  lastNew : Option Nat := none
  /-- `matching_markdown_token.indent_level` (list tokens) -/
  mtIndent : Nat := 0
  /-- `matching_markdown_token.column_number` -/
  mtColumn : Nat := 0
  /-- `matching_markdown_token.line_number` -/
  mtLine : Nat := 0
  /-- block quote: `matching_markdown_token.bleading_spaces` -/
  lead : Str := []
  deriving Repr, DecidableEq

abbrev Stack := List Entry

def Entry.isList (e : Entry) : Bool := e.kind == .ulist || e.kind == .olist
def Entry.isOrdered (e : Entry) : Bool := e.kind == .olist
def Entry.isPara (e : Entry) : Bool := e.kind == .paragraph
def Entry.isDoc (e : Entry) : Bool := e.kind == .document
def Entry.isBq (e : Entry) : Bool := e.kind == .blockQuote

/-- `token_stack[-k]` for `k ≥ 1` -/
def negAt (st : Stack) (k : Nat) : Except Err Entry :=
  if k ≤ st.length then
    match st[st.length - k]? with
    | some e => .ok e
    | none => .error .index
  else .error .index

/-- `token_stack[i]` for `i ≥ 0` -/
def stackAt (st : Stack) (i : Nat) : Except Err Entry :=
  match st[i]? with
  | some e => .ok e
  | none => .error .index

/-- `s[-1]` -/
def lastChar (s : Str) : Except Err Char :=
  match s.getLast? with
  | some c => .ok c
  | none => .error .index

/-! ## list_block_starts_helper.py -/

/-- `__determine_child_and_parent_tokens` -/
def childParent (st : Stack) : Except Err (Option Entry × Option Entry) := do
  let top ← negAt st 1
  if top.isList then
    if st.length > 1 then
      let t2 ← negAt st 2
      if t2.isList then return (some top, some t2)
    return (some top, none)
  else if st.length > 1 then
    let t2 ← negAt st 2
    if t2.isList then
      if st.length > 2 then
        let t3 ← negAt st 3
        if t3.isList then return (some t2, some t3)
      return (some t2, none)
    else return (none, none)
  else return (none, none)

/-- `__adjust_whitespace_for_nested_lists` → `(adj_ws, parent_indent)` -/
def adjustWs (st : Stack) (adjWs : Str) (start : Nat) : Except Err (Str × Nat) := do
  let (child, parent) ← childParent st
  match child, parent with
  | some c, some p =>
    if adjWs.length > p.indent && adjWs.length < c.indent then return (adjWs.drop p.indent, p.indent)
    else return (adjWs, p.indent)
  | some c, none =>
    let indentLevel := match c.lastNew with
      | some n => n
      | none => c.indent
    return (adjWs, if start ≥ indentLevel then c.indent else 0)
  | none, _ => return (adjWs, 0)

/-- `__is_start_phase_one(parser_state, line, start_index = markerEnd, is_not_one)` → `(is_start, after_all_whitespace_index)` -/
def phaseOne (st : Stack) (line : Str) (markerEnd : Nat) (isNotOne : Bool) : Except Err (Bool × Nat) := do
  let start := markerEnd + 1
  let (afterAll, _) ← liftR (extractSpacesVerified line start)
  let atEol := afterAll == line.length
  let top ← negAt st 1
  let isInPara := top.isPara
  let isParaInList ← if isInPara then (do let t2 ← negAt st 2; pure t2.isList) else pure false
  let isBlockWithinList ←
    if top.kind == .fenced || top.kind == .html then do
      let t2 ← negAt st 2
      pure (t2.isList && decide (start > t2.mtIndent))
    else pure false
  let isParaCont := isInPara && !isParaInList && (atEol || isNotOne)
  return (!isParaCont && !isBlockWithinList && (isWsAt line start || start == line.length), afterAll)

/-- `__calculate_starts_within_paragraph` → `(is_first_item_in_list, is_sub_list)` -/
def startsWithinPara (st : Stack) (start : Nat) (isUnordered : Bool) (xx : Char) : Except Err (Bool × Bool) := do
  let t2 ← negAt st 2
  let first ←
    if !t2.isList then pure true
    else if isUnordered && t2.isOrdered then pure true
    else do
      let lc ← lastChar t2.listChar
      if xx != lc then pure true else pure (decide (start ≥ t2.indent))
  let sub := t2.isList && decide (start ≥ t2.indent)
  return (first, sub)

/-- `__is_start_phase_two` -/
def phaseTwo (st : Stack) (xx : Char) (isUnordered isNotOne : Bool) (afterAll : Nat) (line : Str) (start : Nat) :
    Except Err Bool := do
  let top ← negAt st 1
  let isInPara := top.isPara
  let atEol := afterAll == line.length
  let (first, sub) ← if isInPara then startsWithinPara st start isUnordered xx else pure (false, false)
  return !(isInPara && (atEol || isNotOne) && first && sub)

/-- the 4-tuple both `is_?list_start` return -/
structure StartRes where
  isStart : Bool
  /-- `after_all_whitespace_index` (`-1`) -/
  after : Int
  /-- `index` (`None`); for `is_ulist_start` the `start_index` it was given, which callers let be `-1` -/
  index : Option Int
  /-- `number_of_digits` (`None`) -/
  digits : Option Nat
  deriving Repr, DecidableEq

/-- `is_ulist_start` after `__adjust_whitespace_for_nested_lists` returned `(check_ws, parent_indent)` -/
def ulistCore (st : Stack) (line : Str) (start : Nat) (ews : Str) (skip : Bool) (checkWs : Str) (parentIndent : Nat) :
    Except Err StartRes := do
  let isStart ←
    if lenLe checkWs (3 + parentIndent) || skip then
      liftR (isStartUlist line start (if parentIndent ≠ 0 then ews.drop parentIndent else ews))
    else pure false
  if !isStart then return ⟨false, -1, some (start : Int), some 0⟩
  let (isStart, afterAll) ← phaseOne st line start false
  if !isStart then return ⟨false, afterAll, some (start : Int), some 0⟩
  let xx ← liftR (charAt line start)
  let isStart ← phaseTwo st xx true false afterAll line start
  return ⟨isStart, afterAll, some (start : Int), some 0⟩

/-- `is_ulist_start(parser_state, line, start_index ≥ 0, extracted_whitespace, skip_whitespace_check, adj_ws)` -/
def isUlistStartN (st : Stack) (line : Str) (start : Nat) (ews : Str) (skip : Bool) (adjWs : Option Str) :
    Except Err StartRes := do
  let a ← adjustWs st (adjWs.getD ews) start
  ulistCore st line start ews skip a.1 a.2

/-- `is_olist_start` after `__adjust_whitespace_for_nested_lists` returned `(check_ws, parent_indent)` -/
def olistCore (st : Stack) (line : Str) (start : Nat) (skip : Bool) (checkWs : Str) (parentIndent : Nat) :
    Except Err StartRes := do
  if lenLe checkWs (3 + parentIndent) || skip then
    match ← liftR (isStartOlist line start) with
    | (false, r) => return ⟨false, -1, r.map (fun x => (x.1 : Int)), r.map (·.2.1)⟩
    | (true, none) => throw .assertion               -- "If is_start, these must be valid."
    | (true, some (index, nd, isNotOne)) =>
      let (isStart, afterAll) ← phaseOne st line index isNotOne
      if !isStart then return ⟨false, afterAll, some (index : Int), some nd⟩
      let xx ← liftR (charAt line index)
      let isStart ← phaseTwo st xx false isNotOne afterAll line start
      return ⟨isStart, afterAll, some (index : Int), some nd⟩
  else return ⟨false, -1, none, none⟩

/-- `is_olist_start(…)` with `start_index ≥ 0` -/
def isOlistStartN (st : Stack) (line : Str) (start : Nat) (ews : Str) (skip : Bool) (adjWs : Option Str) :
    Except Err StartRes := do
  let a ← adjustWs st (adjWs.getD ews) start
  olistCore st line start skip a.1 a.2

/-- `is_ulist_start` for every `start_index` a caller passes.  The real callers DO pass `-1` (the early exit of
`count_block_quote_starts` inside a fenced block).  Every character test of the function is `0 <= index < len(…)`-guarded, so a
negative index reads nothing: `__adjust_whitespace_for_nested_lists` still runs (it indexes the stack), then
`__is_start_ulist` answers `False`. -/
def isUlistStart (st : Stack) (line : Str) (start : Int) (ews : Str) (skip : Bool) (adjWs : Option Str) :
    Except Err StartRes :=
  if start < 0 then do
    let _ ← adjustWs st (adjWs.getD ews) 0
    return ⟨false, -1, some start, some 0⟩
  else isUlistStartN st line start.toNat ews skip adjWs

/-- `is_olist_start` for every `start_index` (see `isUlistStart`): a negative index gives `(False, -1, None, None)`. -/
def isOlistStart (st : Stack) (line : Str) (start : Int) (ews : Str) (skip : Bool) (adjWs : Option Str) :
    Except Err StartRes :=
  if start < 0 then do
    let _ ← adjustWs st (adjWs.getD ews) 0
    return ⟨false, -1, none, none⟩
  else isOlistStartN st line start.toNat ews skip adjWs

/-! ## list_block_pre_list_helper.py -/

structure WsVals where
  afterIdx : Nat      -- after_marker_ws_index
  wsAfter : Nat       -- ws_after_marker (tab-expanded width of the whitespace after the marker)
  wsBefore : Nat      -- ws_before_marker (tab-expanded width of extracted_whitespace)
  size : Nat          -- len(line_to_parse)
  deriving Repr, DecidableEq

/-- `__calculate_whitespace_values(line, start_index = index of the last marker character, extracted_whitespace)` -/
def calcWsValues (line : Str) (markerEnd : Nat) (ews : Str) : Except Err WsVals := do
  let (afterIdx, ws) ← liftR (extractSpacesVerified line (markerEnd + 1))
  return ⟨afterIdx, calcLength ws (markerEnd + 1), calcLength ews 0, line.length⟩

structure Indents where
  indent : Int        -- indent_level
  remaining : Nat     -- remaining_whitespace
  wsAfter : Nat       -- ws_after_marker (as stored in the stack token)
  deriving Repr, DecidableEq

/-- `__calculate_indents` (`mwm1` = `marker_width_minus_one` = number of digits, 0 for a bullet) -/
def calcIndents (afterIdx size mwm1 wsAfter wsBefore : Nat) (adjWs : Str) (containerDepth : Nat) : Indents :=
  if afterIdx == size && wsAfter != 0 && containerDepth == 0 then
    ⟨2 + mwm1 + adjWs.length, wsAfter, 0⟩
  else
    let wsAfter := if afterIdx == size && wsAfter == 0 then wsAfter + 1 else wsAfter
    let indent : Int := wsBefore + 1 + wsAfter + mwm1
    if wsAfter > 4 then ⟨indent - wsAfter + 1, wsAfter - 1, 1⟩
    else ⟨indent, 0, wsAfter⟩

/-- `LeafBlockProcessorParagraph.check_for_list_in_process` → index of the last list on the stack -/
def findLastList : Stack → Option Nat
  | [] => none
  | e :: rest =>
    match findLastList rest with
    | some j => some (j + 1)
    | none => if e.isList then some 0 else none

/-- `ParserState.find_last_block_quote_on_stack`: from the top down to the first document or block quote token; the index
runs through Python's negative indices when there is neither, and ends in `IndexError`. -/
def findLastBqFrom (st : Stack) : Nat → Except Err Nat
  | 0 =>
    match st[0]? with
    | none => .error .index
    | some e => if e.isDoc || e.isBq then .ok 0 else
      -- index −1, −2, … : the same tokens again from the top; none of them stops the loop; ends at −len−1
      .error .index
  | i + 1 =>
    match st[i + 1]? with
    | none => .error .index
    | some e => if e.isDoc || e.isBq then .ok (i + 1) else findLastBqFrom st i

def findLastBq (st : Stack) : Except Err Nat :=
  if st.isEmpty then .error .index else findLastBqFrom st (st.length - 1)

/-- `__close_open_blocks(parser_state, until_this_index = u, include_lists = True, include_block_quotes = True)` on a stack
without a pending link reference definition: pops while the top is not the document and `u < len`. -/
def closeAux (u : Nat) : Nat → Stack → Except Err Stack
  | 0, st => .ok st
  | n + 1, st =>
    match st.getLast? with
    | none => .error .index
    | some top =>
      if top.isDoc then .ok st
      else if u ≥ st.length then .ok st
      else closeAux u n st.dropLast

def closeTo (st : Stack) (u : Nat) : Except Err Stack := closeAux u (st.length + 1) st

/-- `BlockQuoteMarkdownToken.remove_last_bleading_space` → `(extracted_text, new leading_spaces)` -/
def removeLastLead (lead : Str) : Str × Str :=
  match lead.reverse.findIdx? (· == '\n') with
  | none => (lead, [])
  | some k => (lead.drop (lead.length - k), lead.take (lead.length - k - 1))

/-- `add_bleading_spaces(s, skip_adding_newline = False)` -/
def addLead (lead s : Str) : Str := if lead.isEmpty then s else lead ++ '\n' :: s

def setAt (st : Stack) (i : Nat) (e : Entry) : Stack := st.set i e

structure NestRes where
  stack : Stack
  /-- `len(container_level_tokens) > 0` -/
  closedAny : Bool
  /-- block_quote_data (current_count, stack_count) -/
  cur : Nat
  stackCount : Nat
  /-- `bleading_spaces` of the block-quote tokens that were closed by the call (no longer on the stack), oldest first -/
  closedLeads : List Str
  deriving Repr, DecidableEq

/-- the `while block_quote_data.current_count < adjusted_stack_count` loop of `__handle_list_nesting`; one unit of fuel per
iteration (`adjusted` decreases, so `adjusted - cur` iterations). -/
def nestLoop (posLine cur : Nat) : Nat → Nat → Stack → Bool → List Str → Except Err (Nat × Stack × Bool × List Str)
  | 0, adjusted, st, closedAny, cl => .ok (adjusted, st, closedAny, cl)
  | fuel + 1, adjusted, st, closedAny, cl =>
    if cur < adjusted then do
      if closedAny then throw .assertion            -- "Container tokens cannot have been filled."
      let lbi ← findLastBq st
      let prev ← stackAt st lbi
      let st1 ← closeTo st lbi
      let closed := st1.length < st.length
      let top ← negAt st1 1
      let lbi2 ← findLastBq st1
      let first := top.isDoc                         -- `not last_markdown_token`
      let second := !first && posLine == top.mtLine
      let third := top.isBq
      -- `bleading_spaces` of the block-quote tokens this call closed (they leave the stack, the token objects live on)
      let gone := fun (s : Stack) => ((s.drop st1.length).filter Entry.isBq).map (·.lead)
      if lbi2 ≠ 0 && (first || second || third) then
        let curTok ← stackAt st1 lbi2
        if prev.isDoc then throw .attribute          -- `None.remove_last_bleading_space`
        let (removed, prevLead) := removeLastLead prev.lead
        -- prev is the same object as the current token when nothing was closed
        let curLead := if lbi2 == lbi && !closed then prevLead else curTok.lead
        let st2 := setAt st1 lbi2 { curTok with lead := addLead curLead removed }
        nestLoop posLine cur fuel (adjusted - 1) st2 closed (gone (setAt st lbi { prev with lead := prevLead }) ++ cl)
      else nestLoop posLine cur fuel (adjusted - 1) st1 closed (gone st ++ cl)
    else .ok (adjusted, st, closedAny, cl)

/-- `__handle_list_nesting` -/
def handleListNesting (st : Stack) (cur stackCount posLine : Nat) : Except Err NestRes := do
  let (adjusted, st', closedAny, cl) ← nestLoop posLine cur (stackCount - cur) stackCount st false []
  return ⟨st', closedAny, cur, adjusted, cl⟩

structure PreRes where
  indent : Int          -- indent_level (−1: "BAIL!")
  remaining : Nat       -- remaining_whitespace
  wsAfter : Nat         -- ws_after_marker
  afterIdx : Int        -- after_marker_ws_index (−1: "BAIL!")
  wsBefore : Nat        -- ws_before_marker
  nest : NestRes
  deriving Repr, DecidableEq

/-- `__check_for_list_nesting` -/
def checkForListNesting (st : Stack) (ind : Indents) (afterIdx : Nat) (wsBefore cur stackCount posLine : Nat) :
    Except Err PreRes := do
  let top ← negAt st 1
  let noNest : NestRes := ⟨st, false, cur, stackCount, []⟩
  if top.kind == .html || top.kind == .fenced then
    let nest ← handleListNesting st cur stackCount posLine
    if (findLastList st).isNone then return ⟨-1, ind.remaining, ind.wsAfter, -1, wsBefore, nest⟩
    else return ⟨ind.indent, ind.remaining, ind.wsAfter, afterIdx, wsBefore, nest⟩
  else if (findLastList st).isSome then
    return ⟨ind.indent, ind.remaining, ind.wsAfter, afterIdx, wsBefore, noNest⟩
  else
    let nest ← handleListNesting st cur stackCount posLine
    return ⟨ind.indent, ind.remaining, ind.wsAfter, afterIdx, wsBefore, nest⟩

/-- `pre_list(parser_state, line, start_index = index of the last marker character, extracted_whitespace,
marker_width_minus_one, block_quote_data, adj_ws, position_marker, container_depth)` -/
def preList (st : Stack) (line : Str) (markerEnd : Nat) (ews : Str) (mwm1 : Nat) (cur stackCount : Nat) (adjWs : Str)
    (posLine containerDepth : Nat) : Except Err PreRes := do
  let w ← calcWsValues line markerEnd ews
  let ind := calcIndents w.afterIdx w.size mwm1 w.wsAfter w.wsBefore adjWs containerDepth
  checkForListNesting st ind w.afterIdx w.wsBefore cur stackCount posLine

/-- `MarkdownToken.column_number` of the list token created at `position_marker` -/
def listColumn (indexNumber indexIndent : Nat) : Nat := indexNumber + indexIndent + 1

/-! ## list_block_can_close_helper.py -/

/-- `while stack_index and not token_stack[stack_index].is_list: stack_index -= 1` -/
def downToList (st : Stack) : Nat → Except Err Nat
  | 0 => .ok 0
  | i + 1 =>
    match st[i + 1]? with
    | none => .error .index
    | some e => if e.isList then .ok (i + 1) else downToList st i

/-- `calculate_can_remove_list(parser_state, current_start_index)` -/
def canRemoveList (st : Stack) (currentStart : Nat) : Except Err Bool := do
  if st.length ≤ 2 then return false
  let si ← downToList st (st.length - 1)
  if si == 0 then throw .assertion                   -- "Stack index must be positive."
  let last := si
  let lastTok ← stackAt st last
  if !lastTok.isList then throw .assertion           -- "Current block must be a list."
  let si ← downToList st (si - 1)
  if si == 0 then return false
  let t ← stackAt st si
  let prevStart := t.indent
  let prevEnd := prevStart + t.listChar.length + t.wsAfter
  let within := decide (prevStart ≤ currentStart) && decide (currentStart < prevEnd)
  let adjusted : Int := if lastTok.isOrdered then (lastTok.indent : Int) - lastTok.wsBefore else (lastTok.indent : Int) - 2
  return decide (adjusted > (t.indent : Int)) || !within

/-- `__close_required_lists_calc` → `(len(found_list_tokens), parent_indent_level)`; the list tokens at indices ≥ 1,
top first -/
def listsAboveDoc (st : Stack) : List Entry := (st.drop 1).reverse.filter Entry.isList

def closeCalc (st : Stack) : Except Err (Nat × Int) :=
  -- `token_stack_index = len - 1; while token_stack_index:` — on an empty stack the index is −1 and `token_stack[-1]` fails
  if st.isEmpty then .error .index else
  let found := listsAboveDoc st
  .ok (found.length, match found with
    | _ :: second :: _ => (second.mtIndent : Int)
    | _ => -1)

/-- the `while` loop of `close_required_lists`; returns the stack and the number of `close_open_blocks_fn` calls.
`fuel` bounds the iterations (`closeRequiredLists` supplies the stack size: `can_close_terminates`). -/
def closeLoop (matchingColumn : Nat) (allow : Bool) : Nat → Stack → Nat → Except Err (Stack × Nat)
  | 0, st, n => do
    let (listCount, parentIndent) ← closeCalc st
    if (matchingColumn : Int) ≤ parentIndent && allow && listCount > 1 then .error .fuel else .ok (st, n)
  | fuel + 1, st, n => do
    let (listCount, parentIndent) ← closeCalc st
    if (matchingColumn : Int) ≤ parentIndent && allow && listCount > 1 then
      -- `stack_index = len(token_stack) - 2`: `listCount > 1` makes it ≥ 1 (`closeCalc_len`)
      let si ← downToList st (st.length - 2)
      let st1 ← closeTo st (si + 1)
      if st1.length == st.length then throw .assertion   -- "At least one token must have been returned."
      let top ← negAt st1 1
      if !top.isList then throw .assertion               -- "Current block must be a list."
      closeLoop matchingColumn allow fuel st1 (n + 1)
    else .ok (st, n)

/-- `close_required_lists(parser_state, allow_list_removal, balancing_tokens, new_stack)`;
`matchingColumn = new_stack.matching_markdown_token.column_number` (`none`: no matching token → assertion). -/
def closeRequiredLists (st : Stack) (allow : Bool) (matchingColumn : Option Nat) : Except Err (Stack × Nat) :=
  match matchingColumn with
  | none => .error .assertion                          -- "New stack token must have a matching markdown token."
  | some c => closeLoop c allow st.length st 0

end Verif.Model.ListStarts
